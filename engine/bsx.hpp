// bsx.hpp — bounded exhaustive explorer used by every harness in /verif.
//
//  * choose(n)/deviate(n) decision points; stateless DFS by prefix replay (odometer);
//  * iterative deviation bounding (budget 0,1,..,B);
//  * forked worker processes; the choice vector of the execution being run is published in
//    shared memory, so a crash / std::terminate / sanitizer abort / hang becomes an outcome
//    record for exactly that execution and the worker is restarted after it;
//  * per-execution buffering of observations, committed only when the execution is owned
//    by the worker (partition by hash of the first `part_depth` choices);
//  * replay mode: --replay <file> runs one choice vector in-process.
//
// Harness contract: `body(Ctx&)` must be a deterministic function of the choices it takes.
// The first `part_depth` choices must be taken outside library code (SkipSubtree is thrown
// from choose()).
#pragma once
#include <algorithm>
#include <atomic>
#include <chrono>
#include <csignal>
#include <cstdarg>
#include <cstdint>
#include <cstdio>
#include <cstdlib>
#include <cstring>
#include <exception>
#include <functional>
#include <map>
#include <set>
#include <string>
#include <typeinfo>
#include <unordered_map>
#include <unordered_set>
#include <vector>
#include <fcntl.h>
#include <sys/mman.h>
#include <sys/stat.h>
#include <sys/wait.h>
#include <unistd.h>
#include <cxxabi.h>

namespace bsx {

inline uint64_t fnv(const void* p, size_t n, uint64_t h = 1469598103934665603ull) {
	const unsigned char* b = static_cast<const unsigned char*>(p);
	for (size_t i = 0; i < n; ++i) { h ^= b[i]; h *= 1099511628211ull; }
	return h;
}
inline uint64_t fnv(const std::string& s, uint64_t h = 1469598103934665603ull) { return fnv(s.data(), s.size(), h); }
inline uint64_t mix(uint64_t x) { x ^= x >> 33; x *= 0xff51afd7ed558ccdull; x ^= x >> 33; x *= 0xc4ceb9fe1a85ec53ull; x ^= x >> 33; return x; }

inline std::string hex(const std::string& s) {
	static const char* d = "0123456789abcdef"; std::string r; r.reserve(s.size() * 2);
	for (unsigned char c : s) { r.push_back(d[c >> 4]); r.push_back(d[c & 15]); }
	return r;
}
inline std::string hex(const void* p, size_t n) { return hex(std::string(static_cast<const char*>(p), n)); }
inline std::string unhex(const std::string& h) {
	std::string r; auto v = [](char c) { return c <= '9' ? c - '0' : (c | 32) - 'a' + 10; };
	for (size_t i = 0; i + 1 < h.size(); i += 2) r.push_back(static_cast<char>(v(h[i]) * 16 + v(h[i + 1])));
	return r;
}
inline std::string jesc(const std::string& s) {
	std::string r; r.reserve(s.size() + 8);
	for (unsigned char c : s) {
		switch (c) {
		case '"': r += "\\\""; break; case '\\': r += "\\\\"; break;
		case '\n': r += "\\n"; break; case '\r': r += "\\r"; break; case '\t': r += "\\t"; break;
		default:
			if (c < 0x20 || c >= 0x7f) { char b[8]; snprintf(b, sizeof b, "\\u%04x", c); r += b; }
			else r.push_back(static_cast<char>(c));
		}
	}
	return r;
}
inline std::string fmt(const char* f, ...) {
	char buf[2048]; va_list ap; va_start(ap, f); vsnprintf(buf, sizeof buf, f, ap); va_end(ap); return buf;
}
inline std::string demangle(const char* n) {
	int st = 0; char* d = abi::__cxa_demangle(n, nullptr, nullptr, &st);
	std::string r = (st == 0 && d) ? d : n; free(d); return r;
}

struct SkipSubtree {};
struct DeadlineHit {};

constexpr int MAXD = 96;
constexpr int MAXW = 64;

struct Slot {                        // one per worker, in shared memory
	volatile uint64_t heartbeat;
	volatile uint64_t executions, choice_points, transitions, skipped_subtrees;
	volatile int maxdepth;
	volatile int budget;             // deviation budget of the running pass
	volatile int depth;              // number of choices taken so far in the running execution
	volatile int c[MAXD], n[MAXD];
	volatile int done;               // worker finished its enumeration for the pass
	volatile int deadline_hit;
	volatile uint64_t risk;          // key of the risky section being executed (0 = none)
	char sig[256];
	char desc[512];
};

struct Config {
	int part_depth = 2;
	int max_dev = 0;                 // deviation budgets 0..max_dev are explored iteratively
	double hang_s = 10;              // heartbeat silence before an execution is called a hang (x4 grace)
	double deadline_s = 600;
	int jobs = 16;
	bool nofork = false;
};

class Ctx {
public:
	std::string tier = "quick";
	uint64_t seed = 0;
	int budget = 0;                  // current deviation budget
	bool replaying = false;

	int choose(int n, const char* label = nullptr) { return pick(n, false, label); }
	int deviate(int n, const char* label = nullptr) { return pick(n, true, label); }
	bool flag(const char* label = nullptr) { return choose(2, label) == 1; }
	int deviations_used() const { return mDevUsed; }

	// sigbase: signature prefix built from named alphabet symbols only (used for crash/hang
	// outcomes of this execution); d: human-readable description of the case.
	void describe(const std::string& sigbase, const std::string& d) {
		mSigBase = sigbase; mDesc = d;
		if (mSlot) {
			strncpy(mSlot->sig, sigbase.c_str(), sizeof(mSlot->sig) - 1); mSlot->sig[sizeof(mSlot->sig) - 1] = 0;
			strncpy(mSlot->desc, d.c_str(), sizeof(mSlot->desc) - 1); mSlot->desc[sizeof(mSlot->desc) - 1] = 0;
		}
	}
	const std::string& sigbase() const { return mSigBase; }
	void heartbeat() { if (mSlot) mSlot->heartbeat = mSlot->heartbeat + 1; }
	// Crash memo: enter(key) returns false if a section with the same key killed a worker earlier in
	// this run (the crash was recorded as a violation then); otherwise marks the section as running.
	bool enter(uint64_t key) {
		if (key == 0) key = 1;
		if (mCrashed) { for (size_t i = 0, h = static_cast<size_t>(mix(key)) & (kCrashTab - 1); i < 64; ++i, h = (h + 1) & (kCrashTab - 1)) { uint64_t v = mCrashed[h]; if (v == key) return false; if (v == 0) break; } }
		if (mSlot) mSlot->risk = key;
		return true;
	}
	void leave() { if (mSlot) mSlot->risk = 0; }
	// Runs f in a forked child so that a fatal outcome (std::terminate, sanitizer abort, signal, stack
	// overflow, hang) costs a fork instead of a worker restart. Returns "ok:" + f()'s string, or the fatal
	// kind ("terminate", "asan", "ubsan", "signal11", "hang", "exit<N>"). Use for cases that are likely fatal.
	// A timeout is confirmed before it is reported: the same closure is run once more with a limit 8x longer
	// (at least 30 s), so a child that was merely starved of CPU on a loaded machine is not called a hang.
	std::string isolate(const std::function<std::string()>& f, double timeout_s = 5.0) {
		if (getenv("BSX_ISOLATE_INLINE")) return "ok:" + f();   // debugging aid: run in-process
		std::string r = isolateOnce(f, timeout_s);
		if (r == "hang") r = isolateOnce(f, std::max(timeout_s * 8, 30.0));
		return r;
	}
	std::string isolateOnce(const std::function<std::string()>& f, double timeout_s) {
		int fd[2]; if (pipe(fd) != 0) return "exit:pipe";
		fflush(nullptr);
		pid_t p = fork();
		if (p == 0) {
			close(fd[0]);
			std::string r = f();
			(void)!write(fd[1], r.data(), std::min<size_t>(r.size(), 60000));
			_exit(0);
		}
		close(fd[1]);
		std::string out; char buf[4096];
		const auto t0 = std::chrono::steady_clock::now(); bool hang = false;
		fcntl(fd[0], F_SETFL, O_NONBLOCK);
		for (;;) {
			ssize_t k = read(fd[0], buf, sizeof buf);
			if (k > 0) { out.append(buf, static_cast<size_t>(k)); continue; }
			if (k == 0) break;
			int st0 = 0; if (waitpid(p, &st0, WNOHANG) == p) { while ((k = read(fd[0], buf, sizeof buf)) > 0) out.append(buf, static_cast<size_t>(k)); close(fd[0]); return classify(st0, out); }
			if (std::chrono::duration<double>(std::chrono::steady_clock::now() - t0).count() > timeout_s) { hang = true; break; }
			heartbeat(); usleep(200);
		}
		close(fd[0]);
		int st = 0;
		if (hang) { kill(p, SIGKILL); waitpid(p, &st, 0); return "hang"; }
		waitpid(p, &st, 0);
		return classify(st, out);
	}
	// Runs f(*this) in a forked child and adopts everything the child did with this Ctx: the choices it
	// took (streamed through a pipe as they are made, so they survive a crash of the child), outcomes,
	// states, violations... Needed when every execution must start from pristine process state (lazily
	// initialised statics). Returns "ok" or the fatal kind of the child.
	std::string isolateExec(const std::function<void(Ctx&)>& f, double timeout_s = 20.0) {
		std::string out; int st = 0;
		bool hang = isolateExecCollect(f, timeout_s, out, st);
		if (hang) { out.clear(); hang = isolateExecCollect(f, std::max(timeout_s * 8, 60.0), out, st); }   // confirm a timeout alone, with a longer limit
		return isolateExecAdopt(out, st, hang);
	}
	bool isolateExecCollect(const std::function<void(Ctx&)>& f, double timeout_s, std::string& out, int& st) {
		int fd[2]; if (pipe(fd) != 0) { st = 0x7f00; return false; }
		fflush(nullptr);
		pid_t p = fork();
		if (p == 0) {
			close(fd[0]); mStreamFd = fd[1]; mPrefixLenAtFork = mTaken.size();
			// only what the child itself observes is sent back
			mOutcomes.clear(); mNontrivial.clear(); mStates.clear(); mAux.clear(); mSamples.clear(); mViol.clear(); mTrans = 0; mExtraEvals = 0;
			f(*this);
			std::string o;
			auto put = [&](char k, const std::string& a, const std::string& b = std::string()) { o += k; o += std::to_string(a.size()) + ":" + a + std::to_string(b.size()) + ":" + b + "\n"; };
			for (auto& x : mOutcomes) put('O', x);
			for (auto h : mNontrivial) put('N', std::to_string(h));
			for (auto h : mStates) put('S', std::to_string(h));
			for (auto h : mAux) put('A', std::to_string(h));
			for (auto& x : mSamples) put('P', x);
			for (auto& v : mViol) put('V', v.first, v.second);
			put('T', std::to_string(mTrans)); put('E', std::to_string(mExtraEvals)); put('D', mSigBase, mDesc);
			(void)!write(fd[1], o.data(), o.size());
			_exit(0);
		}
		close(fd[1]);
		char buf[8192];
		const auto t0 = std::chrono::steady_clock::now(); bool hang = false; bool reaped = false;
		fcntl(fd[0], F_SETFL, O_NONBLOCK);
		for (;;) {
			ssize_t k = read(fd[0], buf, sizeof buf);
			if (k > 0) { out.append(buf, static_cast<size_t>(k)); continue; }
			if (k == 0) break;
			if (waitpid(p, &st, WNOHANG) == p) { reaped = true; while ((k = read(fd[0], buf, sizeof buf)) > 0) out.append(buf, static_cast<size_t>(k)); break; }
			if (std::chrono::duration<double>(std::chrono::steady_clock::now() - t0).count() > timeout_s) { hang = true; break; }
			heartbeat(); usleep(100);
		}
		close(fd[0]);
		if (hang) { kill(p, SIGKILL); waitpid(p, &st, 0); } else if (!reaped) waitpid(p, &st, 0);
		return hang;
	}
	std::string isolateExecAdopt(const std::string& out, int st, bool hang) {
		// adopt: choice records "c<v>,<eff>,<dev>;" first, then observation records
		size_t i = 0;
		while (i < out.size() && out[i] == 'c') {
			size_t e = out.find(';', i); if (e == std::string::npos) break;
			int v = 0, eff = 1, dev = 0; sscanf(out.c_str() + i + 1, "%d,%d,%d", &v, &eff, &dev);
			size_t idx = mTaken.size();
			mTaken.push_back(v); mArity.push_back(eff); mIsDev.push_back(static_cast<char>(dev)); if (dev && v > 0) ++mDevUsed;
			if (mSlot && idx < static_cast<size_t>(MAXD)) { mSlot->c[idx] = v; mSlot->n[idx] = eff; mSlot->depth = static_cast<int>(idx + 1); }
			i = e + 1;
		}
		while (i < out.size()) {
			char k = out[i++]; size_t c1 = out.find(':', i); if (c1 == std::string::npos) break;
			size_t la = strtoul(out.c_str() + i, nullptr, 10); std::string a = out.substr(c1 + 1, la); i = c1 + 1 + la;
			size_t c2 = out.find(':', i); if (c2 == std::string::npos) break;
			size_t lb = strtoul(out.c_str() + i, nullptr, 10); std::string b = out.substr(c2 + 1, lb); i = c2 + 1 + lb + 1;
			switch (k) {
			case 'O': mOutcomes.push_back(a); break; case 'N': mNontrivial.push_back(strtoull(a.c_str(), nullptr, 10)); break;
			case 'S': mStates.push_back(strtoull(a.c_str(), nullptr, 10)); break; case 'A': mAux.push_back(strtoull(a.c_str(), nullptr, 10)); break;
			case 'P': if (mSamples.size() < 2) mSamples.push_back(a); break; case 'V': mViol.emplace_back(a, b); break;
			case 'T': mTrans += strtoull(a.c_str(), nullptr, 10); break; case 'E': mExtraEvals += strtoull(a.c_str(), nullptr, 10); break;
			case 'D': if (!a.empty()) describe(a, b); break;
			}
		}
		if (hang) return "hang";
		std::string r = classify(st, ""); return r == "ok:" ? "ok" : r;
	}
	static std::string classify(int st, const std::string& out) {
		if (WIFEXITED(st) && WEXITSTATUS(st) == 0) return "ok:" + out;
		if (WIFSIGNALED(st)) return "signal" + std::to_string(WTERMSIG(st));
		int e = WEXITSTATUS(st);
		return e == 86 ? "terminate" : e == 87 ? "asan" : e == 88 ? "ubsan" : "exit" + std::to_string(e);
	}
	static constexpr size_t kCrashTab = 1 << 16;
	void outcome(const std::string& cls) { mOutcomes.push_back(cls); }
	void nontrivial(const std::string& key) { mNontrivial.push_back(fnv(key)); }
	void nontrivial(uint64_t key) { mNontrivial.push_back(key); }
	void state(uint64_t h) { mStates.push_back(h); }
	void state(const std::string& canon) { mStates.push_back(fnv(canon)); }
	void aux(uint64_t h) { mAux.push_back(h); }     // a second distinct-set (harness-defined meaning, reported as `aux`)
	void transition(uint64_t n = 1) { mTrans += n; }
	void evals(uint64_t n) { mExtraEvals += n; }   // a block execution covering n inner cases
	void sample(const std::string& s) { if (mSamples.size() < 2) mSamples.push_back(s); }
	void violation(const std::string& sig, const std::string& detail) { mViol.emplace_back(sig, detail); }
	const std::string& desc() const { return mDesc; }
	const std::vector<int>& choices() const { return mTaken; }

private:
	friend class Engine;
	int pick(int n, bool dev, const char* label) {
		if (n < 1) { fprintf(stderr, "bsx: choose(%d) at %s\n", n, label ? label : "?"); abort(); }
		size_t i = mTaken.size();
		if (i >= MAXD) { fprintf(stderr, "bsx: too many choice points (%s)\n", label ? label : "?"); abort(); }
		int eff = n;
		if (dev && mDevUsed >= budget) eff = 1;
		int v = 0;
		if (i < mPrefix.size()) {
			v = mPrefix[i];
			if (v >= eff) {
				fprintf(stderr, "bsx: NONDETERMINISM: replayed choice %d out of range %d at point %zu (%s)\n", v, eff, i, label ? label : "?");
				abort();
			}
		}
		if (dev && v > 0) ++mDevUsed;
		mTaken.push_back(v); mArity.push_back(eff); mIsDev.push_back(dev);
		if (mStreamFd >= 0 && i >= mPrefixLenAtFork) { char cb[48]; int n2 = snprintf(cb, sizeof cb, "c%d,%d,%d;", v, eff, dev ? 1 : 0); (void)!write(mStreamFd, cb, static_cast<size_t>(n2)); }
		if (mSlot) { mSlot->c[i] = v; mSlot->n[i] = eff; mSlot->depth = static_cast<int>(i + 1); }
		if (!replaying && mPartDepth > 0 && static_cast<int>(i + 1) == mPartDepth && !owned()) throw SkipSubtree{};
		return v;
	}
	bool owned() const {
		if (mWorkers <= 1) return true;
		uint64_t h = 88172645463325252ull ^ mSalt;
		size_t k = std::min<size_t>(mTaken.size(), static_cast<size_t>(mPartDepth));
		for (size_t i = 0; i < k; ++i) h = mix(h ^ (static_cast<uint64_t>(mTaken[i]) + 0x9e3779b97f4a7c15ull * (i + 1)));
		return static_cast<int>(h % static_cast<uint64_t>(mWorkers)) == mWorker;
	}
	void reset(const std::vector<int>& prefix) {
		mPrefix = prefix; mTaken.clear(); mArity.clear(); mIsDev.clear(); mDevUsed = 0;
		mOutcomes.clear(); mNontrivial.clear(); mStates.clear(); mAux.clear(); mTrans = 0; mExtraEvals = 0; mSamples.clear(); mViol.clear(); mDesc.clear(); mSigBase.clear();
		if (mSlot) { mSlot->depth = 0; mSlot->desc[0] = 0; mSlot->sig[0] = 0; mSlot->risk = 0; }
	}
	std::vector<int> mPrefix, mTaken, mArity; std::vector<char> mIsDev;
	int mDevUsed = 0, mPartDepth = 2, mWorkers = 1, mWorker = 0; uint64_t mSalt = 0;
	Slot* mSlot = nullptr; volatile uint64_t* mCrashed = nullptr; int mStreamFd = -1; size_t mPrefixLenAtFork = 0;
	std::vector<std::string> mOutcomes, mSamples; std::vector<uint64_t> mNontrivial, mStates, mAux;
	uint64_t mTrans = 0, mExtraEvals = 0;
	std::vector<std::pair<std::string, std::string>> mViol;
	std::string mDesc, mSigBase;
};

// ------------------------------------------------------------------------------------------
class Engine {
public:
	using Body = std::function<void(Ctx&)>;
	Engine(const char* prop, Body body, Config cfg) : mProp(prop), mBody(std::move(body)), mCfg(cfg) {}

	int main(int argc, char** argv) {
		std::string out, replay; std::string tier = "quick"; uint64_t seed = 0;
		for (int i = 1; i < argc; ++i) {
			std::string a = argv[i];
			auto next = [&]() { return std::string(i + 1 < argc ? argv[++i] : ""); };
			if (a == "--tier") tier = next();
			else if (a == "--out") out = next();
			else if (a == "--replay") replay = next();
			else if (a == "--jobs") mCfg.jobs = atoi(next().c_str());
			else if (a == "--seed") seed = strtoull(next().c_str(), nullptr, 10);
			else if (a == "--deadline") mCfg.deadline_s = atof(next().c_str());
			else if (a == "--max-dev") mCfg.max_dev = atoi(next().c_str());
			else if (a == "--nofork") mCfg.nofork = true;
		}
		mTier = tier; mSeed = seed;
		if (mTierSetup) mTierSetup(tier, mCfg);
		if (!replay.empty()) return doReplay(replay);
		if (out.empty()) out = "/dev/stdout";
		return explore(out);
	}
	// optional: adjust Config (max_dev, deadline...) per tier before exploring
	std::function<void(const std::string&, Config&)> mTierSetup;

private:
	const char* mProp; Body mBody; Config mCfg; std::string mTier; uint64_t mSeed = 0;
	Slot* mSlots = nullptr; std::string mDir; volatile uint64_t* mCrashTab = nullptr;
	double now() const { return std::chrono::duration<double>(std::chrono::steady_clock::now().time_since_epoch()).count(); }

	static void terminateHandler() {
		const char* tn = "none";
		std::string msg;
		if (auto ep = std::current_exception()) {
			try { std::rethrow_exception(ep); }
			catch (const std::exception& e) { tn = typeid(e).name(); msg = e.what(); }
			catch (...) { tn = "unknown"; }
		}
		fprintf(stderr, "BSX-TERMINATE active_exception=%s what=%s\n", demangle(tn).c_str(), msg.c_str());
		fflush(stderr);
		_exit(86);
	}

	struct WorkerFiles { FILE* rec = nullptr; FILE* keys = nullptr; };

	// Runs one execution; returns false if the subtree was skipped.
	bool runOne(Ctx& c, const std::vector<int>& prefix) {
		c.reset(prefix);
		try { mBody(c); }
		catch (const SkipSubtree&) { return false; }
		return true;
	}

	static bool advance(std::vector<int>& v, const std::vector<int>& taken, const std::vector<int>& arity, size_t limitDepth) {
		// next vector in DFS order after the execution (taken, arity); limitDepth: truncate first
		size_t k = std::min(limitDepth, taken.size());
		while (k > 0) {
			if (taken[k - 1] + 1 < arity[k - 1]) { v.assign(taken.begin(), taken.begin() + static_cast<long>(k)); v[k - 1]++; return true; }
			--k;
		}
		return false;
	}

	void workerLoop(int w, int nw, int budget, std::vector<int> start, bool startIsResume) {
		std::set_terminate(terminateHandler);
		Slot* slot = &mSlots[w];
		Ctx c; c.tier = mTier; c.seed = mSeed; c.budget = budget; c.mSlot = slot; c.mCrashed = mCrashTab; c.mPartDepth = mCfg.part_depth; c.mWorkers = nw; c.mWorker = w; c.mSalt = mix(mSeed + 1);
		slot->budget = budget;
		std::string recName = mDir + "/rec." + std::to_string(w) + ".jsonl", keyName = mDir + "/keys." + std::to_string(w) + ".bin";
		int recFd = open(recName.c_str(), O_WRONLY | O_CREAT | O_APPEND, 0644);
		FILE* keys = fopen(keyName.c_str(), "ab");
		static char keyBuf[9 * 512]; setvbuf(keys, keyBuf, _IOFBF, sizeof keyBuf);   // record-aligned flushes: a crash never leaves a partial record
		std::unordered_set<uint64_t> seenOut, seenNt, seenSt, seenAx; std::unordered_map<std::string, int> sigCount; int samples = 0;
		auto putKey = [&](char kind, uint64_t h) { fputc(kind, keys); fwrite(&h, 8, 1, keys); };
		std::vector<int> prefix = start;
		const double t0 = mT0;
		if (startIsResume) {
			// `start` holds (taken) of the crashed execution and mResumeArity its arities
			std::vector<int> nxt;
			if (!advance(nxt, start, mResumeArity, start.size())) { slot->done = 1; fclose(keys); close(recFd); return; }
			prefix = nxt;
		}
		for (;;) {
			if (now() - t0 > mCfg.deadline_s) { slot->deadline_hit = 1; break; }
			slot->heartbeat = slot->heartbeat + 1;
			bool ran = runOne(c, prefix);
			size_t lim = c.mTaken.size();
			if (!ran) { slot->skipped_subtrees = slot->skipped_subtrees + 1; lim = static_cast<size_t>(mCfg.part_depth); }
			else if (c.owned() && (budget == 0 || c.mDevUsed == budget)) {
				// commit
				slot->executions = slot->executions + 1 + c.mExtraEvals;
				slot->choice_points = slot->choice_points + c.mTaken.size();
				slot->transitions = slot->transitions + c.mTrans;
				if (static_cast<int>(c.mTaken.size()) > slot->maxdepth) slot->maxdepth = static_cast<int>(c.mTaken.size());
				for (auto& o : c.mOutcomes) { uint64_t h = fnv(o); if (seenOut.insert(h).second) { putKey('O', h); std::string line = "{\"t\":\"outcome\",\"v\":\"" + jesc(o) + "\"}\n"; (void)!write(recFd, line.data(), line.size()); } }
				for (auto h : c.mNontrivial) if (seenNt.insert(h).second) putKey('N', h);
				for (auto h : c.mStates) if (seenSt.insert(h).second) putKey('S', h);
				for (auto h : c.mAux) if (seenAx.insert(h).second) putKey('A', h);
				if (samples < 3) for (auto& s : c.mSamples) { ++samples; std::string line = "{\"t\":\"sample\",\"v\":\"" + jesc(s) + "\"}\n"; (void)!write(recFd, line.data(), line.size()); }
				for (auto& v : c.mViol) {
					int& cnt = sigCount[v.first];
					if (++cnt <= 3) {
						std::string line = "{\"t\":\"viol\",\"sig\":\"" + jesc(v.first) + "\",\"detail\":\"" + jesc(v.second) + "\",\"desc\":\"" + jesc(c.mDesc) + "\",\"budget\":" + std::to_string(budget) + ",\"choices\":[";
						for (size_t i = 0; i < c.mTaken.size(); ++i) { if (i) line += ","; line += std::to_string(c.mTaken[i]); }
						line += "]}\n"; (void)!write(recFd, line.data(), line.size());
					} else {
						std::string line = "{\"t\":\"violcount\",\"sig\":\"" + jesc(v.first) + "\"}\n"; (void)!write(recFd, line.data(), line.size());
					}
				}
			}
			std::vector<int> nxt;
			if (!advance(nxt, c.mTaken, c.mArity, lim)) { slot->done = 1; break; }
			prefix.swap(nxt);
		}
		fclose(keys); close(recFd);
	}
	// With iterative bounding, pass b re-explores executions with < b deviations; they were
	// already committed in an earlier pass, so only executions using exactly b are committed.

	std::vector<int> mResumeArity; double mT0 = 0; uint64_t spuriousStalls = 0;

	// Runs the execution `choices` alone in a forked child (stderr to the worker's log); true if it ended
	// within limit_s (st = its wait status), false if it had to be killed.
	bool replayAlone(int w, int budget, const std::vector<int>& choices, double limit_s, int& st) {
		fflush(nullptr);
		pid_t p = fork();
		if (p == 0) {
			std::string errName = mDir + "/err." + std::to_string(w) + ".log";
			int fd = open(errName.c_str(), O_WRONLY | O_CREAT | O_TRUNC, 0644);
			if (fd >= 0) { dup2(fd, 2); close(fd); }
			int nul = open("/dev/null", O_WRONLY); if (nul >= 0) { dup2(nul, 1); close(nul); }
			std::set_terminate(terminateHandler);
			Ctx c; c.tier = mTier; c.seed = mSeed; c.budget = budget; c.mSlot = nullptr; c.mCrashed = mCrashTab; c.mPartDepth = mCfg.part_depth; c.mWorkers = 1; c.mWorker = 0; c.mSalt = mix(mSeed + 1);
			runOne(c, choices);
			fflush(nullptr); _exit(0);
		}
		const double t0 = now();
		for (;;) {
			if (waitpid(p, &st, WNOHANG) == p) return true;
			if (now() - t0 > limit_s) { kill(p, SIGKILL); waitpid(p, &st, 0); return false; }
			usleep(5000);
		}
	}

	int explore(const std::string& out) {
		mT0 = now();
		char tmpl[] = "/verif/build/run.XXXXXX";
		mkdir("/verif/build", 0755);
		if (!mkdtemp(tmpl)) { perror("mkdtemp"); return 2; }
		mDir = tmpl;
		int nw = std::max(1, std::min(mCfg.jobs, MAXW));
		mSlots = static_cast<Slot*>(mmap(nullptr, sizeof(Slot) * MAXW, PROT_READ | PROT_WRITE, MAP_SHARED | MAP_ANONYMOUS, -1, 0));
		mCrashTab = static_cast<volatile uint64_t*>(mmap(nullptr, sizeof(uint64_t) * Ctx::kCrashTab, PROT_READ | PROT_WRITE, MAP_SHARED | MAP_ANONYMOUS, -1, 0));
		struct Crash { std::string kind, sig, desc, log; std::vector<int> choices; int budget; };
		std::vector<Crash> crashes; bool deadlineHit = false; int completedBudget = -1;
		uint64_t totExec = 0, totCp = 0, totTrans = 0; int maxDepth = 0; uint64_t restarts = 0; bool restartCapHit = false;
		for (int budget = 0; budget <= mCfg.max_dev && !deadlineHit; ++budget) {
			memset(mSlots, 0, sizeof(Slot) * MAXW);
			std::vector<pid_t> pid(nw, 0); std::vector<uint64_t> lastBeat(nw, 0); std::vector<double> lastChange(nw, now()); std::vector<int> stallRetries(nw, 0);
			auto spawn = [&](int w, std::vector<int> start, bool resume) {
				fflush(nullptr);
				pid_t p = fork();
				if (p == 0) {
					std::string errName = mDir + "/err." + std::to_string(w) + ".log";
					int fd = open(errName.c_str(), O_WRONLY | O_CREAT | O_TRUNC, 0644);
					if (fd >= 0) { dup2(fd, 2); close(fd); }
					int nul = open("/dev/null", O_WRONLY); if (nul >= 0) { dup2(nul, 1); close(nul); }
					workerLoop(w, nw, budget, std::move(start), resume);
					fflush(nullptr); _exit(0);
				}
				pid[w] = p; lastChange[w] = now(); lastBeat[w] = mSlots[w].heartbeat;
			};
			for (int w = 0; w < nw; ++w) spawn(w, {}, false);
			int live = nw;
			while (live > 0) {
				usleep(20000);
				for (int w = 0; w < nw; ++w) {
					if (!pid[w]) continue;
					int st = 0; pid_t r = waitpid(pid[w], &st, WNOHANG);
					bool hang = false;
					if (r == 0) {
						uint64_t hb = mSlots[w].heartbeat;
						if (hb != lastBeat[w]) { lastBeat[w] = hb; lastChange[w] = now(); continue; }
						if (now() - lastChange[w] < mCfg.hang_s * 4) continue;
						kill(pid[w], SIGKILL); waitpid(pid[w], &st, 0); hang = true;
						// Confirm before reporting: replay the silent execution alone in a fresh process with a
						// limit 10x longer (at least 60 s). If it completes, the worker was starved (loaded
						// machine), not hung: it is restarted at this execution and nothing is recorded.
						int d0 = mSlots[w].depth; std::vector<int> ch(mSlots[w].c, mSlots[w].c + d0);
						if (d0 > 0 && stallRetries[w] < 25) {
							int cst = 0; bool again = !replayAlone(w, budget, ch, std::max(60.0, mCfg.hang_s * 40), cst);
							if (!again && WIFEXITED(cst) && WEXITSTATUS(cst) == 0) {
								++stallRetries[w]; ++spuriousStalls;
								mSlots[w].done = 0; spawn(w, ch, false); continue;
							}
							if (!again) { hang = false; st = cst; }   // it crashed instead: classify that
						}
					}
					pid[w] = 0; --live;
					if (!hang && WIFEXITED(st) && WEXITSTATUS(st) == 0 && (mSlots[w].done || mSlots[w].deadline_hit)) continue;
					if (!hang && WIFEXITED(st) && WEXITSTATUS(st) == 0) { /* exit(0) called by library code?! */ }
					// crash / hang: record and restart after the crashed execution
					Crash cr; cr.budget = budget;
					if (hang) cr.kind = "hang";
					else if (WIFSIGNALED(st)) cr.kind = "signal" + std::to_string(WTERMSIG(st));
					else if (WEXITSTATUS(st) == 86) cr.kind = "terminate";
					else if (WEXITSTATUS(st) == 87) cr.kind = "asan";
					else if (WEXITSTATUS(st) == 88) cr.kind = "ubsan";
					else cr.kind = "exit" + std::to_string(WEXITSTATUS(st));
					int d = mSlots[w].depth; cr.choices.assign(mSlots[w].c, mSlots[w].c + d);
					std::vector<int> ar(mSlots[w].n, mSlots[w].n + d);
					cr.desc = mSlots[w].desc; cr.sig = mSlots[w].sig;
					cr.log = headTailOf(mDir + "/err." + std::to_string(w) + ".log", 900);
					if (cr.kind == "ubsan" || cr.kind == "asan") cr.kind += sanitizerClass(cr.log);
					if (cr.kind == "terminate") { size_t q = cr.log.find("active_exception="); if (q != std::string::npos) { size_t e2 = cr.log.find(' ', q); cr.kind += ":" + cr.log.substr(q + 17, e2 - q - 17); } }
					if (cr.kind == "signal6" && cr.log.find("NONDETERMINISM") != std::string::npos) cr.kind = "nondeterminism";
					if (uint64_t rk = mSlots[w].risk) { for (size_t i = 0, h = static_cast<size_t>(mix(rk)) & (Ctx::kCrashTab - 1); i < 64; ++i, h = (h + 1) & (Ctx::kCrashTab - 1)) { if (mCrashTab[h] == rk) break; if (mCrashTab[h] == 0) { mCrashTab[h] = rk; break; } } }
					crashes.push_back(cr); ++restarts;
					// A worker that cannot be resumed leaves its part of the space unexplored: that is reported (restart_cap_hit) and makes the run non-exhaustive.
					if (d == 0 || restarts > 2000000) { restartCapHit = true; fprintf(stderr, "bsx: worker %d died before its first choice or too many restarts (%s)\n%s\n", w, cr.kind.c_str(), cr.log.c_str()); continue; }
					mResumeArity = ar; mSlots[w].done = 0;
					spawn(w, cr.choices, true); ++live;
				}
			}
			for (int w = 0; w < nw; ++w) {
				totExec += mSlots[w].executions; totCp += mSlots[w].choice_points; totTrans += mSlots[w].transitions;
				maxDepth = std::max(maxDepth, static_cast<int>(mSlots[w].maxdepth));
				if (mSlots[w].deadline_hit) deadlineHit = true;
			}
			if (!deadlineHit) completedBudget = budget;
		}
		// merge
		std::set<uint64_t> outs, nts, sts, axs; std::vector<std::string> outcomeNames, samples;
		struct V { uint64_t count = 0; std::vector<std::string> ex; };
		std::map<std::string, V> viol;
		for (int w = 0; w < nw; ++w) {
			std::string keyName = mDir + "/keys." + std::to_string(w) + ".bin";
			if (FILE* f = fopen(keyName.c_str(), "rb")) {
				int k; while ((k = fgetc(f)) != EOF) { uint64_t h; if (fread(&h, 8, 1, f) != 1) break; (k == 'O' ? outs : k == 'N' ? nts : k == 'A' ? axs : sts).insert(h); }
				fclose(f);
			}
			std::string recName = mDir + "/rec." + std::to_string(w) + ".jsonl";
			if (FILE* f = fopen(recName.c_str(), "r")) {
				std::string line; int ch;
				while ((ch = fgetc(f)) != EOF) {
					if (ch != '\n') { line.push_back(static_cast<char>(ch)); continue; }
					if (line.rfind("{\"t\":\"outcome\"", 0) == 0) { std::string v = field(line, "v"); if (std::find(outcomeNames.begin(), outcomeNames.end(), v) == outcomeNames.end() && outcomeNames.size() < 200) outcomeNames.push_back(v); }
					else if (line.rfind("{\"t\":\"sample\"", 0) == 0) { if (samples.size() < 8) samples.push_back(field(line, "v")); }
					else if (line.rfind("{\"t\":\"violcount\"", 0) == 0) { viol[unesc(field(line, "sig"))].count++; }
					else if (line.rfind("{\"t\":\"viol\"", 0) == 0) { V& v = viol[unesc(field(line, "sig"))]; v.count++; if (v.ex.size() < 3) v.ex.push_back(line); }
					line.clear();
				}
				fclose(f);
			}
		}
		std::sort(outcomeNames.begin(), outcomeNames.end());
		FILE* o = fopen(out.c_str(), "w");
		if (!o) { perror("open out"); return 2; }
		fprintf(o, "{\"property\":\"%s\",\"tier\":\"%s\",\"seed\":%llu,\"executions\":%llu,\"choice_points\":%llu,\"transitions\":%llu,\"max_depth\":%d,",
			mProp, mTier.c_str(), static_cast<unsigned long long>(mSeed), static_cast<unsigned long long>(totExec), static_cast<unsigned long long>(totCp), static_cast<unsigned long long>(totTrans), maxDepth);
		fprintf(o, "\"aux\":%zu,", axs.size());
		fprintf(o, "\"distinct_outcomes\":%zu,\"distinct_nontrivial\":%zu,\"states\":%zu,\"max_dev\":%d,\"completed_dev_bound\":%d,\"deadline_hit\":%s,\"restart_cap_hit\":%s,\"deadline_s\":%g,\"workers\":%d,\"restarts\":%llu,\"spurious_stalls\":%llu,\"wall_s\":%.2f,",
			outs.size(), nts.size(), sts.size(), mCfg.max_dev, completedBudget, deadlineHit ? "true" : "false", restartCapHit ? "true" : "false", mCfg.deadline_s, nw, static_cast<unsigned long long>(restarts), static_cast<unsigned long long>(spuriousStalls), now() - mT0);
		fprintf(o, "\"outcomes\":[");
		for (size_t i = 0; i < outcomeNames.size(); ++i) fprintf(o, "%s\"%s\"", i ? "," : "", outcomeNames[i].c_str());
		fprintf(o, "],\"samples\":[");
		for (size_t i = 0; i < samples.size(); ++i) fprintf(o, "%s\"%s\"", i ? "," : "", samples[i].c_str());
		fprintf(o, "],\"violations\":[");
		bool first = true;
		for (auto& kv : viol) {
			fprintf(o, "%s{\"sig\":\"%s\",\"count\":%llu,\"examples\":[", first ? "" : ",", jesc(kv.first).c_str(), static_cast<unsigned long long>(kv.second.count));
			for (size_t i = 0; i < kv.second.ex.size(); ++i) fprintf(o, "%s%s", i ? "," : "", kv.second.ex[i].c_str());
			fprintf(o, "]}"); first = false;
		}
		fprintf(o, "],\"crashes\":[");
		for (size_t i = 0; i < crashes.size(); ++i) {
			auto& cr = crashes[i];
			fprintf(o, "%s{\"kind\":\"%s\",\"sig\":\"%s\",\"desc\":\"%s\",\"budget\":%d,\"log\":\"%s\",\"choices\":[", i ? "," : "", cr.kind.c_str(), jesc(cr.sig).c_str(), jesc(cr.desc).c_str(), cr.budget, jesc(cr.log).c_str());
			for (size_t k = 0; k < cr.choices.size(); ++k) fprintf(o, "%s%d", k ? "," : "", cr.choices[k]);
			fprintf(o, "]}");
		}
		fprintf(o, "]}\n");
		fclose(o);
		std::string rm = "rm -rf '" + mDir + "'"; (void)!system(rm.c_str());
		return 0;
	}

	static std::string tailOf(const std::string& path, size_t n) {
		FILE* f = fopen(path.c_str(), "r"); if (!f) return "";
		fseek(f, 0, SEEK_END); long sz = ftell(f); long st = sz > static_cast<long>(n) ? sz - static_cast<long>(n) : 0; fseek(f, st, SEEK_SET);
		std::string r(static_cast<size_t>(sz - st), 0); size_t got = fread(&r[0], 1, r.size(), f); r.resize(got); fclose(f); return r;
	}
	static std::string headTailOf(const std::string& path, size_t n) {
		FILE* f = fopen(path.c_str(), "r"); if (!f) return "";
		fseek(f, 0, SEEK_END); long sz = ftell(f); fseek(f, 0, SEEK_SET);
		if (sz <= static_cast<long>(2 * n)) { std::string r(static_cast<size_t>(sz), 0); size_t got = fread(&r[0], 1, r.size(), f); r.resize(got); fclose(f); return r; }
		std::string h(n, 0), t(n, 0); size_t g1 = fread(&h[0], 1, n, f); h.resize(g1); fseek(f, sz - static_cast<long>(n), SEEK_SET); size_t g2 = fread(&t[0], 1, n, f); t.resize(g2); fclose(f);
		return h + "\n[...]\n" + t;
	}
	// short, address-free class of a sanitizer report, e.g. ":heap-buffer-overflow" or ":misaligned"
	static std::string sanitizerClass(const std::string& log) {
		size_t p = log.find("runtime error: ");
		std::string m;
		if (p != std::string::npos) m = log.substr(p + 15, 48);
		else if ((p = log.find("AddressSanitizer: ")) != std::string::npos) m = log.substr(p + 18, 40);
		else return "";
		std::string r = ":";
		for (char ch : m) { if (ch == '\n' || ch == '(' ) break; if ((ch >= 'a' && ch <= 'z') || (ch >= 'A' && ch <= 'Z') || ch == '-') r.push_back(ch); else if (ch == ' ' && r.back() != '_') r.push_back('_'); else if (ch >= '0' && ch <= '9') break; }
		while (!r.empty() && r.back() == '_') r.pop_back();
		return r;
	}
	static std::string field(const std::string& line, const char* name) {   // raw (still escaped) string field
		std::string key = std::string("\"") + name + "\":\""; size_t p = line.find(key); if (p == std::string::npos) return "";
		p += key.size(); std::string r;
		for (size_t i = p; i < line.size(); ++i) { if (line[i] == '\\' && i + 1 < line.size()) { r.push_back(line[i]); r.push_back(line[++i]); continue; } if (line[i] == '"') break; r.push_back(line[i]); }
		return r;
	}
	static std::string unesc(const std::string& s) {
		std::string r;
		for (size_t i = 0; i < s.size(); ++i) {
			if (s[i] != '\\' || i + 1 >= s.size()) { r.push_back(s[i]); continue; }
			char c = s[++i];
			if (c == 'n') r.push_back('\n'); else if (c == 't') r.push_back('\t'); else if (c == 'r') r.push_back('\r');
			else if (c == 'u' && i + 4 < s.size()) { r.push_back(static_cast<char>(strtol(s.substr(i + 1, 4).c_str(), nullptr, 16))); i += 4; }
			else r.push_back(c);
		}
		return r;
	}

	int doReplay(const std::string& file) {
		FILE* f = fopen(file.c_str(), "r"); if (!f) { perror("replay file"); return 2; }
		std::string s; int ch; while ((ch = fgetc(f)) != EOF) s.push_back(static_cast<char>(ch)); fclose(f);
		std::vector<int> v; int budget = mCfg.max_dev;
		size_t p = s.find("\"choices\""); if (p == std::string::npos) { fprintf(stderr, "no choices in replay file\n"); return 2; }
		p = s.find('[', p); size_t e = s.find(']', p);
		for (size_t i = p + 1; i < e;) { while (i < e && (s[i] == ',' || s[i] == ' ')) ++i; if (i >= e) break; v.push_back(atoi(s.c_str() + i)); while (i < e && s[i] != ',') ++i; }
		size_t b = s.find("\"budget\""); if (b != std::string::npos) budget = atoi(s.c_str() + s.find(':', b) + 1);
		size_t t = s.find("\"tier\""); if (t != std::string::npos) { size_t q = s.find('"', s.find(':', t)); mTier = s.substr(q + 1, s.find('"', q + 1) - q - 1); if (mTierSetup) mTierSetup(mTier, mCfg); }
		std::set_terminate(terminateHandler);
		Ctx c; c.tier = mTier; c.seed = mSeed; c.budget = budget; c.replaying = true; c.mPartDepth = 0;
		c.reset(v);
		mBody(c);
		printf("REPLAY property=%s tier=%s desc=%s\n", mProp, mTier.c_str(), c.mDesc.c_str());
		for (auto& o : c.mOutcomes) printf("  outcome: %s\n", o.c_str());
		for (auto& vv : c.mViol) printf("  VIOLATION sig=%s\n    %s\n", vv.first.c_str(), vv.second.c_str());
		if (c.mViol.empty()) printf("  no violation in this execution\n");
		return c.mViol.empty() ? 0 : 1;
	}
};

} // namespace bsx
