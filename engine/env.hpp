// env.hpp — environment seams: every source of nondeterminism the library can see is owned
// by the harness (stream delivery, stream faults, allocation failures).
#pragma once
#include <cstdint>
#include <cstdlib>
#include <cstring>
#include <functional>
#include <ios>
#include <istream>
#include <new>
#include <ostream>
#include <streambuf>
#include <string>
#include <vector>

namespace env {

// Input streambuf over a byte string. `deliver(avail)` is asked at every underflow how many
// bytes (1..avail) to expose next; default exposes everything. Short delivery happens only at
// underflow level (a short xsgetn would mean EOF by the streambuf contract), so only legal
// environment behaviours are produced. Optionally seekable. Optionally starts failing
// (EOF or exception) at byte offset failAt.
class ChunkedInBuf : public std::streambuf {
public:
	std::function<size_t(size_t avail, size_t refillIndex)> deliver;
	bool seekable = true;
	long failAt = -1;          // -1: never; else at this absolute offset underflow fails
	bool failThrows = false;   // throw std::ios_base::failure instead of returning EOF
	size_t refills = 0, seeks = 0, failedSeeks = 0, failedBackwardSeeks = 0;   // failedBackwardSeeks: refused requests for a position before the current one

	explicit ChunkedInBuf(std::string data) : mData(std::move(data)) { setg(buf(), buf(), buf()); }
	size_t exposedEnd() const { return static_cast<size_t>(egptr() - const_cast<ChunkedInBuf*>(this)->buf()); }

protected:
	int_type underflow() override {
		if (gptr() < egptr()) return traits_type::to_int_type(*gptr());
		size_t pos = static_cast<size_t>(gptr() - buf());
		size_t limit = mData.size();
		if (failAt >= 0 && static_cast<size_t>(failAt) < limit) limit = static_cast<size_t>(failAt);
		if (pos >= limit) {
			if (failAt >= 0 && pos >= static_cast<size_t>(failAt) && failThrows) throw std::ios_base::failure("injected input failure");
			return traits_type::eof();
		}
		size_t avail = limit - pos, k = avail;
		if (deliver) { k = deliver(avail, refills); if (k < 1) k = 1; if (k > avail) k = avail; }
		++refills;
		setg(buf(), buf() + pos, buf() + pos + k);
		return traits_type::to_int_type(*gptr());
	}
	pos_type seekoff(off_type off, std::ios_base::seekdir dir, std::ios_base::openmode which) override {
		if (!(which & std::ios_base::in)) return pos_type(off_type(-1));
		off_type cur = gptr() - buf(), base = dir == std::ios_base::beg ? 0 : dir == std::ios_base::cur ? cur : static_cast<off_type>(mData.size());
		if (!seekable) { if (!(dir == std::ios_base::cur && off == 0)) { ++failedSeeks; if (base + off < cur) ++failedBackwardSeeks; } return pos_type(off_type(-1)); }   // like a pipe: tellg fails too
		if (dir == std::ios_base::cur && off == 0) return pos_type(cur);
		off_type np = base + off;
		if (np < 0 || np > static_cast<off_type>(mData.size())) return pos_type(off_type(-1));
		++seeks;
		setg(buf(), buf() + np, buf() + np);   // nothing exposed: next read refills
		return pos_type(np);
	}
	pos_type seekpos(pos_type p, std::ios_base::openmode which) override { return seekoff(off_type(p), std::ios_base::beg, which); }
private:
	char* buf() { return const_cast<char*>(mData.data()); }
	std::string mData;
};

// Output streambuf collecting bytes; starts failing (returns eof / throws) at byte offset failAt.
class FaultOutBuf : public std::streambuf {
public:
	long failAt = -1; bool failThrows = false; std::string data;
protected:
	int_type overflow(int_type ch) override {
		if (traits_type::eq_int_type(ch, traits_type::eof())) return traits_type::not_eof(ch);
		if (failAt >= 0 && data.size() >= static_cast<size_t>(failAt)) { if (failThrows) throw std::ios_base::failure("injected output failure"); return traits_type::eof(); }
		data.push_back(traits_type::to_char_type(ch)); return ch;
	}
	std::streamsize xsputn(const char* s, std::streamsize n) override {
		std::streamsize i = 0;
		for (; i < n; ++i) if (traits_type::eq_int_type(overflow(traits_type::to_int_type(s[i])), traits_type::eof())) break;
		return i;
	}
};

// ---- allocation seam ----------------------------------------------------------------
struct AllocState {
	bool active = false;          // count/limit only while active
	long failAtCount = -1;        // fail the k-th allocation (0-based) while active
	long count = 0;               // allocations seen while active
	long live = 0;                // live blocks allocated while active
	size_t liveBytes = 0, peakBytes = 0, largest = 0;
	size_t hardCap = 256u << 20;  // a single request above this is refused (bad_alloc) and recorded
	long refused = 0;
};
inline AllocState& alloc() { static AllocState s; return s; }
struct AllocScope {
	explicit AllocScope(long failAt = -1) { auto& a = alloc(); a.count = 0; a.live = 0; a.liveBytes = 0; a.peakBytes = 0; a.largest = 0; a.refused = 0; a.failAtCount = failAt; a.active = true; }
	~AllocScope() { alloc().active = false; }
};

} // namespace env

#ifdef ENV_ALLOC_SEAM
// Replacement global allocation functions (harness TU defines ENV_ALLOC_SEAM in exactly one TU).
namespace env { struct Hdr { size_t size; uint64_t magic; }; constexpr uint64_t kMagic = 0xB17C0DEULL; }
static void* env_alloc(size_t n) {
	auto& a = env::alloc();
	bool track = a.active;
	if (track) {
		if (n > a.largest) a.largest = n;
		if (n > a.hardCap) { ++a.refused; throw std::bad_alloc(); }
		long k = a.count++;
		if (a.failAtCount >= 0 && k == a.failAtCount) throw std::bad_alloc();
	}
	auto* h = static_cast<env::Hdr*>(malloc(n + sizeof(env::Hdr)));
	if (!h) throw std::bad_alloc();
	h->size = n; h->magic = track ? env::kMagic : 0;
	if (track) { ++a.live; a.liveBytes += n; if (a.liveBytes > a.peakBytes) a.peakBytes = a.liveBytes; }
	return h + 1;
}
static void env_free(void* p) noexcept {
	if (!p) return;
	auto* h = static_cast<env::Hdr*>(p) - 1;
	if (h->magic == env::kMagic) { auto& a = env::alloc(); --a.live; a.liveBytes -= h->size; h->magic = 0; }
	free(h);
}
void* operator new(size_t n) { return env_alloc(n); }
void* operator new[](size_t n) { return env_alloc(n); }
void operator delete(void* p) noexcept { env_free(p); }
void operator delete[](void* p) noexcept { env_free(p); }
void operator delete(void* p, size_t) noexcept { env_free(p); }
void operator delete[](void* p, size_t) noexcept { env_free(p); }
#endif
