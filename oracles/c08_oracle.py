#!/usr/bin/env python3
"""c08_oracle.py — independent judge of the documents produced by harness/c08_conformance.cpp (forward direction of C08).

Input: tab separated records written by the harness into BSX_AUX_DIR (one file per worker process):
  F <choices> <fmt> <sink> <enc> <bom> <style> <shape> <flags> <hex bytes> <expected model (JSON text)>
The bytes are decoded strictly per the configured encoding, parsed with the Python standard library
(json with NaN/Infinity rejected and duplicate detection / xml.parsers.expat) and compared with the
expected data model: names, nesting, array order, lexical scalar values, attributes.

  post(results, tier)      hook for run_check.py (checks.d/C08.py)
  --judge <file>           judge the records of one file, print VIOL lines (used by the harness in --replay)
"""
import sys, os, json, re, struct, glob, collections
from xml.parsers import expat

CODEC = {'utf8': 'utf-8', 'utf16le': 'utf-16-le', 'utf16be': 'utf-16-be', 'utf32le': 'utf-32-le', 'utf32be': 'utf-32-be'}
BOM = {'utf8': b'\xef\xbb\xbf', 'utf16le': b'\xff\xfe', 'utf16be': b'\xfe\xff', 'utf32le': b'\xff\xfe\x00\x00', 'utf32be': b'\x00\x00\xfe\xff'}
FLOAT_RE = re.compile(r'[-+]?(?:(?:\d+(?:\.\d*)?|\.\d+)(?:[eE][-+]?\d+)?|nan|inf|infinity)\Z', re.I)
INT_RE = re.compile(r'-?\d+\Z')
XML_WS = ' \t\r\n'


class Differ(Exception):
    def __init__(self, out, leaf, detail):
        self.out, self.leaf, self.detail = out, leaf, detail   # leaf = (pos, sym) or None


class Pairs(list):
    pass


class Num(str):
    isfloat = False


class FNum(Num):
    isfloat = True


def _reject_constant(name):
    raise ValueError('non-standard JSON constant ' + name)


def parse_json(text):
    return json.loads(text, object_pairs_hook=Pairs, parse_float=FNum, parse_int=Num, parse_constant=_reject_constant)


def leaves_of(m, out):
    t = m[0]
    if t == 'a':
        for e in m[1]:
            leaves_of(e, out)
    elif t == 'o':
        for grp, kpos in ((m[1], 'key'), (m[2], 'attrname')):
            for khex, ksym, node in grp:
                if ksym:
                    out.append((kpos, ksym))
                leaves_of(node, out)
    else:
        out.append((m[-1], m[-2]))
    return out


def same_double(text, bits):
    v = float(text)
    want = struct.unpack('>d', bytes.fromhex(bits))[0]
    if want != want:
        return v != v
    return v == want   # zeros of either sign are the same number


def same_float32(text, bits):
    v = float(text)
    want = struct.unpack('>f', bytes.fromhex(bits))[0]
    if want != want:
        return v != v
    try:
        return struct.unpack('>f', struct.pack('>f', v))[0] == want
    except OverflowError:
        return False


def cmp_json(m, got, path):
    t = m[0]
    leaf = (m[-1], m[-2]) if t not in ('a', 'o') else None
    if t == 'any':
        return
    if t == 'a':
        if type(got) is not list:
            raise Differ('model_differs', None, '%s: expected array, parser returned %s' % (path, type(got).__name__))
        if len(got) != len(m[1]):
            raise Differ('model_differs', None, '%s: expected %d elements, parser returned %d' % (path, len(m[1]), len(got)))
        for i, (e, g) in enumerate(zip(m[1], got)):
            cmp_json(e, g, '%s/%d' % (path, i))
        return
    if t == 'o':
        if type(got) is not Pairs:
            raise Differ('model_differs', None, '%s: expected object, parser returned %s' % (path, type(got).__name__))
        names = [k for k, _ in got]
        if len(set(names)) != len(names):
            raise Differ('duplicate_names', None, '%s: duplicate member names %r' % (path, names))
        want = [(bytes.fromhex(kh).decode('utf-8'), ks, node) for kh, ks, node in m[1] + m[2]]
        d = dict(got)
        for k, ks, node in want:
            if k not in d:
                raise Differ('model_differs', ('key', ks) if ks else None, '%s: member %r missing, parser returned names %r' % (path, k, names))
        if len(names) != len(want):
            raise Differ('model_differs', None, '%s: extra members %r' % (path, names))
        for k, ks, node in want:
            cmp_json(node, d[k], path + '/' + k)
        return
    if t == 's':
        want = bytes.fromhex(m[1]).decode('utf-8')
        if type(got) is not str:
            raise Differ('model_differs', leaf, '%s: expected string, parser returned %r' % (path, got))
        if got != want:
            raise Differ('leaf_text_changed', leaf, '%s: expected %r, parser returned %r' % (path, want, got))
    elif t == 'i':
        if not isinstance(got, Num) or got.isfloat:
            raise Differ('model_differs', leaf, '%s: expected integer %s, parser returned %r' % (path, m[1], got))
        if int(got) != int(m[1]):
            raise Differ('number_differs', leaf, '%s: expected %s, document says %s' % (path, m[1], got))
    elif t in ('d', 'f'):
        if not isinstance(got, Num):
            raise Differ('model_differs', leaf, '%s: expected number, parser returned %r' % (path, got))
        if not (same_double(got, m[1]) if t == 'd' else same_float32(got, m[1])):
            raise Differ('number_differs', leaf, '%s: expected bits %s, document says %s' % (path, m[1], got))
    elif t == 'b':
        if got is not (True if m[1] else False):
            raise Differ('model_differs', leaf, '%s: expected %s, parser returned %r' % (path, bool(m[1]), got))
    elif t == 'n':
        if got is not None:
            raise Differ('model_differs', leaf, '%s: expected null, parser returned %r' % (path, got))


class El:
    __slots__ = ('name', 'attrs', 'content')

    def __init__(self, name, attrs):
        self.name, self.attrs, self.content = name, attrs, []

    def key(self):
        return (self.name, tuple(self.attrs), tuple(c.key() if isinstance(c, El) else c for c in self.merged()))

    def merged(self):
        out = []
        for c in self.content:
            if isinstance(c, str) and out and isinstance(out[-1], str):
                out[-1] += c
            else:
                out.append(c)
        return out


def parse_xml(data):
    p = expat.ParserCreate()
    p.ordered_attributes = True
    p.buffer_text = True
    stack, roots, decl = [], [], {}

    def start(name, attrs):
        e = El(name, [(attrs[i], attrs[i + 1]) for i in range(0, len(attrs), 2)])
        (stack[-1].content if stack else roots).append(e)
        stack.append(e)

    def end(name):
        stack.pop()

    def chars(s):
        if stack:
            stack[-1].content.append(s)

    def xmldecl(version, encoding, standalone):
        decl['version'], decl['encoding'] = version, encoding

    p.StartElementHandler, p.EndElementHandler, p.CharacterDataHandler, p.XmlDeclHandler = start, end, chars, xmldecl
    p.Parse(data, True)
    return roots[0], decl


def xml_scalar(m, text, path, where):
    t = m[0]
    leaf = (m[-1], m[-2])
    if t == 'any':
        return
    if t == 's':
        want = bytes.fromhex(m[1]).decode('utf-8')
        if text != want:
            raise Differ('leaf_text_changed', leaf, '%s: expected %s %r, parser returned %r' % (path, where, want, text))
    elif t == 'i':
        if not INT_RE.match(text) or int(text) != int(m[1]):
            raise Differ('number_differs', leaf, '%s: expected %s, %s says %r' % (path, m[1], where, text))
    elif t in ('d', 'f'):
        if not FLOAT_RE.match(text) or not (same_double(text, m[1]) if t == 'd' else same_float32(text, m[1])):
            raise Differ('number_differs', leaf, '%s: expected bits %s, %s says %r' % (path, m[1], where, text))
    elif t == 'b':
        if text != ('true' if m[1] else 'false'):
            raise Differ('model_differs', leaf, '%s: expected %s, %s says %r' % (path, bool(m[1]), where, text))
    elif t == 'n':
        if text != '':
            raise Differ('model_differs', leaf, '%s: expected an empty element, %s says %r' % (path, where, text))


def cmp_xml(m, el, name, path):
    t = m[0]
    if el.name != name:
        raise Differ('model_differs', None, '%s: expected element <%s>, parser returned <%s>' % (path, name, el.name))
    content = el.merged()
    kids = [c for c in content if isinstance(c, El)]
    text = ''.join(c for c in content if isinstance(c, str))
    want_attrs = m[2] if t == 'o' else []
    got_attrs = dict(el.attrs)
    for kh, ks, node in want_attrs:
        k = bytes.fromhex(kh).decode('utf-8')
        if k not in got_attrs:
            raise Differ('model_differs', ('attrname', ks) if ks else (node[-1], node[-2]), '%s: attribute %r missing, parser returned %r' % (path, k, el.attrs))
        if node[0] == 'n':
            if got_attrs[k] != '':
                raise Differ('model_differs', (node[-1], node[-2]), '%s/@%s: expected empty attribute, parser returned %r' % (path, k, got_attrs[k]))
        else:
            xml_scalar(node, got_attrs[k], '%s/@%s' % (path, k), 'attribute value')
    if len(el.attrs) != len(want_attrs):
        raise Differ('model_differs', None, '%s: unexpected attributes %r' % (path, el.attrs))
    if t not in ('a', 'o'):
        if kids:
            raise Differ('model_differs', (m[-1], m[-2]), '%s: scalar element has child elements' % path)
        xml_scalar(m, text, path, 'element text')
        return
    if text.strip(XML_WS):
        raise Differ('model_differs', None, '%s: container element carries text %r' % (path, text))
    if t == 'a':
        names = [{'a': 'array', 'o': 'object'}.get(e[0], 'value') for e in m[1]]
        if len(kids) != len(names):
            raise Differ('model_differs', None, '%s: expected %d child elements, parser returned %r' % (path, len(names), [k.name for k in kids]))
        for i, (e, k) in enumerate(zip(m[1], kids)):
            cmp_xml(e, k, names[i], '%s/%d' % (path, i))
    else:
        want = [(bytes.fromhex(kh).decode('utf-8'), ks, node) for kh, ks, node in m[1]]
        got_names = [k.name for k in kids]
        if sorted(got_names) != sorted(k for k, _, _ in want):
            ks = next((ks for k, ks, _ in want if ks and k not in got_names), None)
            raise Differ('model_differs', ('key', ks) if ks else None, '%s: expected child elements %r, parser returned %r' % (path, [k for k, _, _ in want], got_names))
        byname = {}
        for k in kids:
            byname.setdefault(k.name, []).append(k)
        for k, ks, node in want:
            cmp_xml(node, byname[k].pop(0), k, path + '/' + k)


def shape_leaf(shape):
    return ('doc', 'shape:' + shape.replace('[', '(').replace(']', ')'))


def judge(rec):
    """rec: list of fields. Returns (caseinfo, [(out, blamed_leaf_or_None, detail), ...])"""
    _, choices, fmt, sink, enc, bom, style, shape, flags, hexbytes, model = rec
    m = json.loads(model)
    info = dict(choices=choices, fmt=fmt, sink=sink, enc=enc, bom=bom, style=style, shape=shape, leaves=leaves_of(m, []))
    data = bytes.fromhex(hexbytes)
    bads = []
    mark = BOM[enc]
    has = data.startswith(mark)
    if has != (bom == '1'):
        bads.append(('bom_mismatch', None, 'writeBom=%s but the document %s with the byte order mark of %s' % (bom, 'starts' if has else 'does not start', enc)))
    try:
        text = (data[len(mark):] if has else data).decode(CODEC[enc], 'strict')
    except UnicodeDecodeError as e:
        bads.append(('encoding_invalid', None, 'the bytes are not well-formed %s: %s | %s' % (enc, e, data[:60].hex())))
        return info, bads
    try:
        if text.startswith('\ufeff'):
            raise Differ('bom_mismatch', None, 'second byte order mark')
        if fmt == 'json':
            try:
                got = parse_json(text)
            except ValueError as e:
                raise Differ('parser_rejects', None, 'json.loads: %s | document %r' % (e, text[:120]))
            cmp_json(m, got, '')
        else:
            # XML 1.0 4.3.3: an entity stored in an encoding other than UTF-8 / UTF-16 must name it in its declaration
            if enc in ('utf32le', 'utf32be') and not re.match(r'<\?xml[^>]*\sencoding\s*=', text):
                bads.append(('no_encoding_declaration', None, 'XML 1.0 4.3.3: an entity in an encoding other than UTF-8/UTF-16 must begin with a declaration naming the encoding; document starts %r' % text[:40]))
            try:
                root, decl = parse_xml(text)
            except expat.ExpatError as e:
                raise Differ('parser_rejects', None, 'expat: %s | document %r' % (e, text[:160]))
            # the entity as it is on the wire, without being told the encoding (expat knows UTF-8 and UTF-16)
            if enc in ('utf8', 'utf16le', 'utf16be'):
                try:
                    raw, _ = parse_xml(data)
                    if raw.key() != root.key():
                        bads.append(('raw_bytes_differ', None, 'expat on the undecoded bytes returns a different tree'))
                except expat.ExpatError as e:
                    bads.append(('raw_bytes_rejected', None, 'expat on the undecoded bytes: %s | %s' % (e, data[:60].hex())))
            if flags != 'any_wellformed':
                cmp_xml(m, root, flags[5:] if flags.startswith('root=') else 'array' if m[0] == 'a' else 'root', '')
    except Differ as d:
        leaf = d.leaf
        if leaf is None and d.out in ('model_differs', 'duplicate_names'):
            leaf = shape_leaf(shape)   # a structural difference belongs to the shape, not to a leaf value
        bads.append((d.out, leaf, d.detail))
    return info, bads


# ----------------------------------------------------------------------------------------------------------
def cfg_of(info):
    return (info['sink'] if info['sink'] == 'mem' else info['enc'], info['bom'], info['style'])


def process_file(path):
    explored_leaf = collections.Counter()   # (fmt,pos,val,cfg) -> cases
    explored_cfg = collections.Counter()    # (fmt,cfg) -> cases
    fails = {}                              # (fmt,out,leaves,blamed,cfg) -> [count, example]
    n = 0
    with open(path) as f:
        for line in f:
            rec = line.rstrip('\n').split('\t')
            if len(rec) != 11 or rec[0] != 'F':
                raise SystemExit('c08_oracle: malformed record in %s: %r' % (path, line[:200]))
            n += 1
            info, bads = judge(rec)
            cfg = cfg_of(info)
            fmt = info['fmt']
            leaves = tuple(sorted(set(info['leaves']))) or (shape_leaf(info['shape']),)
            # stage 0 = checks on the bytes (BOM, decoding), stage 1 = everything that needs the decoded text
            stages = (0,) if any(b[0] == 'encoding_invalid' for b in bads) else (0, 1)
            for st in stages:
                explored_cfg[(st, fmt, cfg)] += 1
                for pos, val in set(leaves + (shape_leaf(info['shape']),)):
                    explored_leaf[(st, fmt, pos, val, cfg)] += 1
            for out, leaf, detail in bads:
                key = (fmt, out, leaves, leaf, cfg)
                e = fails.get(key)
                if e is None:
                    fails[key] = [1, dict(choices=info['choices'], detail=detail, shape=info['shape'])]
                else:
                    e[0] += 1
    return n, explored_leaf, explored_cfg, fails


ALL_STYLES = ['compact', 'pretty:tab1', 'pretty:tab2', 'pretty:tab4', 'pretty:sp1', 'pretty:sp2', 'pretty:sp4']


def describe_cfg(F, E):
    if F >= E:
        return 'any'
    parts = []
    sF, sE = {c[0] for c in F}, {c[0] for c in E}
    if sF != sE:
        parts.append('sink:' + '+'.join(sorted(sF)))
    bF, bE = {c[1] for c in F if c[0] != 'mem'}, {c[1] for c in E if c[0] != 'mem'}
    if bF and bF != bE:
        parts.append('bom:' + '+'.join(sorted(bF)))
    tF, tE = {c[2] for c in F}, {c[2] for c in E}
    if tF != tE:
        parts.append('style:' + ('pretty' if tF == set(ALL_STYLES[1:]) else '+'.join(sorted(tF))))
    return ','.join(parts) or 'some'


STAGE0 = ('encoding_invalid', 'bom_mismatch')


def aggregate(explored_leaf, explored_cfg, fails):
    """-> list of dict(sig, count, example) with cause-level signatures"""
    out_sigs = {}

    def emit(sig, count, ex):
        e = out_sigs.setdefault(sig, [0, ex])
        e[0] += count
        if ex['choices_key'] < e[1]['choices_key']:
            e[1] = ex

    groups = collections.defaultdict(list)
    for (fmt, out, leaves, leaf, cfg), (count, ex) in fails.items():
        ex = dict(ex, choices_key=[int(x) for x in ex['choices'].split(',')], cfg=cfg)
        groups[(fmt, out)].append([leaves, leaf, cfg, count, ex])
    for (fmt, out), items in sorted(groups.items()):
        stage = 0 if out in STAGE0 else 1
        # A. causes that lie in the configuration alone: every explored case of a (sink/encoding, bom) fails
        per_sb = collections.Counter()
        for leaves, leaf, cfg, count, ex in items:
            per_sb[cfg[:2]] += count
        tot_sb = collections.Counter()
        for (st, f2, cfg), cnt in explored_cfg.items():
            if f2 == fmt and st == stage:
                tot_sb[cfg[:2]] += cnt
        cfg_caused = {sb for sb, cnt in per_sb.items() if cnt == tot_sb[sb]}
        if cfg_caused:
            name = '+'.join(sorted('%s:bom%s' % sb if sb[0] != 'mem' else 'mem' for sb in cfg_caused))
            for leaves, leaf, cfg, count, ex in items:
                if cfg[:2] in cfg_caused:
                    emit('C08/fwd/%s/cfg=sink:%s/pos=any/val=any/out=%s' % (fmt, name, out), count, ex)
            items = [it for it in items if it[2][:2] not in cfg_caused]
        # B. blame leaves: the leaf named by the comparison; else every leaf of the document all of whose cases fail,
        #    else the leaf that fails most consistently
        cell_cfgs = collections.defaultdict(dict)    # (pos,val) -> cfg -> explored cases
        tot_leaf = collections.Counter()
        for (st, f2, p2, v2, cfg), cnt in explored_leaf.items():
            if f2 == fmt and st == stage:
                cell_cfgs[(p2, v2)][cfg] = cnt
                tot_leaf[(p2, v2)] += cnt
        fail_leaf = collections.Counter()
        for leaves, leaf, cfg, count, ex in items:
            for l in leaves:
                fail_leaf[l] += count
        cells = collections.defaultdict(lambda: [0, 0, set(), None])   # (pos,val) -> [count, covered cases, cfgs, example]
        for leaves, leaf, cfg, count, ex in items:
            if leaf:
                blamed = [leaf]
            else:
                blamed = [l for l in leaves if fail_leaf[l] >= tot_leaf[l]] or [max(leaves, key=lambda l: (fail_leaf[l] / max(tot_leaf[l], 1), l))]
            for i, l in enumerate(blamed):
                c = cells[l]
                c[0] += count if i == 0 else 0
                c[1] += count
                c[2].add(cfg)
                if c[3] is None or ex['choices_key'] < c[3]['choices_key']:
                    c[3] = ex
        # a leaf named by the comparison hides other failing leaves of the same document: cover is a lower bound there,
        # so "some_shapes" is only said when the cell passes somewhere
        # C. describe each (pos, val) cell; merge the positions of a value that fail alike
        byval = collections.defaultdict(list)
        for (pos, val), (count, cover, cfgs, ex) in cells.items():
            E = set(cell_cfgs[(pos, val)])
            total = sum(cnt for cfg, cnt in cell_cfgs[(pos, val)].items() if cfg in cfgs)
            partial = cover < total and fail_leaf[(pos, val)] < total
            desc = describe_cfg(cfgs, E) + (',some_shapes' if partial else '')
            byval[val].append((pos, desc, count, ex))
        for val, lst in byval.items():
            all_pos = {p2 for (p2, v2) in cell_cfgs if v2 == val}
            descs = {d for _, d, _, _ in lst}
            if len(lst) > 1 and len(descs) == 1 and {p for p, _, _, _ in lst} == all_pos:
                for pos, desc, count, ex in lst:
                    emit('C08/fwd/%s/cfg=%s/pos=any/val=%s/out=%s' % (fmt, desc, val, out), count, ex)
            else:
                for pos, desc, count, ex in lst:
                    emit('C08/fwd/%s/cfg=%s/pos=%s/val=%s/out=%s' % (fmt, desc, pos, val, out), count, ex)
    return [dict(sig=s, count=c, example=ex) for s, (c, ex) in sorted(out_sigs.items())]


def post(results, tier):
    from multiprocessing import Pool
    for res in results:
        files = sorted(glob.glob(os.path.join(res.get('aux_dir', ''), 'fwd.*.tsv')))
        if not files:
            print('C08 post: no forward records in %s' % res.get('aux_dir'))
            raise SystemExit(2)
        files.sort(key=os.path.getsize, reverse=True)
        with Pool(min(16, os.cpu_count() or 16)) as pool:
            parts = pool.map(process_file, files, chunksize=1)
        n = 0
        explored_leaf, explored_cfg, fails = collections.Counter(), collections.Counter(), {}
        for pn, el, ec, fl in parts:
            n += pn
            explored_leaf.update(el)
            explored_cfg.update(ec)
            for k, (count, ex) in fl.items():
                e = fails.get(k)
                if e is None:
                    fails[k] = [count, ex]
                else:
                    e[0] += count
                    if [int(x) for x in ex['choices'].split(',')] < [int(x) for x in e[1]['choices'].split(',')]:
                        e[1] = ex
        if n == 0:
            print('C08 post: the harness produced no documents')
            raise SystemExit(2)
        outs = set('py:' + k[1] for k in fails) | {'py:conformant_and_same_model'}
        res['outcomes'] = sorted(set(res.get('outcomes', [])) | outs)
        res['distinct_outcomes'] = len(res['outcomes'])
        res['aux'] = n   # documents judged by the independent parsers
        res.setdefault('samples', []).append('independent parser judged %d documents (%d distinct (format, position, value, configuration) cells), %d failing' % (n, len(explored_leaf), sum(c for c, _ in fails.values())))
        for v in aggregate(explored_leaf, explored_cfg, fails):
            ex = v['example']
            res['violations'].append(dict(sig=v['sig'], count=v['count'], examples=[dict(
                choices=ex['choices_key'], budget=0, desc='forward: shape %s, configuration %s' % (ex['shape'], '/'.join(ex['cfg'])), detail=ex['detail'])]))


def main(argv):
    if len(argv) == 3 and argv[1] == '--judge':
        for line in open(argv[2]):
            rec = line.rstrip('\n').split('\t')
            info, bads = judge(rec)
            for out, leaf, detail in bads:
                pos, val = leaf if leaf else ('any', '+'.join(sorted({v for _, v in info['leaves']})) or 'none')
                print('VIOL\tC08/fwd/%s/cfg=%s/pos=%s/val=%s/out=%s\t%s' % (info['fmt'], ':'.join(cfg_of(info)), pos, val, out, detail.replace('\n', ' ').replace('\t', ' ')))
            if not bads:
                print('independent parser: document conformant, same data model')
        return 0
    print(__doc__)
    return 2


if __name__ == '__main__':
    sys.exit(main(sys.argv))
