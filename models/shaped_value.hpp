// shaped_value.hpp — a value tree whose Serialize() walks a run-time *shape* and issues the
// ordinary BitSerializer calls, so the explorer can enumerate document/target shapes at run
// time through the real scope code without one C++ type per shape.
#pragma once
#include "models/lib.hpp"
#include "ref/val.hpp"
#include "bitserializer/types/std/vector.h"
#include "bitserializer/serialization_detail/bin_timestamp.h"
#include <cmath>

namespace sv {

namespace BS = BitSerializer;
using BS::Detail::CBinTimestamp;

enum K : uint8_t { Nil, Bool, I8, U8, I16, U16, I32, U32, I64, U64, F32, F64, Str, Bin, Ts, Arr, Obj };
inline const char* kname(K k) {
	static const char* n[] = {"nil", "bool", "i8", "u8", "i16", "u16", "i32", "u32", "i64", "u64", "f32", "f64", "str", "bin", "ts", "arr", "obj"};
	return n[k];
}
inline bool isInt(K k) { return k >= I8 && k <= U64; }
inline bool isSigned(K k) { return k == I8 || k == I16 || k == I32 || k == I64; }

struct Node;

// typed object key (MsgPack supports non-string keys)
struct Key {
	enum T : uint8_t { S, I, U, F, D, TS } t = S;
	std::string s; int64_t i = 0; uint64_t u = 0; float f = 0; double d = 0; int64_t ts_sec = 0; int32_t ts_ns = 0;
	Key() = default;
	Key(const char* v) : s(v) {}
	Key(std::string v) : s(std::move(v)) {}
	static Key ofVal(const ref::Val& v) {
		Key k;
		switch (v.k) {
		case ref::Val::Str: k.t = S; k.s = v.s; break;
		case ref::Val::Int: if (v.i < 0) { k.t = I; k.i = static_cast<int64_t>(v.i); } else { k.t = U; k.u = static_cast<uint64_t>(v.i); } break;
		case ref::Val::F32: k.t = F; std::memcpy(&k.f, &v.f32, 4); break;
		case ref::Val::F64: k.t = D; std::memcpy(&k.d, &v.f64, 8); break;
		case ref::Val::Ts: k.t = TS; k.ts_sec = v.ts_sec; k.ts_ns = static_cast<int32_t>(v.ts_ns); break;
		default: k.t = S; k.s = "?" + v.dump();
		}
		return k;
	}
	ref::Val toVal() const {
		switch (t) {
		case S: return ref::Val::str(s); case I: return ref::Val::integer(i); case U: return ref::Val::integer(static_cast<ref::i128>(u));
		case F: return ref::Val::flt(f); case D: return ref::Val::dbl(d); default: return ref::Val::ts(ts_sec, static_cast<uint32_t>(ts_ns));
		}
	}
	std::string str() const { return t == S ? s : toVal().dump(); }
};

// one request issued inside Serialize() of a scripted object (property C03)
struct Req {
	enum Kind : uint8_t { Get, VisitKeys } kind = Get;
	Key key;
	std::vector<Node> target;            // exactly one node for Get: shape + result
	std::vector<std::string> visited;    // VisitKeys result
	uint64_t stateAfter = 0;             // canonical scope state after the request (0 if not observable)
	bool unsupported = false;
};

struct Node {
	K k = Nil;
	bool loaded = false;        // result of the Serialize() call for this node
	bool unsupported = false;   // the archive cannot carry this kind at this level
	bool b = false; int64_t i = 0; uint64_t u = 0; float f = 0; double d = 0;
	std::string s; std::vector<unsigned char> bin; int64_t ts_sec = 0; int32_t ts_ns = 0;
	std::vector<Node> items;                             // Arr (fixed, tuple-like shape)
	std::vector<std::pair<std::string, Node>> fields;    // Obj
	size_t attempted = 0;                                // Arr: items the loader attempted before IsEnd()
	bool leftover = false;                               // Arr: document array had more elements than the shape
	bool scripted = false; std::vector<Req> script;      // Obj: run this request script instead of loading `fields`

	static Node mk(K k) { Node n; n.k = k; return n; }
	static Node integer(K k, ref::i128 v) { Node n; n.k = k; if (isSigned(k)) n.i = static_cast<int64_t>(v); else n.u = static_cast<uint64_t>(v); return n; }
	static Node boolean(bool v) { Node n; n.k = Bool; n.b = v; return n; }
	static Node str(std::string v) { Node n; n.k = Str; n.s = std::move(v); return n; }
	static Node binary(const std::string& v) { Node n; n.k = Bin; n.bin.assign(v.begin(), v.end()); return n; }
	static Node f32(float v) { Node n; n.k = F32; n.f = v; return n; }
	static Node f64(double v) { Node n; n.k = F64; n.d = v; return n; }
	static Node ts(int64_t s, int32_t ns) { Node n; n.k = Ts; n.ts_sec = s; n.ts_ns = ns; return n; }
	static Node arr(std::vector<Node> v = {}) { Node n; n.k = Arr; n.items = std::move(v); return n; }
	static Node obj(std::vector<std::pair<std::string, Node>> v = {}) { Node n; n.k = Obj; n.fields = std::move(v); return n; }

	ref::i128 ival() const { return isSigned(k) ? static_cast<ref::i128>(i) : static_cast<ref::i128>(u); }

	// value as a reference tree (what this node holds)
	ref::Val toVal() const {
		switch (k) {
		case Nil: return ref::Val::nil();
		case Bool: return ref::Val::boolean(b);
		case F32: return ref::Val::flt(f);
		case F64: return ref::Val::dbl(d);
		case Str: return ref::Val::str(s);
		case Bin: return ref::Val::bin(std::string(bin.begin(), bin.end()));
		case Ts: return ref::Val::ts(ts_sec, static_cast<uint32_t>(ts_ns));
		case Arr: { ref::Val v = ref::Val::arr(); for (auto& e : items) v.a.push_back(e.toVal()); return v; }
		case Obj: { ref::Val v = ref::Val::map(); for (auto& e : fields) v.m.emplace_back(ref::Val::str(e.first), e.second.toVal()); return v; }
		default: return ref::Val::integer(ival());
		}
	}
	// dump including loaded flags (used for differential comparisons)
	std::string dumpLoaded() const {
		std::string r = loaded ? "+" : "-";
		if (unsupported) r += "U";
		if (k == Arr) { r += "["; for (auto& e : items) r += e.dumpLoaded() + ","; r += "]#" + std::to_string(attempted) + (leftover ? "+more" : ""); return r; }
		if (k == Obj && scripted) {
			r += "script{";
			for (auto& q : script) {
				if (q.kind == Req::VisitKeys) { r += "keys("; for (auto& v : q.visited) r += v + ","; r += ");"; }
				else r += "get(" + q.key.str() + ")=" + (q.unsupported ? std::string("U") : q.target[0].dumpLoaded()) + ";";
			}
			return r + "}";
		}
		if (k == Obj) { r += "{"; for (auto& e : fields) r += e.first + ":" + e.second.dumpLoaded() + ","; return r + "}"; }
		return r + std::string(kname(k)) + "=" + toVal().dump();
	}
	// fill every scalar with a recognisable canary (targets of loads)
	void canary() {
		loaded = false; unsupported = false; attempted = 0; leftover = false;
		b = true; i = isSigned(k) ? -77 : 0; u = 77; if (k == I8 || k == I16 || k == I32 || k == I64) i = -77;
		f = -77.5f; d = -77.5; s = "\x7f" "canary"; bin.assign({0x7f, 0x7e}); ts_sec = -77; ts_ns = 77;
		for (auto& e : items) e.canary();
		for (auto& e : fields) e.second.canary();
		for (auto& r : script) { r.visited.clear(); r.stateAfter = 0; r.unsupported = false; for (auto& t : r.target) t.canary(); }
	}
};

// natural target shape for a reference value
inline Node shapeOf(const ref::Val& v) {
	switch (v.k) {
	case ref::Val::Nil: return Node::mk(Nil);
	case ref::Val::Bool: return Node::boolean(v.b);
	case ref::Val::Int: return v.i < 0 ? Node::integer(I64, v.i) : Node::integer(U64, v.i);
	case ref::Val::F32: { Node n = Node::mk(F32); std::memcpy(&n.f, &v.f32, 4); return n; }
	case ref::Val::F64: { Node n = Node::mk(F64); std::memcpy(&n.d, &v.f64, 8); return n; }
	case ref::Val::Str: return Node::str(v.s);
	case ref::Val::Bin: return Node::binary(v.s);
	case ref::Val::Ts: return Node::ts(v.ts_sec, static_cast<int32_t>(v.ts_ns));
	case ref::Val::Arr: { Node n = Node::mk(Arr); for (auto& e : v.a) n.items.push_back(shapeOf(e)); return n; }
	case ref::Val::Map: { Node n = Node::mk(Obj); for (auto& e : v.m) n.fields.emplace_back(e.first.k == ref::Val::Str ? e.first.s : e.first.dump(), shapeOf(e.second)); return n; }
	default: return Node::mk(Nil);
	}
}

template <class T> struct is_counter : std::false_type {};
template <class A> struct is_counter<BS::FieldsCountVisitor<A>> : std::true_type {};

struct ObjRef { Node& n; template <class A> void Serialize(A& ar); };
struct ArrRef { Node& n; size_t size() const { return n.items.size(); } };

template <class A>
struct NoKey {
	A& ar;
	template <class T> static constexpr bool canValue() { return BS::can_serialize_value_v<A, T>; }
	static constexpr bool canObject = BS::can_serialize_object_v<A>;
	static constexpr bool canArray = BS::can_serialize_array_v<A>;
	template <class T> bool operator()(T& v) { return BS::Serialize(ar, v); }
	template <class T> bool raw(T& v) { return ar.SerializeValue(v); }
};
template <class A, class TKey = std::string>
struct WithKey {
	A& ar; const TKey& key;
	template <class T> static constexpr bool canValue() { return BS::can_serialize_value_with_key_v<A, T, const TKey&>; }
	static constexpr bool canObject = BS::can_serialize_object_with_key_v<A, const TKey&>;
	static constexpr bool canArray = BS::can_serialize_array_with_key_v<A, const TKey&>;
	template <class T> bool operator()(T& v) { return BS::Serialize(ar, key, v); }
	template <class T> bool raw(T& v) { return ar.SerializeValue(key, v); }
};

// The way applications pass keys: a C string through KeyValue (`ar << KeyValue("name", value)`), which takes the archive's
// `const char*` / key-adaptation path instead of the std::string overloads used by WithKey. The result is taken from the
// `isLoaded` flag handed to validators. Selected with keyMode() = 1.
inline int& keyMode() { static int m = 0; return m; }
template <class T, class... Ts> constexpr bool tupleHasImpl(const std::tuple<Ts...>*) { return (std::is_same_v<T, Ts> || ...); }
template <class T, class Tuple> constexpr bool tupleHas() { return tupleHasImpl<T>(static_cast<const Tuple*>(nullptr)); }
template <class A>
struct ViaKeyValue {
	A& ar; const char* key;
	template <class T> static constexpr bool canValue() { return WithKey<A, std::string>::template canValue<T>(); }
	static constexpr bool canObject = WithKey<A, std::string>::canObject;
	static constexpr bool canArray = WithKey<A, std::string>::canArray;
	template <class T> bool operator()(T& v) {
		bool res = false;
		auto rec = [&res](const auto&, bool isLoaded) -> std::optional<std::string> { res = isLoaded; return std::nullopt; };
		// archives that list `const char*` among their key types get the pointer, the others a std::string (still through KeyValue and its validator path)
		if constexpr (tupleHas<const char*, typename A::supported_key_types>()) ar << BS::KeyValue(key, v, rec);
		else ar << BS::KeyValue(std::string(key), v, rec);
		return res;
	}
	template <class T> bool raw(T& v) { return ar.SerializeValue(std::string(key), v); }
};

// canonical state of an open scope, for model-checking evidence; specialised by harnesses
// that read private cursor fields (-fno-access-control). 0 = not observable.
template <class A> struct ScopeProbe { static uint64_t state(A&) { return 0; } };

struct VisitKeysProbeFn { template <class T> void operator()(T&&) const {} };
template <class T> struct has_visit_keys {
	template <class U> static auto test(int) -> decltype(std::declval<U&>().VisitKeys(std::declval<VisitKeysProbeFn>()), std::true_type());
	template <class> static std::false_type test(...);
	static constexpr bool value = decltype(test<T>(0))::value;
};

template <class A, class Call>
void dispatch(Node& n, Call call) {
	constexpr bool L = A::IsLoading();
	auto integral = [&](auto tag) {
		using T = decltype(tag);
		if constexpr (Call::template canValue<T>()) {
			T t = isSigned(n.k) ? static_cast<T>(n.i) : static_cast<T>(n.u);
			bool ok = call(t);
			// the target is copied back whether or not the library reports it as loaded: a target that was modified by a load that is
			// then reported as "not loaded" must be visible to the oracle (canaryIntact)
			if (L) { if (isSigned(n.k)) n.i = static_cast<int64_t>(t); else n.u = static_cast<uint64_t>(t); }
			n.loaded = ok;
		} else n.unsupported = true;
	};
	switch (n.k) {
	case Nil: if constexpr (Call::template canValue<std::nullptr_t>()) { std::nullptr_t v = nullptr; n.loaded = call(v); } else n.unsupported = true; break;
	case Bool: if constexpr (Call::template canValue<bool>()) n.loaded = call(n.b); else n.unsupported = true; break;
	case I8: integral(int8_t{}); break;
	case U8: integral(uint8_t{}); break;
	case I16: integral(int16_t{}); break;
	case U16: integral(uint16_t{}); break;
	case I32: integral(int32_t{}); break;
	case U32: integral(uint32_t{}); break;
	case I64: integral(int64_t{}); break;
	case U64: integral(uint64_t{}); break;
	case F32: if constexpr (Call::template canValue<float>()) n.loaded = call(n.f); else n.unsupported = true; break;
	case F64: if constexpr (Call::template canValue<double>()) n.loaded = call(n.d); else n.unsupported = true; break;
	case Str: if constexpr (Call::template canValue<typename A::string_view_type>()) n.loaded = call(n.s); else n.unsupported = true; break;
	case Bin: if constexpr (Call::canArray && A::archive_type != BS::ArchiveType::Csv) n.loaded = call(n.bin); else n.unsupported = true; break;
	case Ts:
		if constexpr (Call::template canValue<CBinTimestamp>()) {
			CBinTimestamp t(n.ts_sec, n.ts_ns); bool ok = call.raw(t);
			if (L) { n.ts_sec = t.Seconds; n.ts_ns = t.Nanoseconds; }
			n.loaded = ok;
		} else n.unsupported = true;
		break;
	case Arr: if constexpr (Call::canArray) { ArrRef r{n}; n.loaded = call(r); } else n.unsupported = true; break;
	case Obj: if constexpr (Call::canObject) { ObjRef r{n}; n.loaded = call(r); } else n.unsupported = true; break;
	}
}

template <class A, class TKey>
void runGet(A& ar, Req& r, const TKey& key) {
	if constexpr (BS::is_convertible_to_one_from_tuple_v<TKey, typename A::supported_key_types>) dispatch<A>(r.target[0], WithKey<A, TKey>{ar, key});
	else r.unsupported = true;
}

template <class A>
void ObjRef::Serialize(A& ar) {
	if constexpr (is_counter<A>::value) {
		for (auto& f : n.fields) { (void)f; int dummy = 0; ar << dummy; }
	} else {
		if (n.scripted) {
			if constexpr (A::IsLoading()) {
				for (auto& r : n.script) {
					if (r.kind == Req::VisitKeys) {
						if constexpr (has_visit_keys<A>::value) {
							ar.VisitKeys([&r](auto&& k) {
								using KT = std::decay_t<decltype(k)>;
								if constexpr (std::is_same_v<KT, CBinTimestamp>) r.visited.push_back(ref::Val::ts(k.Seconds, static_cast<uint32_t>(k.Nanoseconds)).dump());
								else if constexpr (std::is_same_v<KT, float>) r.visited.push_back(ref::Val::flt(k).dump());
								else if constexpr (std::is_same_v<KT, double>) r.visited.push_back(ref::Val::dbl(k).dump());
								else if constexpr (std::is_integral_v<KT>) r.visited.push_back(ref::Val::integer(static_cast<ref::i128>(k)).dump());
								else r.visited.push_back(ref::Val::str(std::string(std::string_view(k))).dump());
							});
						} else r.unsupported = true;
					} else {
						switch (r.key.t) {
						case Key::S: if (keyMode() == 1) dispatch<A>(r.target[0], ViaKeyValue<A>{ar, r.key.s.c_str()}); else runGet(ar, r, r.key.s); break;
						case Key::I: runGet(ar, r, r.key.i); break;
						case Key::U: runGet(ar, r, r.key.u); break;
						case Key::F: runGet(ar, r, r.key.f); break;
						case Key::D: runGet(ar, r, r.key.d); break;
						case Key::TS: { CBinTimestamp t(r.key.ts_sec, r.key.ts_ns); runGet(ar, r, t); break; }
						}
					}
					r.stateAfter = ScopeProbe<A>::state(ar);
				}
			}
			return;
		}
		for (auto& f : n.fields) { if (keyMode() == 1) dispatch<A>(f.second, ViaKeyValue<A>{ar, f.first.c_str()}); else dispatch<A>(f.second, WithKey<A>{ar, f.first}); }
	}
}

template <class A>
void SerializeArray(A& ar, ArrRef& r) {
	if constexpr (A::IsLoading()) {
		r.n.attempted = 0;
		for (auto& it : r.n.items) { if (ar.IsEnd()) break; ++r.n.attempted; dispatch<A>(it, NoKey<A>{ar}); }
		r.n.leftover = !ar.IsEnd();
	} else {
		for (auto& it : r.n.items) dispatch<A>(it, NoKey<A>{ar});
	}
}

// ---- root entry points ------------------------------------------------------------------
// Root wrapper: LoadObject/SaveObject need one static type; the root kind is dispatched at run time.
struct Root { Node& n; };

template <class A>
bool Serialize(A& ar, Root& r) { dispatch<A>(r.n, NoKey<A>{ar}); return r.n.loaded; }

template <class TArchive, class TInput>
lib::Out load(Node& target, TInput&& input, const BS::SerializationOptions& o) {
	return lib::guard([&] { Root r{target}; BS::LoadObject<TArchive>(r, input, o); });
}
template <class TArchive, class TOutput>
lib::Out save(Node& source, TOutput& output, const BS::SerializationOptions& o) {
	return lib::guard([&] { Root r{source}; BS::SaveObject<TArchive>(r, output, o); });
}

} // namespace sv
