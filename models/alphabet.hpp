// alphabet.hpp — named value alphabets shared by the MsgPack-related harnesses.
// One symbol per boundary visible in the format specification / in the code.
#pragma once
#include "ref/val.hpp"
#include <cfloat>
#include <cmath>
#include <limits>

namespace alpha {

using ref::Val; using ref::i128;

struct Named { std::string name; Val v; };

inline std::vector<Named> ints() {
	std::vector<Named> r;
	auto add = [&](const char* n, i128 v) { r.push_back({std::string("int:") + n, Val::integer(v)}); };
	add("0", 0); add("1", 1); add("31", 31); add("32", 32); add("127", 127); add("128", 128); add("255", 255); add("256", 256);
	add("2^15-1", 32767); add("2^15", 32768); add("2^16-1", 65535); add("2^16", 65536);
	add("2^31-1", 2147483647ll); add("2^31", 2147483648ll); add("2^32-1", 4294967295ll); add("2^32", 4294967296ll);
	add("2^53+1", (1ll << 53) + 1); add("2^63-1", INT64_MAX); add("2^63", static_cast<i128>(INT64_MAX) + 1); add("2^64-1", static_cast<i128>(UINT64_MAX));
	add("-1", -1); add("-32", -32); add("-33", -33); add("-128", -128); add("-129", -129); add("-2^15", -32768); add("-2^15-1", -32769);
	add("-2^31", -2147483648ll); add("-2^31-1", -2147483649ll); add("-2^53-1", -(1ll << 53) - 1); add("-2^63", static_cast<i128>(INT64_MIN));
	return r;
}
inline std::vector<Named> floats() {
	std::vector<Named> r;
	auto f = [&](const char* n, float v) { r.push_back({std::string("f32:") + n, Val::flt(v)}); };
	auto d = [&](const char* n, double v) { r.push_back({std::string("f64:") + n, Val::dbl(v)}); };
	f("0", 0.f); f("-0", -0.f); f("1.5", 1.5f); f("3", 3.f); f("2^24", 16777216.f); f("max", FLT_MAX); f("denorm", std::numeric_limits<float>::denorm_min()); f("inf", INFINITY); f("-inf", -INFINITY); f("nan", NAN);
	d("0", 0.); d("1.5", 1.5); d("3", 3.); d("-200", -200.); d("0.1", 0.1); d("2^53", 9007199254740992.); d("fltmax", static_cast<double>(FLT_MAX)); d("gt_fltmax", 1e39); d("lt_-fltmax", -1e39);
	d("fltmax+tiny", std::nextafter(static_cast<double>(FLT_MAX), INFINITY)); d("max", DBL_MAX); d("denorm", std::numeric_limits<double>::denorm_min()); d("1e-50", 1e-50); d("inf", INFINITY); d("nan", NAN);
	return r;
}
inline std::vector<Named> others() {
	std::vector<Named> r;
	r.push_back({"nil", Val::nil()}); r.push_back({"bool:false", Val::boolean(false)}); r.push_back({"bool:true", Val::boolean(true)});
	r.push_back({"str:empty", Val::str("")}); r.push_back({"str:a", Val::str("a")}); r.push_back({"str:len31", Val::str(std::string(31, 'x'))}); r.push_back({"str:len32", Val::str(std::string(32, 'y'))});
	r.push_back({"str:digits", Val::str("12")});
	r.push_back({"bin:empty", Val::bin("")}); r.push_back({"bin:2", Val::bin(std::string("\x01\xff", 2))});
	r.push_back({"arr:empty", Val::arr()}); r.push_back({"arr:[1,2]", Val::arr({Val::integer(1), Val::integer(2)})});
	r.push_back({"arr:nested", Val::arr({Val::arr({Val::integer(1)}), Val::str("s")})});
	r.push_back({"map:empty", Val::map()}); r.push_back({"map:{x:1}", Val::map({{Val::str("x"), Val::integer(1)}})});
	r.push_back({"map:nested", Val::map({{Val::str("x"), Val::arr({Val::integer(1), Val::integer(2)})}, {Val::integer(5), Val::map()}})});
	r.push_back({"ts:0", Val::ts(0, 0)}); r.push_back({"ts:1.000000001", Val::ts(1, 1)}); r.push_back({"ts:2^32-1", Val::ts(4294967295ll, 0)}); r.push_back({"ts:2^32", Val::ts(4294967296ll, 0)});
	r.push_back({"ts:2^34-1.999999999", Val::ts((1ll << 34) - 1, 999999999)}); r.push_back({"ts:2^34", Val::ts(1ll << 34, 0)}); r.push_back({"ts:-1.5", Val::ts(-1, 500000000)}); r.push_back({"ts:min", Val::ts(INT64_MIN, 0)});
	for (size_t n : {1u, 2u, 3u, 4u, 8u, 16u, 17u}) r.push_back({"ext:5/len" + std::to_string(n), [n]{ Val v; v.k = Val::Ext; v.ext_type = 5; v.s = std::string(n, 'e'); return v; }()});
	r.push_back({"str:len300", Val::str(std::string(300, 'z'))}); r.push_back({"bin:300", Val::bin(std::string(300, 'b'))});
	{ Val a = Val::arr(); for (int i = 0; i < 17; ++i) a.a.push_back(Val::integer(i)); r.push_back({"arr:17", a}); }
	{ Val m = Val::map(); for (int i = 0; i < 17; ++i) m.m.emplace_back(Val::integer(i), Val::integer(i)); r.push_back({"map:17", m}); }
	return r;
}
inline std::vector<Named> scalarsAll() { auto r = ints(); for (auto& x : floats()) r.push_back(x); for (auto& x : others()) r.push_back(x); return r; }

} // namespace alpha
