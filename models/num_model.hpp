// num_model.hpp — reference semantics of loading a document value into a typed target
// (properties C04/C05/C07): exact arithmetic, no reference to the implementation.
// For every (document value, target kind, policies) it yields the SET of outcomes the
// property statements allow; where a statement leaves room, every reading is accepted.
#pragma once
#include "models/shaped_value.hpp"
#include <cfloat>
#include <set>

namespace model {

using ref::Val; using ref::i128; using sv::Node; using sv::K;

enum : unsigned { Exact = 1, NotLoaded = 2, ThrowOverflow = 4, ThrowMismatch = 8, Nearest = 16 };

struct Expect { unsigned allowed = 0; Val exact; Val nearest; };

inline bool intFits(i128 v, K k) {
	switch (k) {
	case sv::I8: return v >= -128 && v <= 127; case sv::U8: return v >= 0 && v <= 255;
	case sv::I16: return v >= -32768 && v <= 32767; case sv::U16: return v >= 0 && v <= 65535;
	case sv::I32: return v >= INT32_MIN && v <= INT32_MAX; case sv::U32: return v >= 0 && v <= UINT32_MAX;
	case sv::I64: return v >= static_cast<i128>(INT64_MIN) && v <= static_cast<i128>(INT64_MAX);
	case sv::U64: return v >= 0 && v <= static_cast<i128>(UINT64_MAX);
	default: return false;
	}
}

// crossFamily: int<->float<->bool conversions are "another kind" under one reading and
// "numeric value" under another; both are accepted (never a different value).
inline Expect expectScalar(const Val& v, K t, bool ovThrow, bool mmThrow) {
	Expect e;
	const unsigned ovOut = ovThrow ? ThrowOverflow : NotLoaded, mmOut = mmThrow ? ThrowMismatch : NotLoaded;
	auto exact = [&](Val x) { e.allowed |= Exact; e.exact = std::move(x); };
	if (v.k == Val::Nil) { if (t == sv::Nil) exact(Val::nil()); else e.allowed = NotLoaded | (mmThrow ? ThrowMismatch : 0); return e; }
	if (t == sv::Nil) { e.allowed = mmOut; return e; }
	const bool vNum = v.k == Val::Int || v.k == Val::Bool || v.k == Val::F32 || v.k == Val::F64;
	const bool tNum = sv::isInt(t) || t == sv::Bool || t == sv::F32 || t == sv::F64;
	if (vNum != tNum) { e.allowed = mmOut; return e; }
	if (!vNum) {
		if ((v.k == Val::Str && t == sv::Str) || (v.k == Val::Bin && t == sv::Bin) || (v.k == Val::Ts && t == sv::Ts)) { exact(v); return e; }
		e.allowed = mmOut; return e;
	}
	// numeric source, numeric target
	if (v.k == Val::Int) {
		if (sv::isInt(t)) { if (intFits(v.i, t)) exact(Val::integer(v.i)); else e.allowed = ovOut; return e; }
		if (t == sv::Bool) { if (v.i == 0 || v.i == 1) { exact(Val::boolean(v.i == 1)); e.allowed |= mmOut; } else e.allowed = ovOut | mmOut; return e; }
		if (t == sv::F32) { float f = static_cast<float>(v.i); if (static_cast<i128>(f) == v.i) exact(Val::flt(f)); else { e.allowed |= Nearest | ovOut; e.nearest = Val::flt(f); } e.allowed |= mmOut; return e; }
		{ double d = static_cast<double>(v.i); if (static_cast<i128>(d) == v.i) exact(Val::dbl(d)); else { e.allowed |= Nearest | ovOut; e.nearest = Val::dbl(d); } e.allowed |= mmOut; return e; }
	}
	if (v.k == Val::Bool) {
		if (t == sv::Bool) { exact(v); return e; }
		if (sv::isInt(t)) { exact(Val::integer(v.b ? 1 : 0)); e.allowed |= mmOut; return e; }
		if (t == sv::F32) { exact(Val::flt(v.b ? 1.f : 0.f)); e.allowed |= mmOut; return e; }
		exact(Val::dbl(v.b ? 1. : 0.)); e.allowed |= mmOut; return e;
	}
	// float source
	double d = v.asDouble();
	if (sv::isInt(t) || t == sv::Bool) {
		e.allowed = mmOut | ovOut;   // cross family; a non-integral or out-of-range value may never be stored
		if (std::isfinite(d) && d == std::floor(d) && std::fabs(d) < 1.9e19) {
			i128 iv = static_cast<i128>(d);
			if (t == sv::Bool) { if (iv == 0 || iv == 1) exact(Val::boolean(iv == 1)); }
			else if (intFits(iv, t)) exact(Val::integer(iv));
		}
		return e;
	}
	if (t == sv::F64) { exact(Val::dbl(d)); if (std::isnan(d)) e.allowed |= Nearest, e.nearest = Val::dbl(d); return e; }
	// target float
	if (v.k == Val::F32) { exact(v); return e; }
	if (std::isnan(d) || std::isinf(d)) { e.allowed = Nearest | ovOut; e.nearest = Val::flt(static_cast<float>(d)); return e; }   // carried over or reported
	if (std::fabs(d) > static_cast<double>(FLT_MAX)) {
		// rounds to FLT_MAX only within half an ulp above it; otherwise unrepresentable
		const double halfUlpAbove = static_cast<double>(FLT_MAX) + std::ldexp(1.0, 127 - 24);
		if (std::fabs(d) < halfUlpAbove) { e.allowed = Nearest | ovOut; e.nearest = Val::flt(d > 0 ? FLT_MAX : -FLT_MAX); }
		else e.allowed = ovOut;
		return e;
	}
	float f = static_cast<float>(d);
	if (static_cast<double>(f) == d) exact(Val::flt(f)); else { e.allowed = Nearest; e.nearest = Val::flt(f); }
	return e;
}

// Text-carrying formats (XML element text, CSV cells): the document holds a lexical value only.
// What a typed target may receive from the text `t` (C04/C05 semantics, numeric literal grammar of C16).
inline Expect expectFromText(const std::string& t, K k, bool ovThrow, bool mmThrow) {
	Expect e;
	const unsigned ovOut = ovThrow ? ThrowOverflow : NotLoaded, mmOut = mmThrow ? ThrowMismatch : NotLoaded;
	auto exact = [&](Val x) { e.allowed |= Exact; e.exact = std::move(x); };
	if (k == sv::Str) { exact(Val::str(t)); return e; }
	if (k == sv::Nil || k == sv::Bin || k == sv::Ts) { e.allowed = mmOut | NotLoaded; return e; }
	size_t i = 0; while (i < t.size() && (t[i] == ' ' || t[i] == '\t')) ++i;
	std::string body = t.substr(i);
	bool neg = !body.empty() && body[0] == '-'; size_t d0 = neg ? 1 : 0, d1 = d0;
	while (d1 < body.size() && body[d1] >= '0' && body[d1] <= '9') ++d1;
	const bool hasDigits = d1 > d0;
	if (k == sv::Bool) {
		std::string low; for (char ch : body) low.push_back(static_cast<char>(ch >= 'A' && ch <= 'Z' ? ch + 32 : ch));
		if (low.rfind("true", 0) == 0) { exact(Val::boolean(true)); return e; }
		if (low.rfind("false", 0) == 0) { exact(Val::boolean(false)); return e; }
		if (!neg && hasDigits) { if (d1 - d0 == 1 && (body[d0] == '0' || body[d0] == '1')) exact(Val::boolean(body[d0] == '1')); else e.allowed = ovOut | mmOut; return e; }
		e.allowed = mmOut; return e;
	}
	if (sv::isInt(k)) {
		if (!hasDigits) { e.allowed = mmOut; return e; }
		if (d1 + 1 < body.size() + 0 && body[d1] == '.' && d1 + 1 < body.size() && body[d1 + 1] >= '0' && body[d1 + 1] <= '9') { e.allowed = mmOut; return e; }   // fractional literal for an integer target
		i128 v = 0; bool big = false;
		for (size_t j = d0; j < d1; ++j) { v = v * 10 + (body[j] - '0'); if (v > (static_cast<i128>(1) << 70)) { big = true; break; } }
		if (neg) v = -v;
		if (!big && intFits(v, k)) exact(Val::integer(v)); else e.allowed = ovOut;
		if (neg && !sv::isSigned(k)) e.allowed |= mmOut | ovOut;   // "-1" for an unsigned target: from_chars reports invalid_argument, a range error is equally acceptable
		return e;
	}
	// floating targets: glibc strtod on the literal prefix
	if (!hasDigits && !(d0 < body.size() && body[d0] == '.')) {
		// inf / nan spellings are accepted by from_chars; the statement leaves them open
		e.allowed = mmOut | Exact | Nearest; char* end = nullptr; double dv = strtod(body.c_str(), &end);
		if (end == body.c_str()) { e.allowed = mmOut; return e; }
		e.exact = k == sv::F32 ? Val::flt(static_cast<float>(dv)) : Val::dbl(dv); e.nearest = e.exact; return e;
	}
	char* end = nullptr; double dv = strtod(body.c_str(), &end);
	if (k == sv::F64) { if (std::isinf(dv)) e.allowed = ovOut; else exact(Val::dbl(dv)); return e; }
	float fv = strtof(body.c_str(), &end);
	if (std::isinf(fv)) e.allowed = ovOut; else exact(Val::flt(fv));
	return e;
}

inline bool sameScalar(const Val& a, const Val& b) {
	if (a.k != b.k) return false;
	if (a.k == Val::F32) { float x, y; std::memcpy(&x, &a.f32, 4); std::memcpy(&y, &b.f32, 4); return (std::isnan(x) && std::isnan(y)) || a.f32 == b.f32; }
	if (a.k == Val::F64) { double x = a.asDouble(), y = b.asDouble(); return (std::isnan(x) && std::isnan(y)) || a.f64 == b.f64; }
	return a.dump() == b.dump();
}

inline bool canaryIntact(const Node& n) { Node c; c.k = n.k; c.canary(); Node m = n; m.loaded = false; m.unsupported = false; return c.toVal().dump() == m.toVal().dump(); }

inline std::string textOf(const Val& v) {   // lexical form used by the reference emitters (harness/typed_load.hpp)
	switch (v.k) {
	case Val::Bool: return v.b ? "true" : "false";
	case Val::Int: return ref::i128str(v.i);
	case Val::F32: { char b[64]; float f; std::memcpy(&f, &v.f32, 4); snprintf(b, sizeof b, "%.9g", static_cast<double>(f)); std::string r = b; if (r.find_first_of(".eEni") == std::string::npos) r += ".0"; return r; }
	case Val::F64: { char b[64]; snprintf(b, sizeof b, "%.17g", v.asDouble()); std::string r = b; if (r.find_first_of(".eEni") == std::string::npos) r += ".0"; return r; }
	case Val::Str: return v.s;
	default: return "";
	}
}

struct Checker {
	bool ovThrow, mmThrow;
	bool textSource = false;                   // XML/CSV: scalars are carried as text
	std::vector<std::string> complaints;       // after a successful load
	unsigned throwsAllowed = 0;                // union over all nodes (ThrowOverflow|ThrowMismatch)
	bool mustThrow = false;                    // some node allows only throwing outcomes
	bool incompatible = false;                 // some node cannot simply receive the document value (mismatch, overflow, nil, absent key, count mismatch)

	static const Val* findKey(const Val& map, const std::string& key) {
		for (auto& kv : map.m) if (kv.first.k == Val::Str && kv.first.s == key) return &kv.second;
		return nullptr;
	}
	// Walks document and target shape. If `verify`, the target has been loaded and is compared.
	void walk(const Val* doc, const Node& n, const std::string& path, bool verify) {
		if (n.unsupported) return;
		if (!doc) {   // absent key
			incompatible = true;
			if (verify) { if (n.loaded) complaints.push_back(path + ": absent key reported as loaded"); else if (n.k != sv::Arr && n.k != sv::Obj && !canaryIntact(n)) complaints.push_back(path + ": absent key changed the target to " + n.toVal().dump()); }
			return;
		}
		if (n.k == sv::Obj && n.scripted && doc->k == Val::Map) {
			if (verify && !n.loaded) { complaints.push_back(path + ": object reported not loaded"); return; }
			for (size_t qi = 0; qi < n.script.size(); ++qi) {
				const sv::Req& q = n.script[qi];
				if (q.unsupported) continue;
				std::string qp = path + "#" + std::to_string(qi);
				if (q.kind == sv::Req::VisitKeys) {
					if (!verify) continue;
					std::vector<std::string> exp; for (auto& kv : doc->m) exp.push_back(kv.first.dump());
					if (exp != q.visited) { std::string g; for (auto& v : q.visited) g += v + ","; complaints.push_back(qp + ":VisitKeys enumerated [" + g + "] for " + doc->dump()); }
					continue;
				}
				const Val* found = nullptr; Val kv = q.key.toVal();
				for (auto& e : doc->m) if (sameScalar(e.first, kv)) { found = &e.second; break; }
				walk(found, q.target[0], qp + ":get(" + q.key.str() + ")", verify);
			}
			return;
		}
		if (n.k == sv::Arr || n.k == sv::Obj) {
			bool kindOk = (n.k == sv::Arr && doc->k == Val::Arr) || (n.k == sv::Obj && doc->k == Val::Map);
			if (!kindOk) {
				incompatible = true;
				unsigned allowed = doc->k == Val::Nil ? (NotLoaded | (mmThrow ? ThrowMismatch : 0u)) : (mmThrow ? ThrowMismatch : NotLoaded);
				throwsAllowed |= allowed & (ThrowMismatch | ThrowOverflow);
				if (!(allowed & NotLoaded)) mustThrow = true;
				if (verify && n.loaded) complaints.push_back(path + ": container target reported loaded from " + doc->dump());
				return;
			}
			if (verify && !n.loaded) { complaints.push_back(path + ": container of matching kind reported not loaded"); return; }
			if (n.k == sv::Arr) {
				size_t m = std::min(n.items.size(), doc->a.size());
				if (n.items.size() != doc->a.size()) incompatible = true;
				if (verify && n.attempted != m) complaints.push_back(path + ": attempted " + std::to_string(n.attempted) + " elements, document has " + std::to_string(doc->a.size()));
				if (verify && n.leftover != (doc->a.size() > n.items.size())) complaints.push_back(path + ": wrong IsEnd() after reading the shape's elements");
				for (size_t i = 0; i < m; ++i) walk(&doc->a[i], n.items[i], path + "/" + std::to_string(i), verify);
			} else {
				for (auto& f : n.fields) walk(findKey(*doc, f.first), f.second, path + "/" + f.first, verify);
			}
			return;
		}
		if (n.k == sv::Bin && doc->k == Val::Arr) {
			// byte containers fall back to an array of numbers (documented behaviour)
			bool allBytes = true; std::string bytes; incompatible = true;
			for (auto& e : doc->a) { if (e.k != Val::Int || e.i < 0 || e.i > 255) { allBytes = false; break; } bytes.push_back(static_cast<char>(e.i)); }
			if (allBytes) { if (verify && n.loaded && std::string(n.bin.begin(), n.bin.end()) != bytes) complaints.push_back(path + ": byte container loaded " + n.toVal().dump() + " from " + doc->dump()); if (mmThrow) throwsAllowed |= ThrowMismatch; return; }
			throwsAllowed |= ThrowMismatch | ThrowOverflow; return;   // element-level outcome, judged leniently
		}
		Expect e;
		if (textSource && (doc->k == Val::Arr || doc->k == Val::Map)) e.allowed = NotLoaded | (mmThrow ? ThrowMismatch : 0u);   // element with children has no text: treated as null or as a mismatch
		else if (textSource && doc->k != Val::Nil) e = expectFromText(doc->k == Val::Str ? doc->s : textOf(*doc), n.k, ovThrow, mmThrow);
		else e = expectScalar(*doc, n.k, ovThrow, mmThrow);
		throwsAllowed |= e.allowed & (ThrowMismatch | ThrowOverflow);
		if (!(e.allowed & (Exact | NotLoaded | Nearest))) mustThrow = true;
		if (!(e.allowed & (Exact | Nearest)) || (e.allowed & (ThrowMismatch | ThrowOverflow | NotLoaded))) incompatible = true;
		if (!verify) return;
		if (n.loaded) {
			Val got = n.toVal();
			bool ok = ((e.allowed & Exact) && sameScalar(got, e.exact)) || ((e.allowed & Nearest) && sameScalar(got, e.nearest));
			if (!ok) complaints.push_back(path + ": loaded " + got.dump() + " into " + sv::kname(n.k) + " from " + doc->dump() + ((e.allowed & Exact) ? " expected " + e.exact.dump() : " (no value is acceptable)"));
		} else {
			if (!(e.allowed & NotLoaded)) complaints.push_back(path + ": not loaded, but " + doc->dump() + " into " + sv::kname(n.k) + " must " + ((e.allowed & Exact) ? "load " + e.exact.dump() : "throw"));
			else if (!canaryIntact(n)) complaints.push_back(path + ": reported not loaded but target changed to " + n.toVal().dump());
		}
	}
};

} // namespace model
