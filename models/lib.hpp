// lib.hpp — common glue between harnesses and the real BitSerializer implementation.
#pragma once
#include "engine/bsx.hpp"
#include "engine/env.hpp"
#include "bitserializer/bit_serializer.h"
#include <sstream>
#include <string>

namespace lib {

namespace BS = BitSerializer;

inline const char* codeName(BS::SerializationErrorCode c) {
	switch (c) {
	case BS::SerializationErrorCode::InvalidOptions: return "InvalidOptions";
	case BS::SerializationErrorCode::ParsingError: return "ParsingError";
	case BS::SerializationErrorCode::InputOutputError: return "InputOutputError";
	case BS::SerializationErrorCode::UnsupportedEncoding: return "UnsupportedEncoding";
	case BS::SerializationErrorCode::UtfEncodingError: return "UtfEncodingError";
	case BS::SerializationErrorCode::OutOfRange: return "OutOfRange";
	case BS::SerializationErrorCode::Overflow: return "Overflow";
	case BS::SerializationErrorCode::MismatchedTypes: return "MismatchedTypes";
	case BS::SerializationErrorCode::FailedValidation: return "FailedValidation";
	case BS::SerializationErrorCode::UnregisteredEnum: return "UnregisteredEnum";
	}
	return "?";
}

// Outcome of one guarded call. cls: "ok" | "ser:<code>" | "std:<type>" | "nonstd"
struct Out {
	std::string cls, what;
	BS::ValidationMap validation;
	bool ok() const { return cls == "ok"; }
	bool threw() const { return cls != "ok"; }
	bool is(const char* c) const { return cls == c; }
};

template <class F>
Out guard(F&& f) {
	Out o;
	try { f(); o.cls = "ok"; }
	catch (const BS::ValidationException& e) { o.cls = "ser:FailedValidation"; o.what = e.what(); o.validation = e.GetValidationErrors(); }
	catch (const BS::SerializationException& e) { o.cls = std::string("ser:") + codeName(e.GetErrorCode()); o.what = e.what(); }
	catch (const bsx::SkipSubtree&) { throw; }
	catch (const std::bad_alloc& e) { o.cls = "std:bad_alloc"; o.what = e.what(); }
	catch (const std::exception& e) { o.cls = "std:" + bsx::demangle(typeid(e).name()); o.what = e.what(); }
	catch (...) { o.cls = "nonstd"; }
	return o;
}

inline BS::SerializationOptions opts(bool overflowThrow = true, bool mismatchThrow = true) {
	BS::SerializationOptions o;
	o.overflowNumberPolicy = overflowThrow ? BS::OverflowNumberPolicy::ThrowError : BS::OverflowNumberPolicy::Skip;
	o.mismatchedTypesPolicy = mismatchThrow ? BS::MismatchedTypesPolicy::ThrowError : BS::MismatchedTypesPolicy::Skip;
	return o;
}
inline const char* polName(bool overflowThrow, bool mismatchThrow) {
	return overflowThrow ? (mismatchThrow ? "TT" : "TS") : (mismatchThrow ? "ST" : "SS");
}

} // namespace lib
