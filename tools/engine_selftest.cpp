// Self-test of the explorer's hang confirmation (tools/engine_selftest.cpp):
//  case 1 stalls once (first attempt only, marker file) -> must NOT be reported (spurious stall retried);
//  case 2 spins forever -> must be reported as hang; all other cases finish.
#include "../engine/bsx.hpp"
#include <unistd.h>
#include <sys/stat.h>
static std::string marker;
static void body(bsx::Ctx& c) {
	int a = c.choose(4);
	c.describe("T/case=" + std::to_string(a), "case " + std::to_string(a));
	if (a == 1) { struct stat st; if (stat(marker.c_str(), &st) != 0) { FILE* f = fopen(marker.c_str(), "w"); if (f) fclose(f); sleep(4); } }
	if (a == 2) for (volatile int i = 0;; ) { i = i + 1; }
	if (a == 3) { std::string r = c.isolate([&] { struct stat st; std::string m2 = marker + ".iso"; if (stat(m2.c_str(), &st) != 0) { FILE* f = fopen(m2.c_str(), "w"); if (f) fclose(f); sleep(3); } return std::string("fine"); }, 0.5); c.outcome("iso:" + r); if (r != "ok:fine") c.violation("T/iso_false_hang", r); }
	c.outcome("done" + std::to_string(a));
}
int main(int argc, char** argv) {
	marker = std::string("/verif/build/selftest/marker.") + std::to_string(getpid());
	bsx::Config cfg; cfg.part_depth = 1; cfg.max_dev = 0; cfg.hang_s = 0.25;
	bsx::Engine e("T", body, cfg);
	int rc = e.main(argc, argv);
	unlink(marker.c_str()); unlink((marker + ".iso").c_str());
	return rc;
}
