#!/usr/bin/env python3
"""Cross-checks the reference MessagePack codec (ref/ref_msgpack.hpp) against pip._vendor.msgpack."""
import subprocess, sys, os, struct
from pip._vendor import msgpack
VERIF = os.path.dirname(os.path.dirname(os.path.abspath(__file__)))
exe = os.path.join(VERIF, 'build', 'ref_selftest')
os.makedirs(os.path.dirname(exe), exist_ok=True)
r = subprocess.run(['g++', '-std=c++17', '-O1', '-w', '-I' + VERIF, os.path.join(VERIF, 'tools', 'ref_selftest.cpp'), '-o', exe])
if r.returncode: sys.exit(2)
out = subprocess.run([exe], stdout=subprocess.PIPE, text=True).stdout

def hx(b): return b.hex()
def dump(o):
    if o is None: return 'nil'
    if o is True: return 'true'
    if o is False: return 'false'
    if isinstance(o, int): return str(o)
    if isinstance(o, float): return 'f64:%016x' % struct.unpack('>Q', struct.pack('>d', o))[0]
    if isinstance(o, str): return 's"%s"' % o.encode('utf-8', 'surrogateescape').hex()
    if isinstance(o, (bytes, bytearray)): return 'b"%s"' % bytes(o).hex()
    if isinstance(o, msgpack.Timestamp): return 'ts(%d,%d)' % (o.seconds, o.nanoseconds)
    if isinstance(o, msgpack.ExtType): return 'ext%d"%s"' % (o.code, o.data.hex())
    if isinstance(o, list): return '[' + ','.join(dump(x) for x in o) + ']'
    if isinstance(o, Pairs): return '{' + ','.join(dump(k) + ':' + dump(v) for k, v in o.items) + '}'
    raise TypeError(type(o))
class Pairs:
    def __init__(self, items): self.items = items
bad = n = 0
for line in out.splitlines():
    name, h, err, used, d = line.split('\t')
    raw = bytes.fromhex(h); n += 1
    try:
        up = msgpack.Unpacker(raw=False, strict_map_key=False, object_pairs_hook=lambda p: Pairs(p), timestamp=0, unicode_errors='surrogateescape')
        up.feed(raw); obj = up.unpack()
        theirs = dump(obj)
    except Exception as e:
        theirs = 'ERR ' + type(e).__name__
    mine = d
    # float32 values: the independent decoder widens to double; compare numerically
    if mine.startswith('f32:'):
        f = struct.unpack('>f', bytes.fromhex(mine[4:]))[0]
        mine = 'f64:%016x' % struct.unpack('>Q', struct.pack('>d', f))[0]
    if name.startswith('ts:') and h.startswith('c70cff'):
        # timestamp 96: seconds before 1970 / beyond datetime range are fine for Timestamp objects
        pass
    if int(err) != 0 or mine != theirs:
        if 'nan' in name and mine[:8] == theirs[:8]: continue
        bad += 1; print('MISMATCH', name, h, 'ref:', d, 'independent:', theirs)
print('ref_selftest: %d encodings compared with pip._vendor.msgpack %s, %d mismatches' % (n, '.'.join(map(str, msgpack.version)), bad))
sys.exit(1 if bad else 0)
