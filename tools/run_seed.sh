#!/bin/bash
# run_seed.sh <seed-id> <check> [<check>...] : apply /verif/seeded/<seed-id>/patch.diff to /repo, run the quick
# tier of the given checks, record which of them raise an unlisted VIOLATION, undo the change.
ID=$1; shift
# While other jobs use /repo the change is applied to a scratch worktree of /repo's HEAD and the checks are pointed at it
# (VERIF_REPO); with SEED_IN_REPO=1 it is applied to /repo itself and undone afterwards.
cd /verif
if [ "${SEED_IN_REPO:-0}" = "1" ]; then
  git -C /repo diff --quiet || { echo "/repo has uncommitted changes"; exit 2; }
  git -C /repo apply /verif/seeded/$ID/patch.diff || { echo "patch does not apply"; exit 2; }
  export VERIF_REPO=/repo
else
  WT=/tmp/seedrun_wt_$ID; git -C /repo worktree remove --force $WT 2>/dev/null; git -C /repo worktree add -q $WT HEAD || exit 2
  git -C $WT apply /verif/seeded/$ID/patch.diff || { echo "patch does not apply"; git -C /repo worktree remove --force $WT; exit 2; }
  export VERIF_REPO=$WT
fi
for CHK in "$@"; do
  VERIF_NO_EVIDENCE=1 python3 run_check.py $CHK --tier quick > /tmp/seedrun_${ID}_$CHK.log 2>&1; RC=$?
  NV=$(grep -c "^VIOLATION" /tmp/seedrun_${ID}_$CHK.log)
  FIRST=$(grep "^VIOLATION" /tmp/seedrun_${ID}_$CHK.log | head -1 | sed 's/.*sig=//' | cut -c1-230)
  echo "SEED $ID CHECK $CHK rc=$RC violations=$NV first=$FIRST"
  python3 - "$ID" "$CHK" "$RC" "$NV" "$FIRST" <<'PY'
import json,sys
sid,chk,rc,nv,first=sys.argv[1:6]
p='/verif/seeded/%s/meta.json'%sid
m=json.load(open(p))
m['checks_run']=[c for c in m.get('checks_run',[]) if c.get('check')!=chk]+[dict(check=chk, tier='quick', exit_code=int(rc), violation_lines=int(nv), first_signature=first, detected=int(rc)==1)]
json.dump(m,open(p,'w'),indent=1)
PY
done
if [ "${SEED_IN_REPO:-0}" = "1" ]; then git -C /repo checkout -- . ; else git -C /repo worktree remove --force $WT; fi
