#!/bin/bash
# verify_seed.sh <seed-id> <worktree> : confirm a seeded change independently (pinned suite passes with it,
# demo fails with it and passes without it), then store it under /verif/seeded/<seed-id>/
set -u
ID=$1; WT=$2; OUT=/verif/seeded/$ID; mkdir -p $OUT
cd $WT || exit 2
git diff -- include src > $OUT/patch.diff
[ -s $OUT/patch.diff ] || { echo "no change in worktree"; exit 2; }
cp demo/demo.cpp $OUT/demo.cpp; cp demo/meta.json $OUT/meta.agent.json 2>/dev/null
BUILD="g++ -std=c++17 -O1 -I$WT/include -I$WT/src $WT/demo/demo.cpp $WT/src/msgpack/*.cpp $WT/src/csv/*.cpp $WT/src/common/*.cpp -lpugixml -o $WT/demo/demo"
cmake -G Ninja -S $WT -B $WT/_build -DBUILD_TESTS=ON -DCMAKE_BUILD_TYPE=RelWithDebInfo > $WT/_cfg.log 2>&1
cmake --build $WT/_build -j12 > $WT/_build.log 2>&1 || { echo "PINNED BUILD FAILED"; tail -5 $WT/_build.log; exit 1; }
PINNED=$(ctest --test-dir $WT/_build -j8 2>&1 | grep -E "tests passed|tests failed")
echo "pinned with change: $PINNED"
$BUILD 2> $WT/demo/build.err || { echo "demo build failed (with change)"; tail -3 $WT/demo/build.err; exit 1; }
$WT/demo/demo > $WT/demo/out_with.txt 2>&1; RC_WITH=$?
git apply -R $OUT/patch.diff   # worktree-local (git stash is shared by all worktrees of a repository)
$BUILD 2> $WT/demo/build.err || { echo "demo build failed (without change)"; git apply $OUT/patch.diff; exit 1; }
$WT/demo/demo > $WT/demo/out_without.txt 2>&1; RC_WITHOUT=$?
git apply $OUT/patch.diff
echo "demo with change: rc=$RC_WITH  $(tail -2 $WT/demo/out_with.txt | tr '\n' ' ' | cut -c1-200)"
echo "demo without change: rc=$RC_WITHOUT  $(tail -1 $WT/demo/out_without.txt | cut -c1-200)"
rm -rf $WT/_build
python3 - "$ID" "$OUT" "$PINNED" "$RC_WITH" "$RC_WITHOUT" "$WT" <<'PY'
import json,sys,os
sid,out,pinned,rw,rwo,wt=sys.argv[1:7]
agent={}
try: agent=json.load(open(os.path.join(out,'meta.agent.json')))
except Exception: pass
meta=dict(seed_id=sid, property=agent.get('property',sid.split('-')[0]), summary=agent.get('summary',''), files=agent.get('files',[]), needs_to_manifest=agent.get('needs_to_manifest',''),
          confirmed_by_lead=dict(pinned_suite_with_change=pinned, demo_rc_with_change=int(rw), demo_rc_without_change=int(rwo),
                                 demo_output_with_change=open(os.path.join(wt,'demo/out_with.txt')).read()[-600:], how='tools/verify_seed.sh: cmake+ctest of the pinned suite in the scratch worktree with the change applied; demo built and run with the change, then after git stash (without), then restored'),
          checks_run=[])
json.dump(meta, open(os.path.join(out,'meta.json'),'w'), indent=1)
os.remove(os.path.join(out,'meta.agent.json')) if os.path.exists(os.path.join(out,'meta.agent.json')) else None
ok = ('100% tests passed' in pinned) and int(rw)!=0 and int(rwo)==0
print('CONFIRMED' if ok else 'NOT CONFIRMED')
PY
