#!/bin/bash
# seed_pipeline.sh <seed-id> <worktree> <check>... : confirm a seed (verify_seed.sh), remove its worktree, run checks against it
ID=$1; WT=$2; shift; shift
cd /verif
tools/verify_seed.sh $ID $WT > /tmp/verify_$ID.log 2>&1
tail -4 /tmp/verify_$ID.log
if grep -q "^CONFIRMED" /tmp/verify_$ID.log; then
  git -C /repo worktree remove --force $WT
  tools/run_seed.sh $ID "$@"
else
  echo "SEED $ID NOT CONFIRMED (worktree kept)"
fi
