#!/usr/bin/env python3
"""merge_findings.py <Cxx>: moves the finding lines of KNOWN_FINDINGS.d/<Cxx>.txt that still match something
(i.e. are not reported stale by the last run of the check) into KNOWN_FINDINGS.txt and deletes the fragment."""
import sys, os, re, json
V = os.path.dirname(os.path.dirname(os.path.abspath(__file__)))
pid = sys.argv[1]
frag = os.path.join(V, 'KNOWN_FINDINGS.d', pid + '.txt')
stale = set(json.load(open(os.path.join(V, 'evidence', pid + '.json')))['coverage']['stale_known_finding_patterns'])
keep = []
for line in open(frag):
    m = re.match(r'finding:\s+property=(\S+)\s+sig=(\S+)\s+::', line)
    if m and m.group(2) not in stale: keep.append(line.rstrip())
    elif m: print('dropped (stale after fixes):', m.group(2))
with open(os.path.join(V, 'KNOWN_FINDINGS.txt'), 'a') as f:
    f.write('\n' + '\n'.join(keep) + '\n')
os.remove(frag)
print('merged %d finding lines for %s' % (len(keep), pid))
