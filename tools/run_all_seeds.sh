#!/bin/bash
# run_all_seeds.sh [lane] [lanes] : regression run of every seeded change against the check of its own property (quick tier),
# on the current /repo HEAD; results go to seeded/<id>/meta.json (checks_run) and to stdout.
LANE=${1:-0}; LANES=${2:-1}
cd /verif
i=0
for d in seeded/*/; do
  id=$(basename $d); prop=$(python3 -c "import json;print(json.load(open('$d/meta.json'))['property'])")
  if [ $((i % LANES)) -eq $LANE ]; then tools/run_seed.sh $id $prop; fi
  i=$((i+1))
done
echo LANE-$LANE-DONE
