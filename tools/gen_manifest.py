#!/usr/bin/env python3
"""Regenerates /verif/MANIFEST.json from checks.py (single source of truth)."""
import json, os, sys
VERIF = os.path.dirname(os.path.dirname(os.path.abspath(__file__)))
sys.path.insert(0, VERIF)
from checks import CHECKS
READY = [l.strip() for l in open(os.path.join(VERIF, 'checks.d', 'READY.txt')) if l.strip() and not l.startswith('#')]
CHECKS = {k: v for k, v in CHECKS.items() if k in READY}
props = [json.loads(l)['id'] for l in open(os.path.join(VERIF, 'properties.jsonl'))]
checks = []
for pid in props:
    if pid not in CHECKS:
        continue
    c = CHECKS[pid]
    checks.append(dict(
        property_id=pid,
        quick_cmd='python3 run_check.py %s --tier quick' % pid,
        thorough_cmd='python3 run_check.py %s --tier thorough' % pid,
        evidence_file='/verif/evidence/%s.json' % pid,
        replay_cmd_template='python3 run_check.py %s --replay {path}' % pid,
        engine='bsx',
        level_claimed=dict(category=c['level'], text=c['level_text'], design_ref=c.get('design_ref', 'DESIGN.md section 4, ' + pid)),
        level_note=c['level_note'],
        technique=c['technique'],
    ))
na = [dict(property_id=p, reason='check not built yet in this commit (work in progress; see DESIGN.md section 4 for its design)') for p in props if p not in CHECKS]
m = dict(
    version=1,
    setup_cmd='python3 run_check.py --setup',
    hooks=dict(guard='BITSERIALIZER_VERIF',
               enable='-DBITSERIALIZER_VERIF [-DBITSERIALIZER_VERIF_CHUNK_SIZE=16 -DBITSERIALIZER_VERIF_ENCODED_CHUNK_SIZE=32]; harnesses compile /repo/include and /repo/src/**/*.cpp directly (run_check.py)',
               baseline_off_cmd='cmake --build /repo/_build -j16 && ctest --test-dir /repo/_build -j8 --timeout 900',
               source_commits=['45d2192'], add_only=True),
    engines=[dict(name='bsx', path='/verif/engine/bsx.hpp', serves_properties=sorted(CHECKS),
                  kind_free_text='hand-written stateless explorer: choose/deviate decision points, DFS by prefix replay, iterative deviation bounding, forked supervised workers (crash/terminate/hang become outcomes), replay of single choice vectors; every explored behaviour is an execution of the real implementation')],
    checks=checks,
    not_applicable=na,
    notes='Technique family: bounded exhaustive exploration (model checking of the implementation itself). KNOWN_FINDINGS.txt lists genuine defects recorded rather than repaired; fix: commits in /repo are listed there as fixed: lines.',
)
json.dump(m, open(os.path.join(VERIF, 'MANIFEST.json'), 'w'), indent=1)
print('MANIFEST.json: %d checks, %d not_applicable' % (len(checks), len(na)))
