// ref_selftest.cpp — dumps (bytes, reference decoding) pairs of the reference MessagePack codec over the shared
// alphabets and every format alternative; tools/ref_selftest.py compares them with an independent implementation
// (pip._vendor.msgpack). Part of MANIFEST.setup_cmd.
#include "ref/ref_msgpack.hpp"
#include "models/alphabet.hpp"
#include "engine/bsx.hpp"
#include <cstdio>
int main() {
	auto vals = alpha::scalarsAll();
	size_t n = 0;
	for (auto& nv : vals) {
		// enumerate all alternatives of the top-level value by an odometer over picker calls
		std::vector<int> choice, arity;
		for (;;) {
			size_t idx = 0; std::vector<int> ar;
			ref::mp::Picker pick = [&](int k, const char*) { int v = idx < choice.size() ? choice[idx] : 0; if (idx >= choice.size()) choice.push_back(0); ar.push_back(k); ++idx; return v; };
			std::string bytes = ref::mp::encode(nv.v, pick);
			ref::Val back; size_t used = 0; auto err = ref::mp::decodeOne(bytes, back, &used);
			printf("%s\t%s\t%d\t%zu\t%s\n", nv.name.c_str(), bsx::hex(bytes).c_str(), static_cast<int>(err), used, err == ref::mp::Err::Ok ? back.dump().c_str() : "-");
			++n;
			// advance odometer (only the first 3 picker positions vary: enough to cover every format once per value)
			size_t k = std::min<size_t>(ar.size(), 3); bool adv = false;
			while (k > 0) { if (choice[k - 1] + 1 < ar[k - 1]) { choice.resize(k); choice[k - 1]++; adv = true; break; } --k; }
			if (!adv) break;
		}
	}
	fprintf(stderr, "ref_selftest: %zu encodings\n", n);
	return 0;
}
