from checks_common import *

# `fast` variant: plain -O2 build of the same harness with -DC16_SWEEP = the sweep over all 2^32 float bit
# patterns (thorough tier only). The sanitizer variant runs everything else in both tiers.
SWEEP = dict(name='fast', flavour='fast', defs=['-DC16_SWEEP'], tiers=('thorough',))

CHECK = dict(
    src=['harness/c16_numtext.cpp'], variants=[P, SWEEP], level='exploration',
    technique='bounded exhaustive enumeration of values (ToString -> text -> value) and of input strings (text -> value / exception), executed on the real '
              'Convert::To / TryTo / ToString / ToWString in four string widths, judged by an independent reference (own literal grammar, __int128, glibc strtof/strtod, printf %.{p}e)',
    level_text='Every case runs the real conversion functions. Complete within the stated bounds: all values of the 8/16-bit integer types, all 2^32 float bit patterns (thorough), '
               'all strings of length <= 5 (thorough 6) over the 13-symbol alphabet and the listed literal families, each into 14 targets x 4 string widths x {To, TryTo}. '
               '32/64-bit integers and doubles are covered on lattices only; strings longer than the bound only through the families.',
    level_note='Trusted: ref/ref_numparse.hpp (grammar + __int128 + glibc strtof/strtod/printf as independent arbitrary-precision arithmetic; self-test runs as scenario 0), the explorer engine. '
               'libstdc++ to_chars/from_chars are part of the implementation under test, not of the oracle.',
    rule='exhaustive enumeration: (1) ToString in 4 widths of every value of char/int8/uint8/int16/uint16 and of the +-2^k, +-2^k+-1, 10^k+-1 lattice + limits of the 32/64-bit types and bool: '
         'text == reference decimal, To<T>(text) == x, TryTo agrees; (2) floats: 256 exponents x 64 mantissa patterns x sign in 4 widths (sanitizer build) and all 2^32 bit patterns '
         '(thorough, -O2 build, char strings), doubles: 2047 exponents x 170 mantissa patterns x sign, powers of ten +-2 ulp, k/10^j (k<=9999, j<=4), 2^k+-2, accumulated decimal sums: text is a '
         'decimal literal, strtof/strtod returns the identical bits, no decimal with fewer significant digits does (nearest (n-1)-digit decimal and, for powers of two, its two neighbours), '
         'To<T>(text) returns the identical bits; (3) parser: every string of length <= 5 (thorough <= 6) over {space, TAB, +, -, 0, 1, 9, ., e, x, a, NUL, U+00E9}; digit runs of 1..40 digits '
         '(1..1, 9..9, 10..0, 0..0) x sign x leading zeros x suffix; decimal 2^k, 2^k+-1 for k < 128; float digit runs x 4 dot positions x 77 exponent suffixes (e-400..e400, 20-digit '
         'exponents); exact midpoints between all adjacent powers-of-two-anchored floats and doubles (up to 1100 digits) and the literals just above/below, overflow thresholds, smallest '
         'normal/subnormal; true/false in all case patterns x 14 suffixes x 4 blank prefixes, near misses, inf/nan words; each x 14 targets (char, int8..uint64, long long, unsigned long long, '
         'float, double, bool) x {char, char16_t, char32_t, wchar_t} x {To, TryTo}. Oracle: reference scan of the leading literal, exact value, representability in the target. '
         'evaluations = library conversions; distinct_nontrivial = distinct input strings / distinct (type, value) pairs (sweep: distinct (exponent, digit count) pairs).',
    assumptions=[
        'A1 plus sign: the statement does not say whether "+1" is a numeric literal; invalid_argument and the value of the literal without the plus sign are both accepted',
        'A2 minus sign for unsigned targets and bool: std::from_chars knows no minus for unsigned types and the pinned suite demands To<bool>("-1") -> invalid_argument, the statement read literally '
        'demands out_of_range ("-1") or 0 ("-0"); all of these are accepted, any other value is a violation',
        'A3 "1.5" for bool: the statement forbids fractional literals for "an integer target" and lists bool separately; true/false by the integer part and invalid_argument are both accepted',
        'A4 inf / infinity / nan / nan(...) for float targets: either the IEEE value or invalid_argument is accepted (the statement only speaks of numeric literals); for integer targets and bool they are not literals',
        'A5 a non-zero literal whose nearest float/double is zero (e.g. 1e-400): out_of_range and +-0 are both accepted; subnormal results must be returned as values (glibc strtod as reference); overflow must be out_of_range',
        'A6 "shortest decimal": a text with more significant digits than necessary is accepted if it is not longer, in characters, than the shortest printf-style (%e / %f) rendering of the fewest-digit decimal '
        '(std::to_chars picks e.g. "549755879424" over "5.497559e+11" for a float); a text that is longer on both counts is a violation',
        'A7 literal grammar is decimal only: "0x10" has the leading literal "0"; "1e5" for an integer target has the leading literal "1" (integer grammar: blanks* -? digits); an exponent needs at least one digit to belong to the literal',
        'A8 a fractional literal (digits . digit) for an integer target whose integer part is already out of range may give out_of_range or invalid_argument',
        'A9 non-finite floats are outside the statement; for them only totality and agreement of the four widths are checked',
        'A10 blanks are space and TAB; U+00E9 is presented to char strings as UTF-8 (C3 A9) and as one code unit to the other widths',
        'A11 violation counts are per execution block and signature (a block reports each signature once, with the number of cases in the detail text)',
    ],
)
