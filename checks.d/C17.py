from checks_common import *

# plain -O2 build of the same harness compiled with -DC17_WIDE: the large F=2 / F=3 products (10^8 loads), thorough tier only
WIDE = dict(name='fastwide', flavour='fast', defs=[], harness_flags=['-DC17_WIDE'], tiers=('thorough',))

CHECK = dict(
    src=['harness/c17_validation.cpp'], variants=[P, WIDE], level='exploration',
    technique='bounded exhaustive enumeration of (archive, nesting, field types, run-time validator lists, message choice, maxValidationErrors, document condition of every field), every case '
              'executed on the real KeyValue::VisitArgs / SerializationContext::AddValidationError / OnFinishSerialization path with the real validator functors of validators.h '
              '(run-time choice through a harness functor that the library accepts via is_validator and that forwards to the real functor objects); judged by a reference model of the documented rules',
    level_text='Objects with F <= 3 fields (int32 / std::string, declared in the order c, a, b; document and error-map order a, b, c; a sentinel field z declared last) as root object, nested object, '
               'elements of a root array of 2 and values of a std::map with 2 entries (second element carries the next condition vector of the enumeration), loaded from MsgPack, JSON, XML and CSV '
               '(CSV: rows of a root array only) with MismatchedTypesPolicy::Skip / OverflowNumberPolicy::Skip and maxValidationErrors in {0,1,2,3}. Validators: Required, Range(5,9), MinSize(3), '
               'MaxSize(13), Email, PhoneNumber(7,15,+), custom lambda, each with default or custom message. Conditions int: 6, 5, 9, 4, 10, 11, absent, null, "abc" (skipped), 2^40 (skipped); '
               'string: sizes 2/3/4/12/13/14, 2 valid + 3 invalid e-mails and 3 valid + 4 invalid phone numbers taken from the documented parameters and the library\'s own unit tests, "a b", "", absent, null, 7 (skipped). '
               'Sanitizer build (both tiers): F=1 all lists of <= 3 validators with per-validator default/custom message x all conditions; F=2 all lists <= 1 x <= 1 (3 message modes, boundary conditions '
               'of the kinds present) and exactly 2 x <= 1 (one representative condition per reference outcome); F=3 all lists <= 1 (one loaded condition per reference outcome + absent). Plain build (thorough only): F=2 all lists <= 2 x <= 2 (all default texts / mixed) '
               'and exactly 3 x <= 1; F=3 all lists <= 1 and one field with exactly 2 validators (any position), others <= 1, one representative condition per reference outcome.'
               ' Second scenario (sanitizer build): bool, int32, uint8, double, string, registered enum, time_point and duration fields with Required and an isLoaded-recording validator, one field replaced by a value of another kind (11 kinds) or removed, MsgPack/JSON/XML, memory and stream, Skip policies; relational oracle (harness/kinds_scenario.hpp).',
    level_note='Trusted: ref/ref_validation.hpp (rules as documented in README.md and in the comment of SerializationOptions::maxValidationErrors), the independent document emitters of harness/typed_load.hpp. '
               'Paths are compared with the XML root element name and array positions aside (the statement excludes them: JSON/MsgPack count elements from 1, CSV from 0, XML names every element "object", so '
               'both "fields of different elements are different fields" and "are the same field" are accepted for arrays). The moment of the early throw is free between "the N-th failing field is '
               'complete" and "a further field would have to be added". Default message texts are identified by keywords only. Not covered: F=2 with lists 3x2 / 2x3 / 3x3, F=3 with two or three '
               'fields of 2 validators (design bound "F=3, all lists <= 2" = 10^9 loads, infeasible), containers as validated values, attributes, wide-string targets.',
    rule='execution = one (archive x nesting, segment, cap, field types, message mode, validator lists) configuration, its inner loop runs every condition vector (counted as evaluations); '
         'transitions = validator invocations; distinct_nontrivial = distinct (archive, nesting, F, cap, per visited field: type, document state, number of expected messages) with at least one expected message',
    assumptions=['a field that is absent, null, or skipped by MismatchedTypesPolicy::Skip / OverflowNumberPolicy::Skip counts as not loaded (library tests: "ThrowValidationExceptionWhenLoadNullToAnyType")',
                 'load order of fields = order of the KeyValue calls in Serialize(); order of map entries / array elements = document order',
                 'e-mail / phone alphabets contain only strings whose validity is decided by the documented parameters or by the library\'s own unit tests (no RFC-grade oracle)',
                 'values are checked only for fields that pass validation (document value) and absent fields (unchanged), and only for fields visited before the cap can first be reached'],
    deadline=dict(quick=300, thorough=900),
)
