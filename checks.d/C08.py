from checks_common import *
import os, sys
sys.path.insert(0, os.path.join(os.path.dirname(os.path.abspath(__file__)), '..'))
from oracles import c08_oracle

CHECK = dict(
    src=['harness/c08_conformance.cpp'], variants=[P], level='exploration',
    post=c08_oracle.post,   # forward direction: the documents written by the harness into BSX_AUX_DIR are judged by Python json / expat
    deadline=dict(quick=240, thorough=660),
    technique='bounded exhaustive enumeration in two directions, executed on the real JsonArchive (RapidJSON) and XmlArchive (pugixml): (forward) every value of a shape x leaf-alphabet catalogue saved in '
              'every output configuration, the bytes judged by an independent standard parser (Python json / expat) against the expected data model; (reverse) every re-rendering of each base value by an '
              'independent emitter with <= N deviations from the plain rendering, loaded by the real archive and compared with the model and with what the library\'s own rendering loads to',
    level_text='Every case runs the real SaveObject/LoadObject of the two adapters (memory and std streams). Complete within the stated alphabets and bounds: all (shape, leaf symbol[, neighbour symbol]) values x '
               '77 output configurations forward; all re-renderings with at most 2 (thorough 3) simultaneous deviations of every base document reverse. Says nothing about strings outside the 20-symbol '
               'alphabet (one symbol per escaping / normalisation rule of the two standards), trees deeper than 3, documents more than 3 edits away from the plain rendering, DOCTYPE/entities/namespaces, '
               'or about policies other than the defaults.',
    level_note='Trusted: Python 3.11 json (strict: NaN/Infinity rejected, duplicate names detected, numbers kept as text) and xml.parsers.expat as the independent parsers (oracles/c08_oracle.py), the small '
               'emitters in the harness (written from RFC 8259 / XML 1.0, not from RapidJSON/pugixml), the explorer engine. Round-trip defects that hit every rendering alike (XML empty string / blank string / '
               'empty container / null all being an empty element, doubles not surviving the default-precision parser) are C01 matters: they are counted as outcome classes, not as violations. '
               'Signatures of the forward direction are cause-level: the post hook names the (position, value) or the (sink, encoding, bom) class for which all explored cases fail.',
    rule='exhaustive enumeration. FORWARD: format {json, xml} x 42 shapes (root scalar; [x] {k:x} nested to depth 3; XML attributes {@a:x}; two-leaf shapes [x,y] {k:x,j:y} [[x],y] {k:[x],j:y} {@a:x,k:y} in both orders; '
         '12 leafless container nestings; key shapes {K:1} [{K:1}] {K:{..},z:1} {@K:1}; named XML root via KeyValue; 3 presets of a real typed class with std::vector/std::map/nested class/AttributeValue) x leaf '
         'alphabet of 56 named symbols (20 strings: empty, a, blank, " a ", e-acute, euro, emoji, quote, backslash, <&>, apostrophe, LF, TAB, CR, slash, U+0001, U+FFFD, U+FFFF, "]]>", ill-formed UTF-8; 18 integers at '
         'the limits of every width incl. uint32 > INT32_MAX, long long / unsigned long long at the JSON root; 15 floats incl. 0.1, 1e300, denormal min, -0.0, max, NaN, +-inf; bool; null), neighbour symbol from '
         '{a, INT32_MAX, null, ""} (thorough: the whole alphabet for [x,y], {k:x,j:y}, {@a:x,@b:y}), key alphabet = the string alphabet (JSON) / 7 XML names + 4 non-names (XML) x sink {std::string, ostream x 5 encodings x BOM on/off} x '
         '{compact, pretty x padding {TAB, space} x {1,2,4}}. Oracle (Python): bytes decode strictly in the configured encoding, BOM present iff requested, json.loads / expat accept the text, the parsed tree '
         'equals the expected model (names, nesting, array order, string text, integer value and lexical integer form, float value, bool/null, attributes; whitespace between XML elements is ignored, leaf text is not), '
         'expat accepts the undecoded UTF-8/UTF-16 bytes with the same tree, UTF-32 XML names its encoding. A value JSON/XML cannot carry (NaN, ill-formed UTF-8, a key that is no XML Name) may be refused with an '
         'exception or written as any well-formed document. REVERSE: format x 206 base documents ({root, [x], {k:x}, {@a:x}} x every finite/valid leaf symbol; 11 multi-member bases with nesting, attributes, '
         'empty containers; 2 typed presets) x all combinations of <= 2 (thorough 3) deviations among: source {std::string, istream x 5 encodings x BOM} ; JSON: whitespace {none, space, LF TAB} at every structural '
         'position, per character {literal, \\uXXXX lower/upper, short escape, surrogate pair}, all member orders (<= 4 members, else 3 orders), number spellings {plain, exponent, E+NN, 17 digits, integer form, '
         'shortest float32 digits; -0, 1e1, 10.0 for integer targets}; XML: declaration {version, absent, with encoding, standalone, apostrophes}, {nothing, space, LF TAB, comment, PI} in prolog, epilog and between '
         'child elements, whitespace inside start/end tags and around =, attribute quotes, per character {literal, &#d; &#xh; named entity, CDATA}, whole-text CDATA, <a/> <a></a> <a />, attribute and member orders. '
         'Oracle: the loaded value equals the model, or equals what the library loads from its own rendering (then the defect is a C01 matter); an integer target may refuse 1e1 / 10.0 with MismatchedTypes; zeros of '
         'either sign are equal; a failing case is reduced to the deviations it needs, which name the signature. NUMBER SPELLINGS: 2046 binary exponents x 6 (thorough 40) mantissa patterns x sign x {17 digits, '
         '%.16E, 20 digits, shortest exponent form} through the JSON loader, same oracle. evaluations = SaveObject/LoadObject calls on documents; distinct_nontrivial = distinct (format, value) / distinct re-rendered '
         'documents; aux = documents judged by the independent parsers.',
    assumptions=[
        'A1 the consumer knows the configured stream encoding (decoding per configuration); in addition expat must accept the undecoded bytes for UTF-8/UTF-16 (it knows no UTF-32)',
        'A2 a byte order mark is expected exactly when writeBom is set (JSON too: the option asks for it although RFC 8259 advises against BOMs)',
        'A3 object member order is not part of the JSON/XML data model (members are matched by name, duplicates are a violation); array order is',
        'A4 float leaves are compared by value (float32: after rounding the document number to float); -0.0 and 0 are the same number; XML numbers must be decimal literals (NaN/inf words accepted for non-finite values)',
        'A5 XML empty string, null and empty containers are all an empty element for an independent parser; whether they can be told apart on load is C01, not C08',
        'A6 without a BOM, UTF-16/UTF-32 input is only in scope when the encoding is detectable from the first characters (XML: the document starts with <?xml, appendix F; JSON: first two characters ASCII, RFC 4627 section 3)',
        'A7 a number spelled with fraction or exponent (1e1, 10.0) for an integer target may load as the integer or be refused with MismatchedTypes, never load as another value',
        'A8 ill-formed UTF-8 in a std::string and non-Name keys are inputs the formats cannot carry: an exception or any well-formed document is accepted, silent ill-formed output is not',
        'A9 bases with more than 84 decision points would have the rest fixed to the plain form (outcome class decision_points_capped; does not occur with the present bases)',
    ],
)
