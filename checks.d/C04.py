from checks_common import *

CHECK = dict(
    src=['harness/c04_numeric_exactness.cpp', 'harness/c04_carrier_msgpack.cpp', 'harness/c04_carrier_json.cpp', 'harness/c04_carrier_text.cpp'],
    variants=[P], level='exploration',
    technique='bounded exhaustive enumeration of (source value, source representation, target type, archive position, policy pair) executed on the real Convert::To / TryTo and on the real '
              'MsgPack, JSON, XML and CSV loaders; judged by an exact reference model (__int128 / mantissa-width arithmetic, glibc strtod for decimal text) that yields the set of allowed outcomes',
    level_text='Every case runs the real library. Complete within the stated alphabets: all values of bool/char/int8/uint8/int16/uint16 as direct-conversion sources and (as integers -32768..65535) in every '
               'carrier; the boundary lattice for 32/64-bit integers, float and double; every MsgPack format able to hold the value; JSON literal classes; XML element text and attribute; CSV cell; '
               'map keys; 12 targets x 4 policy pairs. Says nothing about 32/64-bit and floating values between lattice points, nor about documents other than the three one-value shapes.',
    level_note='Trusted: models/num_model.hpp (allowed-outcome sets), ref/ref_msgpack.hpp (encoder with format choice), glibc strtod/strtof as correctly rounded decimal conversion, the explorer engine. '
               'The model is cross-checked inside the run against an independent range / odd-part test for every integer source (signature C04/selfcheck/...). '
               'harness/c04_common.hpp is not part of the build hash: delete build/h-C04-* after editing it.',
    rule='exhaustive enumeration. (1) direct: Convert::To<T>(S) and TryTo for all 144 ordered pairs over {bool, char, int8..int64, uint8..uint64, float, double}: every value of the 8/16-bit sources; '
         'for 32/64-bit integer sources the lattice +-(2^k+d), d in -3..3, and +-(2^k +- 2^j) for all j<k<=64 (this covers every type limit +-2 and the exactness borders 2^24+-1, 2^53+-1); for float/double '
         'sources +-2^k, their two neighbours (nextafter), +-(2^k+-1), +-(2^k+-0.5) for all k<=65, FLT_MAX and its neighbours, FLT_MAX+half ulp and its predecessor, DBL_MAX, denormals, +-0, +-Inf, NaN, 0.5, 1.5, 0.1. '
         "The property's 'random values' are replaced by this lattice (no sampling anywhere). (2) carriers: the same values (integers -32768..65535 exhaustively in thorough, -128..255 in quick; the lattice with "
         'all k in thorough, k at type limits / mantissa widths in quick; bool; nil / string / array / map / bin or non-numeric text as other kinds) in: MsgPack - every format able to hold the value '
         '(fixint, uint8..64, int8..64, float32, float32 widened to float64, float64, true/false) at root / array element / object member, memory and stream reader; JSON - plain, <v>e0, <v>.0, -0, %.17g, %.16e '
         'at root / element / member, memory (lattice also stream); XML element text at element / member and XML attribute (AttributeValue); CSV cell; map key position std::map<K,int32_t> from MsgPack typed keys '
         '(all formats) and text keys, JSON member names, CSV header; each x 12 targets (bool, char, (u)int8..64, float, double) x OverflowNumberPolicy {ThrowError, Skip} x MismatchedTypesPolicy {ThrowError, Skip}. Reduced in thorough to one position per code path (MsgPack root with both readers, JSON root, XML member and attribute, CSV cell): the integers outside -128..255 of the 16-bit sweep (policy pairs Throw/Throw and Skip/Skip only) and the 2^k+-2^j lattice family; everything else runs at every position with all four policy pairs. '
         'Oracle per case = allowed-outcome set: exact value (or nearest representable for a floating target), Overflow / skip-with-target-untouched per overflow policy, MismatchedTypes / skip per mismatch policy for '
         'another kind; anything else (other value, wrong error code, changed target although not loaded, disturbed neighbour value, UBSan / ASan report) is a violation. '
         'evaluations = library conversions / loads; distinct_nontrivial = distinct (carrier, position, representation, value, target) cases (8/16-bit direct sweeps: one per block).',
    assumptions=[
        'A1 char is a signed 8-bit integer (x86-64 Linux) and is a number for the library in every carrier',
        'A2 int <-> float <-> bool across families: the exact value and the mismatched-types policy are both accepted in archives (models/num_model.hpp); in direct conversions only floating -> integer/bool may be refused '
        '(invalid_argument), never answered with another value',
        'A3 an integer that is not exactly representable in a float/double target: nearest value or Overflow / out_of_range are both accepted; a double beyond FLT_MAX (within half an ulp: FLT_MAX or Overflow) must be Overflow',
        'A4 non-finite doubles into float: carried over or reported as Overflow; NaN payloads are not compared; +0 and -0 are the same mathematical value',
        'A5 text carriers are judged by the lexical value (model::expectFromText, glibc strtod/strtof as nearest value); a numeric text with a fraction or exponent into an integer/bool target may be refused as another kind '
        'or as out of range (both readings) and may be stored only if the WHOLE text denotes that integer ("5e0" -> 5 yes, "1e+20" -> 1 no). This is stricter than the prefix reading of model::expectFromText / C16 A3, A7',
        'A6 a non-zero text whose nearest float/double is zero may also be reported as Overflow (as C16 A5)',
        'A7 JSON literals with exponent or fraction are floating document values (RapidJSON semantics); plain integer literals are integers even beyond 64 bits',
        'A8 empty XML text / empty CSV cell (null semantics) are left to C01; inf / nan words as text follow model::expectFromText (value or mismatch)',
        'A9 NaN is not used as a key of std::map<float|double, T>; XML has no map-key carrier (element names cannot start with a digit)',
        'A10 the four policy pairs of one case are reported as one violation (pol=all) when they fail identically or when an out-of-range value is consistently handled by the other policy (out=handled_as_mismatch / handled_as_overflow); '
        'block sweeps report each signature once per block with the number of cases in the detail',
    ],
    deadline=dict(quick=480, thorough=1500),
)
