from checks_common import *

FAST14 = dict(name='fast', flavour='fast', defs=['-DVERIF_FAST=1'])

CHECK = dict(
    src=['harness/c14_chrono_roundtrip.cpp'], variants=[P, FAST14], level='exploration',
    technique='bounded exhaustive sweep of time points, durations and time_t through the real print / parse / binary-timestamp code, judged by an independent incremental calendar in __int128',
    level_text='Every execution runs the real Convert::ToString / Convert::To<> code (and, on the lattice, the MsgPack and JSON archives). Complete within the stated bounds: every '
               'calendar day of the year range at its first and last representable instant for 14 time_point types and time_t, every second of the selected days, the +-2^k lattice and the '
               'limits of every type, the structured and contiguous duration sets. Says nothing about instants between the swept ones outside the selected days, nor about unsigned or floating representations.',
    level_note='Trusted: ref/ref_calendar.hpp (day-by-day calendar with the plain leap rule, closed form cross-checked against it on the whole swept range in scenario 0), the explorer engine. '
               'Both variants (fast = -O2, p256 = ASan+UBSan) run the full year range in the thorough tier; in the quick tier p256 sweeps three windows of years. Lattice and selected days are the same in both. A zero fraction may be printed or omitted (both accepted).',
    rule='exhaustive enumeration: (1) every day of years -10000..+20000 (quick -1000..+4000; sanitizer build: the same range in thorough, three windows -60..60, 1560..2440, 9960..10040 in quick) at 00:00:00 and at the last '
         'representable instant of the day x time_point<system_clock, duration<rep, period>> for period in {ns,us,ms,s,min,h,days} x rep in {int64,int32} where the whole day is representable, and time_t (CRawTime); '
         '(2) every second of the selected days (leap days, century/400-year borders, epoch, years 0/-1/9999/10000/-1000/-9999/-10000, first and last day of every type) x 5 fraction classes; '
         '(3) per type 0, min..min+3, max-3..max, +-2^k, +-2^k+-1 as time_point, duration and time_t, in char/char16_t/char32_t/wchar_t, through CBinTimestamp, MsgPack and JSON (value and map key); '
         '(4) durations: sign x days{0,1,2,7,24855,106751} x h{0,1,23} x m{0,1,59} x s{0,1,59} x fraction classes, and every count in -N..N (N = 4e6 fast thorough). '
         'Oracle: printed text == reference text; parse(print(x)) == x; duration text inside the strict ISO grammar and denoting x; CBinTimestamp holds x exactly and converts back. '
         'distinct_nontrivial = distinct (type, calendar year) pairs swept + (type, selected day, hour) + lattice values + duration blocks.',
    assumptions=['documented text form [+-]YYYY-MM-DDThh:mm:ss[.f]Z: no sign and 4 digits for years 0000..9999, "+" above, "-" and at least 4 digits below; fraction digits = 3/6/9 for ms/us/ns',
                 'a zero fraction may be printed with the fixed width or omitted',
                 'a value whose whole seconds exceed int64 may be refused by the binary timestamp with out_of_range / Overflow',
                 'system_clock epoch is 1970-01-01T00:00:00Z without leap seconds (as documented)'],
    deadline=dict(quick=600, thorough=1700),
)
