from checks_common import *

CHECK = dict(
    # several translation units only to keep the sanitizer build short (they are compiled in parallel); c06_shared.cpp is the
    # common part (#included by the others, an empty object on its own) and is listed so that the build cache sees changes to it
    src=['harness/c06_msgpack_write.cpp', 'harness/c06_part_scalars.cpp', 'harness/c06_part_chrono.cpp', 'harness/c06_part_containers.cpp',
         'harness/c06_part_classes.cpp', 'harness/c06_shared.cpp'],
    variants=[P], level='exploration',
    technique='bounded exhaustive enumeration of typed C++ values (all 8/16-bit integers through every integer type, format thresholds, float bit-pattern lattice, length thresholds, '
              'chrono alphabet, classes with base/conditional fields, every key type, shaped-value trees of depth <= 3) saved by the real MsgPack writers to memory and stream, '
              'judged by a strict reference decoder and the reference canonical encoder',
    level_text='Every execution runs the real SaveObject<MsgPackArchive> twice (std::string and std::ostringstream). Complete within the stated alphabets and bounds: every value of '
               '-32768..65535 through each of char/int8..64/uint8..64 that can hold it, every 32/64-bit value within +-2 (thorough +-4096) of +-2^k for k in {5,7,8,15,16,31,32,63,64} and the limits '
               'of each type, all exponents x mantissa lattice x sign for float and double, all str/bin/array/map length thresholds, the seconds x fraction alphabet for 14 chrono types and time_t, '
               'all 2^5 combinations of conditional fields of the class corpus, every tree of depth <= 3 with <= 2 children per node over the leaf alphabet - each at the positions root / array element / object member / map key. '
               'Says nothing about values between the swept ones, other containers or user types, wide-character strings (C11), or `long long` (does not compile with the MsgPack archive on LP64).',
    level_note='Trusted: ref/ref_msgpack.hpp (decoder and canonical encoder written from the specification, cross-checked against pip._vendor.msgpack in setup), the model of the expected tree in '
               'harness/c06_shared.cpp (toVal: integers and instants computed in __int128 with floor semantics), the explorer engine. "Most compact" is judged by length: an output as long as the '
               'canonical encoding but in the signed family (int16_t 300 -> d1 01 2c) is accepted. /cause= labels compare the output with a byte-exact hypothesis and only name a mechanism, they never excuse a case.',
    rule='exhaustive enumeration. (0) v in -32768..65535 x 9 integer types x {root, elem, member, key}; (1) threshold integers x 9 types x 4 positions; (2) float 256 / double 2048 exponents x mantissa {0, 1, all ones, msb} '
         '(thorough: + every single bit, msb|1, msb-1, 0x55.., 0xAA..) x 2 signs x 4 positions; (3) lengths {0,1,15,16,31,32,255,256,65535,65536} x {std::string, vector<uint8_t|char|int8_t>, list<char>, deque<uint8_t>, '
         'std::array<uint8_t,16>, std::array<char,32>, unsigned char[256]} x positions; (4) lengths {0,1,15,16,65535,65536} x {vector<int32_t>, map<int32_t|uint32_t|string,int32_t>, vector<string>, vector<bool>, class with n fields} '
         'and lengths <= 16 x 10 further std containers x 3 positions; (5) {time_point, duration} x {ns,us,ms,s,min,h,days} x seconds {type min, -2^34, -1, 0, 1, 2^32-1, 2^32, 2^34-1, 2^34, type max} x fraction {0, +1 unit, -1 unit, 999...} '
         'x 4 positions x overflow policy {throw, skip}, time_t x seconds alphabet x {root, member}; (6) 11 classes (base class via BaseObject rvalue/lvalue with 0/1/2-3 base fields, two inheritance levels, SerializeObject(), '
         'non-string KeyValue keys, nested classes/containers/optional/unique_ptr/enum/tuple) x 2^5 conditional-field flags x 3 positions; (7) 16 further std values x 3 positions; (8) registered enum and UTF-8 string at 4 positions; '
         '(9) every shaped-value tree of depth <= 3, <= 2 children per container, leaf alphabet of 6 (thorough 15) kinds x {root, in array, in object}. '
         'Oracle per case: memory bytes == stream bytes; reference decoder accepts exactly one object with nothing left over; decoded tree == expected tree; length <= length of the reference canonical encoding. '
         'distinct_nontrivial = distinct (type, value class, position) triples in the sweeps (0)-(2), distinct cases elsewhere.',
    assumptions=['reference decoder/encoder written from the MessagePack specification (ref/ref_msgpack.hpp)',
                 'an instant whose whole seconds exceed int64 has no MessagePack representation: a refusal by exception (Overflow, or std::out_of_range for a map key) is accepted under both overflow policies; if the save returns normally the output must still be one well-formed object',
                 'an encoding of the same length as the canonical one satisfies "most compact" (signed family for non-negative values below the top bit)',
                 'registered enum values are expected as their registered names (string), enum map keys likewise',
                 'std::unordered_map entries are expected in the iteration order of the container'],
    deadline=dict(quick=300, thorough=900),
)
