from checks_common import *

CHECK = dict(
    src=['harness/c11_utf_valid.cpp'],
    variants=[dict(name='fast', flavour='fast', defs=['-DC11_SWEEP']), P], level='exploration',
    technique='exhaustive enumeration of all Unicode scalar values and of all short sequences over a boundary alphabet through every converter entry point, judged by an independent reference encoder',
    level_text='Every execution calls the real converters. Complete for single characters: each of the 1,112,064 Unicode scalar values goes through all 20 ordered pairs of {UTF-8, UTF-16LE, UTF-16BE, UTF-32LE, UTF-32BE} by two routes '
               '(source class ::Decode first / target class ::Encode first), both Transcode overloads and Convert::To/TryTo between all 16 pairs of {string, u16string, u32string, wstring}, under both error policies, into an empty and a '
               'non-empty output string (variant fast, -O2). Complete for sequences of length 0..3 (thorough 0..4) over 14 boundary scalars, run again under ASan/UBSan (variant p256), and for those strings of length 1..2 (thorough 1..3) '
               'as values and map keys of all four string types inside MsgPack, JSON and CSV archives. Says nothing about interactions that need more than 4 characters, and nothing about XML/YAML archives.',
    level_note='Trusted: ref/ref_utf.hpp (encoder written from the Unicode standard, cross-checked once against CPython codecs for all scalars in all five schemes), the explorer engine. The all-scalars sweep runs without sanitizers; '
               'memory safety of the same code paths is covered by the sanitizer variant on the boundary sequences (every encoded length class) and by C12. XML is left out because U+0000/U+FFFE/U+FFFF are not XML characters; RapidYAML is not installed.',
    rule='exhaustive enumeration: (A, variant fast) scalar c in U+0000..U+10FFFF minus surrogates (1,112,064) x ordered pairs (s,d) of the five encoding schemes (20) x route {S::Decode into a native string of the width of d [+ D::Encode if d is not native], '
         '[S::Decode into a native string of the width of s if s is not native +] D::Encode} x {Skip, ThrowError} x {empty output, output already holding "p"+U+1F600 in scheme d}; plus Transcode(it,it) and Transcode(string_view) between '
         '{char, char16_t, char32_t, wchar_t} (16 pairs incl. same width) x policy x output state; plus Convert::To/TryTo for the 16 string type pairs = 368 calls per scalar. (B, both variants) the same for every sequence of length 0..3 '
         '[thorough 0..4] over {U+0000,41,7F,80,7FF,800,D7FF,E000,FEFF,FFFD,FFFE,FFFF,10000,10FFFF}. (C, sanitizer variant) every such string of length 1..2 [thorough 1..3] saved and loaded as value and as std::map key of '
         'string/u16string/u32string/wstring in MsgPack (stored bytes must contain the reference UTF-8 twice), JSON and CSV (value only) under both utfEncodingErrorPolicy values. '
         'Oracle: output bytes == reference encoding in the requested byte order (so shortest form, surrogate pairs only above U+FFFF), ErrorCode == Success, Iterator == end, InvalidSequencesCount == 0, existing output text untouched, '
         'intermediate native strings exact; the round trip d->s is the pair (d,s) applied to the verified output. evaluations = converter/archive calls; distinct_nontrivial = distinct blocks of 2048 scalars + distinct sequences.',
    assumptions=['reference encoder written from the Unicode standard chapter 3 (ref/ref_utf.hpp), cross-checked against CPython for all 1,112,064 scalars in 5 schemes',
                 'wchar_t is 32 bit (Linux); the LE schemes are the native ones on this host (the harness itself is byte-order independent)',
                 'round trip s->d->s is implied by exactness of (s,d) and (d,s) on the same reference text and is not executed as a third call'],
    deadline=dict(quick=400, thorough=1500),
)
