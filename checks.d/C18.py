from checks_common import *

CHECK = dict(
    src=['harness/c18_populated_target.cpp', 'harness/c18_pt_msgpack_a.cpp', 'harness/c18_pt_msgpack_b.cpp', 'harness/c18_pt_json_a.cpp', 'harness/c18_pt_json_b.cpp',
         'harness/c18_pt_xml_a.cpp', 'harness/c18_pt_xml_b.cpp'],
    variants=[P], level='model_checking',
    technique='explicit-state exhaustive exploration of (container type, prior target content, document content): every pair (prior value, data value) inside the bound is executed through the real '
              'SaveObject/LoadObject; differential oracle load(doc -> prior) == load(doc -> T{}), documented key-set oracle for the non-default MapLoadModes',
    level_text='A state is (container type, prior content of the target, document content); the transition is the real LoadObject, executed twice per case (into a copy of the prior value and into T{}). '
               'Complete within the bound: 48 container-like types (vector<int|string|bool|vector<int>|optional<int>|unique_ptr<int>|class>, deque, list, forward_list, valarray, queue, stack, priority_queue, '
               'array<int,3>, array<string,2>, bitset<5>, pair, tuple, set/multiset/unordered_set/unordered_multiset, map/multimap/unordered_map/unordered_multimap with string and int keys, map<string,vector<int>>, '
               'optional<int|string|vector<int>>, unique_ptr/shared_ptr to int, to a class and to vector<int>, string, u16string, a class holding vector + optional<string> + shared_ptr<class> + map) x ALL pairs '
               '(prior, data) with top-level sizes 0..3 (thorough 0..4) on both sides, element alternatives including "", empty inner containers (inner sizes 0..2), null optionals/pointers, duplicate elements/keys in multi '
               'containers, all key subsets of {a,b,c(,d)} on both sides for maps x {root, keyed member} placement x {Throw, Skip} mismatch policy x {MsgPack, JSON, XML}; CSV: vector/deque/list/forward_list of row '
               'objects with 0..5 (thorough 0..6) rows; MapLoadMode {Clean, OnlyExistKeys, UpdateKeys} for map/unordered_map (string and int keys, int / string / vector<int> values) over all key-subset pairs. '
               'Says nothing about sizes beyond the bound, documents not written by the library itself (mismatching elements, foreign sizes for std::array/tuple) or stream input.',
    level_note='Trusted: the value catalogue and equality/clone helpers of harness/c18_common.hpp (container operator==; unordered containers as sets/multisets; adapters by draining copies; smart pointers by pointee), '
               'the explorer engine. The document is what SaveObject writes for the data value, so this check judges only the load side relative to a fresh target; whether a fresh load reproduces the data is C01 (outcome '
               'classes ok:fresh==data / ok:fresh!=data are recorded for information). Cases in which both loads throw the same error are not comparable and only counted (XML empty elements under the Throw policy, '
               'CSV documents without rows, XML maps with integer keys whose element names do not parse, JSON/XML null under the Throw policy).',
    rule='execution = one (archive, type, placement, mismatch policy, map mode, prior value, data value) = 2 real loads (transitions); states = distinct (type, prior top-level size, data top-level size, relation) tuples '
         '(for map modes: type, mode, sizes, key-set relation); distinct_nontrivial = distinct executions with a non-empty prior whose fresh-load result differs from the prior (the load had to change the target)',
    assumptions=['"same result" = equal by the container\'s own operator== (std::multimap/forward_list etc. order-sensitive, unordered containers order-insensitive); priority_queue/queue/stack compared by draining copies',
                 'OnlyExistKeys: keys(result) == keys(prior), values of keys present in the document equal the document\'s values, other values untouched; UpdateKeys: keys(result) == keys(prior) U keys(document), same value rule '
                 '(generic_map.h:17-33); "the document\'s value" = what a Clean load of the same document into an empty map yields',
                 'a load that throws in both targets with the same error code counts as the same result'],
)
