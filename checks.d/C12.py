from checks_common import *

CHECK = dict(
    src=['harness/c12_utf_illformed.cpp'], variants=[P], level='exploration',
    technique='bounded exhaustive enumeration of ill-formed code unit strings (all short UTF-8 byte strings, class alphabets for longer ones and for UTF-16/UTF-32, bare and embedded in valid text), '
              'executed on every converter entry point under all error policies with ASan/UBSan, judged by an independent validator and a segmentation-agnostic matcher',
    level_text='Every execution calls the real converters (Utf8/Utf16/Utf16Le/Utf16Be/Utf32/Utf32Le/Utf32Be Decode/Encode, both Transcode overloads, Convert::To) on an input placed at the very end of a heap block, '
               'under AddressSanitizer. Complete within the stated bounds: every UTF-8 byte string of length <= 3 (quick: <= 2, length 3 over the byte classes), length 4 over 31 byte classes, 5/6-byte forms over '
               '5 tail classes, UTF-16 strings of length <= 4 over 15 boundary units, UTF-32 strings of length <= 3 over 14 boundary units, each bare and in 16 contexts of valid characters, x 4 policies. '
               'Says nothing about longer ill-formed inputs whose treatment depends on more than 4 (UTF-8: 7) consecutive units, about same-width copies (excluded by the property) or about stream chunking (C13).',
    level_note='Trusted: ref/ref_utf.hpp (encoder, Table 3-7 validator and matcher written from the Unicode standard; encoder and UTF-8 validator cross-checked once against CPython codecs for all scalars / all byte strings '
               'of length <= 3), the explorer engine. The matcher accepts every segmentation between Unicode maximal subparts and "a lead unit claims its announced length" (the pinned tests use the latter), so valid units '
               'swallowed inside the announced length of a bad lead (E2 41 42 -> one mark) are not reported; where the input ends inside the announced length, UnexpectedEnd and a replacement are both accepted.',
    rule='exhaustive enumeration: (1) all UTF-8 byte strings of length 0..3 [quick 0..2] (length 3: 4 contexts, the LE and BE entry points; shorter: 17 contexts, all entry points); (2) all strings of length 4 [quick also 3] over the '
         '31-symbol byte-class alphabet {00,41,7F,80,8F,90,9F,A0,BF,C0,C1,C2,DF,E0,E1,EC,ED,EE,EF,F0,F1,F3,F4,F5,F7,F8,FB,FC,FD,FE,FF} x 17 contexts x all entry points [quick, length 4: 3 contexts, LE/BE entry points]; '
         '(3) lead F8/FB/FC/FD + 0..6 [quick 0..5] bytes over {41,80,BF,E2,FF}; (4) UTF-16 unit strings of length 0..4 over {0,41,7F,80,7FF,800,D7FF,D800,DBFF,DC00,DFFF,E000,FFFD,FFFE,FFFF}; '
         '(5) UTF-32 unit strings of length 0..3 over {0,41,D7FF,D800,DBFF,DC00,DFFF,E000,FFFF,10000,10FFFF,110000,7FFFFFFF,FFFFFFFF}; contexts = bare + (prefix,suffix) over {U+7A,U+E9,U+20AC,U+1F600}; '
         'each x every entry point converting to a different code unit width (6-9 per width pair incl. LE/BE classes, Transcode(it), Transcode(string_view), wstring target, Convert::To) x {Skip default mark, Skip "<E>", Skip "", ThrowError}. '
         'Oracle per call: output derivable by the matcher with exactly InvalidSequencesCount error steps and the reported stop position; output well-formed per the independent validator; ThrowError fails iff ill-formed, '
         'at the first ill-formed unit, with the converted well-formed prefix; UnexpectedEnd only at a truncated tail; pre-existing output text untouched; no sanitizer report. '
         'evaluations = converter calls; distinct_nontrivial = distinct shapes (sequence of valid lengths / ill-formed classes) of inputs containing an ill-formed sequence.',
    assumptions=['reference encoder/validator written from the Unicode standard chapter 3 (ref/ref_utf.hpp); cross-checked against CPython for all 1,112,064 scalars in 5 schemes and all UTF-8 strings of length <= 3',
                 'an ill-formed sequence may be replaced as a whole up to the length its lead unit announces, or in smaller pieces down to single units (the property prescribes no segmentation)',
                 'input cut inside the announced length of its last lead unit: UnexpectedEnd at that lead or replacement are both accepted',
                 'InvalidSequencesCount under ThrowError is not judged (the statement does not define it)',
                 'host is little-endian or big-endian; wchar_t is 32 bit'],
    deadline=dict(quick=400, thorough=1700),
)
