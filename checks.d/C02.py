from checks_common import *

CHECK = dict(
    src=['harness/c02_robustness.cpp'], variants=[P], level='exploration', deadline=dict(quick=300, thorough=3600),
    technique='exhaustive enumeration of all short inputs over class-complete byte/character alphabets plus pumping families (2^k nesting depth / declared sizes), executed on the real loaders and converters under sanitizers, an allocation meter and worker/child supervision',
    level_text='MsgPack: every byte string of length <= 3 (thorough 4; the length-4 words into 3 of the 12 targets (int32, vector<int>, class)) over a 47-symbol alphabet holding every format-code class and length-field boundary, into 12 targets (scalars, string, sequences, byte container, maps, class, '
               'time_point, nested vector, tuple), memory and stream, Throw and Skip policies. CSV/JSON/XML: every string of length <= 5/4/4 (thorough 6/5/5) over their structural alphabets into row/scalar/array/class/map targets. '
               'Converters: every string of length <= 3 (thorough 4) over a 20-symbol numeric/ISO-8601 alphabet into 17 Convert::To targets in char, char16_t and char32_t, each once as a std::basic_string and once as a string_view over an exact-size heap block. Pumping: 11 families with depth/size 2^k, k <= 16 (thorough 20). '
               'Stream refill boundary: 21 MsgPack item forms (every multi-byte scalar, 8/16/32-bit length fields, timestamps, ext; four of them declare 2113 bytes/elements that are not there) placed at 20 offsets around the end of the 256-byte reader cache inside a 3-element array, cut at every byte or with one byte set to ff/00, into 8 tuple targets (typed and mismatching), memory and stream, both policies. '
               'UTF payloads: every byte string of length <= 3 (thorough 4) over a 16-symbol UTF-8 class alphabet (tails, over-long/2/3/4-octet leads, ED, F4/F5, the retired 5/6-octet leads, FE/FF) as the string value of MsgPack/JSON/CSV/XML documents into char16_t/char32_t/wchar_t/char targets and a map key, memory and stream, both UTF error policies, and straight into Convert::To / TryTo / Transcode from exact-size heap buffers (UTF-16 unit strings likewise). '
               'Shape mismatch: arrays / objects of 1..3 elements of every shape (object, empty object, array, empty array, null, number, string, bool) into 8 container-of-class / container-of-container / map targets, MsgPack/JSON/XML, memory and stream, both policies. '
               'Every call must return or throw something derived from std::exception, the process must survive (terminate, signals, ASan/UBSan, stack overflow are outcomes), and memory must stay within 64 KiB + 64 x input size '
               'with no single request above 64 MiB.',
    level_note='Coverage-guided / random mutation of long arbitrary inputs belongs to another technique family and is not done. Payload bytes inside strings/binaries are not interpreted by the readers (UTF payloads: C12). '
               'Misaligned loads through reinterpret_cast (msgpack_readers.cpp GetValue, convert_utf.h DetectEncoding/ReadChunk) are undefined behaviour by the letter of the standard but well defined on the x86-64 target; '
               '-fsanitize=alignment is switched off so that it does not mask everything else.',
    rule='execution = one prefix word x one target (the last symbol and the source/policy combinations are looped inside and counted via evals); distinct_nontrivial = distinct well-formed words / distinct inputs per family',
    assumptions=['inputs longer than the bounds are only covered by the pumping families and the refill-boundary scenario', 'alignment checking disabled (see level_note)'],
)
