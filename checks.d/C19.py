from checks_common import *

EXPLORE = dict(name='explore', flavour='tsanabi', defs=[], harness_flags=['-DC19_EXPLORE'])
BACKSTOP = dict(name='tsan_backstop', flavour='tsan', defs=[], harness_flags=['-DC19_BACKSTOP'], src=['harness/c19_threads.cpp'])

CHECK = dict(
    src=['harness/c19_threads.cpp', 'sched/tsan_rt.cpp'], variants=[EXPLORE, BACKSTOP], level='model_checking',
    src_flags={'sched/tsan_rt.cpp': ['-fno-sanitize=thread', '-O2']},
    deadline=dict(quick=300, thorough=1700),
    technique='stateless schedule exploration of the real library code: cooperative futex hand-off scheduler over real threads, preemption-bounded DFS by prefix replay, scheduling points and a vector-clock happens-before '
              'race detector driven by compiler instrumentation (-fsanitize=thread objects linked against an own __tsan_* runtime); every execution in a fresh forked process',
    level_text='All unordered pairs (thorough: also triples) of 14 operations (pair/multimap save+load in JSON and MsgPack = first use of the function-local statics of pair.h; enum conversions through the registry; JSON/XML/CSV/MsgPack '
               'save+load from memory and streams; number/chrono/UTF conversions; a validation-failing load; loads and saves of shared const inputs; u16string/wstring/u32string members, which go through the per-session transcoding buffer; every conversion family from and to char16_t/char32_t/wchar_t strings; chrono, binary, map, optional members through all four archives; JSON/CSV/XML through UTF-16LE/UTF-32BE encoded streams with BOM and formatted output), one operation per thread, each thread on its own data. For every pair, '
               'every schedule with <= 2 preemptions (thorough: <= 3 for plain pairs, <= 2 for triples and for the dense mode) is run to completion; scheduling points are guard acquire/release, atomic operations and every access to a location that one thread writes and another '
               'touches (discovered by sequential runs in fresh processes); thorough adds a dense mode for selected pairs with a scheduling point at every instrumented function entry. Every instrumented access to a shareable '
               'address (not on the own stack, not in an own heap block) goes through a vector-clock detector whose happens-before edges come only from thread start/join, guard release->acquire and atomic release->acquire. '
               'Each thread result is compared with the result of the same operation run alone in a fresh process. Deadlock (no enabled thread) and a step horizon are outcomes.',
    level_note='Blind spots: accesses inside uninstrumented code (libstdc++.so out-of-line members, libc, libpugixml) are invisible to the detector and are not scheduling points; more than 3 threads, more than one operation per thread '
               'and weak-memory reorderings are not explored (execution is sequentially consistent; races are flagged by happens-before regardless of order). Heap blocks are attributed to the allocating thread and treated as private.',
    rule='execution = one complete schedule of one operation tuple (choice vector = scheduler decisions); states = distinct (tuple, schedule) pairs; transitions = scheduling points served; distinct_nontrivial = distinct schedules that '
         'contain at least one real scheduling point',
    assumptions=['sequentially consistent execution', 'heap blocks allocated by a monitored thread are private to it', 'uninstrumented library code is race-free or caught by the results-equal oracle'],
)
