from checks_common import *

CHECK = dict(
    src=['harness/c07_msgpack_read.cpp'], variants=[P, S16], level='exploration',
    technique='bounded exhaustive enumeration of encodings (all format alternatives, deviation-bounded for composites), truncations and single-byte corruptions, executed on the real readers, judged by a reference decoder',
    level_text='Every execution runs the real MsgPack string and stream readers. Complete within the stated alphabets and bounds: all encodings of all alphabet values into all compatible '
               'targets, all key orders, all truncations and all 255 corruptions per byte position of the corpus. Says nothing about values outside the alphabets or documents outside the corpus.',
    level_note='Trusted: ref/ref_msgpack.hpp (written from the spec), models/num_model.hpp (typed-load semantics), the explorer engine. Incompatible targets are judged by C04/C05, reader equivalence on arbitrary input by C10.',
    rule='exhaustive enumeration: (A) every legal MessagePack encoding (reference encoder, all format alternatives) of every named alphabet value x 15 scalar '
         'target kinds x {root, array element, object member} x 4 policy combinations x {memory, stream reader}; (B) composite corpus x all key orders x nil at any '
         'node x <=N non-canonical width choices (deviation bound); (C) every truncation and (D) every single-byte corruption of each canonical corpus document. '
         'Oracle: strict reference decoder on the same bytes + exact typed-load model. distinct_nontrivial = distinct (encoding, target, position) cases / distinct byte strings.',
    assumptions=['reference decoder/encoder written from the MessagePack specification (ref/ref_msgpack.hpp), cross-checked against pip._vendor.msgpack in setup',
                 'int<->float<->bool cross-family loads may either deliver the exact value or follow the mismatched-types policy (the statement does not decide)',
                 'bytes after the first complete object are ignored by loader and reference alike'],
)
