from checks_common import *

_ARCH = ['msgpack', 'json', 'xml']
CHECK = dict(
    # one small translation unit per (archive, type group): c01_groups.hpp defines 13 groups for the nesting archives and 3 for CSV
    src=['harness/c01_roundtrip.cpp', 'harness/c01_trees.cpp', 'harness/c01_long.cpp']
        + ['harness/c01_%s_g%02d.cpp' % (a, g) for a in _ARCH for g in range(13)]
        + ['harness/c01_csv_g%02d.cpp' % g for g in range(3)],
    variants=[P], level='exploration',
    technique='bounded exhaustive enumeration of (C++ type, named value, placement, archive, output configuration), every case executed through the real SaveObject / LoadObject; '
              'differential / invariant oracle: load(save(v)) == v into a default-constructed target, load -> save -> load is a fixed point, memory bytes == stream bytes',
    level_text='Every execution runs the real archives. Complete within the stated alphabets and bounds: (o) long documents: a structure of rows, a map, numbers and a padding text of every length 0..31 and 224..287 (thorough 0..599), so that every later byte meets every alignment of the 256-byte reader chunks, in all four archives, from memory and through five stream configurations (UTF-8 with/without BOM, UTF-16LE, UTF-16BE, UTF-32LE), compact and pretty; (i) a static catalogue of about 120 C++ types per nesting archive (every fundamental type, '
               'std::byte, nullptr_t, four string widths, registered enum, EnumAsBin, atomic, time_point / duration over ns, us, ms, s, min, h, CTimeRef, classes with internal / external serialisation, '
               'BaseObject, a conditional field, nested classes, C arrays, vector, vector<bool>, deque, list, forward_list, array, valarray, queue, stack, priority_queue, bitset, set / multiset / '
               'unordered_*, map / multimap / unordered_* with string, wide-string, int, float, double, enum and time_point keys, optional, unique_ptr, shared_ptr, pair, tuple, byte containers and the '
               'nestings vector<vector<T>>, vector<vector<char>>, map<K, vector<T>>, vector<map>, vector<optional>, map<K, optional>) x a NAMED value alphabet per type (integers: 0, +-1, type min / max '
               'and every MsgPack / JSON width threshold +-1 from 127 to 2^64-1; floats: +-0, 1.5, 0.1, max, lowest, min normal, denormal min, 2^24+2 / 2^53+2, NaN, +-Inf; strings: "", "a", " ", " a ", '
               'e-acute, euro, emoji, quote, backslash, <&>, LF, TAB, CR, a-CR-b, ",;|", U+0001, U+FFFD, U+FFFF, lengths 31 / 32 / 255 / 256; chrono: epoch, +-1 unit, +-1.5 s, -0.5 s, -1 s, 2^32 s-1 / 2^32 s, 2^34 s-1 / '
               '2^34 s, year 9999 / 10000 / 0 / -1, min, max; compound values: size 0, size 1 x the full element alphabet, size 2 x reduced^2 (thorough: also full x reduced both ways), size 3 x reduced^3 '
               '(thorough), maps with every key / every value once, key pairs, duplicate keys for multi containers, null and every pointee for optional / pointers, one member at a time over its full '
               'alphabet plus the reduced product for pair / tuple / classes / arrays) x placement {document root, array element followed by a sentinel, object member followed by a sentinel} (CSV: cell of one '
               'or two rows; containers of row objects with 0..3 rows) x ALL output configurations of the archive: JSON and XML {memory} U {stream x UTF-8, UTF-16LE/BE, UTF-32LE/BE x BOM on / off} x formatting '
               '{off, tab x1, (thorough) space x2}; CSV the same encodings x separators {comma, semicolon, tab, space, pipe}; MsgPack memory, stream, stream with text options set; (ii) shaped value trees '
               '(models/shaped_value.hpp) over {null, bool, int, float, string, binary, array, object} up to depth 2 (quick) / 3 (thorough), width 2, in the same configurations, and the same trees written by '
               'the independent emitters of harness/typed_load.hpp (fixed point of foreign documents). Says nothing about values between the alphabet points, containers longer than 3, trees deeper than 3, '
               'load policies other than the defaults (ThrowError / ThrowError), or documents not written by the library or the emitters.',
    level_note='Trusted: the value builders, show / eq and UTF widening of harness/c01_common.hpp (written without library code), std container operator== for unordered containers, the explorer engine. '
               'Values a format cannot carry are excluded by rule, not by outcome: U+0001 in XML / CSV, U+FFFF in XML, map keys that are not XML names (non-string keys, "", " ", ...), NaN as key of an ordered '
               'map, an unregistered enum value inside an open CSV row (std::terminate, recorded by C20), scalars at the XML root, non-tabular shapes in CSV. `long long` / `unsigned long long` are rejected at '
               'compile time by MsgPack everywhere and by JSON inside arrays / objects (ambiguous overloads), so they are enumerated where they compile (JSON root, XML, CSV). A save that throws an exception derived '
               'from std::exception satisfies the statement and is only counted (outcome classes <archive>:save_threw:<class>). Targets are default-constructed, so a loader that leaves the target untouched is '
               'seen only for non-default values (populated targets are C18).',
    rule='execution = one (archive, type, placement, value) case run through ALL output configurations of the archive (evaluations = case x configuration = one save + load + save + load, plus one '
         'memory save for the byte comparison); tree scenario: one (archive, tree, document source) case x all configurations. distinct_nontrivial = distinct (archive, exact type, placement, value) cases. '
         'A violation signature names archive, class of failing configurations ("any" = all of them, otherwise the restricted dimensions), type (leaf types by name, compound types by kind), value class '
         '(alphabet symbol; for compound values size + the non-reduced leaf symbols and the marks n0 = nested empty container, null, dupkey) and placement.',
    assumptions=['equality: floats bit-wise with NaN == NaN, unordered containers as (multi)sets, container adapters by draining copies, smart pointers / optional by pointee, classes member-wise',
                 'the default load policies (overflow ThrowError, mismatch ThrowError, UTF errors ThrowError) are the configuration under which "can be loaded" is judged',
                 'BOM-less streams are loaded with the same SerializationOptions as used for saving (the loaders detect the encoding themselves)'],
    deadline=dict(quick=600, thorough=1500),
)
