from checks_common import *

CHECK = dict(
    src=['harness/c10_mem_vs_stream.cpp'], variants=[P, S16], level='model_checking', extra_flags=['-fno-access-control'],
    technique='differential exhaustive exploration: every (document, padding, mutation, request order, stream kind, delivery schedule with bounded short-read deviations) executed through the real memory reader and the real stream reader; outcomes compared',
    level_text='For every corpus document of the four archives: the valid document, every truncation (last 24 bytes, thorough 48) and 10 (thorough 16) byte values at each of the last 12 (thorough 32) positions, at every padding 0..chunk with the '
               '16/32-byte hook chunks and at paddings around the production 256-byte boundary, loaded in document order, in reversed request order and with each one of the first four top-level fields left unrequested (the reader has to skip it; one document carries a 600-byte value, longer than two chunks), with Throw and Skip policies, from std::istringstream, from a '
               'harness streambuf whose refills deliver 1,2,3 or 7 bytes at explorer-chosen refill indices (<= 1 deviation; thorough: <= 2 for the valid documents) and from a non-seekable streambuf. '
               'Each execution is one environment schedule on the real readers; transitions = stream refills served.',
    level_note='Trusted: the harness streambuf (engine/env.hpp) only produces behaviour the std::streambuf contract allows. A non-seekable stream may answer a backward field request with InputOutputError '
               '(it cannot do better; accepted only when the harness streambuf really refused a position before the current one); every other difference between memory and stream outcome is a violation. Save-side byte equality is checked by C01/C06.',
    rule='execution = one (archive, document, padding, mutation, order, stream kind, policy, delivery schedule); distinct_nontrivial = distinct cases whose input is longer than one reader chunk (a boundary is actually crossed); '
         'states = distinct (configuration, refills, seeks) tuples reached',
    assumptions=['error category = SerializationErrorCode (or C++ exception type); loaded values compared including per-field loaded flags'],
)
