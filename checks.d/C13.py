from checks_common import *

# p256: sanitizer build, X of length <= 2 (both tiers). len3: plain -O2 build that enumerates exactly the X of length 3 (thorough only),
# so that the two variants together cover length <= 3 without doing anything twice.
LEN3 = dict(name='len3', flavour='fast', defs=['-DC13_LEN3_ONLY'], tiers=('thorough',))

CHECK = dict(
    src=['harness/c13_encoded_streams.cpp'], variants=[P, LEN3], level='model_checking',
    extra_flags=['-fno-access-control'], libs=['-Wl,--wrap=memcpy', '-Wl,--wrap=_ZNSi4readEPcl'],
    deadline=dict(quick=420, thorough=1500),
    technique='bounded exhaustive enumeration of encoded text streams (texts a^p.X.a^q around every chunk boundary offset, 5 encodings, BOM on/off, every truncation point, both policies, <=1 short delivery) executed on the real '
              'DetectEncoding / CEncodedStreamReader<TChar, ChunkSize> / CEncodedStreamWriter and the CSV/JSON/XML stream loaders, judged by a reference UTF encoder/decoder',
    level_text='Every transition is one ReadChunk (or DetectEncoding / Write / LoadObject) call of the real implementation; the states are the distinct (window start, window end, stream eof) triples of the reader per chunk size and code unit size. '
               'Complete within the stated alphabet and bounds; says nothing about ill-formed input other than truncation (that is C12) or about texts whose special characters lie elsewhere than around the first two chunk boundaries.',
    level_note='Trusted: ref/ref_utfstream.hpp (encoder and strict decoder written from the Unicode standard; cross-checked against each other on every truncation of every short text), the explorer engine, env::ChunkedInBuf. '
               'Seams: the reader window is read through -fno-access-control; memcpy is wrapped at link time so that an overlapping copy is reported and executed as memmove instead of aborting the run; '
               'std::istream::read is wrapped (loader scenario only) so that 10000 consecutive reads at end of input end the load with an exception instead of hanging the worker. '
               'The ReadChunk loop of the reader scenario is bounded by the harness itself (bytes+8 calls, or a proven fixed point).',
    rule='texts a^p.X.a^q: X = every sequence of length <=2 (thorough <=3) over {b1=U+007A, b2=U+00E9, b3=U+20AC, b4=U+1F600, b4max=U+10FFFF, feff=U+FEFF, nul=U+0000}; p such that X starts at every byte offset '
         'k*ChunkSize-8..k*ChunkSize+8 (k=1,2; quick: k=1 only for ChunkSize 256) of the encoded stream; q in {0, 1, ChunkSize bytes of filler (quick: not for 256)}; plus every text of 0..3 symbols over the alphabet, "a" and the ASCII boundary characters U+000A, U+001F, U+007F (a BOM-less text may begin with any ASCII character other than NUL); writer additionally: every source unit string of length <= 3 over a per-width alphabet with ill-formed units (lone surrogates, surrogate / out-of-range code points, lone lead and tail octets), judged by strict decoding of the written stream and the segmentation-agnostic matcher of C12; '
         'x {UTF-8, UTF-16LE/BE, UTF-32LE/BE} x BOM {on, off} x target char {char, char16_t, char32_t} x ChunkSize {32, 64, 256} x every truncation point 0..len x {Skip, ThrowError} '
         'x delivery {all at once, first underflow 1 byte (thorough also chunk-1, chunk+1 bytes)}. '
         'DetectEncoding: same texts around offset 128 (its look-ahead), string overload and stream overload x skipBomWhenFound x start position {0, 3}. Writer: every short text and a^{1,40}.X.a^{0,1} x 5 encodings x BOM x source '
         '{char, char16_t, char32_t, wchar_t} x policy x one Write call and every split into two calls, plus the array overload with a literal. Loaders: one-record CSV/JSON/XML document whose string value is a^p.X.z (X without nul, '
         'length <=2; CSV: p sweeps X over offsets 248..264) x 5 encodings x BOM, plus each document with its last byte cut off. distinct_nontrivial = distinct (configuration, complete encoded stream, delivery).',
    assumptions=['reference encoder/decoder written from the Unicode standard (ref/ref_utfstream.hpp)',
                 'detection and content are demanded for streams with a BOM, and without a BOM when the first code point is ASCII other than NUL; not demanded where two encodings produce identical bytes: UTF-16LE BOM followed by U+0000 '
                 '(= UTF-32LE BOM), and BOM-less UTF-8/UTF-16 text whose second code point is U+0000',
                 'a stream cut inside its BOM, or before the first complete character of a BOM-less text, must only terminate (EndFile/DecodeError within bytes+8 calls)',
                 'a stream cut inside a character: Skip -> complete prefix + exactly one default error mark (U+2610); ThrowError -> DecodeError after the complete prefix',
                 'stream position after DetectEncoding(stream): the original position, plus the length of the BOM of the reported encoding when the stream starts with it and skipBomWhenFound is set; stream state good()',
                 'short deliveries are produced at streambuf::underflow level only (a short xsgetn would mean end of file); istream::read loops over them, so the library cannot observe them unless it used readsome/in_avail '
                 '(it does not): the deviation is explored as specified and is expected to change nothing'],
)
