from checks_common import *

CHECK = dict(
    src=['harness/c20_faults.cpp'], variants=[P, S16], level='fault_enumeration',   # S16: 16-byte reader chunk, so that refill boundaries fall inside the small corpus documents
    technique='complete enumeration of fault points (every truncation length, every k-th allocation failure, every stream failure offset, every position of a library-detected mid-operation error) executed on the real archives under worker supervision',
    level_text='For corpus documents in all four archives (MsgPack additionally: 128 documents [padding, 300, 2.5, X] whose last value X in {u32, i64, f64, u64} is slid over every alignment of the 16-byte and the 256-byte refill boundary (thorough: every padding 0..271); the check runs with both reader chunk sizes), memory and stream: every strict prefix of the input; "the k-th operator new fails" for every k of the fault-free run (pugixml through its allocator seam) for '
               'load and save; every byte offset at which the input streambuf starts to return EOF or to throw and at which the output streambuf starts to fail or to throw; CSV/array row-width mismatch at every row, '
               'unregistered enum at every element (save) and unknown enum text at every row (load), fixed std::array size mismatch for every element count, the k-th Serialize() call of a user type throwing (3 exception types, every k, save and load of a nested class / vector / map structure), validation cap 0..3 reached inside nested scopes for every '
               'subset of missing required fields. Errors raised inside an element of 11 std adapter kinds (tuple, pair, array, vector, list, deque, set, map, optional, vector<tuple>, vector<vector>): number overflow, ill-formed UTF-8 into a wide string, input ending inside the element (every prefix), MsgPack and JSON, memory and stream, mismatched-types policy ThrowError and Skip - each must reach the caller. Each faulted execution runs in a supervised worker: terminate/abort/signal/hang become outcomes; an allocation ledger detects leaks; a fault-free follow-up must succeed.',
    level_note='Trusted: replacement operator new/delete ledger (engine/env.hpp), harness streambufs, worker supervision. malloc failures inside RapidJSON (CrtAllocator, unchecked malloc in third-party code) are not injected. '
               'Text formats may accept a truncated document that is still complete for the parser; MessagePack is prefix-free so every strict prefix must be rejected.',
    rule='execution = one (scenario, archive, document, source, fault point); distinct_nontrivial = distinct (scenario, configuration, fault point) with a fault actually injected',
    assumptions=['RapidJSON internal malloc failures not injected (third-party code dereferences unchecked malloc results)',
                 'an allocation failure that the library absorbs without throwing is recorded as outcome alloc_failure_absorbed, not as a violation'],
)
