from checks_common import *

CHECK = dict(
    src=['harness/c03_request_order.cpp'], variants=[P, S16], level='model_checking', extra_flags=['-fno-access-control'],
    technique='explicit enumeration of all request histories up to a depth bound on the real archive scopes (history replayed on a fresh archive per execution), canonical cursor-state hashing, reference-map oracle',
    level_text='All request histories of length <= L (quick 3, thorough 4) over {Get(key) full / array partly read / nested object partly read, Get(absent), VisitKeys} for every corpus object (<= 3 keys quick, '
               '<= 4 thorough; string keys - two documents with key names that are prefixes of each other - and, for MsgPack, uint/int/float/double/timestamp keys; keys passed as std::string straight into Serialize() and as C strings through KeyValue), embedded in an array and in an object with a trailing sentinel, 4 archives, memory and stream, every padding 0..17 '
               'with a 16-byte stream cache (hook) and paddings around the production 256-byte boundary. states = distinct canonical cursor states (scope index, pending key, reader position, cache window, '
               'stream position, iostate); aux = states reached by histories shorter than L: states == aux means no new cursor state appears at the last depth.',
    level_note='Trusted: reference documents from independent emitters (ref MsgPack encoder, own JSON/XML/CSV emitters), models/num_model.hpp. Each request is judged independently against the source map. '
               'Non-seekable streams and short reads are explored by C10; mismatching targets by C05.',
    rule='execution = one history (sequence of requests) replayed on a fresh archive over one (archive, document, embedding, source, padding) configuration; distinct_nontrivial = distinct '
         '(configuration, history class) with at least two requests',
    assumptions=['requests use targets of the kind stored under the key (C03 speaks about order, absence and partial reads; kind mismatches are C05)',
                 'XML corpus restricted to what the XML archive can carry unambiguously (no empty strings/containers, see C01 findings)'],
)
