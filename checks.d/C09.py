from checks_common import *

# c16: the reading scenarios (rev, malformed, typed-rev) from streams only, library built with 32-byte encoded stream chunks (thorough only)
C16 = dict(S16, tiers=('thorough',))

CHECK = dict(
    src=['harness/c09_csv_rfc4180.cpp'], variants=[P, C16], level='exploration',
    deadline=dict(quick=420, thorough=900),
    technique='bounded exhaustive enumeration of tables, separators, renderings and sources, executed on the real CSV archive (SaveObject / LoadObject of std::vector<Row>), '
              'judged by a strict RFC 4180 reference parser and an independent RFC 4180 reference writer; failing cases are minimised in the harness',
    level_text='Every execution runs the real CSV writers (memory and encoded stream) or readers (memory and encoded stream) through the public SaveObject / LoadObject entry points with a real row class. '
               'Complete within the stated alphabets and bounds (table shape, cell alphabet, at most 2 deviations = cells different from "a" or fields quoted beyond need). '
               'Says nothing about cells outside the alphabet, tables with more than 3 columns or rows, three or more special cells at once, documents longer than one reader chunk '
               '(C10 / C13 judge chunk boundaries) or ill-formed CSV other than a wrong field count.',
    level_note='Trusted: ref/ref_csv.hpp (parser and writer written from the RFC 4180 ABNF; self-test with the RFC examples at start-up; writer and parser check each other on every rendering), '
               'ref/ref_utfstream.hpp (UTF encoder / strict decoder), the explorer engine. The signature of a violation is the class of the case obtained by putting every dimension back to its default '
               '(UTF-8 stream without BOM, identity column order, CRLF, final line break, minimal quoting, cell "a", plain header names, comma) while the same outcome class persists '
               '(deterministic one-pass minimisation that re-runs the library); the case in which it was found is kept in the detail text and in the replay file.',
    rule='fwd: tables with 1..3 columns x 0..2 rows (thorough: 0..3 rows; the 3-row tables over the reduced alphabet {a, empty, the separator, quote, LF, CR, CRLF, U+1F600}) whose cells are "a" except for <= 2 cells '
         'taken from {empty, comma, semicolon, TAB, space, pipe, quote, two quotes, LF, CR, CRLF, "a,b", " a ", U+00E9, U+20AC, U+1F600, "1", "true", ISO date text}; header names = each of the 4 rotations of {a, "a b", "\\"q\\"", U+00E9}; '
         'x separators {comma, semicolon, TAB, space, pipe}; saved to std::string and to std::ostream x (UTF-8, UTF-16LE/BE, UTF-32LE/BE) x BOM on/off. '
         'rev: the same tables (2 header rotations) rendered by the reference writer x every column order (<= 3!) x {CRLF, LF} x {final line break, none} x <= 2 deviations shared between special cells and fields quoted although not '
         'required (header fields included), loaded by name into std::vector<Row>. malformed: tables with 1..3 columns x 1..2 (thorough 3) rows over the reduced alphabet, one record with one more field ("x" or empty) or one field fewer, '
         'at each row position x {CRLF, LF} x {final line break, none}; expected ParsingError. '
         'typed: rows with int32 / bool / time_point<seconds> / string members (value alphabets of 5/2/4/5), 1..2 rows, both directions, 24 column orders (quick 6), <= 2 deviations over values and quoting. '
         'Sources / sinks: all 11 (memory; stream x 5 encodings x BOM) for every case with <= 1 deviation; cases with 2 deviations from {memory, UTF-8 stream without BOM} (thorough: + UTF-8 with BOM, UTF-16LE with BOM, '
         'UTF-32BE without BOM; malformed: the first two only). Variant c16 (thorough only): the library built with 32-byte encoded stream chunks, the reading scenarios (rev, malformed, typed-rev) from the 10 stream sources '
         '(2 deviations: UTF-8 and UTF-32BE without BOM), so that the stream reader refills inside these documents (UTF-32: every 8 characters). '
         'executions = judged (case, source) pairs; distinct_nontrivial = distinct pairs with a defined expectation.',
    assumptions=['RFC 4180 ABNF with COMMA = the configured separator and TEXTDATA = every character other than DQUOTE, separator, CR, LF (the RFC lists printable ASCII only; the property is about Unicode text)',
                 'a line break is CRLF or bare LF; a line break at the very end of the text is the optional final one (the ABNF is ambiguous there): a rendering whose last record is one empty unquoted field without final line break is not judged',
                 'an empty list has no keys, so a header line cannot be demanded for it; what SaveObject writes for it must load back as an empty list',
                 'empty string cells may be written as nothing or as "" (both are RFC fields that an independent parser reads as the empty string)',
                 'BOM-less UTF-16/32 input is judged only when the document starts with an ASCII character (auto-detection presupposes it; same reading as C13)',
                 'forward direction: the memory output is judged by the reference parser; every stream output must decode (reference UTF decoder) to exactly the memory text, UTF-8 without BOM to the same bytes, and carry a BOM exactly when asked',
                 'typed members: int32 as decimal text, bool as true/false, time_point<seconds> as YYYY-MM-DDThh:mm:ssZ',
                 'malformed = field count differs from the header; expected error category ParsingError'],
)
