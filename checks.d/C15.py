from checks_common import *

FAST15 = dict(name='fast', flavour='fast', defs=['-DVERIF_FAST=1'])

CHECK = dict(
    src=['harness/c15_chrono_parse.cpp'], variants=[P, FAST15], level='exploration',
    technique='bounded exhaustive enumeration of grammar words (per-field alphabets, deviation-bounded) and of all fraction strings, parsed by the real code into every target type, judged by a reference classifier with __int128 values',
    level_text='Every execution runs the real Convert::To<time_point|duration|CRawTime|tm>(text). Complete within the stated alphabets and bounds: all words of the date-time and duration templates '
               'with at most N fields deviating from each base string, every target type x 3 character types, the reference texts around every time_point limit, and all fraction strings up to the stated length. '
               'Says nothing about strings outside the templates (e.g. four or more simultaneous deviations) or magnitudes between the alphabet symbols.',
    level_note='Trusted: ref/ref_calendar.hpp (strict recognisers of the documented grammars, the lenient/malformed classifier, calendar arithmetic in __int128; the two are cross-checked on every generated word), the explorer engine. '
               'Variant fast (-O2) runs everything stated in the rule. Variant p256 (ASan+UBSan) runs the same words with up to 2 deviating fields; words with 3 deviating fields (thorough) as char only; fractions up to 6 (quick 5) digits plus boundary classes; words of a class that runs into a known UBSan abort (year -2^63; numbers 2^63..2^64-1 per target and sign; dates below the minimum of 64-bit days) are run until the first abort of that class and skipped afterwards (engine crash memo), because every abort costs a process restart.',
    rule='exhaustive enumeration: (0) date-time words: 4 base strings x 14 fields (year/month/day/hour/minute/second/fraction alphabets at, below and above range incl. 2^63, 2^64, 10^20; delimiter, T, Z and trailing mutations) with <=N deviating fields '
         '(N=2 quick, 3 thorough) x {28 time_point types over {ns,us,ms,s,min,h,days} x {int64,int32,uint64,int8}, time_t, tm} x {char,char16_t,char32_t}; (1) per time_point target the reference text of min+k, max+k units, k=-3..3, '
         'x sub-unit parts {0, .4, .5, .6 unit, 1 ns}; (2) duration words per target (28 duration types): 3 base strings (small, decomposition of max, decomposition of min) x 15 fields (magnitudes 0, 1, what the target can hold +-1, 2^31, 2^32, 2^63-1, 2^63, '
         '2^64-1, 2^64, 10^20; Y/M/other designators; fractions outside the seconds part; sign, P, T, trailing mutations) with <=N deviating fields; (3) all fraction strings of 1..L digits (L=9 thorough fast build, 7 quick fast, 6/5 sanitizer build) plus, above L, the rounding-boundary '
         'residues {0,+-1,half,half+-1} of 10^3/10^6/10^9 ns, as date-time, duration and negative duration into {ns,us,ms,s} x int64. distinct_nontrivial = distinct (target, text) words with up to two deviating fields + boundary texts + fraction blocks (words with three deviating fields are counted as executions only).',
    assumptions=['documented grammar: [+-]YYYY-MM-DDThh:mm:ss[(.|,)f{1,9}]Z and [+-]P[nW][nD][T[nH][nM][n[(.|,)f{1,9}]S]]',
                 'leniencies the documentation does not forbid (unusual digit counts, lower-case designators, characters after the end, second 60, hour 24, >9 fraction digits, repeated or unordered components, dangling T) may be accepted with the denoted value or rejected',
                 'a duration is required to be accepted only when every component is representable in the target on its own and all partial sums are in range (the library accumulates component-wise)',
                 'a negative sign with an unsigned target may be refused with out_of_range even for zero',
                 'tm: calendar year and month either as written (library tests) or in struct tm convention',
                 'for malformed text out_of_range is tolerated when the text contains a number beyond 64 bits or what precedes the malformation does not fit the target'],
    deadline=dict(quick=600, thorough=1700),
)
