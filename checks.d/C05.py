from checks_common import *

CHECK = dict(
    src=['harness/c05_skip_neighbours.cpp'], variants=[P, S16], level='exploration',
    technique='deviation-bounded exhaustive enumeration of offence substitutions (every <= N positions x every offence kind) executed on the real loaders with Skip policies; exact typed-load reference model',
    level_text='Every document obtained from each well-typed base document by replacing any <= 2 (thorough 3) values at any depth by a value of another kind or out of range '
               '(nil, bool, int, 2^40, negative int, float, string, array, map, bin), loaded with Skip/Skip, Skip-overflow/Throw-mismatch and Throw-overflow/Skip-mismatch policies, '
               'from memory and stream, in all four archives (restricted to what each format can carry); plus the same substitutions against real std::vector<int>, std::vector<class> and class targets, and (std-container scenario) against tuple<int,string,int>, array<int,3>, list, deque, forward_list, set, valarray, map, unordered_map, pair, optional, unique_ptr and vector<tuple>, each followed by a field, a second untouched holder and a sentinel (MsgPack, JSON, XML; memory and stream; also the MsgPack-only ts96/ts64/ext8/str8/array16 offences); and (target-kind scenario) against bool, int32, uint8, double, string, registered enum, time_point and duration fields carrying Required and a validator that records the isLoaded flag, <= 2 fields replaced by another kind or removed: reported loaded <=> target holds a document value, reported not loaded <=> previous value kept and Required listed for that path.',
    level_note='Trusted: models/num_model.hpp (allowed outcomes per (document value, target kind, policy); text-carrying formats judged by their lexical value), independent document emitters. '
               'XML cannot distinguish array from object or null from empty, those substitutions are excluded for XML.',
    rule='execution = one (archive, base document, offence set, policy, source); distinct_nontrivial = distinct executions with at least one offence',
    assumptions=['int<->float<->bool cross-family values may be delivered exactly or treated per the mismatched-types policy',
                 'an element that was skipped inside a std::vector keeps the value-initialised / previous element (count and positions of the others are what is checked)'],
)
