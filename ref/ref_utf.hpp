// ref_utf.hpp — independent UTF-8 / UTF-16 / UTF-32 (LE/BE) reference: encoder, strict decoder /
// validator, classification of ill-formed positions and the segmentation-agnostic matcher ("NFA")
// used by C12. Written from The Unicode Standard, chapter 3 (D76 scalar value, D90-D92 encoding
// forms, Table 3-7 "Well-Formed UTF-8 Byte Sequences", D96-D101 encoding schemes) — not from the
// library under test. No BitSerializer includes.
//
// Terminology: a *unit* is a logical code unit (the integer value after the byte order of the
// encoding scheme has been applied); `w` is the width of a unit in bytes (1, 2 or 4).
#pragma once
#include <algorithm>
#include <cstddef>
#include <cstdint>
#include <cstring>
#include <string>
#include <vector>

namespace ref { namespace utf {

enum Enc { U8 = 0, U16LE, U16BE, U32LE, U32BE, ENC_COUNT };
inline int width(Enc e) { return e == U8 ? 1 : (e == U16LE || e == U16BE) ? 2 : 4; }
inline bool bigEndian(Enc e) { return e == U16BE || e == U32BE; }
inline const char* name(Enc e) { static const char* n[] = {"utf8", "utf16le", "utf16be", "utf32le", "utf32be"}; return n[e]; }
inline const char* formName(int w) { return w == 1 ? "utf8" : w == 2 ? "utf16" : "utf32"; }

using Units = std::vector<uint32_t>;

// D76: Unicode scalar value = any code point except high- and low-surrogate code points.
inline bool isScalar(uint32_t c) { return c <= 0x10FFFF && !(c >= 0xD800 && c <= 0xDFFF); }
inline bool isHigh(uint32_t u) { return u >= 0xD800 && u <= 0xDBFF; }
inline bool isLow(uint32_t u) { return u >= 0xDC00 && u <= 0xDFFF; }
inline bool isCont(uint32_t b) { return b >= 0x80 && b <= 0xBF; }

// ---------------------------------------------------------------------------------- encoder
// Writes the code unit sequence of scalar `c` in the encoding form of width `w` to out[0..];
// returns the number of units (0 if c is not a scalar value).
inline int encodeScalar(uint32_t c, int w, uint32_t* out) {
	if (!isScalar(c)) return 0;
	if (w == 4) { out[0] = c; return 1; }
	if (w == 2) {
		if (c < 0x10000) { out[0] = c; return 1; }
		uint32_t v = c - 0x10000;                      // D91: 20 bits split 10/10
		out[0] = 0xD800 + (v >> 10); out[1] = 0xDC00 + (v & 0x3FF); return 2;
	}
	// D92 / Table 3-6
	if (c < 0x80) { out[0] = c; return 1; }
	if (c < 0x800) { out[0] = 0xC0 | (c >> 6); out[1] = 0x80 | (c & 0x3F); return 2; }
	if (c < 0x10000) { out[0] = 0xE0 | (c >> 12); out[1] = 0x80 | ((c >> 6) & 0x3F); out[2] = 0x80 | (c & 0x3F); return 3; }
	out[0] = 0xF0 | (c >> 18); out[1] = 0x80 | ((c >> 12) & 0x3F); out[2] = 0x80 | ((c >> 6) & 0x3F); out[3] = 0x80 | (c & 0x3F); return 4;
}
inline bool encode(const std::vector<uint32_t>& scalars, int w, Units& out) {
	for (uint32_t c : scalars) { uint32_t b[4]; int n = encodeScalar(c, w, b); if (!n) return false; out.insert(out.end(), b, b + n); }
	return true;
}
inline Units encode(const std::vector<uint32_t>& scalars, int w) { Units u; encode(scalars, w, u); return u; }

// encoding scheme: logical units -> bytes in the byte order of `e`, and back
inline std::string toBytes(const uint32_t* u, size_t n, Enc e) {
	std::string r; int w = width(e); r.reserve(n * static_cast<size_t>(w));
	for (size_t i = 0; i < n; ++i) {
		uint32_t v = u[i];
		if (w == 1) r.push_back(static_cast<char>(v));
		else if (w == 2) { if (bigEndian(e)) { r.push_back(static_cast<char>(v >> 8)); r.push_back(static_cast<char>(v)); } else { r.push_back(static_cast<char>(v)); r.push_back(static_cast<char>(v >> 8)); } }
		else { if (bigEndian(e)) for (int s = 24; s >= 0; s -= 8) r.push_back(static_cast<char>(v >> s)); else for (int s = 0; s <= 24; s += 8) r.push_back(static_cast<char>(v >> s)); }
	}
	return r;
}
inline std::string toBytes(const Units& u, Enc e) { return toBytes(u.data(), u.size(), e); }
inline bool fromBytes(const void* p, size_t nbytes, Enc e, Units& out) {
	const unsigned char* b = static_cast<const unsigned char*>(p); size_t w = static_cast<size_t>(width(e));
	if (nbytes % w) return false;
	for (size_t i = 0; i < nbytes; i += w) {
		uint32_t v = 0;
		if (w == 1) v = b[i];
		else if (w == 2) v = bigEndian(e) ? (uint32_t(b[i]) << 8 | b[i + 1]) : (uint32_t(b[i + 1]) << 8 | b[i]);
		else v = bigEndian(e) ? (uint32_t(b[i]) << 24 | uint32_t(b[i + 1]) << 16 | uint32_t(b[i + 2]) << 8 | b[i + 3]) : (uint32_t(b[i + 3]) << 24 | uint32_t(b[i + 2]) << 16 | uint32_t(b[i + 1]) << 8 | b[i]);
		out.push_back(v);
	}
	return true;
}

// ---------------------------------------------------------------------------------- strict decoder
// If a well-formed minimal code unit sequence starts at u[i] (and lies completely inside [0,n)),
// returns its length and stores its scalar value; otherwise returns 0.
inline int decodeOne(const uint32_t* u, size_t n, size_t i, int w, uint32_t& cp) {
	if (i >= n) return 0;
	uint32_t a = u[i];
	if (w == 4) { if (!isScalar(a)) return 0; cp = a; return 1; }
	if (w == 2) {
		if (a > 0xFFFF) return 0;
		if (!isHigh(a) && !isLow(a)) { cp = a; return 1; }
		if (isHigh(a) && i + 1 < n && isLow(u[i + 1])) { cp = 0x10000 + ((a - 0xD800) << 10) + (u[i + 1] - 0xDC00); return 2; }
		return 0;
	}
	if (a > 0xFF) return 0;
	if (a <= 0x7F) { cp = a; return 1; }
	auto in = [&](size_t k, uint32_t lo, uint32_t hi) { return i + k < n && u[i + k] >= lo && u[i + k] <= hi; };
	// Table 3-7, row by row
	if (a >= 0xC2 && a <= 0xDF) { if (in(1, 0x80, 0xBF)) { cp = (a & 0x1F) << 6 | (u[i + 1] & 0x3F); return 2; } return 0; }
	if (a >= 0xE0 && a <= 0xEF) {
		uint32_t lo = a == 0xE0 ? 0xA0 : 0x80, hi = a == 0xED ? 0x9F : 0xBF;
		if (in(1, lo, hi) && in(2, 0x80, 0xBF)) { cp = (a & 0x0F) << 12 | (u[i + 1] & 0x3F) << 6 | (u[i + 2] & 0x3F); return 3; }
		return 0;
	}
	if (a >= 0xF0 && a <= 0xF4) {
		uint32_t lo = a == 0xF0 ? 0x90 : 0x80, hi = a == 0xF4 ? 0x8F : 0xBF;
		if (in(1, lo, hi) && in(2, 0x80, 0xBF) && in(3, 0x80, 0xBF)) { cp = (a & 0x07) << 18 | (u[i + 1] & 0x3F) << 12 | (u[i + 2] & 0x3F) << 6 | (u[i + 3] & 0x3F); return 4; }
		return 0;
	}
	return 0;   // 80..BF, C0, C1, F5..FF never start a well-formed sequence
}
// validator + decoder of a complete unit string
inline bool decode(const uint32_t* u, size_t n, int w, std::vector<uint32_t>* scalars = nullptr) {
	for (size_t i = 0; i < n;) { uint32_t cp; int l = decodeOne(u, n, i, w, cp); if (!l) return false; if (scalars) scalars->push_back(cp); i += static_cast<size_t>(l); }
	return true;
}
inline bool valid(const Units& u, int w) { return decode(u.data(), u.size(), w); }
inline bool validBytes(const std::string& bytes, Enc e) { Units u; return fromBytes(bytes.data(), bytes.size(), e, u) && valid(u, width(e)); }
// first position at which no well-formed sequence starts when scanning from 0 (n if the text is well-formed)
inline size_t firstIllFormed(const uint32_t* u, size_t n, int w) {
	size_t i = 0; while (i < n) { uint32_t cp; int l = decodeOne(u, n, i, w, cp); if (!l) return i; i += static_cast<size_t>(l); } return n;
}

// ---------------------------------------------------------------------------------- ill-formed positions
// The length a lead unit announces (UTF-8: by its bit pattern incl. the historical 5/6 byte forms;
// UTF-16: a high surrogate announces a pair). A converter may treat up to this many units as "one
// ill-formed sequence"; Unicode's own recommendation (maximal subparts) is never longer.
inline int declaredLen(uint32_t a, int w) {
	if (w == 4) return 1;
	if (w == 2) return isHigh(a) ? 2 : 1;
	if (a <= 0x7F) return 1;
	if (a <= 0xBF) return 1;   // stray continuation byte
	if (a <= 0xDF) return 2;
	if (a <= 0xEF) return 3;
	if (a <= 0xF7) return 4;
	if (a <= 0xFB) return 5;
	if (a <= 0xFD) return 6;
	return 1;                  // FE, FF
}
// Named class of the ill-formed position i (precondition: decodeOne(...) == 0 there).
inline const char* illClass(const uint32_t* u, size_t n, size_t i, int w) {
	uint32_t a = u[i];
	if (w == 4) return (a >= 0xD800 && a <= 0xDFFF) ? "utf32_surrogate" : "gt10FFFF";
	if (w == 2) {
		if (a > 0xFFFF) return "unit_out_of_range";
		if (isLow(a)) return "lone_low_surrogate";
		if (i + 1 >= n) return "truncated_pair";
		uint32_t b = u[i + 1];
		return isHigh(b) ? "hi_surrogate_then_hi" : b < 0xD800 ? "hi_surrogate_then_bmp_below_D800" : "hi_surrogate_then_bmp_E000_FFFF";
	}
	if (a > 0xFF) return "unit_out_of_range";
	if (a <= 0xBF) return "stray_continuation";
	if (a >= 0xFE) return "invalid_lead_FE_FF";
	int L = declaredLen(a, 1);
	bool shortInput = i + static_cast<size_t>(L) > n, badTail = false;
	for (size_t k = 1; k < static_cast<size_t>(L) && i + k < n; ++k) if (!isCont(u[i + k])) badTail = true;
	if (a >= 0xF8) return badTail ? (a >= 0xFC ? "lead6_bad_tail" : "lead5_bad_tail") : shortInput ? (a >= 0xFC ? "lead6_truncated" : "lead5_truncated") : (a >= 0xFC ? "lead6" : "lead5");
	if (badTail) return shortInput ? "bad_tail_short" : "bad_tail";
	if (shortInput) return "truncated_tail";
	// structurally complete (lead + the announced number of continuation bytes) but outside Table 3-7
	if (a <= 0xC1) return "overlong2";
	if (a == 0xE0) return "overlong3";
	if (a == 0xED) return "surrogate_utf8";
	if (a == 0xF0) return "overlong4";
	return "gt10FFFF";   // F4 90.. and F5..F7
}

// ---------------------------------------------------------------------------------- the matcher
// Nondeterministic transducer over the input: at a position where a well-formed minimal sequence
// starts it emits that scalar (in the target form) and advances by its length; at any other position
// it emits one error mark and advances by 1..declaredLen units (never past the end). A run may also
// stop with "unexpected end" at an ill-formed position whose announced length reaches past the end
// of the input. `match` decides whether (output units, number of error steps, stop position) is
// produced by some run. Wildcards (diagnosis only): at positions in `wild` any step is allowed that
// consumes 1..declaredLen units and emits 0..maxScalarUnits arbitrary units with or without counting.
struct Nfa {
	static constexpr size_t MAXN = 24;
	const uint32_t* in; size_t n; int sw;
	int vlen[MAXN]; uint32_t cp[MAXN]; int decl[MAXN];
	size_t firstIll; int illCount = 0;

	Nfa(const uint32_t* input, size_t len, int srcWidth) : in(input), n(len), sw(srcWidth) {
		firstIll = n;
		for (size_t i = 0; i < n; ++i) {
			vlen[i] = decodeOne(in, n, i, sw, cp[i]);
			decl[i] = declaredLen(in[i], sw);
			if (!vlen[i]) ++illCount;
		}
		firstIll = firstIllFormed(in, n, sw);
	}
	bool allValid() const { return firstIll == n; }
	bool incompleteAt(size_t i) const { return i < n && !vlen[i] && i + static_cast<size_t>(decl[i]) > n; }

	struct St { uint16_t j, e; };
	struct Set { St s[96]; int k = 0; void add(uint16_t j, uint16_t e) { for (int i = 0; i < k; ++i) if (s[i].j == j && s[i].e == e) return; if (k < 96) s[k++] = St{j, e}; } };

	// out/outLen: logical units of the produced text (target width tw); mark/markLen: the error mark in the
	// target form; stop: n for a complete run, or the position an "unexpected end" result points to;
	// count: reported number of replaced sequences (pass SIZE_MAX to ignore the count).
	bool match(const uint32_t* out, size_t outLen, int tw, const uint32_t* mark, size_t markLen, size_t stop, size_t count, uint32_t wild = 0) const {
		if (n > MAXN || stop > n) return false;
		if (stop < n && !incompleteAt(stop)) return false;
		Set reach[MAXN + 1];
		reach[0].add(0, 0);
		const int maxEmit = tw == 1 ? 4 : tw == 2 ? 2 : 1;
		for (size_t i = 0; i < stop; ++i) {
			const Set& r = reach[i];
			if (!r.k) continue;
			if (vlen[i]) {
				uint32_t enc[4]; int m = encodeScalar(cp[i], tw, enc);
				for (int q = 0; q < r.k; ++q) {
					size_t j = r.s[q].j;
					if (j + static_cast<size_t>(m) <= outLen && !memcmp(out + j, enc, sizeof(uint32_t) * static_cast<size_t>(m))) reach[i + static_cast<size_t>(vlen[i])].add(static_cast<uint16_t>(j + static_cast<size_t>(m)), r.s[q].e);
				}
				continue;
			}
			size_t kmax = std::min<size_t>(static_cast<size_t>(decl[i]), n - i);
			for (int q = 0; q < r.k; ++q) {
				size_t j = r.s[q].j; uint16_t e = r.s[q].e;
				bool markHere = j + markLen <= outLen && (markLen == 0 || !memcmp(out + j, mark, sizeof(uint32_t) * markLen));
				for (size_t k = 1; k <= kmax; ++k) {
					if (i + k > stop) break;
					if (markHere) reach[i + k].add(static_cast<uint16_t>(j + markLen), static_cast<uint16_t>(e + 1));
					if (wild >> i & 1) for (int m = 0; m <= maxEmit && j + static_cast<size_t>(m) <= outLen; ++m) { reach[i + k].add(static_cast<uint16_t>(j + static_cast<size_t>(m)), e); reach[i + k].add(static_cast<uint16_t>(j + static_cast<size_t>(m)), static_cast<uint16_t>(e + 1)); }
				}
			}
		}
		for (int q = 0; q < reach[stop].k; ++q) if (reach[stop].s[q].j == outLen && (count == SIZE_MAX || reach[stop].s[q].e == count)) return true;
		return false;
	}
	// Diagnosis of a failed match: the ill-formed position whose treatment cannot be explained. Wildcards are
	// enabled cumulatively over the ill-formed positions in increasing order; the position whose wildcard
	// first makes the output derivable is the culprit. Returns n if even all wildcards do not help
	// (well-formed text was damaged).
	size_t culprit(const uint32_t* out, size_t outLen, int tw, const uint32_t* mark, size_t markLen, size_t stop) const {
		uint32_t wild = 0;
		for (size_t i = 0; i < n && i < 32; ++i) {
			if (vlen[i]) continue;
			wild |= 1u << i;
			// with wildcards the stop position is not constrained to an incomplete tail
			if (matchLoose(out, outLen, tw, mark, markLen, stop, wild)) return i;
		}
		return n;
	}
	const char* classAt(size_t i) const { return i >= n ? "valid_text" : vlen[i] ? "valid_text" : illClass(in, n, i, sw); }
private:
	bool matchLoose(const uint32_t* out, size_t outLen, int tw, const uint32_t* mark, size_t markLen, size_t stop, uint32_t wild) const {
		// the library may have stopped anywhere: try the reported stop position and, failing that, treat the rest as consumed
		if (stop <= n && (stop == n || incompleteAt(stop)) && match(out, outLen, tw, mark, markLen, stop, SIZE_MAX, wild)) return true;
		return match(out, outLen, tw, mark, markLen, n, SIZE_MAX, wild);
	}
};

// ---------------------------------------------------------------------------------- self-test
// Returns an empty string if the reference agrees with the worked examples of the standard.
inline std::string selfTest(bool allScalars = true) {
	struct V { uint32_t c; std::vector<uint32_t> u8, u16; };
	const V vec[] = {
		{0x0000, {0x00}, {0x0000}}, {0x0041, {0x41}, {0x0041}}, {0x007F, {0x7F}, {0x007F}}, {0x0080, {0xC2, 0x80}, {0x0080}},
		{0x00E9, {0xC3, 0xA9}, {0x00E9}}, {0x07FF, {0xDF, 0xBF}, {0x07FF}}, {0x0800, {0xE0, 0xA0, 0x80}, {0x0800}},
		{0x20AC, {0xE2, 0x82, 0xAC}, {0x20AC}}, {0x2610, {0xE2, 0x98, 0x90}, {0x2610}}, {0x4E8C, {0xE4, 0xBA, 0x8C}, {0x4E8C}},   // Table 3-4: U+4E8C
		{0xD7FF, {0xED, 0x9F, 0xBF}, {0xD7FF}}, {0xE000, {0xEE, 0x80, 0x80}, {0xE000}}, {0xFFFF, {0xEF, 0xBF, 0xBF}, {0xFFFF}},
		{0x10000, {0xF0, 0x90, 0x80, 0x80}, {0xD800, 0xDC00}}, {0x10302, {0xF0, 0x90, 0x8C, 0x82}, {0xD800, 0xDF02}},               // Table 3-4: U+10302
		{0x1F600, {0xF0, 0x9F, 0x98, 0x80}, {0xD83D, 0xDE00}}, {0x10FFFF, {0xF4, 0x8F, 0xBF, 0xBF}, {0xDBFF, 0xDFFF}},
	};
	for (const V& v : vec) {
		uint32_t b[4]; int n = encodeScalar(v.c, 1, b);
		if (Units(b, b + n) != v.u8) return "encode utf8 vector";
		n = encodeScalar(v.c, 2, b); if (Units(b, b + n) != v.u16) return "encode utf16 vector";
		n = encodeScalar(v.c, 4, b); if (n != 1 || b[0] != v.c) return "encode utf32 vector";
		std::vector<uint32_t> s;
		if (!decode(v.u8.data(), v.u8.size(), 1, &s) || s != std::vector<uint32_t>{v.c}) return "decode utf8 vector";
		s.clear(); if (!decode(v.u16.data(), v.u16.size(), 2, &s) || s != std::vector<uint32_t>{v.c}) return "decode utf16 vector";
	}
	if (toBytes(Units{0xD83D, 0xDE00}, U16BE) != std::string("\xD8\x3D\xDE\x00", 4) || toBytes(Units{0xD83D, 0xDE00}, U16LE) != std::string("\x3D\xD8\x00\xDE", 4)) return "utf16 byte order";
	if (toBytes(Units{0x1F600}, U32BE) != std::string("\x00\x01\xF6\x00", 4) || toBytes(Units{0x1F600}, U32LE) != std::string("\x00\xF6\x01\x00", 4)) return "utf32 byte order";
	{ Units back; if (!fromBytes("\x00\x01\xF6\x00", 4, U32BE, back) || back != Units{0x1F600}) return "fromBytes"; }
	// ill-formed examples (chapter 3.9, Table 3-7 exclusions; D91/D90 surrogate rules)
	const std::vector<Units> bad8 = {{0xC0, 0x80}, {0xC1, 0xBF}, {0xE0, 0x80, 0x80}, {0xE0, 0x9F, 0xBF}, {0xED, 0xA0, 0x80}, {0xED, 0xBF, 0xBF}, {0xF0, 0x80, 0x80, 0x80}, {0xF0, 0x8F, 0xBF, 0xBF},
		{0xF4, 0x90, 0x80, 0x80}, {0xF5, 0x80, 0x80, 0x80}, {0xF7, 0xBF, 0xBF, 0xBF}, {0xF8, 0x88, 0x80, 0x80, 0x80}, {0xFC, 0x84, 0x80, 0x80, 0x80, 0x80}, {0x80}, {0xBF}, {0xFE}, {0xFF},
		{0xC2}, {0xE2, 0x82}, {0xF0, 0x9F, 0x98}, {0xC2, 0x41}, {0xE2, 0x41, 0x80}, {0x41, 0x80}};
	for (auto& u : bad8) if (valid(u, 1)) return "utf8 validator accepts ill-formed";
	const std::vector<Units> bad16 = {{0xD800}, {0xDC00}, {0xDFFF}, {0xDBFF}, {0xD800, 0x41}, {0xD800, 0xE000}, {0xD800, 0xFFFF}, {0xD800, 0xD800}, {0xDC00, 0xD800}, {0x41, 0xDC00}};
	for (auto& u : bad16) if (valid(u, 2)) return "utf16 validator accepts ill-formed";
	const std::vector<Units> bad32 = {{0xD800}, {0xDFFF}, {0x110000}, {0x7FFFFFFF}, {0xFFFFFFFF}};
	for (auto& u : bad32) if (valid(u, 4)) return "utf32 validator accepts ill-formed";
	if (std::string(illClass(Units{0xC0, 0x80}.data(), 2, 0, 1)) != "overlong2" || std::string(illClass(Units{0xF4, 0x90, 0x80, 0x80}.data(), 4, 0, 1)) != "gt10FFFF" ||
		std::string(illClass(Units{0xE2, 0x41}.data(), 2, 0, 1)) != "bad_tail_short" || std::string(illClass(Units{0xE2, 0x82}.data(), 2, 0, 1)) != "truncated_tail" ||
		std::string(illClass(Units{0xD800, 0xE000}.data(), 2, 0, 2)) != "hi_surrogate_then_bmp_E000_FFFF") return "illClass";
	// matcher: "A <E2 82> B" may become A ☐ B (maximal subpart), A ☐ (lead claims 3 units) but not A B, A € B, A ☐ ☐ ☐ B
	{
		const Units in = {0x41, 0xE2, 0x82, 0x42}; const uint32_t mk[] = {0x2610}; Nfa nfa(in.data(), in.size(), 1);
		auto m = [&](Units o, size_t cnt, size_t stop = 4) { return nfa.match(o.data(), o.size(), 4, mk, 1, stop, cnt); };
		if (!m({0x41, 0x2610, 0x42}, 1) || !m({0x41, 0x2610}, 1) || !m({0x41, 0x2610, 0x2610, 0x42}, 2)) return "matcher rejects a legal segmentation";
		if (m({0x41, 0x42}, 0) || m({0x41, 0x20AC, 0x42}, 0) || m({0x41, 0x2610, 0x2610, 0x2610, 0x42}, 3) || m({0x41, 0x2610, 0x42}, 2) || m({0x41}, 0, 1)) return "matcher accepts an illegal output";
		const Units tr = {0x41, 0xE2, 0x82}; Nfa n2(tr.data(), tr.size(), 1);
		const Units oa = {0x41};
		if (!n2.match(oa.data(), 1, 4, mk, 1, 1, 0) || n2.match(oa.data(), 1, 4, mk, 1, 0, 0)) return "matcher unexpected-end rule";
		const Units ov = {0xC0, 0x80}, o0 = {0x0000}; Nfa n3(ov.data(), 2, 1);
		if (n3.match(o0.data(), 1, 4, mk, 1, 2, SIZE_MAX) || n3.culprit(o0.data(), 1, 4, mk, 1, 2) != 0) return "matcher accepts overlong";
	}
	if (allScalars) {
		uint64_t count = 0;
		for (uint32_t c = 0; c <= 0x110000; ++c) {
			uint32_t b[4], back; const int ws[] = {1, 2, 4};
			for (int w : ws) {
				int n = encodeScalar(c, w, b);
				if (!isScalar(c)) { if (n) return "encoder accepts a non-scalar"; continue; }
				int expect = w == 4 ? 1 : w == 2 ? (c < 0x10000 ? 1 : 2) : (c < 0x80 ? 1 : c < 0x800 ? 2 : c < 0x10000 ? 3 : 4);
				if (n != expect || decodeOne(b, static_cast<size_t>(n), 0, w, back) != n || back != c) return "round trip of a scalar";
				if (n > 1 && decodeOne(b, static_cast<size_t>(n - 1), 0, w, back) != 0) return "prefix of a sequence decodes";
			}
			if (isScalar(c)) ++count;
		}
		if (count != 1112064) return "scalar count";
	}
	return "";
}

}} // namespace ref::utf
