// ref_validation.hpp — reference model of the DOCUMENTED validation rules of BitSerializer (C17).
// Written from README.md ("Validation of deserialized values"), the doc comment of
// SerializationOptions::maxValidationErrors and the library's own validator unit tests (value
// alphabet of e-mails / phone numbers). No BitSerializer includes, nothing derived from the code paths.
//
//   Required            fails  iff the field was not loaded (absent / null / skipped by a policy)
//   Range(lo,hi)        fails  iff loaded and (v < lo or v > hi)            (inclusive bounds)
//   MinSize(n)          fails  iff loaded and size <  n
//   MaxSize(n)          fails  iff loaded and size >  n
//   Email / PhoneNumber fails  iff loaded and the alphabet entry is labelled invalid
//   custom lambda       fails  iff loaded and its own predicate says so
//   messages: custom text verbatim; default text is not documented -> identified by keywords only
//   result:   path -> messages of the failing validators in declaration order; an exception iff any;
//   cap:      maxValidationErrors = m > 0 limits the number of FIELDS (paths) collected to m; "Number of
//             errors for each particular field is unlimited in any case".
#pragma once
#include <algorithm>
#include <map>
#include <string>
#include <vector>

namespace rv {

enum Kind { Req = 0, Rng, Min, Max, Eml, Phn, Lam, NKinds };
inline const char* kindName(int k) { static const char* n[] = {"Required", "Range", "MinSize", "MaxSize", "Email", "PhoneNumber", "Lambda"}; return n[k]; }
enum Type { TI = 0, TS = 1 };
enum State { Value = 0, Absent, Null, Mismatch, Overflow };

// parameters of the validators under test
constexpr long long LO = 5, HI = 9;          // Range(5, 9) on int32
constexpr size_t MINSZ = 3, MAXSZ = 13;      // MinSize(3), MaxSize(13) on std::string
// custom lambdas of the harness: int -> "must be even"; string -> "must not contain spaces" (README example)

struct Cond {
	const char* name; const char* cls; State st; long long iv; const char* sv; bool emailOk, phoneOk;
	bool loaded() const { return st == Value; }
};

// ---- condition alphabets ---------------------------------------------------------------------
inline const std::vector<Cond>& condsI() {
	static const std::vector<Cond> c = {
		{"valid6", "valid", Value, 6, "", false, false},
		{"at_lo", "at_lo", Value, 5, "", false, false},          // odd: passes Range, fails the lambda
		{"at_hi", "at_hi", Value, 9, "", false, false},
		{"lo-1", "below_lo", Value, 4, "", false, false},
		{"hi+1", "above_hi", Value, 10, "", false, false},
		{"hi+2odd", "above_hi_odd", Value, 11, "", false, false}, // fails Range and the lambda
		{"absent", "absent", Absent, 0, "", false, false},
		{"null", "null", Null, 0, "", false, false},
		{"mismatch", "skipped_mismatch", Mismatch, 0, "abc", false, false},
		{"overflow", "skipped_overflow", Overflow, 1ll << 40, "", false, false},
	};
	return c;
}
inline const std::vector<Cond>& condsS() {
	static const std::vector<Cond> c = {
		{"size4", "valid_size", Value, 0, "abcd", false, false},
		{"size2", "size_min-1", Value, 0, "ab", false, false},
		{"size3", "size_min", Value, 0, "abc", false, false},
		{"size12", "size_max-1", Value, 0, "abcdefghijkl", false, false},
		{"size14", "size_max+1", Value, 0, "abcdefghijklmn", false, false},
		{"email_ok_13", "email_valid_size_max", Value, 0, "x@example.com", true, false},
		{"email_ok_notld", "email_valid_size_max", Value, 0, "admin@example", true, false},
		{"email_no_at", "email_invalid", Value, 0, "abc.example.com", false, false},
		{"email_no_domain", "email_invalid", Value, 0, "john_doe@", false, false},
		{"email_dotdot", "email_invalid", Value, 0, "first..last@example.com", false, false},
		{"phone_7digits", "phone_valid_lo", Value, 0, "+1234567", false, true},
		{"phone_6digits", "phone_invalid_lo-1", Value, 0, "+123456", false, false},
		{"phone_15digits", "phone_valid_hi", Value, 0, "+123456789012345", false, true},
		{"phone_16digits", "phone_invalid_hi+1", Value, 0, "+1234567890123456", false, false},
		{"phone_formatted", "phone_valid_spaces", Value, 0, "+1 (555) 555-55-55", false, true},
		{"phone_no_plus", "phone_invalid", Value, 0, "44 20 7123 1234", false, false},
		{"phone_open_paren", "phone_invalid", Value, 0, "+1 (555 555-55-55", false, false},
		{"space3", "has_space", Value, 0, "a b", false, false},
		{"empty", "empty", Value, 0, "", false, false},
		{"absent", "absent", Absent, 0, "", false, false},
		{"null", "null", Null, 0, "", false, false},
		{"mismatch", "skipped_mismatch", Mismatch, 7, "", false, false},
	};
	return c;
}
inline const std::vector<Cond>& conds(int type) { return type == TI ? condsI() : condsS(); }

// ---- the rules ---------------------------------------------------------------------------------
inline bool applicable(int type, int k) { return type == TI ? (k == Req || k == Rng || k == Lam) : k != Rng; }
inline bool fails(int type, int k, const Cond& c) {
	if (k == Req) return !c.loaded();
	if (!c.loaded()) return false;
	if (type == TI) return k == Rng ? (c.iv < LO || c.iv > HI) : k == Lam ? (c.iv % 2 != 0) : false;
	const std::string s = c.sv;
	switch (k) {
	case Min: return s.size() < MINSZ;
	case Max: return s.size() > MAXSZ;
	case Eml: return !c.emailOk;
	case Phn: return !c.phoneOk;
	case Lam: return s.find(' ') != std::string::npos;
	default: return false;
	}
}

// expected message: exact text (custom message / lambda) or keywords of the undocumented default text
struct Msg { bool exact = false; std::string text; std::vector<std::string> words; int kind = 0; };
inline Msg defaultMsg(int k) {
	Msg m; m.kind = k;
	switch (k) {
	case Req: m.words = {"required"}; break;
	case Rng: m.words = {std::to_string(LO), std::to_string(HI)}; break;
	case Min: m.words = {"minimum", std::to_string(MINSZ)}; break;
	case Max: m.words = {"maximum", std::to_string(MAXSZ)}; break;
	case Eml: m.words = {"email"}; break;
	case Phn: m.words = {"phone"}; break;
	default: break;
	}
	return m;
}
inline Msg exactMsg(int k, std::string t) { Msg m; m.kind = k; m.exact = true; m.text = std::move(t); return m; }
inline bool operator==(const Msg& a, const Msg& b) { return a.exact == b.exact && a.text == b.text && a.words == b.words && a.kind == b.kind; }
inline bool matches(const Msg& m, const std::string& actual) {
	if (m.exact) return actual == m.text;
	std::string low = actual; for (auto& ch : low) ch = static_cast<char>(std::tolower(static_cast<unsigned char>(ch)));
	for (auto& w : m.words) if (low.find(w) == std::string::npos) return false;
	return !actual.empty();
}

// one field visited during the load, in load order
struct Item {
	std::string keyPos;      // path with array positions kept apart   (reading A of "array positions aside")
	std::string keyMerged;   // path with array positions normalised   (reading B: the archive does not tell positions apart)
	std::vector<const Msg*> msgs;   // messages of the failing validators, declaration order (pointers to long-lived Msg objects)
	int ref = 0;             // harness back-reference (element * F + field)
};
using Expected = std::vector<std::pair<std::string, std::vector<const Msg*>>>;   // merged path -> messages, first-seen order

struct Candidates {
	std::vector<Expected> ok;         // every result the documentation allows
	std::vector<Expected> truncated;  // same, but the field at which the cap was reached keeps only its first message
	int firstStop = -1;               // index (into items) of the field at which the cap can first be reached; -1 = full load
};

inline void add(Expected& e, const std::string& key, const std::vector<const Msg*>& msgs, size_t limit = ~size_t(0)) {
	auto it = std::find_if(e.begin(), e.end(), [&](auto& p) { return p.first == key; });
	if (it == e.end()) { e.emplace_back(key, std::vector<const Msg*>{}); it = e.end() - 1; }
	for (size_t i = 0; i < msgs.size() && i < limit; ++i) it->second.push_back(msgs[i]);
}

// Simulates the collection with `max` (0 = unlimited). The exception may be raised at any moment between
// "the max-th distinct failing path is complete" and "a further path would have to be added".
inline void simulate(const std::vector<Item>& items, unsigned max, bool merged, Candidates& out) {
	std::vector<std::string> paths; Expected cur; bool open = false;
	auto known = [&](const std::string& k) { return std::find(paths.begin(), paths.end(), k) != paths.end(); };
	for (size_t i = 0; i < items.size(); ++i) {
		const Item& it = items[i]; if (it.msgs.empty()) continue;
		const std::string& pk = merged ? it.keyMerged : it.keyPos;
		if (max && !known(pk) && paths.size() == max) break;           // a further path: must have stopped before
		bool isNew = !known(pk); if (isNew) paths.push_back(pk);
		if (max && isNew && paths.size() == max) {
			Expected t = cur; add(t, it.keyMerged, it.msgs, 1); if (it.msgs.size() > 1) out.truncated.push_back(t);
			if (out.firstStop < 0 || static_cast<int>(i) < out.firstStop) out.firstStop = static_cast<int>(i);
			open = true;
		}
		add(cur, it.keyMerged, it.msgs);
		if (open) out.ok.push_back(cur);
	}
	if (!open || out.ok.empty() || !(out.ok.back() == cur)) out.ok.push_back(cur);
}

inline Candidates expect(const std::vector<Item>& items, unsigned max, bool positionsMayMerge) {
	Candidates c; simulate(items, max, false, c);
	if (positionsMayMerge) simulate(items, max, true, c);
	return c;
}

// actual (already merged by normalised path, in the order the library reports them) vs one candidate
inline bool same(const Expected& e, const std::map<std::string, std::vector<std::string>>& actual) {
	if (e.size() != actual.size()) return false;
	for (auto& kv : e) {
		auto it = actual.find(kv.first); if (it == actual.end() || it->second.size() != kv.second.size()) return false;
		for (size_t i = 0; i < kv.second.size(); ++i) if (!matches(*kv.second[i], it->second[i])) return false;
	}
	return true;
}

} // namespace rv
