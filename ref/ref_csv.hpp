// ref_csv.hpp — strict RFC 4180 reference parser and reference writer, parametrised by the separator.
// Written from the ABNF of RFC 4180 section 2 (no BitSerializer includes, nothing taken from its code):
//
//   file        = [header CRLF] record *(CRLF record) [CRLF]
//   header      = name *(COMMA name)            record = field *(COMMA field)
//   name        = field                          field  = (escaped / non-escaped)
//   escaped     = DQUOTE *(TEXTDATA / COMMA / CR / LF / 2DQUOTE) DQUOTE
//   non-escaped = *TEXTDATA
//
// Readings fixed here (each one is stated in the check's assumptions):
//  * COMMA is the configured separator.
//  * TEXTDATA is every character other than DQUOTE, the separator, CR and LF (the RFC lists printable
//    ASCII only; the property speaks about arbitrary Unicode text, so the complement reading is used).
//    The parser works on UTF-8 bytes: all structural characters are ASCII, so no decoding is needed.
//  * A line break is CRLF or a bare LF (property statement: "LF or CRLF"). A CR that is not followed by
//    LF is an error outside quotes.
//  * The grammar is ambiguous for a text that ends in a line break (final empty record or optional final
//    CRLF?): like every CSV consumer, a line break at the very end is the optional final one.
//    Consequently the header is simply the first record; the caller decides whether there is one.
#pragma once
#include <functional>
#include <string>
#include <vector>

namespace refcsv {

struct Field { std::string value; bool quoted = false; };
using Record = std::vector<Field>;
struct Parsed {
	bool ok = false; std::string error; size_t errorPos = 0;
	std::vector<Record> records;
	bool rectangular() const { for (auto& r : records) if (r.size() != records[0].size()) return false; return true; }   // RFC 4180 2.4
};

inline Parsed parse(const std::string& t, char sep) {
	Parsed p; size_t i = 0; const size_t n = t.size();
	auto fail = [&](const char* what) { p.ok = false; p.error = what; p.errorPos = i; return p; };
	for (;;) {
		Record rec;
		for (;;) {   // field *(COMMA field)
			Field f;
			if (i < n && t[i] == '"') {   // escaped
				f.quoted = true; ++i;
				for (;;) {
					if (i >= n) return fail("end of input inside a quoted field");
					if (t[i] != '"') { f.value.push_back(t[i++]); continue; }
					if (i + 1 < n && t[i + 1] == '"') { f.value.push_back('"'); i += 2; continue; }   // 2DQUOTE
					++i; break;   // closing DQUOTE
				}
				if (i < n && t[i] != sep && t[i] != '\r' && t[i] != '\n') return fail("text after the closing quote of a field");
			} else {   // non-escaped = *TEXTDATA
				while (i < n && t[i] != sep && t[i] != '\r' && t[i] != '\n') {
					if (t[i] == '"') return fail("double quote inside a non-escaped field");
					f.value.push_back(t[i++]);
				}
			}
			rec.push_back(std::move(f));
			if (i < n && t[i] == sep) { ++i; continue; }
			break;
		}
		p.records.push_back(std::move(rec));
		if (i == n) break;
		if (t[i] == '\r') { if (i + 1 < n && t[i + 1] == '\n') i += 2; else return fail("CR not followed by LF outside a quoted field"); }
		else ++i;   // bare LF
		if (i == n) break;   // that was the optional final line break
	}
	p.ok = true; return p;
}

// ---- reference writer ----------------------------------------------------------------------------
inline bool needsQuote(const std::string& v, char sep) { for (char c : v) if (c == '"' || c == sep || c == '\r' || c == '\n') return true; return false; }
inline std::string quoted(const std::string& v) { std::string r = "\""; for (char c : v) { if (c == '"') r.push_back('"'); r.push_back(c); } r.push_back('"'); return r; }

enum Mode { Minimal = 0,   // quoted exactly when the RFC requires it
            Quoted = 1,    // quoted although not required (always legal)
            Raw = 2 };     // never quoted (ILLEGAL when the field needs quoting: used only to diagnose an unquoted field)
using ModeFn = std::function<Mode(size_t record, size_t column)>;

inline std::string render(const std::vector<std::vector<std::string>>& records, char sep, const ModeFn& mode = nullptr, const char* eol = "\r\n", bool finalEol = true) {
	std::string o;
	for (size_t r = 0; r < records.size(); ++r) {
		if (r) o += eol;
		for (size_t c = 0; c < records[r].size(); ++c) {
			if (c) o.push_back(sep);
			const std::string& v = records[r][c];
			Mode m = mode ? mode(r, c) : Minimal;
			o += (m == Quoted || (m == Minimal && needsQuote(v, sep))) ? quoted(v) : v;
		}
	}
	if (finalEol && !records.empty()) o += eol;
	return o;
}

inline std::vector<std::vector<std::string>> values(const Parsed& p) {
	std::vector<std::vector<std::string>> r;
	for (auto& rec : p.records) { r.emplace_back(); for (auto& f : rec) r.back().push_back(f.value); }
	return r;
}

// ---- self-test: the examples of RFC 4180 section 2, the error cases, and writer -> parser round trips ----
inline std::string selfTest() {
	using T = std::vector<std::vector<std::string>>;
	auto expect = [](const std::string& text, char sep, const T& want, const char* label) -> std::string {
		Parsed p = parse(text, sep);
		if (!p.ok) return std::string(label) + ": rejected (" + p.error + ")";
		if (values(p) != want) return std::string(label) + ": wrong table";
		return "";
	};
	auto reject = [](const std::string& text, char sep, const char* label) -> std::string { return parse(text, sep).ok ? std::string(label) + ": accepted" : ""; };
	const T abc = {{"aaa", "bbb", "ccc"}, {"zzz", "yyy", "xxx"}};
	std::string e;
	if (!(e = expect("aaa,bbb,ccc\r\nzzz,yyy,xxx\r\n", ',', abc, "2.1")).empty()) return e;
	if (!(e = expect("aaa,bbb,ccc\r\nzzz,yyy,xxx", ',', abc, "2.2")).empty()) return e;
	if (!(e = expect("field_name,field_name,field_name\r\naaa,bbb,ccc\r\nzzz,yyy,xxx\r\n", ',', {{"field_name", "field_name", "field_name"}, abc[0], abc[1]}, "2.3")).empty()) return e;
	if (!(e = expect("aaa, bbb ,ccc", ',', {{"aaa", " bbb ", "ccc"}}, "2.4 spaces")).empty()) return e;
	if (!(e = expect("\"aaa\",\"bbb\",\"ccc\"\r\nzzz,yyy,xxx", ',', abc, "2.5")).empty()) return e;
	if (!(e = expect("\"aaa\",\"b\r\nbb\",\"ccc\"\r\nzzz,yyy,xxx", ',', {{"aaa", "b\r\nbb", "ccc"}, abc[1]}, "2.6")).empty()) return e;
	if (!(e = expect("\"aaa\",\"b\"\"bb\",\"ccc\"", ',', {{"aaa", "b\"bb", "ccc"}}, "2.7")).empty()) return e;
	if (!(e = expect("aaa\nzzz\n", ',', {{"aaa"}, {"zzz"}}, "bare LF")).empty()) return e;
	if (!(e = expect(",,", ',', {{"", "", ""}}, "empty fields")).empty()) return e;
	if (!(e = expect("", ',', {{""}}, "empty text")).empty()) return e;
	if (!(e = expect("a\r\n\r\n", ',', {{"a"}, {""}}, "empty record then final line break")).empty()) return e;
	if (!(e = expect("a\r\n", ',', {{"a"}}, "final line break")).empty()) return e;
	if (!(e = expect("a,b;\"c;\"\"\";\"\"", ';', {{"a,b", "c;\"", ""}}, "separator ;")).empty()) return e;
	if (!(e = expect("a b\t\"\t\"", '\t', {{"a b", "\t"}}, "separator TAB")).empty()) return e;
	if (!(e = expect("\"\r\",\"\n\"", ',', {{"\r", "\n"}}, "quoted CR and LF")).empty()) return e;
	{ Parsed p = parse("\"a\",b", ','); if (!p.ok || !p.records[0][0].quoted || p.records[0][1].quoted) return "quoted flags"; }
	if (!(e = reject("a\"b", ',', "quote inside non-escaped")).empty()) return e;
	if (!(e = reject("\"a\"b", ',', "text after closing quote")).empty()) return e;
	if (!(e = reject("\"abc", ',', "unterminated")).empty()) return e;
	if (!(e = reject("a\rb", ',', "lone CR")).empty()) return e;
	if (!(e = reject("a\r", ',', "lone CR at end")).empty()) return e;
	// writer -> parser: every 2x2 table over a small alphabet, every separator, every quoting mode, line break and final line break
	const char* alpha[] = {"", "a", ",", ";", "\t", " ", "|", "\"", "\"\"", "\n", "\r", "\r\n", "\xC3\xA9"};
	const int A = static_cast<int>(sizeof alpha / sizeof *alpha);
	for (char sep : {',', ';', '\t', ' ', '|'}) for (int a = 0; a < A; ++a) for (int b = 0; b < A; ++b) for (int c = 0; c < A; ++c) for (int d = 0; d < A; d += 3)
		for (int q = 0; q < 2; ++q) for (int l = 0; l < 2; ++l) for (int f = 0; f < 2; ++f) {
			T t = {{alpha[a], alpha[b]}, {alpha[c], alpha[d]}};
			std::string text = render(t, sep, [&](size_t, size_t) { return q ? Quoted : Minimal; }, l ? "\n" : "\r\n", f == 0);
			Parsed p = parse(text, sep);
			if (!p.ok || values(p) != t) return "round trip of the reference writer through the reference parser";
			for (size_t r = 0; r < 2; ++r) for (size_t k = 0; k < 2; ++k) if (p.records[r][k].quoted != (q || needsQuote(t[r][k], sep))) return "round trip: quoted flag";
		}
	return "";
}

} // namespace refcsv
