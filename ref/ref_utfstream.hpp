// ref_utfstream.hpp — reference model of encoded text streams (UTF-8, UTF-16LE/BE, UTF-32LE/BE
// with or without BOM), written from the Unicode standard (chapter 3, D90-D92; table 2-4 BOMs).
// Used by the C13 check. No BitSerializer includes. Deliberately boring: byte-by-byte, no tricks.
#pragma once
#include <cstdint>
#include <string>
#include <vector>

namespace refus {

enum Enc { U8 = 0, U16LE = 1, U16BE = 2, U32LE = 3, U32BE = 4 };
inline const char* encName(int e) { static const char* n[] = {"utf8", "utf16le", "utf16be", "utf32le", "utf32be"}; return n[e]; }
inline size_t unitSize(int e) { return e == U8 ? 1 : (e == U16LE || e == U16BE) ? 2 : 4; }

inline std::string bom(int e) {
	switch (e) {
	case U8: return std::string("\xEF\xBB\xBF", 3);
	case U16LE: return std::string("\xFF\xFE", 2);
	case U16BE: return std::string("\xFE\xFF", 2);
	case U32LE: return std::string("\xFF\xFE\x00\x00", 4);
	default: return std::string("\x00\x00\xFE\xFF", 4);
	}
}

inline bool isScalar(char32_t c) { return c <= 0x10FFFF && !(c >= 0xD800 && c <= 0xDFFF); }

// number of bytes of one code point in an encoding
inline size_t cpBytes(char32_t c, int e) {
	if (e == U8) return c < 0x80 ? 1 : c < 0x800 ? 2 : c < 0x10000 ? 3 : 4;
	if (e == U16LE || e == U16BE) return c < 0x10000 ? 2 : 4;
	return 4;
}

inline void put16(std::string& o, unsigned u, bool le) {
	unsigned char lo = u & 0xFF, hi = (u >> 8) & 0xFF;
	if (le) { o.push_back(static_cast<char>(lo)); o.push_back(static_cast<char>(hi)); }
	else { o.push_back(static_cast<char>(hi)); o.push_back(static_cast<char>(lo)); }
}
inline void put32(std::string& o, uint32_t u, bool le) {
	for (int i = 0; i < 4; ++i) { int sh = le ? 8 * i : 8 * (3 - i); o.push_back(static_cast<char>((u >> sh) & 0xFF)); }
}

inline void encodeCp(std::string& o, char32_t c, int e) {
	switch (e) {
	case U8:
		if (c < 0x80) o.push_back(static_cast<char>(c));
		else if (c < 0x800) { o.push_back(static_cast<char>(0xC0 | (c >> 6))); o.push_back(static_cast<char>(0x80 | (c & 0x3F))); }
		else if (c < 0x10000) { o.push_back(static_cast<char>(0xE0 | (c >> 12))); o.push_back(static_cast<char>(0x80 | ((c >> 6) & 0x3F))); o.push_back(static_cast<char>(0x80 | (c & 0x3F))); }
		else { o.push_back(static_cast<char>(0xF0 | (c >> 18))); o.push_back(static_cast<char>(0x80 | ((c >> 12) & 0x3F))); o.push_back(static_cast<char>(0x80 | ((c >> 6) & 0x3F))); o.push_back(static_cast<char>(0x80 | (c & 0x3F))); }
		break;
	case U16LE: case U16BE:
		if (c < 0x10000) put16(o, c, e == U16LE);
		else { uint32_t v = c - 0x10000; put16(o, 0xD800 | (v >> 10), e == U16LE); put16(o, 0xDC00 | (v & 0x3FF), e == U16LE); }
		break;
	default:
		put32(o, c, e == U32LE);
	}
}

// bytes of a text (sequence of Unicode scalar values) in an encoding, without BOM
inline std::string encode(const std::u32string& text, int e) {
	std::string o; for (char32_t c : text) encodeCp(o, c, e); return o;
}

// the same text as a native string of a given code unit width (what a reader delivers / a writer is given)
inline std::string toUtf8(const std::u32string& text) { return encode(text, U8); }
inline std::u16string toUtf16(const std::u32string& text) {
	std::u16string o;
	for (char32_t c : text) {
		if (c < 0x10000) o.push_back(static_cast<char16_t>(c));
		else { uint32_t v = c - 0x10000; o.push_back(static_cast<char16_t>(0xD800 | (v >> 10))); o.push_back(static_cast<char16_t>(0xDC00 | (v & 0x3FF))); }
	}
	return o;
}
template <class TChar> std::basic_string<TChar> toNative(const std::u32string& text) {
	if constexpr (sizeof(TChar) == 1) { std::string s = toUtf8(text); return std::basic_string<TChar>(reinterpret_cast<const TChar*>(s.data()), s.size()); }
	else if constexpr (sizeof(TChar) == 2) { std::u16string s = toUtf16(text); return std::basic_string<TChar>(s.begin(), s.end()); }
	else return std::basic_string<TChar>(text.begin(), text.end());
}

// Strict decoding of the longest well-formed prefix.
enum Tail {
	TailNone = 0,        // everything decoded
	TailTruncated,       // the rest is a proper prefix of a well-formed code point encoding (stream cut inside a character)
	TailIllFormed        // the rest starts with an ill-formed sequence
};
struct Decoded {
	std::u32string text;     // code points of the well-formed prefix
	size_t consumed = 0;     // bytes of that prefix
	Tail tail = TailNone;
	size_t cutCharBytes = 0; // TailTruncated: full length in bytes of the character that was cut
	bool partialUnit = false;// TailTruncated: the cut is inside a code unit (UTF-16/32 byte count not a multiple of the unit size)
};

inline unsigned get16(const std::string& b, size_t i, bool le) {
	unsigned b0 = static_cast<unsigned char>(b[i]), b1 = static_cast<unsigned char>(b[i + 1]);
	return le ? (b0 | (b1 << 8)) : ((b0 << 8) | b1);
}
inline uint32_t get32(const std::string& b, size_t i, bool le) {
	uint32_t v = 0;
	for (int k = 0; k < 4; ++k) { uint32_t x = static_cast<unsigned char>(b[i + static_cast<size_t>(k)]); v |= x << (le ? 8 * k : 8 * (3 - k)); }
	return v;
}

inline Decoded decode(const std::string& b, int e) {
	Decoded d; size_t i = 0, n = b.size();
	auto stop = [&](Tail t, size_t full, bool pu) { d.consumed = i; d.tail = t; d.cutCharBytes = full; d.partialUnit = pu; return d; };
	while (i < n) {
		if (e == U8) {
			unsigned c0 = static_cast<unsigned char>(b[i]);
			if (c0 < 0x80) { d.text.push_back(c0); ++i; continue; }
			size_t len; uint32_t cp, minv;
			if (c0 >= 0xC2 && c0 <= 0xDF) { len = 2; cp = c0 & 0x1F; minv = 0x80; }
			else if (c0 >= 0xE0 && c0 <= 0xEF) { len = 3; cp = c0 & 0x0F; minv = 0x800; }
			else if (c0 >= 0xF0 && c0 <= 0xF4) { len = 4; cp = c0 & 0x07; minv = 0x10000; }
			else return stop(TailIllFormed, 0, false);
			size_t k = 1;
			for (; k < len && i + k < n; ++k) {
				unsigned t = static_cast<unsigned char>(b[i + k]);
				if ((t & 0xC0) != 0x80) return stop(TailIllFormed, 0, false);
				cp = (cp << 6) | (t & 0x3F);
			}
			if (k < len) {
				// cut: the bytes seen so far must still be able to start a well-formed sequence (table 3-7)
				if (k >= 2) {
					unsigned t1 = static_cast<unsigned char>(b[i + 1]);
					if ((c0 == 0xE0 && t1 < 0xA0) || (c0 == 0xED && t1 > 0x9F) || (c0 == 0xF0 && t1 < 0x90) || (c0 == 0xF4 && t1 > 0x8F)) return stop(TailIllFormed, 0, false);
				}
				return stop(TailTruncated, len, false);
			}
			if (cp < minv || !isScalar(cp)) return stop(TailIllFormed, 0, false);
			d.text.push_back(cp); i += len;
		} else if (e == U16LE || e == U16BE) {
			bool le = e == U16LE;
			if (n - i < 2) return stop(TailTruncated, 2, true);     // which character it belongs to is unknowable: at least one unit
			unsigned u = get16(b, i, le);
			if (u >= 0xDC00 && u <= 0xDFFF) return stop(TailIllFormed, 0, false);
			if (u >= 0xD800 && u <= 0xDBFF) {
				if (n - i < 4) return stop(TailTruncated, 4, (n - i) != 2);
				unsigned lo = get16(b, i + 2, le);
				if (lo < 0xDC00 || lo > 0xDFFF) return stop(TailIllFormed, 0, false);
				d.text.push_back(0x10000 + (((u & 0x3FF) << 10) | (lo & 0x3FF))); i += 4;
			} else { d.text.push_back(u); i += 2; }
		} else {
			bool le = e == U32LE;
			if (n - i < 4) return stop(TailTruncated, 4, true);
			uint32_t v = get32(b, i, le);
			if (!isScalar(v)) return stop(TailIllFormed, 0, false);
			d.text.push_back(v); i += 4;
		}
	}
	d.consumed = i; return d;
}

// Strict decoding of native code unit strings (what the reader under test delivered), for reporting.
template <class TChar> bool nativeEquals(const std::basic_string<TChar>& got, const std::u32string& text) { return got == toNative<TChar>(text); }

template <class TChar> std::string dumpNative(const std::basic_string<TChar>& s, size_t maxUnits = 24) {
	std::string r; char buf[16]; size_t n = s.size();
	auto one = [&](size_t i) { snprintf(buf, sizeof buf, sizeof(TChar) == 1 ? "%02x " : sizeof(TChar) == 2 ? "%04x " : "%x ", static_cast<unsigned>(static_cast<std::make_unsigned_t<TChar>>(s[i]))); r += buf; };
	if (n <= maxUnits) { for (size_t i = 0; i < n; ++i) one(i); }
	else { for (size_t i = 0; i < maxUnits / 2; ++i) one(i); r += "... "; for (size_t i = n - maxUnits / 2; i < n; ++i) one(i); }
	snprintf(buf, sizeof buf, "(%zu)", n); r += buf; return r;
}

} // namespace refus
