// ref_numparse.hpp — reference facts about decimal number literals, written from the usual
// definition of a decimal literal (C17 7.22.1.3 "subject sequence", decimal form only) and
// of exact integer / correctly rounded binary floating point values. No BitSerializer
// includes, no <charconv>: integers are evaluated exactly in unsigned __int128 (with a
// saturation flag), floating point values come from glibc strtof/strtod (multi-precision,
// correctly rounded) applied to the literal prefix only, shortest-digits questions are
// decided with glibc printf("%.{p}e") + strtof/strtod.
//
// The header states facts only (where the literal is, what it is worth, whether a target
// can hold it). Which outcomes a property accepts for a given fact is the harness' business.
//
// Self-test: ref::num::selftest(why) (also run by harness/c16_numtext.cpp, scenario 0), or
//   g++ -std=c++17 -DREF_NUMPARSE_SELFTEST_MAIN -x c++ ref/ref_numparse.hpp -o /tmp/t && /tmp/t
#pragma once
#include <cerrno>
#include <cmath>
#include <cstdint>
#include <cstdio>
#include <cstdlib>
#include <cstring>
#include <limits>
#include <string>
#include <type_traits>

namespace ref { namespace num {

using u128 = unsigned __int128;
using i128 = __int128;

inline bool isBlank(char32_t c) { return c == 0x20 || c == 0x09; }
inline bool isDigit(char32_t c) { return c >= U'0' && c <= U'9'; }
inline char32_t lower(char32_t c) { return (c >= U'A' && c <= U'Z') ? c + 32 : c; }

enum class Word { None, True, False, Inf, Infinity, Nan, NanSeq };

// Positions of the parts of the leading literal of a code point sequence.
//   blanks* sign? ( digits ( '.' digits? )? | '.' digits ) ( [eE] [+-]? digits )?
// intBeg..intEnd   : integer digit run (may be empty, e.g. ".5")
// dot              : a '.' directly follows the integer digits (or starts the literal)
// fracBeg..fracEnd : digits after the dot (may be empty, e.g. "1.")
// mantEnd          : end of the mantissa = end of the float literal without exponent
// expDigits        : an exponent part with at least one digit follows; floatEnd is behind it
struct Scan {
	size_t blanks = 0;
	char sign = 0;                 // 0, '-' or '+'
	size_t signEnd = 0;            // position after blanks and sign
	size_t intBeg = 0, intEnd = 0;
	bool dot = false;
	size_t fracBeg = 0, fracEnd = 0;
	size_t mantEnd = 0;
	bool expMarker = false;        // 'e'/'E' directly follows the mantissa
	bool expDigits = false;
	size_t floatEnd = 0;           // end of the float literal (== signEnd if there is none)
	Word word = Word::None;        // word directly after blanks and sign (true/false/inf/infinity/nan/nan(...))
	size_t wordEnd = 0;

	bool hasInt() const { return intEnd > intBeg; }                          // sign? digits
	bool hasFloat() const { return intEnd > intBeg || fracEnd > fracBeg; }   // decimal float literal
	bool dotDigitAfterInt() const { return hasInt() && dot && fracEnd > fracBeg; }   // digits '.' digit
};

inline bool matchWord(const std::u32string& s, size_t p, const char* w, size_t& end) {
	size_t n = strlen(w);
	if (p + n > s.size()) return false;
	for (size_t i = 0; i < n; ++i) if (lower(s[p + i]) != static_cast<char32_t>(w[i])) return false;
	end = p + n; return true;
}

inline Scan scan(const std::u32string& s) {
	Scan r; size_t p = 0, n = s.size();
	while (p < n && isBlank(s[p])) ++p;
	r.blanks = p;
	if (p < n && (s[p] == U'-' || s[p] == U'+')) { r.sign = static_cast<char>(s[p]); ++p; }
	r.signEnd = p;
	r.intBeg = p; while (p < n && isDigit(s[p])) ++p; r.intEnd = p;
	r.fracBeg = r.fracEnd = p;
	if (p < n && s[p] == U'.') {
		size_t q = p + 1; while (q < n && isDigit(s[q])) ++q;
		if (r.intEnd > r.intBeg || q > p + 1) { r.dot = true; r.fracBeg = p + 1; r.fracEnd = q; p = q; }
	}
	r.mantEnd = r.floatEnd = (r.hasFloat() ? p : r.signEnd);
	if (r.hasFloat() && p < n && (s[p] == U'e' || s[p] == U'E')) {
		r.expMarker = true;
		size_t q = p + 1; if (q < n && (s[q] == U'-' || s[q] == U'+')) ++q;
		size_t d = q; while (d < n && isDigit(s[d])) ++d;
		if (d > q) { r.expDigits = true; r.floatEnd = d; }
	}
	// words (ASCII case-insensitive), longest alternative first
	size_t e = 0; p = r.signEnd;
	if (matchWord(s, p, "true", e)) { r.word = Word::True; r.wordEnd = e; }
	else if (matchWord(s, p, "false", e)) { r.word = Word::False; r.wordEnd = e; }
	else if (matchWord(s, p, "infinity", e)) { r.word = Word::Infinity; r.wordEnd = e; }
	else if (matchWord(s, p, "inf", e)) { r.word = Word::Inf; r.wordEnd = e; }
	else if (matchWord(s, p, "nan", e)) {
		r.word = Word::Nan; r.wordEnd = e;
		if (e < n && s[e] == U'(') {   // nan(n-char-sequence)
			size_t q = e + 1;
			while (q < n && (isDigit(s[q]) || (lower(s[q]) >= U'a' && lower(s[q]) <= U'z') || s[q] == U'_')) ++q;
			if (q < n && s[q] == U')') { r.word = Word::NanSeq; r.wordEnd = q + 1; }
		}
	}
	return r;
}

// exact magnitude of a digit run; `sat` = does not fit in 128 bits (value then meaningless)
struct Mag { u128 v = 0; bool sat = false; bool zero() const { return !sat && v == 0; } };
inline Mag magnitude(const std::u32string& s, size_t beg, size_t end) {
	Mag m; const u128 lim = ~static_cast<u128>(0);
	for (size_t i = beg; i < end; ++i) {
		unsigned d = static_cast<unsigned>(s[i] - U'0');
		if (m.sat) continue;
		if (m.v > (lim - d) / 10) { m.sat = true; continue; }
		m.v = m.v * 10 + d;
	}
	return m;
}

// can integer type T hold (neg ? -m : m)? On success `out` receives it.
template <class T>
inline bool fits(bool neg, const Mag& m, T& out) {
	static_assert(std::is_integral_v<T>, "integer target");
	if (m.sat) return false;
	if (m.v == 0) { out = 0; return true; }
	if (!neg) {
		if (m.v > static_cast<u128>(std::numeric_limits<T>::max())) return false;
		out = static_cast<T>(m.v); return true;
	}
	if constexpr (std::is_unsigned_v<T>) return false;
	else {
		u128 lim = static_cast<u128>(std::numeric_limits<T>::max()) + 1;   // |min|
		if (m.v > lim) return false;
		out = (m.v == lim) ? std::numeric_limits<T>::min() : static_cast<T>(-static_cast<i128>(m.v));
		return true;
	}
}

inline std::string toDecimal(u128 v) {
	if (v == 0) return "0";
	char buf[48]; int i = 48;
	while (v) { buf[--i] = static_cast<char>('0' + static_cast<int>(v % 10)); v /= 10; }
	return std::string(buf + i, buf + 48);
}
inline std::string toDecimal(i128 v) {
	if (v >= 0) return toDecimal(static_cast<u128>(v));
	return "-" + toDecimal(static_cast<u128>(0) - static_cast<u128>(v));
}

inline std::string ascii(const std::u32string& s, size_t beg, size_t end) {
	std::string r; for (size_t i = beg; i < end; ++i) r.push_back(static_cast<char>(s[i])); return r;
}

template <class F> inline F strtoF(const char* s, char** end);
template <> inline float strtoF<float>(const char* s, char** end) { return strtof(s, end); }
template <> inline double strtoF<double>(const char* s, char** end) { return strtod(s, end); }

template <class F> struct Bits;
template <> struct Bits<float> { using type = uint32_t; };
template <> struct Bits<double> { using type = uint64_t; };
template <class F> inline typename Bits<F>::type bitsOf(F x) { typename Bits<F>::type b; memcpy(&b, &x, sizeof b); return b; }
template <class F> inline F fromBits(typename Bits<F>::type b) { F x; memcpy(&x, &b, sizeof x); return x; }

// value of a decimal float literal (ASCII, grammar of scan(); the caller passes exactly the literal)
template <class F> struct FloatVal {
	F value = 0;
	bool overflow = false;         // magnitude beyond the largest finite value (strto* returns +-HUGE_VAL)
	bool roundsToZero = false;     // a non-zero literal whose nearest representable value is +-0
	bool subnormal = false;
	bool consumedAll = false;      // strto* consumed the whole text
};
template <class F>
inline FloatVal<F> floatValue(const std::string& lit) {
	FloatVal<F> r; char* end = nullptr; errno = 0;
	r.value = strtoF<F>(lit.c_str(), &end);
	r.consumedAll = end == lit.c_str() + lit.size();
	bool nonzeroDigit = false;
	for (char c : lit) { if (c == 'e' || c == 'E') break; if (c >= '1' && c <= '9') nonzeroDigit = true; }
	if (std::isinf(r.value)) r.overflow = true;
	else if (r.value == 0 && nonzeroDigit) r.roundsToZero = true;
	else if (r.value != 0 && std::fabs(r.value) < std::numeric_limits<F>::min()) r.subnormal = true;
	return r;
}

// Number of significant decimal digits of a decimal float text that must match the grammar
// -? digits ('.' digits)? ([eE][+-]?digits)? completely; -1 if it does not. "100" and "1e+02"
// have 1 significant digit, "0" and "-0" have 1.
inline int sigDigits(const std::string& t) {
	size_t p = 0, n = t.size(); if (p < n && t[p] == '-') ++p;
	std::string d; size_t a = p; while (p < n && t[p] >= '0' && t[p] <= '9') d.push_back(t[p++]);
	if (p == a) return -1;
	if (p < n && t[p] == '.') { ++p; size_t b = p; while (p < n && t[p] >= '0' && t[p] <= '9') d.push_back(t[p++]); if (p == b) return -1; }
	if (p < n && (t[p] == 'e' || t[p] == 'E')) { ++p; if (p < n && (t[p] == '+' || t[p] == '-')) ++p; size_t b = p; while (p < n && t[p] >= '0' && t[p] <= '9') ++p; if (p == b) return -1; }
	if (p != n) return -1;
	size_t i = 0; while (i < d.size() && d[i] == '0') ++i;
	size_t j = d.size(); while (j > i && d[j - 1] == '0') --j;
	return j > i ? static_cast<int>(j - i) : 1;
}

template <class F> inline bool parsesBackTo(const char* text, F x) {
	char* end = nullptr; F y = strtoF<F>(text, &end);
	return *end == 0 && bitsOf(y) == bitsOf(x);
}

// Is there a decimal with fewer than n significant digits that strto* maps to exactly x?
// If any decimal with < n digits does, one with exactly n-1 digits does (pad with zeros), and a
// (n-1)-digit decimal inside the rounding interval of x is the (n-1)-digit decimal nearest to x —
// which is what printf("%.{n-2}e") prints — or, when the interval is asymmetric (x is a power of
// two), possibly its neighbour one unit in the last place away. All three are tried then.
template <class F>
inline bool shorterRoundTripExists(F x, int n, std::string* witness = nullptr) {
	if (n <= 1 || !std::isfinite(x)) return false;
	const int p = n - 1;
	char buf[64]; snprintf(buf, sizeof buf, "%.*e", p - 1, static_cast<double>(x));
	if (parsesBackTo<F>(buf, x)) { if (witness) *witness = buf; return true; }
	using B = typename Bits<F>::type;
	const B mantMask = (static_cast<B>(1) << (std::numeric_limits<F>::digits - 1)) - 1;
	if ((bitsOf(x) & mantMask) != 0) return false;
	// neighbours: mantissa as integer m (p digits), decimal exponent e10 => m * 10^(e10-(p-1))
	const char* q = buf; bool neg = false; if (*q == '-') { neg = true; ++q; }
	unsigned long long m = 0; for (; *q && *q != 'e'; ++q) if (*q >= '0' && *q <= '9') m = m * 10 + static_cast<unsigned>(*q - '0');
	int e10 = atoi(q + 1);
	for (int dlt = -1; dlt <= 1; dlt += 2) {
		if (m == 0 && dlt < 0) continue;
		char cand[64]; snprintf(cand, sizeof cand, "%s%llue%d", neg ? "-" : "", m + dlt, e10 - (p - 1));
		if (parsesBackTo<F>(cand, x)) { if (witness) *witness = cand; return true; }
	}
	return false;
}

// Length of the shortest printf-style rendering ("%e"-like d.ddde+XX with at least two exponent
// digits, or "%f"-like without exponent) of the decimal `dec` (-?digits[.digits][e[+-]digits]) after
// removing redundant zeros — the yardstick std::to_chars documents for "shortest".
inline size_t printfStyleMinLength(const std::string& dec) {
	size_t p = 0, n = dec.size(); size_t sign = 0; if (p < n && dec[p] == '-') { sign = 1; ++p; }
	std::string d; long point = 0;
	while (p < n && dec[p] >= '0' && dec[p] <= '9') { d.push_back(dec[p++]); ++point; }
	if (p < n && dec[p] == '.') { ++p; while (p < n && dec[p] >= '0' && dec[p] <= '9') d.push_back(dec[p++]); }
	if (p < n && (dec[p] == 'e' || dec[p] == 'E')) point += atol(dec.c_str() + p + 1);
	size_t i = 0; while (i < d.size() && d[i] == '0') { ++i; --point; }
	size_t j = d.size(); while (j > i && d[j - 1] == '0') --j;
	const long nd = static_cast<long>(j - i);
	if (nd == 0) return sign + 1;
	const long E = point - 1; long ae = E < 0 ? -E : E; long ed = 0; while (ae) { ++ed; ae /= 10; } if (ed < 2) ed = 2;
	const long sci = nd + (nd > 1 ? 1 : 0) + 2 + ed;
	const long fixed = E >= nd - 1 ? E + 1 : E >= 0 ? nd + 1 : 2 + (-E - 1) + nd;
	return sign + static_cast<size_t>(sci < fixed ? sci : fixed);
}

// ---- self-test -------------------------------------------------------------------------
inline std::u32string u32(const char* s) { std::u32string r; for (; *s; ++s) r.push_back(static_cast<unsigned char>(*s)); return r; }

inline bool selftest(std::string& why) {
	auto fail = [&](const std::string& m) { why = m; return false; };
	{   // grammar
		struct G { const char* s; bool hasInt, hasFloat, dotDigit; size_t intEnd, floatEnd; char sign; };
		static const G g[] = {
			{"", false, false, false, 0, 0, 0}, {" \t", false, false, false, 2, 2, 0}, {"-", false, false, false, 1, 1, '-'},
			{"1", true, true, false, 1, 1, 0}, {" -12x", true, true, false, 4, 4, '-'}, {"+7", true, true, false, 2, 2, '+'},
			{"1.", true, true, false, 1, 2, 0}, {"1.5", true, true, true, 1, 3, 0}, {".5", false, true, false, 0, 2, 0},
			{".", false, false, false, 0, 0, 0}, {"-.", false, false, false, 1, 1, '-'}, {"1e5", true, true, false, 1, 3, 0},
			{"1e", true, true, false, 1, 1, 0}, {"1e+", true, true, false, 1, 1, 0}, {"1e-3z", true, true, false, 1, 4, 0},
			{"1.e1", true, true, false, 1, 4, 0}, {".e1", false, false, false, 0, 0, 0}, {"0x10", true, true, false, 1, 1, 0},
			{"1.5.5", true, true, true, 1, 3, 0}, {"- 1", false, false, false, 1, 1, '-'}, {"1 2", true, true, false, 1, 1, 0},
		};
		for (auto& t : g) {
			Scan r = scan(u32(t.s));
			if (r.hasInt() != t.hasInt || r.hasFloat() != t.hasFloat || r.dotDigitAfterInt() != t.dotDigit || r.intEnd != t.intEnd || r.floatEnd != t.floatEnd || r.sign != t.sign)
				return fail(std::string("grammar: ") + t.s);
		}
		if (scan(u32(" TrUex")).word != Word::True || scan(u32("falsE")).word != Word::False || scan(u32("fals")).word != Word::None) return fail("words");
		if (scan(u32("-Infinity")).word != Word::Infinity || scan(u32("infin")).word != Word::Inf || scan(u32("nan(1a)")).word != Word::NanSeq || scan(u32("nan(")).word != Word::Nan) return fail("inf/nan words");
	}
	{   // exact integers against the compiler's own arithmetic
		for (int k = 0; k < 127; ++k) for (int d = -1; d <= 1; ++d) {
			u128 v = (static_cast<u128>(1) << k) + static_cast<u128>(static_cast<i128>(d));
			std::string t = toDecimal(v); std::u32string w = u32(t.c_str());
			Mag m = magnitude(w, 0, w.size());
			if (m.sat || m.v != v) return fail("magnitude " + t);
			if (k <= 62) { char b[32]; snprintf(b, sizeof b, "%llu", static_cast<unsigned long long>(v)); if (t != b) return fail("toDecimal " + t); }
			int64_t i64 = 0; uint64_t u64 = 0; int8_t i8 = 0; uint8_t u8 = 0;
			bool f1 = fits<int64_t>(false, m, i64), f2 = fits<uint64_t>(false, m, u64), f3 = fits<int64_t>(true, m, i64), f4 = fits<uint64_t>(true, m, u64);
			if (f1 != (v <= static_cast<u128>(INT64_MAX)) || f2 != (v <= static_cast<u128>(UINT64_MAX)) || f3 != (v <= static_cast<u128>(INT64_MAX) + 1) || f4 != (v == 0)) return fail("fits64 " + t);
			if (fits<int8_t>(true, m, i8) != (v <= 128) || fits<uint8_t>(false, m, u8) != (v <= 255) || fits<int8_t>(false, m, i8) != (v <= 127)) return fail("fits8 " + t);
		}
		std::u32string w = u32("340282366920938463463374607431768211455"); if (magnitude(w, 0, w.size()).sat) return fail("2^128-1 saturates");
		w = u32("340282366920938463463374607431768211456"); if (!magnitude(w, 0, w.size()).sat) return fail("2^128 does not saturate");
		w = u32("00000000000000000000000000000000000000000000000000017"); if (magnitude(w, 0, w.size()).v != 17) return fail("leading zeros");
		int8_t m8 = 0; Mag mm; mm.v = 128; if (!fits<int8_t>(true, mm, m8) || m8 != -128) return fail("-128");
		if (toDecimal(static_cast<i128>(INT64_MIN)) != "-9223372036854775808") return fail("toDecimal min");
	}
	{   // floats: facts with known answers
		if (bitsOf(floatValue<float>("16777217").value) != bitsOf(16777216.0f)) return fail("float tie to even");
		if (bitsOf(floatValue<float>("16777217.0000000000000000001").value) != bitsOf(16777218.0f)) return fail("float above tie");
		if (bitsOf(floatValue<double>("9007199254740993").value) != bitsOf(9007199254740992.0)) return fail("double tie to even");
		if (!floatValue<float>("3.5e38").overflow || floatValue<float>("3.4e38").overflow || !floatValue<double>("1.8e308").overflow) return fail("overflow");
		if (!floatValue<double>("2e-324").roundsToZero || floatValue<double>("3e-324").roundsToZero || !floatValue<double>("3e-324").subnormal) return fail("underflow");
		if (floatValue<double>("0e-999").roundsToZero || floatValue<double>("-0.000").roundsToZero || !std::signbit(floatValue<double>("-0").value)) return fail("zero");
		if (!floatValue<float>("7e-46").roundsToZero || floatValue<float>("8e-46").roundsToZero) return fail("float underflow");
		if (sigDigits("100") != 1 || sigDigits("1e+22") != 1 || sigDigits("-0.001250") != 3 || sigDigits("0") != 1 || sigDigits("1.") != -1 || sigDigits("1e") != -1 || sigDigits("1x") != -1 || sigDigits("12345.678e-5") != 8) return fail("sigDigits");
		if (printfStyleMinLength("5.497559e+11") != 12 || printfStyleMinLength("1e+22") != 5 || printfStyleMinLength("0.001") != 5 || printfStyleMinLength("-1.5") != 4 || printfStyleMinLength("12621775e-36") != 13 || printfStyleMinLength("1.801439850948199e+16") != 17 || printfStyleMinLength("0") != 1 || printfStyleMinLength("100") != 3 || printfStyleMinLength("123456") != 6 || printfStyleMinLength("1000000") != 5) return fail("printfStyleMinLength");
		std::string w;
		if (shorterRoundTripExists<double>(0.1, 1) || !shorterRoundTripExists<double>(0.1, 2, &w)) return fail("shorter 0.1");
		if (shorterRoundTripExists<double>(0.30000000000000004, 17) || !shorterRoundTripExists<double>(0.3, 17)) return fail("shorter 0.3");
		if (shorterRoundTripExists<float>(16777216.0f, 8) || !shorterRoundTripExists<float>(16777216.0f, 9)) return fail("shorter 2^24");
		// 2^-24 as float: asymmetric interval, shortest is 5.9604645e-08 (8 digits); 7 digits do not suffice
		if (shorterRoundTripExists<float>(5.9604644775390625e-08f, 8) || !shorterRoundTripExists<float>(5.9604644775390625e-08f, 9)) return fail("shorter 2^-24");
		// 2^-96 as float: the nearest 8-digit decimal 1.2621774e-29 lies outside the (asymmetric) rounding
		// interval, its neighbour 1.2621775e-29 inside: 8 digits suffice, 7 do not
		if (!shorterRoundTripExists<float>(std::ldexp(1.0f, -96), 9, &w) || w != "12621775e-36" || shorterRoundTripExists<float>(std::ldexp(1.0f, -96), 8)) return fail("shorter 2^-96 (neighbour)");
	}
	return true;
}

}} // namespace ref::num

#ifdef REF_NUMPARSE_SELFTEST_MAIN
int main() { std::string why; if (!ref::num::selftest(why)) { printf("ref_numparse selftest FAILED: %s\n", why.c_str()); return 1; } printf("ref_numparse selftest ok\n"); return 0; }
#endif
