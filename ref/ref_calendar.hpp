// ref_calendar.hpp — reference model for C14/C15: proleptic Gregorian calendar, ISO-8601 date-time
// and duration text. Written from the calendar rules and ISO 8601 / the BitSerializer documentation
// (docs/bitserializer_convert.md, "Date and time conversion"), not from convert_chrono.h.
//
//  * Walker: day-by-day incremental calendar using only the plain leap rule
//    (leap <=> y%4==0 && (y%100!=0 || y%400==0), year 0 exists, no 1582 gap).
//  * Closed form (daysFromCivil / civilFromDays): counts leap years with floor divisions and scans the
//    month table; deliberately *not* the era/doe/yoe arithmetic of the code under test.
//    selftest() cross-checks closed form and walker on every day of a year range.
//  * All arithmetic in __int128.
//  * formatDateTime: the documented text form [±]YYYY-MM-DDThh:mm:ss[.f]Z.
//  * parseDateTimeStrict / parseDurationStrict: strict recognisers of the documented grammars with the
//    denoted value in nanoseconds (__int128).
// No BitSerializer includes. Self-test: g++ -std=c++17 -DREF_CALENDAR_SELFTEST_MAIN -x c++ ref_calendar.hpp
#pragma once
#include <cstdint>
#include <string>
#include <vector>
#include "ref/val.hpp"   // ref::i128, ref::i128str

namespace ref { namespace cal {

using u128 = unsigned __int128;

inline i128 fdiv(i128 a, i128 b) { i128 q = a / b, r = a % b; return (r != 0 && ((r < 0) != (b < 0))) ? q - 1 : q; }
inline i128 fmod(i128 a, i128 b) { return a - fdiv(a, b) * b; }
inline i128 cdiv(i128 a, i128 b) { return -fdiv(-a, b); }
inline i128 iabs(i128 a) { return a < 0 ? -a : a; }
inline i128 pow10(int k) { i128 r = 1; while (k-- > 0) r *= 10; return r; }

constexpr long long NS_PER_S = 1000000000ll;
constexpr long long S_PER_DAY = 86400ll;

// ---- plain calendar rules -------------------------------------------------------------------
inline bool leap(i128 y) { return fmod(y, 4) == 0 && (fmod(y, 100) != 0 || fmod(y, 400) == 0); }
inline int daysInMonth(i128 y, int m) {
	switch (m) { case 4: case 6: case 9: case 11: return 30; case 2: return leap(y) ? 29 : 28; default: return 31; }
}
inline int daysInYear(i128 y) { return leap(y) ? 366 : 365; }

struct Date { i128 y = 1970; int m = 1, d = 1; bool operator==(const Date& o) const { return y == o.y && m == o.m && d == o.d; } };

// ---- incremental walker (the primary oracle of the sweep) -----------------------------------------
struct Walker {
	long long day = 0;          // days since 1970-01-01
	long long y = 1970; int m = 1, d = 1;
	void next() { ++day; if (++d > daysInMonth(y, m)) { d = 1; if (++m > 12) { m = 1; ++y; } } }
	void prev() { --day; if (--d < 1) { if (--m < 1) { m = 12; --y; } d = daysInMonth(y, m); } }
	Date date() const { Date r; r.y = y; r.m = m; r.d = d; return r; }
};

// ---- closed form -------------------------------------------------------------------------------------
// number of leap years in [0, y) for y >= 0, and minus the number in [y, 0) for y < 0
inline i128 leapsBefore(i128 y) { return fdiv(y + 3, 4) - fdiv(y + 99, 100) + fdiv(y + 399, 400); }
// days from 0000-01-01 to y-01-01
inline i128 daysBeforeYear0(i128 y) { return 365 * y + leapsBefore(y); }
// days from 1970-01-01 to y-01-01
inline i128 yearStart(i128 y) { return daysBeforeYear0(y) - daysBeforeYear0(1970); }
inline i128 daysFromCivil(i128 y, int m, int d) {
	i128 n = yearStart(y);
	for (int k = 1; k < m; ++k) n += daysInMonth(y, k);
	return n + (d - 1);
}
inline Date civilFromDays(i128 n) {
	i128 y = 1970 + fdiv(n * 400, 146097);     // estimate: 400 years have 400*365+97 days
	while (yearStart(y) > n) --y;
	while (yearStart(y + 1) <= n) ++y;
	i128 doy = n - yearStart(y);
	int m = 1;
	while (doy >= daysInMonth(y, m)) { doy -= daysInMonth(y, m); ++m; }
	Date r; r.y = y; r.m = m; r.d = static_cast<int>(doy) + 1; return r;
}

// ---- instants --------------------------------------------------------------------------------------------
// An instant/duration value of `count` units of num/den seconds, exactly, in nanoseconds (den divides 10^9).
inline i128 toNs(i128 count, long long num, long long den) { return count * num * (NS_PER_S / den); }
struct Instant { i128 days; int sod; long long fracNs; };   // floor split: value = days*86400 s + sod s + fracNs
inline Instant splitNs(i128 ns) {
	Instant r; i128 dayNs = static_cast<i128>(S_PER_DAY) * NS_PER_S;
	r.days = fdiv(ns, dayNs); i128 rem = ns - r.days * dayNs;
	r.sod = static_cast<int>(rem / NS_PER_S); r.fracNs = static_cast<long long>(rem % NS_PER_S); return r;
}

// ---- documented text form ----------------------------------------------------------------------------------
inline std::string pad(i128 v, int width) { std::string s = i128str(v); while (static_cast<int>(s.size()) < width) s.insert(s.begin(), '0'); return s; }
// [±]YYYY: no sign and 4 digits for 0000..9999, '+' and all digits above, '-' and at least 4 digits below
inline std::string formatYear(i128 y) {
	if (y < 0) return "-" + pad(-y, 4);
	if (y > 9999) return "+" + i128str(y);
	return pad(y, 4);
}
// fracDigits: 0 (no fraction) or number of digits; fracNs must be a multiple of 10^(9-fracDigits)
inline std::string formatDate(const Date& dt) { return formatYear(dt.y) + "-" + pad(dt.m, 2) + "-" + pad(dt.d, 2); }
inline std::string formatTime(int sod, long long fracNs, int fracDigits) {
	std::string s = pad(sod / 3600, 2) + ":" + pad(sod % 3600 / 60, 2) + ":" + pad(sod % 60, 2);
	if (fracDigits > 0) s += "." + pad(fracNs / static_cast<long long>(pow10(9 - fracDigits)), fracDigits);
	return s;
}
inline std::string formatDateTime(const Date& dt, int sod, long long fracNs, int fracDigits) {
	return formatDate(dt) + "T" + formatTime(sod, fracNs, fracDigits) + "Z";
}
inline std::string formatInstantNs(i128 ns, int fracDigits) {
	Instant in = splitNs(ns); return formatDateTime(civilFromDays(in.days), in.sod, in.fracNs, fracDigits);
}

// ---- strict recognisers ----------------------------------------------------------------------------------------
inline bool isDig(char c) { return c >= '0' && c <= '9'; }
// reads 1.. digits into an i128, saturating near 10^21 (beyond 2^64, i.e. "too big" for every parser, and small enough
// that years and week counts of that size still convert to nanoseconds inside __int128)
inline bool readNum(const std::string& s, size_t& p, i128& v, int& nd) {
	v = 0; nd = 0; const i128 cap = pow10(20);
	while (p < s.size() && isDig(s[p])) { if (v < cap) v = v * 10 + (s[p] - '0'); ++p; ++nd; }
	return nd > 0;
}

struct DateTimeParse {
	bool ok = false;            // inside the documented grammar, all fields in range
	i128 y = 0; int mo = 0, d = 0, h = 0, mi = 0, s = 0; int fracDigits = 0; long long fracNs = 0; bool signedYear = false;
	i128 ns() const { return (daysFromCivil(y, mo, d) * S_PER_DAY + h * 3600 + mi * 60 + s) * NS_PER_S + fracNs; }
};
// [±]YYYY-MM-DDThh:mm:ss[(.|,)f{1,9}]Z ; without sign the year has exactly 4 digits, with a sign at least 4
inline DateTimeParse parseDateTimeStrict(const std::string& t) {
	DateTimeParse r; size_t p = 0; int nd; i128 v; bool neg = false;
	if (p < t.size() && (t[p] == '+' || t[p] == '-')) { r.signedYear = true; neg = t[p] == '-'; ++p; }
	if (!readNum(t, p, v, nd) || nd < 4 || (!r.signedYear && nd != 4)) return r;
	r.y = neg ? -v : v;
	auto two = [&](int& out, char delim) { i128 x; int n; if (!readNum(t, p, x, n) || n != 2) return false; out = static_cast<int>(x); if (delim) { if (p >= t.size() || t[p] != delim) return false; ++p; } return true; };
	if (p >= t.size() || t[p] != '-') return r; ++p;
	if (!two(r.mo, '-') || !two(r.d, 'T') || !two(r.h, ':') || !two(r.mi, ':') || !two(r.s, 0)) return r;
	if (p < t.size() && (t[p] == '.' || t[p] == ',')) {
		++p; if (!readNum(t, p, v, nd) || nd > 9) return r;
		r.fracDigits = nd; r.fracNs = static_cast<long long>(v * pow10(9 - nd));
	}
	if (p + 1 != t.size() || t[p] != 'Z') return r;
	if (r.mo < 1 || r.mo > 12 || r.d < 1 || r.d > daysInMonth(r.y, r.mo) || r.h > 23 || r.mi > 59 || r.s > 59) return r;
	r.ok = true; return r;
}

struct DurationParse {
	bool ok = false;            // inside the documented grammar [±]P[nW][nD][T[nH][nM][n[(.|,)f{1,9}]S]]
	bool neg = false; bool hasFrac = false; int components = 0;
	i128 wholeNs = 0;           // signed, all integer parts
	i128 fracNs = 0;            // signed, the seconds fraction
	i128 ns() const { return wholeNs + fracNs; }
};
inline DurationParse parseDurationStrict(const std::string& t) {
	DurationParse r; size_t p = 0;
	if (p < t.size() && (t[p] == '+' || t[p] == '-')) { r.neg = t[p] == '-'; ++p; }
	if (p >= t.size() || t[p] != 'P') return r; ++p;
	i128 whole = 0, frac = 0; int stage = 0;   // designators must appear in the order W D | H M S, each at most once
	bool timePart = false; int timeComps = 0;
	while (p < t.size()) {
		if (!timePart && t[p] == 'T') { timePart = true; ++p; continue; }
		i128 v; int nd; if (!readNum(t, p, v, nd)) return r;
		bool fr = false; i128 fv = 0; int fd = 0;
		if (p < t.size() && (t[p] == '.' || t[p] == ',')) { ++p; if (!readNum(t, p, fv, fd) || fd > 9) return r; fr = true; }
		if (p >= t.size()) return r;
		char c = t[p++]; i128 unit; int st;
		if (!timePart) { if (c == 'W') { unit = 604800; st = 1; } else if (c == 'D') { unit = 86400; st = 2; } else return r; }
		else { if (c == 'H') { unit = 3600; st = 3; } else if (c == 'M') { unit = 60; st = 4; } else if (c == 'S') { unit = 1; st = 5; } else return r; ++timeComps; }
		if (st <= stage) return r;
		stage = st;
		if (fr) { if (c != 'S') return r; r.hasFrac = true; frac = fv * pow10(9 - fd); }
		whole += v * unit * NS_PER_S; ++r.components;
	}
	if (r.components == 0 || (timePart && timeComps == 0)) return r;
	r.wholeNs = r.neg ? -whole : whole; r.fracNs = r.neg ? -frac : frac; r.ok = true; return r;
}

// ---- classification of arbitrary text (C15) ----------------------------------------------------------------------
// Valid:     inside the documented grammar, value known.
// Lenient:   outside the documented grammar but with an obvious denotation and not listed by the documentation as
//            rejected (field with an unusual number of digits, lower-case designator, characters after the end,
//            second 60, hour 24, more than 9 fraction digits, components repeated or out of order, dangling T):
//            a parser may return the denoted value or throw.
// Malformed: a documented rejection (field out of range, wrong/missing delimiter, missing Z, year/month designator in
//            a duration, fraction outside the seconds part, base-UTC form) or text that denotes nothing: must throw.
struct DurComp { i128 wholeNs; i128 fracNs; char unit; };   // unsigned magnitudes
struct TextClass {
	enum Kind { Valid, Lenient, Malformed } kind = Malformed;
	std::string reason;            // named cause class
	bool hasValue = false;         // Valid / Lenient: the denoted value; Malformed: a nominal value when all fields are numeric
	bool neg = false;
	i128 wholeNs = 0, fracNs = 0;  // signed; value = wholeNs + fracNs
	int slackNs = 0;               // 1 when fraction digits beyond the 9th were dropped from fracNs
	bool tooBig = false;           // contains a number no 64-bit parser can hold (magnitude beyond 2^64-1, negative beyond 2^63, year beyond int64,
	                               // two-digit field beyond 2^31-1): reporting out_of_range is excusable whatever else is wrong
	std::vector<DurComp> comps;    // durations: components seen before the first malformation, in text order
	i128 y = 0; int mo = 0, d = 0, h = 0, mi = 0, s = 0;   // date-time fields (saturated)
	i128 ns() const { return wholeNs + fracNs; }
};
inline void lenient(TextClass& r, const char* why) { if (r.kind == TextClass::Valid) { r.kind = TextClass::Lenient; r.reason = why; } }

inline TextClass classifyDateTime(const std::string& t) {
	TextClass r; r.kind = TextClass::Valid; r.reason = "valid";
	auto bad = [&](const char* why) { if (r.kind != TextClass::Malformed) { r.kind = TextClass::Malformed; r.reason = why; } };
	const i128 i64max = (static_cast<i128>(1) << 63) - 1;
	size_t p = 0; int signs = 0; bool neg = false;
	while (p < t.size() && (t[p] == '+' || t[p] == '-')) { neg = t[p] == '-'; ++signs; ++p; }
	if (signs > 1) bad("year_sign");   // keep reading: a nominal value (last sign wins) tells whether out_of_range is excusable
	i128 v; int nd;
	if (!readNum(t, p, v, nd)) { bad("year_missing"); return r; }
	if (v > i64max + (neg ? 1 : 0)) r.tooBig = true;
	r.y = neg ? -v : v; r.neg = neg;
	if ((signs == 0 && nd != 4) || nd < 4) lenient(r, "year_digits");
	struct F { int* out; char delim; char delimLower; const char* missing; };
	int fnd[5]; i128 fv[5];
	const F fs[5] = { {&r.mo, '-', 0, "month_missing"}, {&r.d, 'T', 't', "day_missing"}, {&r.h, ':', 0, "hour_missing"}, {&r.mi, ':', 0, "minute_missing"}, {&r.s, 0, 0, "second_missing"} };
	if (p >= t.size() || t[p] != '-') { bad("delimiter"); return r; } ++p;
	for (int k = 0; k < 5; ++k) {
		if (!readNum(t, p, fv[k], fnd[k])) { bad(fs[k].missing); return r; }
		*fs[k].out = fv[k] > 1000000 ? 1000000 : static_cast<int>(fv[k]);
		if (fv[k] > 2147483647) r.tooBig = true;   // beyond a 32-bit int: "number too big" is an excusable answer
		if (fnd[k] != 2) lenient(r, "field_digits");
		if (fs[k].delim) {
			if (p < t.size() && t[p] == fs[k].delim) ++p;
			else if (p < t.size() && fs[k].delimLower && t[p] == fs[k].delimLower) { ++p; lenient(r, "lowercase_designator"); }
			else { bad("delimiter"); return r; }
		}
	}
	i128 frac = 0;
	if (p < t.size() && (t[p] == '.' || t[p] == ',')) {
		++p; size_t q = p; if (!readNum(t, p, v, nd)) { bad("fraction_empty"); return r; }
		for (int k = 0; k < 9; ++k) frac = frac * 10 + (k < nd ? t[q + static_cast<size_t>(k)] - '0' : 0);
		if (nd > 9) { lenient(r, "fraction_gt9digits"); for (int k = 9; k < nd; ++k) if (t[q + static_cast<size_t>(k)] != '0') r.slackNs = 1; }
	}
	if (p < t.size() && t[p] == 'Z') ++p;
	else if (p < t.size() && t[p] == 'z') { ++p; lenient(r, "lowercase_designator"); }
	else { bad("missing_Z"); }
	if (r.kind != TextClass::Malformed && p != t.size()) lenient(r, "trailing_chars");
	// field ranges (documented rejections)
	if (r.mo < 1 || r.mo > 12) bad("month_out_of_range");
	else if (r.d < 1 || r.d > 31) bad("day_out_of_range");
	else if (r.d > daysInMonth(r.y, r.mo)) bad(r.mo == 2 && r.d == 29 ? "feb29_nonleap" : "day_gt_days_in_month");
	if (r.h > 24) bad("hour_out_of_range"); else if (r.h == 24) lenient(r, "hour24");
	if (r.mi > 59) bad("minute_out_of_range");
	if (r.s > 60) bad("second_out_of_range"); else if (r.s == 60) lenient(r, "second60");
	// value (nominal when a field is out of range): plain arithmetic on the fields
	int mo = r.mo < 1 ? 1 : r.mo > 12 ? 12 : r.mo;
	r.wholeNs = ((daysFromCivil(r.y, mo, 1) + (r.d - 1)) * S_PER_DAY + static_cast<i128>(r.h) * 3600 + static_cast<i128>(r.mi) * 60 + r.s) * NS_PER_S;
	r.fracNs = frac; r.hasValue = true;
	return r;
}

inline TextClass classifyDuration(const std::string& t) {
	TextClass r; r.kind = TextClass::Valid; r.reason = "valid";
	auto bad = [&](const char* why) { if (r.kind != TextClass::Malformed) { r.kind = TextClass::Malformed; r.reason = why; } };
	const i128 u64max = (static_cast<i128>(1) << 64) - 1;
	size_t p = 0; int signs = 0;
	while (p < t.size() && (t[p] == '+' || t[p] == '-')) { r.neg = t[p] == '-'; ++signs; ++p; }
	if (signs > 1) { bad("sign"); return r; }
	if (p < t.size() && t[p] == 'P') ++p;
	else if (p < t.size() && t[p] == 'p') { ++p; lenient(r, "lowercase_designator"); }
	else { bad(t.find('/') != std::string::npos ? "base_utc_form" : "missing_P"); return r; }
	bool timePart = false; int stage = 0, timeComps = 0; i128 whole = 0, frac = 0;
	while (p < t.size()) {
		char c = t[p];
		if (c == ' ' || c == '\t' || c == '\n' || c == '\r' || c == '\f' || c == '\v') { lenient(r, "trailing_chars"); break; }
		if (c == 'T' || c == 't') { if (timePart) { bad("designator"); break; } if (c == 't') lenient(r, "lowercase_designator"); timePart = true; ++p; continue; }
		i128 v; int nd; if (!readNum(t, p, v, nd)) { bad("number_missing"); break; }
		if (v > u64max || (r.neg && v > (static_cast<i128>(1) << 63))) r.tooBig = true;
		bool fr = false; i128 fv = 0;
		if (p < t.size() && (t[p] == '.' || t[p] == ',')) {
			++p; size_t q = p; i128 x; int fd; if (!readNum(t, p, x, fd)) { bad("fraction_empty"); break; }
			fr = true; for (int k = 0; k < 9; ++k) fv = fv * 10 + (k < fd ? t[q + static_cast<size_t>(k)] - '0' : 0);
			if (fd > 9) { lenient(r, "fraction_gt9digits"); for (int k = 9; k < fd; ++k) if (t[q + static_cast<size_t>(k)] != '0') r.slackNs = 1; }
		}
		if (p >= t.size()) { bad("designator_missing"); break; }
		char l = t[p++]; if (l >= 'a' && l <= 'z') { l = static_cast<char>(l - 32); lenient(r, "lowercase_designator"); }
		i128 unit = 0; int st = 0;
		if (!timePart) {
			if (l == 'W') { unit = 604800; st = 1; } else if (l == 'D') { unit = 86400; st = 2; }
			else if (l == 'Y') { bad("year_designator"); break; } else if (l == 'M') { bad("month_designator"); break; }
			else if (l == 'H' || l == 'S') { bad("missing_T"); break; } else { bad("designator"); break; }
		} else {
			if (l == 'H') { unit = 3600; st = 3; } else if (l == 'M') { unit = 60; st = 4; } else if (l == 'S') { unit = 1; st = 5; }
			else { bad("designator"); break; }
			++timeComps;
		}
		if (fr && l != 'S') { bad("fraction_in_non_seconds"); break; }
		if (st <= stage) lenient(r, "component_order");
		stage = st;
		DurComp dc; dc.wholeNs = v * unit * NS_PER_S; dc.fracNs = fv; dc.unit = l; r.comps.push_back(dc);
		whole += dc.wholeNs; frac += fv;
	}
	if (r.kind != TextClass::Malformed) {
		if (r.comps.empty()) bad("no_components");
		else if (timePart && timeComps == 0) lenient(r, "dangling_T");
	}
	r.wholeNs = r.neg ? -whole : whole; r.fracNs = r.neg ? -frac : frac; r.hasValue = !r.comps.empty();
	return r;
}

// ---- self test ------------------------------------------------------------------------------------------------------
// walks every day of years [fromYear, toYear] from the epoch in both directions and compares with both closed forms
inline bool selftest(std::string& err, long long fromYear, long long toYear, void (*tick)() = nullptr) {
	auto fail = [&](const std::string& m) { err = m; return false; };
	// independent anchors (well-known day numbers)
	struct A { long long y; int m, d; long long n; };
	static const A anchors[] = { {1970, 1, 1, 0}, {2000, 1, 1, 10957}, {2000, 3, 1, 11017}, {1969, 12, 31, -1}, {2038, 1, 19, 24855}, {1901, 12, 13, -24856},
		{1601, 1, 1, -134774}, {1858, 11, 17, -40587}, {0, 1, 1, -719528}, {0, 3, 1, -719468}, {9999, 12, 31, 2932896}, {10000, 1, 1, 2932897},
		{1677, 9, 21, -106752}, {2262, 4, 11, 106751}, {-4713, 11, 24, -2440588} /* JDN 0 */, {5881580, 7, 11, 2147483647ll}, {-5877641, 6, 23, -2147483648ll} };
	for (auto& a : anchors) {
		if (daysFromCivil(a.y, a.m, a.d) != a.n) return fail("anchor daysFromCivil " + std::to_string(a.y) + " got " + i128str(daysFromCivil(a.y, a.m, a.d)));
		Date b = civilFromDays(a.n); if (!(b.y == a.y && b.m == a.m && b.d == a.d)) return fail("anchor civilFromDays " + std::to_string(a.n));
	}
	if (!leap(2000) || leap(1900) || !leap(0) || leap(-1) || !leap(-4) || leap(-100) || !leap(-400) || leap(2100) || !leap(2024) || leap(2023)) return fail("leap rule");
	for (int dir = 0; dir < 2; ++dir) {
		Walker w;
		for (;;) {
			if (dir == 0 ? w.y > toYear : w.y < fromYear) break;
			Date c = civilFromDays(w.day);
			if (!(c == w.date())) return fail("civilFromDays != walker at day " + std::to_string(w.day));
			if (daysFromCivil(w.y, w.m, w.d) != w.day) return fail("daysFromCivil != walker at day " + std::to_string(w.day));
			if (dir == 0) w.next(); else w.prev();
			if (tick && (w.day & 4095) == 0) tick();
		}
	}
	// far values: closed forms are mutually inverse and month lengths are respected
	for (int k = 20; k < 100; ++k) for (int s = -1; s <= 1; s += 2) for (int o = -1; o <= 1; ++o) {
		i128 n = s * ((static_cast<i128>(1) << k) + o);
		Date c = civilFromDays(n);
		if (daysFromCivil(c.y, c.m, c.d) != n || c.m < 1 || c.m > 12 || c.d < 1 || c.d > daysInMonth(c.y, c.m)) return fail("far inverse 2^" + std::to_string(k));
		Date c1 = civilFromDays(n + 1); Walker w; w.y = static_cast<long long>(c.y); w.m = c.m; w.d = c.d; w.next();
		if (k < 62 && !(c1 == w.date())) return fail("far successor 2^" + std::to_string(k));
	}
	// text forms
	{ Date d; d.y = -1; d.m = 12; d.d = 31; if (formatDateTime(d, 86399, 0, 0) != "-0001-12-31T23:59:59Z") return fail("fmt -1"); }
	{ Date d; d.y = 10000; d.m = 1; d.d = 1; if (formatDateTime(d, 0, 1000000, 3) != "+10000-01-01T00:00:00.001Z") return fail("fmt 10000"); }
	if (formatInstantNs(0, 9) != "1970-01-01T00:00:00.000000000Z") return fail("fmt epoch");
	if (formatInstantNs(-1, 9) != "1969-12-31T23:59:59.999999999Z") return fail("fmt -1ns");
	if (formatInstantNs(static_cast<i128>(INT64_MIN), 9) != "1677-09-21T00:12:43.145224192Z") return fail("fmt ns min");
	if (formatInstantNs(static_cast<i128>(INT64_MAX), 9) != "2262-04-11T23:47:16.854775807Z") return fail("fmt ns max");
	if (formatInstantNs(static_cast<i128>(253402300800ll) * NS_PER_S, 0) != "+10000-01-01T00:00:00Z") return fail("fmt y10k");
	{ auto p = parseDateTimeStrict("2024-02-29T23:59:59,5Z"); if (!p.ok || p.ns() != (static_cast<i128>(1709251199) * NS_PER_S + 500000000)) return fail("parse dt"); }
	for (const char* bad : { "2023-02-29T00:00:00Z", "2023-2-28T00:00:00Z", "12023-02-28T00:00:00Z", "2023-02-28T24:00:00Z", "2023-02-28T00:00:00", "2023-02-28T00:00:00.Z", "2023-02-28T00:00:00.1234567890Z", "2023-02-28t00:00:00Z", "2023-02-28T00:00:00Z " })
		if (parseDateTimeStrict(bad).ok) return fail(std::string("strict dt accepts ") + bad);
	{ auto p = parseDurationStrict("-P1W2DT3H4M5.25S"); if (!p.ok || p.ns() != -((static_cast<i128>(604800 + 2 * 86400 + 3 * 3600 + 4 * 60 + 5)) * NS_PER_S + 250000000)) return fail("parse dur"); }
	{ auto p = parseDurationStrict("PT0S"); if (!p.ok || p.ns() != 0) return fail("parse PT0S"); }
	{ auto p = parseDurationStrict("P18446744073709551616W"); if (!p.ok || p.ns() != (static_cast<i128>(1) << 64) * 604800 * NS_PER_S) return fail("parse big"); }
	for (const char* bad : { "P", "PT", "P1DT", "P1Y", "P1M", "PT1.5H", "P0.5D", "P1D1W", "PT1S1M", "PT1H1H", "T1S", "P1S", "PT1D", "PT1.S", "PT1.1234567890S", "P-1D", "PT1S ", "2003-02-15T00:00:00Z/P2M", "" })
		if (parseDurationStrict(bad).ok) return fail(std::string("strict dur accepts ") + bad);
	for (const char* x : { "2024-02-29T23:59:59,5Z", "2023-02-29T00:00:00Z", "2023-2-28T00:00:00Z", "12023-02-28T00:00:00Z", "2023-02-28T24:00:00Z", "2023-02-28T00:00:00", "2023-02-28T00:00:00.Z",
		"2023-02-28T00:00:00.1234567890Z", "2023-02-28t00:00:00Z", "2023-02-28T00:00:00Z ", "+10000-01-01T00:00:00Z", "-0001-12-31T23:59:60Z", "2023-13-01T00:00:00Z", "2023-04-31T00:00:00Z", "" }) {
		auto c = classifyDateTime(x); auto p = parseDateTimeStrict(x);
		if ((c.kind == TextClass::Valid) != p.ok) return fail(std::string("classifier/strict disagree on date-time ") + x);
		if (p.ok && c.ns() != p.ns()) return fail(std::string("classifier/strict value on date-time ") + x);
	}
	if (classifyDateTime("2023-02-29T00:00:00Z").reason != "feb29_nonleap" || classifyDateTime("2023-02-28T00:00:00").reason != "missing_Z" || classifyDateTime("2023-02-28T00:00:00Zx").kind != TextClass::Lenient) return fail("date-time reasons");
	for (const char* x : { "P", "PT", "P1DT", "P1Y", "P1M", "PT1.5H", "P0.5D", "P1D1W", "PT1S1M", "PT1H1H", "T1S", "P1S", "PT1D", "PT1.S", "PT1.1234567890S", "P-1D", "PT1S ", "2003-02-15T00:00:00Z/P2M", "",
		"P1W", "P1D", "P1W1DT1H1M1.5S", "-PT0,5S", "+PT1M", "PT0.000000001S", "P18446744073709551616D" }) {
		auto c = classifyDuration(x); auto p = parseDurationStrict(x);
		if ((c.kind == TextClass::Valid) != p.ok) return fail(std::string("classifier/strict disagree on duration ") + x);
		if (p.ok && c.ns() != p.ns()) return fail(std::string("classifier/strict value on duration ") + x);
	}
	if (classifyDuration("P1Y").reason != "year_designator" || classifyDuration("P0.5D").reason != "fraction_in_non_seconds" || classifyDuration("2003-02-15T00:00:00Z/P2M").reason != "base_utc_form"
		|| classifyDuration("P1S").reason != "missing_T" || classifyDuration("PT1S x").kind != TextClass::Lenient || classifyDuration("PT1S1M").kind != TextClass::Lenient) return fail("duration reasons");
	for (const char* good : { "P1W", "P1D", "P1W1D", "PT1H", "PT1M", "PT1S", "PT1H1S", "P1DT1M", "+PT0,5S", "PT0.000000001S" })
		if (!parseDurationStrict(good).ok) return fail(std::string("strict dur rejects ") + good);
	return true;
}

}} // namespace ref::cal

#ifdef REF_CALENDAR_SELFTEST_MAIN
#include <cstdio>
int main() { std::string e; bool ok = ref::cal::selftest(e, -10000, 20000); printf("%s %s\n", ok ? "OK" : "FAIL", e.c_str()); return ok ? 0 : 1; }
#endif
