// ref_msgpack.hpp — strict MessagePack reference decoder and encoders, written from the
// specification (https://github.com/msgpack/msgpack/blob/master/spec.md), not from the code.
#pragma once
#include "val.hpp"
#include <functional>

namespace ref::mp {

enum class Err { Ok, Truncated, Illegal, BadTimestamp, TooDeep };

struct Decoder {
	const std::string& d; size_t pos = 0; Err err = Err::Ok; int maxDepth = 64;
	explicit Decoder(const std::string& data) : d(data) {}

	bool need(size_t n) { if (d.size() - pos < n) { err = Err::Truncated; return false; } return true; }
	uint64_t be(size_t n) { uint64_t v = 0; for (size_t i = 0; i < n; ++i) v = (v << 8) | static_cast<unsigned char>(d[pos + i]); pos += n; return v; }

	bool decode(Val& out, int depth = 0) {
		if (depth > maxDepth) { err = Err::TooDeep; return false; }
		if (!need(1)) return false;
		unsigned c = static_cast<unsigned char>(d[pos++]);
		auto readStr = [&](size_t n, Val::K k) { if (!need(n)) return false; out.k = k; out.s.assign(d, pos, n); pos += n; return true; };
		auto readArr = [&](size_t n) { out.k = Val::Arr; out.a.clear(); for (size_t i = 0; i < n; ++i) { Val e; if (!decode(e, depth + 1)) return false; out.a.push_back(std::move(e)); } return true; };
		auto readMap = [&](size_t n) { out.k = Val::Map; out.m.clear(); for (size_t i = 0; i < n; ++i) { Val k, v; if (!decode(k, depth + 1) || !decode(v, depth + 1)) return false; out.m.emplace_back(std::move(k), std::move(v)); } return true; };
		auto readExt = [&](size_t n) {
			if (!need(1 + n)) return false;
			int type = static_cast<signed char>(d[pos++]);
			if (type == -1) {
				if (n == 4) { out = Val::ts(static_cast<int64_t>(be(4)), 0); return true; }
				if (n == 8) { uint64_t v = be(8); uint32_t ns = static_cast<uint32_t>(v >> 34); if (ns > 999999999u) { err = Err::BadTimestamp; return false; } out = Val::ts(static_cast<int64_t>(v & 0x3ffffffffull), ns); return true; }
				if (n == 12) { uint32_t ns = static_cast<uint32_t>(be(4)); int64_t sec = static_cast<int64_t>(be(8)); if (ns > 999999999u) { err = Err::BadTimestamp; return false; } out = Val::ts(sec, ns); return true; }
				err = Err::BadTimestamp; return false;
			}
			out.k = Val::Ext; out.ext_type = type; out.s.assign(d, pos, n); pos += n; return true;
		};
		if (c <= 0x7f) { out = Val::integer(c); return true; }
		if (c <= 0x8f) return readMap(c & 15);
		if (c <= 0x9f) return readArr(c & 15);
		if (c <= 0xbf) return readStr(c & 31, Val::Str);
		if (c >= 0xe0) { out = Val::integer(static_cast<int>(c) - 256); return true; }
		switch (c) {
		case 0xc0: out = Val::nil(); return true;
		case 0xc1: err = Err::Illegal; return false;
		case 0xc2: out = Val::boolean(false); return true;
		case 0xc3: out = Val::boolean(true); return true;
		case 0xc4: if (!need(1)) return false; return readStr(be(1), Val::Bin);
		case 0xc5: if (!need(2)) return false; return readStr(be(2), Val::Bin);
		case 0xc6: if (!need(4)) return false; return readStr(be(4), Val::Bin);
		case 0xc7: if (!need(1)) return false; return readExt(be(1));
		case 0xc8: if (!need(2)) return false; return readExt(be(2));
		case 0xc9: if (!need(4)) return false; return readExt(be(4));
		case 0xca: if (!need(4)) return false; out = Val::f32bits(static_cast<uint32_t>(be(4))); return true;
		case 0xcb: if (!need(8)) return false; out = Val::f64bits(be(8)); return true;
		case 0xcc: if (!need(1)) return false; out = Val::integer(static_cast<i128>(be(1))); return true;
		case 0xcd: if (!need(2)) return false; out = Val::integer(static_cast<i128>(be(2))); return true;
		case 0xce: if (!need(4)) return false; out = Val::integer(static_cast<i128>(be(4))); return true;
		case 0xcf: if (!need(8)) return false; out = Val::integer(static_cast<i128>(be(8))); return true;
		case 0xd0: if (!need(1)) return false; out = Val::integer(static_cast<int8_t>(be(1))); return true;
		case 0xd1: if (!need(2)) return false; out = Val::integer(static_cast<int16_t>(be(2))); return true;
		case 0xd2: if (!need(4)) return false; out = Val::integer(static_cast<int32_t>(be(4))); return true;
		case 0xd3: if (!need(8)) return false; out = Val::integer(static_cast<int64_t>(be(8))); return true;
		case 0xd4: return readExt(1);
		case 0xd5: return readExt(2);
		case 0xd6: return readExt(4);
		case 0xd7: return readExt(8);
		case 0xd8: return readExt(16);
		case 0xd9: if (!need(1)) return false; return readStr(be(1), Val::Str);
		case 0xda: if (!need(2)) return false; return readStr(be(2), Val::Str);
		case 0xdb: if (!need(4)) return false; return readStr(be(4), Val::Str);
		case 0xdc: if (!need(2)) return false; return readArr(be(2));
		case 0xdd: if (!need(4)) return false; { size_t n = be(4); if (n > d.size() - pos) { err = Err::Truncated; return false; } return readArr(n); }
		case 0xde: if (!need(2)) return false; return readMap(be(2));
		case 0xdf: if (!need(4)) return false; { size_t n = be(4); if (n > d.size() - pos) { err = Err::Truncated; return false; } return readMap(n); }
		}
		err = Err::Illegal; return false;
	}
};

// Decodes exactly one object; `consumed` receives its length.
inline Err decodeOne(const std::string& bytes, Val& out, size_t* consumed = nullptr) {
	Decoder dec(bytes); Val v;
	if (!dec.decode(v)) return dec.err;
	out = std::move(v); if (consumed) *consumed = dec.pos; return Err::Ok;
}

// ---- encoders ------------------------------------------------------------------------
// pick(n) returns the index of the format alternative to use; index 0 is always the
// canonical (most compact) one. A null picker means canonical.
using Picker = std::function<int(int nAlternatives, const char* what)>;

inline void putbe(std::string& o, uint64_t v, int n) { for (int i = n - 1; i >= 0; --i) o.push_back(static_cast<char>((v >> (8 * i)) & 0xff)); }

inline void encode(const Val& v, std::string& o, const Picker& pick = nullptr) {
	auto sel = [&](int n, const char* what) { return (pick && n > 1) ? pick(n, what) : 0; };
	switch (v.k) {
	case Val::Nil: o.push_back(static_cast<char>(0xc0)); break;
	case Val::Bool: o.push_back(static_cast<char>(v.b ? 0xc3 : 0xc2)); break;
	case Val::Int: {
		struct F { int code; int bytes; };   // code -1: fixint
		std::vector<F> alt; i128 x = v.i;
		if (x >= 0) {
			if (x <= 0x7f) alt.push_back({-1, 0});
			if (x <= 0xff) alt.push_back({0xcc, 1});
			if (x <= 0xffff) alt.push_back({0xcd, 2});
			if (x <= 0xffffffffll) alt.push_back({0xce, 4});
			alt.push_back({0xcf, 8});
			if (x <= 0x7f) alt.push_back({0xd0, 1});
			if (x <= 0x7fff) alt.push_back({0xd1, 2});
			if (x <= 0x7fffffff) alt.push_back({0xd2, 4});
			if (x <= static_cast<i128>(INT64_MAX)) alt.push_back({0xd3, 8});
		} else {
			if (x >= -32) alt.push_back({-1, 0});
			if (x >= -128) alt.push_back({0xd0, 1});
			if (x >= -32768) alt.push_back({0xd1, 2});
			if (x >= -2147483648ll) alt.push_back({0xd2, 4});
			alt.push_back({0xd3, 8});
		}
		F f = alt[static_cast<size_t>(sel(static_cast<int>(alt.size()), "int"))];
		if (f.code < 0) o.push_back(static_cast<char>(static_cast<int>(x) & 0xff));
		else { o.push_back(static_cast<char>(f.code)); putbe(o, static_cast<uint64_t>(static_cast<int64_t>(x)), f.bytes); }
		break;
	}
	case Val::F32: {
		if (sel(2, "f32") == 0) { o.push_back(static_cast<char>(0xca)); putbe(o, v.f32, 4); }
		else { float f; std::memcpy(&f, &v.f32, 4); double d = f; uint64_t b; std::memcpy(&b, &d, 8); o.push_back(static_cast<char>(0xcb)); putbe(o, b, 8); }
		break;
	}
	case Val::F64: o.push_back(static_cast<char>(0xcb)); putbe(o, v.f64, 8); break;
	case Val::Str: {
		size_t n = v.s.size(); int first = n <= 31 ? 0 : n <= 0xff ? 1 : n <= 0xffff ? 2 : 3;
		int f = first + sel(4 - first, "str");
		if (f == 0) o.push_back(static_cast<char>(0xa0 | n));
		else if (f == 1) { o.push_back(static_cast<char>(0xd9)); putbe(o, n, 1); }
		else if (f == 2) { o.push_back(static_cast<char>(0xda)); putbe(o, n, 2); }
		else { o.push_back(static_cast<char>(0xdb)); putbe(o, n, 4); }
		o += v.s; break;
	}
	case Val::Bin: {
		size_t n = v.s.size(); int first = n <= 0xff ? 0 : n <= 0xffff ? 1 : 2;
		int f = first + sel(3 - first, "bin");
		if (f == 0) { o.push_back(static_cast<char>(0xc4)); putbe(o, n, 1); }
		else if (f == 1) { o.push_back(static_cast<char>(0xc5)); putbe(o, n, 2); }
		else { o.push_back(static_cast<char>(0xc6)); putbe(o, n, 4); }
		o += v.s; break;
	}
	case Val::Ext: {
		size_t n = v.s.size();
		std::vector<int> alt;   // 0 = fixext, 1 = ext8, 2 = ext16, 3 = ext32
		if (n == 1 || n == 2 || n == 4 || n == 8 || n == 16) alt.push_back(0);
		if (n <= 0xff) alt.push_back(1);
		if (n <= 0xffff) alt.push_back(2);
		alt.push_back(3);
		int f = alt[static_cast<size_t>(sel(static_cast<int>(alt.size()), "ext"))];
		if (f == 0) o.push_back(static_cast<char>(n == 1 ? 0xd4 : n == 2 ? 0xd5 : n == 4 ? 0xd6 : n == 8 ? 0xd7 : 0xd8));
		else if (f == 1) { o.push_back(static_cast<char>(0xc7)); putbe(o, n, 1); }
		else if (f == 2) { o.push_back(static_cast<char>(0xc8)); putbe(o, n, 2); }
		else { o.push_back(static_cast<char>(0xc9)); putbe(o, n, 4); }
		o.push_back(static_cast<char>(v.ext_type)); o += v.s; break;
	}
	case Val::Arr: {
		size_t n = v.a.size(); int first = n <= 15 ? 0 : n <= 0xffff ? 1 : 2;
		int f = first + sel(3 - first, "arr");
		if (f == 0) o.push_back(static_cast<char>(0x90 | n));
		else if (f == 1) { o.push_back(static_cast<char>(0xdc)); putbe(o, n, 2); }
		else { o.push_back(static_cast<char>(0xdd)); putbe(o, n, 4); }
		for (auto& e : v.a) encode(e, o, pick);
		break;
	}
	case Val::Map: {
		size_t n = v.m.size(); int first = n <= 15 ? 0 : n <= 0xffff ? 1 : 2;
		int f = first + sel(3 - first, "map");
		if (f == 0) o.push_back(static_cast<char>(0x80 | n));
		else if (f == 1) { o.push_back(static_cast<char>(0xde)); putbe(o, n, 2); }
		else { o.push_back(static_cast<char>(0xdf)); putbe(o, n, 4); }
		for (auto& e : v.m) { encode(e.first, o, pick); encode(e.second, o, pick); }
		break;
	}
	case Val::Ts: {
		int first = (v.ts_ns == 0 && v.ts_sec >= 0 && v.ts_sec <= 0xffffffffll) ? 0 : (v.ts_sec >= 0 && v.ts_sec < (1ll << 34)) ? 1 : 2;
		int f = first + sel(3 - first, "ts");
		if (f == 0) { o.push_back(static_cast<char>(0xd6)); o.push_back(static_cast<char>(0xff)); putbe(o, static_cast<uint64_t>(v.ts_sec), 4); }
		else if (f == 1) { o.push_back(static_cast<char>(0xd7)); o.push_back(static_cast<char>(0xff)); putbe(o, (static_cast<uint64_t>(v.ts_ns) << 34) | static_cast<uint64_t>(v.ts_sec), 8); }
		else { o.push_back(static_cast<char>(0xc7)); o.push_back(12); o.push_back(static_cast<char>(0xff)); putbe(o, v.ts_ns, 4); putbe(o, static_cast<uint64_t>(v.ts_sec), 8); }
		break;
	}
	}
}
inline std::string encode(const Val& v, const Picker& pick = nullptr) { std::string o; encode(v, o, pick); return o; }

} // namespace ref::mp
