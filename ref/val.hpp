// val.hpp — generic data tree used by the reference models, with a canonical dump.
#pragma once
#include <cstdint>
#include <cstring>
#include <string>
#include <utility>
#include <vector>

namespace ref {

using i128 = __int128;

inline std::string i128str(i128 v) {
	if (v == 0) return "0";
	bool neg = v < 0; unsigned __int128 u = neg ? -static_cast<unsigned __int128>(v) : static_cast<unsigned __int128>(v);
	std::string r; while (u) { r.insert(r.begin(), static_cast<char>('0' + static_cast<int>(u % 10))); u /= 10; }
	if (neg) r.insert(r.begin(), '-');
	return r;
}

struct Val {
	enum K { Nil, Bool, Int, F32, F64, Str, Bin, Arr, Map, Ts, Ext } k = Nil;
	bool b = false;
	i128 i = 0;                 // Int: -2^63 .. 2^64-1
	uint32_t f32 = 0;           // bit pattern
	uint64_t f64 = 0;           // bit pattern
	std::string s;              // Str / Bin / Ext payload
	int ext_type = 0;
	std::vector<Val> a;         // Arr
	std::vector<std::pair<Val, Val>> m;   // Map (document order)
	int64_t ts_sec = 0; uint32_t ts_ns = 0;

	static Val nil() { return Val{}; }
	static Val boolean(bool v) { Val r; r.k = Bool; r.b = v; return r; }
	static Val integer(i128 v) { Val r; r.k = Int; r.i = v; return r; }
	static Val f32bits(uint32_t v) { Val r; r.k = F32; r.f32 = v; return r; }
	static Val f64bits(uint64_t v) { Val r; r.k = F64; r.f64 = v; return r; }
	static Val flt(float v) { Val r; r.k = F32; std::memcpy(&r.f32, &v, 4); return r; }
	static Val dbl(double v) { Val r; r.k = F64; std::memcpy(&r.f64, &v, 8); return r; }
	static Val str(std::string v) { Val r; r.k = Str; r.s = std::move(v); return r; }
	static Val bin(std::string v) { Val r; r.k = Bin; r.s = std::move(v); return r; }
	static Val arr(std::vector<Val> v = {}) { Val r; r.k = Arr; r.a = std::move(v); return r; }
	static Val map(std::vector<std::pair<Val, Val>> v = {}) { Val r; r.k = Map; r.m = std::move(v); return r; }
	static Val ts(int64_t sec, uint32_t ns) { Val r; r.k = Ts; r.ts_sec = sec; r.ts_ns = ns; return r; }

	double asDouble() const { if (k == F64) { double d; std::memcpy(&d, &f64, 8); return d; } float f; std::memcpy(&f, &f32, 4); return f; }

	std::string dump() const {
		static const char* hx = "0123456789abcdef";
		auto hexs = [](const std::string& x) { std::string r; for (unsigned char c : x) { r.push_back(hx[c >> 4]); r.push_back(hx[c & 15]); } return r; };
		switch (k) {
		case Nil: return "nil";
		case Bool: return b ? "true" : "false";
		case Int: return i128str(i);
		case F32: { char buf[32]; snprintf(buf, sizeof buf, "f32:%08x", f32); return buf; }
		case F64: { char buf[40]; snprintf(buf, sizeof buf, "f64:%016llx", static_cast<unsigned long long>(f64)); return buf; }
		case Str: return "s\"" + hexs(s) + "\"";
		case Bin: return "b\"" + hexs(s) + "\"";
		case Ext: return "ext" + std::to_string(ext_type) + "\"" + hexs(s) + "\"";
		case Ts: return "ts(" + std::to_string(ts_sec) + "," + std::to_string(ts_ns) + ")";
		case Arr: { std::string r = "["; for (size_t j = 0; j < a.size(); ++j) { if (j) r += ","; r += a[j].dump(); } return r + "]"; }
		case Map: { std::string r = "{"; for (size_t j = 0; j < m.size(); ++j) { if (j) r += ","; r += m[j].first.dump() + ":" + m[j].second.dump(); } return r + "}"; }
		}
		return "?";
	}
	bool operator==(const Val& o) const { return dump() == o.dump(); }
};

} // namespace ref
