#!/usr/bin/env python3
"""run_check.py <Cxx> --tier quick|thorough   build + run + known findings + evidence + exit status
   run_check.py --setup                        pre-build every harness for the current /repo tree
   run_check.py <Cxx> --replay <file>          re-run one recorded case

Exit 0: property held on everything explored (KNOWN-FINDING lines allowed).
Exit 1: at least one `VIOLATION property=<id> replay=<path>` line.
Exit 2: infrastructure failure (build error, harness malfunction).
"""
import sys, os, json, hashlib, subprocess, time, fnmatch, glob, shutil, re
from concurrent.futures import ThreadPoolExecutor

VERIF = os.path.dirname(os.path.abspath(__file__))
REPO = os.environ.get('VERIF_REPO', '/repo')
BUILD = os.path.join(VERIF, 'build')
sys.path.insert(0, VERIF)
from checks import CHECKS, FLAVOURS  # noqa: E402

LIB_SRCS = ['src/common/binary_stream_reader.cpp', 'src/csv/csv_archive.cpp', 'src/csv/csv_readers.cpp',
            'src/csv/csv_writers.cpp', 'src/msgpack/msgpack_archive.cpp', 'src/msgpack/msgpack_readers.cpp',
            'src/msgpack/msgpack_writers.cpp']
GUARD = ['-DBITSERIALIZER_VERIF']


def sh(cmd, **kw):
    return subprocess.run(cmd, stdout=subprocess.PIPE, stderr=subprocess.STDOUT, text=True, **kw)


def tree_hash():
    h = hashlib.sha256()
    for root in ('include', 'src'):
        for dp, dn, fn in sorted(os.walk(os.path.join(REPO, root))):
            dn.sort()
            if 'testing_tools' in dp:
                continue
            for f in sorted(fn):
                p = os.path.join(dp, f)
                h.update(p.encode()); h.update(open(p, 'rb').read())
    return h.hexdigest()[:16]


def files_hash(paths):
    h = hashlib.sha256()
    for p in paths:
        h.update(p.encode()); h.update(open(p, 'rb').read())
    return h.hexdigest()[:12]


def verif_common_files():
    out = []
    for d in ('engine', 'ref', 'models', 'harness', 'sched'):
        out += sorted(glob.glob(os.path.join(VERIF, d, '*.hpp'))) + sorted(glob.glob(os.path.join(VERIF, d, '*.h')))
    return out


def compile_one(args):
    cxx, flags, src, obj = args
    if os.path.exists(obj):
        return (obj, 0, '')
    tmp = obj + '.tmp%d' % os.getpid()
    r = sh([cxx] + flags + ['-c', src, '-o', tmp])
    if r.returncode == 0:
        os.replace(tmp, obj)
    return (obj, r.returncode, r.stdout)


def build_variant(prop, variant, th, pool):
    """returns path of the binary for (property, variant) built from the current /repo tree"""
    chk = CHECKS[prop]
    fl = FLAVOURS[variant.get('flavour', 'san')]
    cxx = fl['cxx']
    defs = GUARD + variant.get('defs', [])
    base = fl['flags'] + defs + ['-std=c++17', '-I' + os.path.join(REPO, 'include'), '-I' + os.path.join(REPO, 'src'), '-I' + VERIF]
    libkey = hashlib.sha256((th + ' '.join([cxx] + fl['flags'] + defs)).encode()).hexdigest()[:12]
    libdir = os.path.join(BUILD, 'lib-' + libkey)
    os.makedirs(libdir, exist_ok=True)
    jobs = []
    libobjs = []
    for s in LIB_SRCS:
        obj = os.path.join(libdir, s.replace('/', '_') + '.o')
        libobjs.append(obj)
        jobs.append((cxx, base, os.path.join(REPO, s), obj))
    srcs = [os.path.join(VERIF, s) for s in variant.get('src', chk['src'])]
    hkey = hashlib.sha256((libkey + files_hash(srcs + verif_common_files()) + ' '.join(chk.get('extra_flags', []))).encode()).hexdigest()[:12]
    hdir = os.path.join(BUILD, 'h-%s-%s-%s' % (prop, variant['name'], hkey))
    binp = os.path.join(hdir, 'harness')
    if os.path.exists(binp):
        os.utime(hdir)
        os.utime(libdir)
        return binp
    os.makedirs(hdir, exist_ok=True)
    hobjs = []
    for s in srcs:
        obj = os.path.join(hdir, os.path.basename(s) + '.o')
        hobjs.append(obj)
        jobs.append((cxx, base + chk.get('extra_flags', []) + variant.get('harness_flags', []) + chk.get('src_flags', {}).get(os.path.relpath(s, VERIF), []), s, obj))
    for obj, rc, out in pool.map(compile_one, jobs):
        if rc != 0:
            print('BUILD FAILED: %s\n%s' % (obj, out[-6000:]))
            raise SystemExit(2)
    r = sh([cxx] + fl.get('ldflags', fl['flags']) + hobjs + libobjs + ['-o', binp + '.tmp'] + fl.get('libs', []) + chk.get('libs', []))
    if r.returncode != 0:
        print('LINK FAILED:\n' + r.stdout[-6000:])
        raise SystemExit(2)
    os.replace(binp + '.tmp', binp)
    return binp


def gc_build(keep_s=6 * 3600):
    """remove build directories not used for a while (bounded disk use)"""
    now = time.time()
    ents = [os.path.join(BUILD, d) for d in os.listdir(BUILD)] if os.path.isdir(BUILD) else []
    for p in ents:
        try:
            if os.path.isdir(p) and now - os.path.getmtime(p) > keep_s:
                shutil.rmtree(p, ignore_errors=True)
        except OSError:
            pass


def load_known():
    findings, fixed = [], []
    paths = [os.path.join(VERIF, 'KNOWN_FINDINGS.txt')] + sorted(glob.glob(os.path.join(VERIF, 'KNOWN_FINDINGS.d', '*.txt')))
    for p in [x for x in paths if os.path.exists(x)]:
        for line in open(p):
            line = line.strip()
            if not line or line.startswith('#'):
                continue
            m = re.match(r'finding:\s+property=(\S+)\s+sig=(\S+)\s+::\s+(.*)', line)
            if m:
                findings.append(dict(prop=m.group(1), sig=m.group(2), what=m.group(3), hits=0))
                continue
            m = re.match(r'fixed:\s+property=(\S+)\s+(\S+)\s+(.*)', line)
            if m:
                fixed.append(dict(prop=m.group(1), commit=m.group(2), what=m.group(3)))
    return findings, fixed


def run_variant(prop, variant, binp, tier, seed, deadline):
    out = os.path.join(BUILD, 'res-%s-%s-%d.json' % (prop, variant['name'], os.getpid()))
    env = dict(os.environ)
    env['ASAN_OPTIONS'] = 'detect_leaks=0:exitcode=87:allocator_may_return_null=1:malloc_context_size=8:max_allocation_size_mb=2048:detect_stack_use_after_return=0:fast_unwind_on_fatal=1'
    env['UBSAN_OPTIONS'] = 'halt_on_error=1:exitcode=88:print_stacktrace=1'
    auxdir = os.path.join(BUILD, 'aux-%s-%s-%d' % (prop, variant['name'], os.getpid()))
    shutil.rmtree(auxdir, ignore_errors=True); os.makedirs(auxdir)
    env['BSX_AUX_DIR'] = auxdir   # harnesses that feed an external (Python) oracle write their case files here
    cmd = [binp, '--tier', tier, '--out', out, '--seed', str(seed), '--jobs', str(os.cpu_count() or 16), '--deadline', str(deadline)]
    r = subprocess.run(cmd, stdout=subprocess.PIPE, stderr=subprocess.STDOUT, text=True, env=env)
    if r.returncode != 0 or not os.path.exists(out):
        print('HARNESS FAILED (%s/%s) rc=%d\n%s' % (prop, variant['name'], r.returncode, r.stdout[-4000:]))
        raise SystemExit(2)
    res = json.load(open(out))
    os.remove(out)
    res['variant'] = variant['name']
    res['aux_dir'] = auxdir
    return res


def main():
    args = sys.argv[1:]
    if not args:
        print(__doc__); return 2
    os.makedirs(BUILD, exist_ok=True)
    th = tree_hash()
    pool = ThreadPoolExecutor(max_workers=os.cpu_count() or 16)
    if args[0] == '--setup':
        gc_build()
        ok = True
        # reference-model self-test: the reference MessagePack codec against an independent implementation
        r = sh([sys.executable, os.path.join(VERIF, 'tools', 'ref_selftest.py')])
        print(r.stdout.strip().splitlines()[-1] if r.stdout.strip() else 'ref_selftest: no output')
        if r.returncode != 0:
            print(r.stdout[-3000:]); ok = False
        ready = [l.strip() for l in open(os.path.join(VERIF, 'checks.d', 'READY.txt')) if l.strip() and not l.startswith('#')]
        props = args[1:] or ready
        t0 = time.time()
        for prop in props:
            for v in CHECKS[prop]['variants']:
                try:
                    build_variant(prop, v, th, pool)
                except SystemExit:
                    ok = False
            print('built %s (%.0fs)' % (prop, time.time() - t0), flush=True)
        return 0 if ok else 2
    prop = args[0]
    tier = os.environ.get('VERIF_TIER', 'quick')
    replay = None
    i = 1
    while i < len(args):
        if args[i] == '--tier': tier = args[i + 1]; i += 2
        elif args[i] == '--replay': replay = args[i + 1]; i += 2
        else: i += 1
    seed = int(os.environ.get('VERIF_SEED', '0') or 0)
    chk = CHECKS[prop]
    t0 = time.time()
    if replay:
        rp = json.load(open(replay))
        v = [x for x in chk['variants'] if x['name'] == rp.get('variant', chk['variants'][0]['name'])][0]
        binp = build_variant(prop, v, th, pool)
        env = dict(os.environ)
        env['ASAN_OPTIONS'] = 'detect_leaks=0:exitcode=87:allocator_may_return_null=1'
        env['UBSAN_OPTIONS'] = 'halt_on_error=1:exitcode=88:print_stacktrace=1'
        return subprocess.run([binp, '--replay', replay], env=env).returncode
    gc_build()
    deadline = chk.get('deadline', {}).get(tier, 240 if tier == 'quick' else 1500)
    variants = [v for v in chk['variants'] if tier in v.get('tiers', ('quick', 'thorough'))]
    bins = [(v, build_variant(prop, v, th, pool)) for v in variants]
    t_build = time.time() - t0
    results = []
    for v, b in bins:
        results.append(run_variant(prop, v, b, tier, seed, deadline))
    if 'post' in chk:   # external oracle pipeline: may append to res['violations'] / res['samples'] and adjust counters
        chk['post'](results, tier)
    for r in results:
        shutil.rmtree(r.get('aux_dir', ''), ignore_errors=True)

    findings, fixed = load_known()
    findings = [f for f in findings if f['prop'] == prop]
    viols = []   # (sig, count, example dict, variant)
    for res in results:
        for v in res['violations']:
            ex = v['examples'][0] if v['examples'] else {}
            viols.append(dict(sig=v['sig'], count=v['count'], ex=ex, variant=res['variant'], tier=tier))
        for c in res['crashes']:
            sig = (c.get('sig') or (prop + '/unknown')) + '/out=' + c['kind']
            viols.append(dict(sig=sig, count=1, ex=dict(choices=c['choices'], budget=c['budget'], desc=c['desc'], detail=c['log'][-1200:]), variant=res['variant'], tier=tier))
    # group by signature
    bysig = {}
    for v in viols:
        e = bysig.setdefault(v['sig'], dict(count=0, first=v))
        e['count'] += v['count']
    unlisted, known_hits = [], {}
    for sig, e in sorted(bysig.items()):
        hit = None
        for f in findings:
            if fnmatch.fnmatchcase(sig, f['sig']):
                hit = f; break
        if hit:
            hit['hits'] += e['count']
            known_hits.setdefault(hit['sig'], []).append(sig)
        else:
            unlisted.append((sig, e))
    rdir = os.path.join(VERIF, 'replays', prop) if not os.environ.get('VERIF_NO_EVIDENCE') else os.path.join(BUILD, 'replays-scratch', prop)
    shutil.rmtree(rdir, ignore_errors=True)
    lines = []
    for f in findings:
        if f['hits']:
            lines.append('KNOWN-FINDING: property=%s %s [sig=%s cases=%d]' % (prop, f['what'], f['sig'], f['hits']))
    stale = [f['sig'] for f in findings if not f['hits']]
    for sig, e in unlisted:
        os.makedirs(rdir, exist_ok=True)
        rp = os.path.join(rdir, hashlib.sha1(sig.encode()).hexdigest()[:12] + '.json')
        ex = e['first']['ex']
        json.dump(dict(property=prop, signature=sig, tier=e['first']['tier'], variant=e['first']['variant'], budget=ex.get('budget', 0), choices=ex.get('choices', []),
                       desc=ex.get('desc', ''), detail=ex.get('detail', ''), cases_with_this_signature=e['count']), open(rp, 'w'), indent=1)
        lines.append('VIOLATION property=%s replay=%s sig=%s :: %s' % (prop, rp, sig, (ex.get('detail', '') or '')[:300].replace('\n', ' ')))
    # evidence
    ev_level = chk['level']
    tot_exec = sum(r['executions'] for r in results)
    cov = dict(
        evaluations=tot_exec,
        distinct_nontrivial=max([r['distinct_nontrivial'] for r in results] + [0]),
        rule=chk['rule'],
        samples=[s for r in results for s in r['samples']][:10] or ['(none recorded)'],
        exhaustive=all((not r['deadline_hit']) and not r.get('restart_cap_hit') for r in results) and not any('out=hang' in s for s in bysig),
        distinct_outcomes=max([r['distinct_outcomes'] for r in results] + [0]),
        outcome_classes=sorted(set(o for r in results for o in r['outcomes']))[:60],
        choice_points=sum(r['choice_points'] for r in results),
        max_depth=max([r['max_depth'] for r in results] + [0]),
        deviation_bound_completed=min([r['completed_dev_bound'] for r in results] + [99]),
        deviation_bound_requested=max([r['max_dev'] for r in results] + [0]),
        deadline_hit=any(r['deadline_hit'] for r in results),
        per_variant=[dict(variant=r['variant'], executions=r['executions'], states=r['states'], aux=r.get('aux', 0), transitions=r['transitions'], distinct_outcomes=r['distinct_outcomes'],
                          distinct_nontrivial=r['distinct_nontrivial'], wall_s=r['wall_s'], worker_restarts=r['restarts'], spurious_stalls_retried=r.get('spurious_stalls', 0), deadline_hit=r['deadline_hit'], restart_cap_hit=bool(r.get('restart_cap_hit'))) for r in results],
        known_findings_matched={k: len(v) for k, v in known_hits.items()},
        stale_known_finding_patterns=stale,
        violation_signatures=len(bysig),
        unlisted_violation_signatures=[s for s, _ in unlisted][:40],
        build_s=round(t_build, 1),
        repo_tree_hash=th,
    )
    if ev_level == 'model_checking':
        cov['states'] = sum(r['states'] for r in results)
        cov['transitions'] = sum(r['transitions'] for r in results)
        cov['traces_validated_against_impl'] = cov['transitions']
        cov['explanation'] = 'every transition is an execution of the real implementation (no separate model); states are canonical hashes of implementation state'
    ev = dict(property_id=prop, tier=tier, seed=seed, level=ev_level, coverage=cov, assumptions=chk.get('assumptions', []),
              wall_s=round(time.time() - t0, 2), violations=len(unlisted))
    # VERIF_NO_EVIDENCE: runs against a scratch tree (seeded changes) must not overwrite the evidence of /repo
    if not os.environ.get('VERIF_NO_EVIDENCE'):
        os.makedirs(os.path.join(VERIF, 'evidence'), exist_ok=True)
        json.dump(ev, open(os.path.join(VERIF, 'evidence', prop + '.json'), 'w'), indent=1)
        if tier == 'thorough':   # evidence/<id>.json is rewritten by every run; the last thorough run is kept as well
            os.makedirs(os.path.join(VERIF, 'evidence_thorough'), exist_ok=True)
            json.dump(ev, open(os.path.join(VERIF, 'evidence_thorough', prop + '.json'), 'w'), indent=1)
    for l in lines:
        print(l)
    print('%s %s: executions=%d outcomes=%d nontrivial=%d signatures=%d unlisted=%d known=%d build=%.0fs total=%.0fs exhaustive=%s' % (
        prop, tier, tot_exec, cov['distinct_outcomes'], cov['distinct_nontrivial'], len(bysig), len(unlisted), sum(f['hits'] > 0 for f in findings), t_build, time.time() - t0, cov['exhaustive']))
    # sanity: a harness that ran nothing is broken
    if tot_exec == 0:
        print('HARNESS RAN NOTHING'); return 2
    return 1 if unlisted else 0


if __name__ == '__main__':
    sys.exit(main())
