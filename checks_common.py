# checks_common.py — build flavours and variants shared by the check fragments in checks.d/
SAN = ['-O1', '-g0', '-fsanitize=address,undefined', '-fsanitize=float-cast-overflow', '-fno-sanitize=alignment', '-fno-sanitize-recover=undefined,float-cast-overflow',
       '-fno-omit-frame-pointer', '-D_GLIBCXX_ASSERTIONS', '-w']
FLAVOURS = {
    'san': dict(cxx='g++', flags=SAN, libs=['-lpugixml']),
    'fast': dict(cxx='g++', flags=['-O2', '-g0', '-w'], libs=['-lpugixml']),
}
P = dict(name='p256', flavour='san', defs=[])                       # production chunk sizes
S16 = dict(name='c16', flavour='san', defs=['-DBITSERIALIZER_VERIF_CHUNK_SIZE=16', '-DBITSERIALIZER_VERIF_ENCODED_CHUNK_SIZE=32'])

