# checks_common.py — build flavours and variants shared by the check fragments in checks.d/
SAN = ['-O1', '-g0', '-fsanitize=address,undefined', '-fsanitize=float-cast-overflow', '-fno-sanitize=alignment', '-fno-sanitize-recover=undefined,float-cast-overflow',
       '-fno-omit-frame-pointer', '-D_GLIBCXX_ASSERTIONS', '-w']
FLAVOURS = {
    'san': dict(cxx='g++', flags=SAN, libs=['-lpugixml']),
    'fast': dict(cxx='g++', flags=['-O2', '-g0', '-w'], libs=['-lpugixml']),
    # objects instrumented by the compiler for ThreadSanitizer but linked against /verif/sched/tsan_rt.cpp instead of libtsan
    'tsanabi': dict(cxx='g++', flags=['-O1', '-g0', '-fsanitize=thread', '-w'], ldflags=['-O1', '-rdynamic', '-Wl,--wrap=__cxa_guard_acquire,--wrap=__cxa_guard_release,--wrap=__cxa_guard_abort,--wrap=malloc,--wrap=free,--wrap=calloc,--wrap=realloc'], libs=['-lpugixml', '-lpthread']),
    # the real ThreadSanitizer, free-running (backstop for accesses inside uninstrumented libraries)
    'tsan': dict(cxx='g++', flags=['-O1', '-g0', '-fsanitize=thread', '-w'], libs=['-lpugixml', '-lpthread']),
}
P = dict(name='p256', flavour='san', defs=[])                       # production chunk sizes
S16 = dict(name='c16', flavour='san', defs=['-DBITSERIALIZER_VERIF_CHUNK_SIZE=16', '-DBITSERIALIZER_VERIF_ENCODED_CHUNK_SIZE=32'])

