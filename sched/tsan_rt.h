// tsan_rt.h — interface of the own ThreadSanitizer-ABI runtime / cooperative scheduler (sched/tsan_rt.cpp)
#pragma once
#include <cstddef>
#include <cstdint>

namespace rt {

// decision callback: n candidate threads (index 0 = the running thread if currentEnabled, then ascending
// ids); returns the index of the thread to run next. Switching away from a runnable thread is a preemption.
using Decider = int (*)(void* ctx, int nCandidates, bool currentEnabled);

struct RaceReport { uintptr_t addr; int tid, otherTid; bool write, otherWrite; char where[600]; };

void reset(bool dense, bool collectHot);                 // before every execution
void setHot(const uintptr_t* cells, size_t n);           // 8-byte cells that are scheduling points
int spawn(void (*fn)(void*), void* arg);                 // create a monitored thread (starts when run() schedules it)
void run(Decider d, void* ctx);                          // run all spawned threads to completion under the scheduler
size_t races(RaceReport* out, size_t cap);               // happens-before races found in the last run
size_t newHot(uintptr_t* out, size_t cap);               // cells touched by >= 2 threads with a write (collect mode)
void stats(uint64_t& schedulingPoints, uint64_t& accesses);

} // namespace rt
