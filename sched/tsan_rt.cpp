// tsan_rt.cpp — own implementation of the ThreadSanitizer compiler ABI (__tsan_*), used INSTEAD of
// libtsan: library and harness objects are compiled with -fsanitize=thread, this file without.
//   * every instrumented memory access / function entry arrives here as a callback;
//   * a cooperative scheduler serialises the monitored threads (real pthreads, futex hand-off) and asks
//     the harness at every scheduling point which thread runs next (=> exhaustive schedule exploration
//     with a preemption bound is done by the explorer on top);
//   * a vector-clock happens-before detector over shareable addresses reports data races. Its HB edges
//     come ONLY from modelled synchronisation (thread start/join, __cxa_guard_acquire/release,
//     __tsan_atomic* acquire/release) - never from scheduler hand-offs, so serialisation hides nothing.
#include "sched/tsan_rt.h"
#include <algorithm>
#include <atomic>
#include <cstdint>
#include <cstdio>
#include <cstdlib>
#include <cstring>
#include <map>
#include <new>
#include <string>
#include <unordered_map>
#include <unordered_set>
#include <vector>
#include <linux/futex.h>
#include <pthread.h>
#include <sys/mman.h>
#include <sys/syscall.h>
#include <unistd.h>
#include <execinfo.h>
#include <csignal>

namespace rt {

constexpr int MAXT = 4;
struct VC { uint32_t c[MAXT] = {0, 0, 0, 0}; void join(const VC& o) { for (int i = 0; i < MAXT; ++i) c[i] = std::max(c[i], o.c[i]); } };

struct Thread {
	pthread_t th{}; int id = -1; void (*fn)(void*) = nullptr; void* arg = nullptr;
	VC vc; bool finished = false; const void* blockedOn = nullptr;
	uintptr_t stackLo = 0, stackHi = 0; void* stackMem = nullptr; size_t stackSize = 0; int go = 0;   // futex word
};
static Thread gT[MAXT]; static int gN = 0; static int gCur = -1; static bool gArmed = false; static int gMainWake = 0;
static thread_local int tTid = -1; static thread_local int tInRt = 0;
static Decider gDecide = nullptr; static void* gDecideCtx = nullptr;
static bool gDense = false; static bool gCollect = false;
static uint64_t gSteps = 0, gPoints = 0, gAccesses = 0; static const uint64_t kHorizon = 5000000;

struct Cell { uint32_t wclk = 0; int8_t wtid = -1; uint32_t rclk[MAXT] = {0, 0, 0, 0}; uint8_t touched = 0; uint8_t written = 0; };
static std::unordered_map<uintptr_t, Cell>* gShadow; static std::unordered_set<uintptr_t>* gHot; static std::vector<uintptr_t>* gNewHot;
static std::unordered_map<uintptr_t, VC>* gSyncClock;            // release clocks of guards / atomics
static std::unordered_map<uintptr_t, int>* gGuardOwner;          // guard -> thread initialising
struct Block { size_t size; int owner; };
static std::map<uintptr_t, Block>* gHeap;                        // live heap blocks -> owner thread (-1 = not a monitored thread)
static std::vector<RaceReport>* gRaces;
static pthread_mutex_t gHeapMx = PTHREAD_MUTEX_INITIALIZER;

struct InRt { InRt() { ++tInRt; } ~InRt() { --tInRt; } };

static void futexWait(int* w) { while (__atomic_load_n(w, __ATOMIC_ACQUIRE) == 0) syscall(SYS_futex, w, FUTEX_WAIT, 0, nullptr, nullptr, 0); __atomic_store_n(w, 0, __ATOMIC_RELEASE); }
static void futexWake(int* w) { __atomic_store_n(w, 1, __ATOMIC_RELEASE); syscall(SYS_futex, w, FUTEX_WAKE, 1, nullptr, nullptr, 0); }

static void ensure() {
	if (!gShadow) { gShadow = new std::unordered_map<uintptr_t, Cell>(); gHot = new std::unordered_set<uintptr_t>(); gNewHot = new std::vector<uintptr_t>(); gSyncClock = new std::unordered_map<uintptr_t, VC>();
		gGuardOwner = new std::unordered_map<uintptr_t, int>(); gHeap = new std::map<uintptr_t, Block>(); gRaces = new std::vector<RaceReport>(); }
}

// ---- scheduling ------------------------------------------------------------------------------------------
static bool enabled(int t) { return !gT[t].finished && gT[t].blockedOn == nullptr; }
static void switchTo(int next, bool currentContinues) {
	int me = gCur; gCur = next;
	if (next == me) return;
	futexWake(&gT[next].go);
	if (currentContinues) futexWait(&gT[me].go);
}
// scheduling point of the running thread `me`
static void schedPoint(const char* why) {
	(void)why;
	if (!gArmed || !gDecide) return;
	if (++gSteps > kHorizon) { fprintf(stderr, "RT-HORIZON exceeded (livelock?)\n"); fflush(stderr); _exit(90); }
	int me = gCur; int order[MAXT], n = 0;
	if (enabled(me)) order[n++] = me;
	for (int t = 0; t < gN; ++t) if (t != me && enabled(t)) order[n++] = t;
	if (n == 0) { fprintf(stderr, "RT-DEADLOCK: no enabled thread\n"); fflush(stderr); _exit(91); }
	if (n == 1 && order[0] == me) return;
	++gPoints;
	++tInRt; int k = gDecide(gDecideCtx, n, enabled(me)); --tInRt;
	if (k < 0 || k >= n) k = 0;
	switchTo(order[k], true);
}
static void blockCurrentOn(const void* g) {
	int me = gCur; gT[me].blockedOn = g;
	int order[MAXT], n = 0; for (int t = 0; t < gN; ++t) if (enabled(t)) order[n++] = t;
	if (n == 0) { fprintf(stderr, "RT-DEADLOCK: all threads blocked\n"); fflush(stderr); _exit(91); }
	++tInRt; int k = n > 1 && gDecide ? gDecide(gDecideCtx, n, false) : 0; --tInRt; if (k < 0 || k >= n) k = 0;
	switchTo(order[k], true);
}

// ---- access classification + race detection --------------------------------------------------------------
static bool privateAddr(uintptr_t a) {
	const Thread& t = gT[tTid];
	if (a >= t.stackLo && a < t.stackHi) return true;
	pthread_mutex_lock(&gHeapMx);
	bool priv = false; auto it = gHeap->upper_bound(a);
	if (it != gHeap->begin()) { --it; if (a < it->first + it->second.size) priv = it->second.owner == tTid; }
	pthread_mutex_unlock(&gHeapMx);
	return priv;
}
static void report(uintptr_t a, bool write, int other, bool otherWrite) {
	if (gRaces->size() >= 64) return;
	RaceReport r; r.addr = a; r.tid = tTid; r.otherTid = other; r.write = write; r.otherWrite = otherWrite;
	void* bt[12]; int n = backtrace(bt, 12); char** sy = backtrace_symbols(bt, n); r.where[0] = 0;
	for (int i = 2; i < n && sy; ++i) { size_t used = strlen(r.where); if (used + 8 >= sizeof(r.where)) break; size_t room = sizeof(r.where) - used - 2; strncat(r.where, sy[i], room); used = strlen(r.where); if (used + 2 < sizeof(r.where)) strcat(r.where, "|"); }
	free(sy); gRaces->push_back(r);
}
static void access(uintptr_t a, size_t size, bool write) {
	if (!gArmed || tInRt || tTid < 0) return;
	InRt g; ++gAccesses;
	if (privateAddr(a)) return;
	const uintptr_t first = a >> 3, last = (a + (size ? size - 1 : 0)) >> 3;
	// scheduling point BEFORE the access when the location is hot
	bool hot = false; for (uintptr_t c = first; c <= last && !hot; ++c) hot = gHot->count(c) != 0;
	if (hot) { --tInRt; schedPoint("access"); ++tInRt; }
	Thread& me = gT[tTid];
	for (uintptr_t c = first; c <= last; ++c) {
		Cell& cell = (*gShadow)[c];
		if (cell.wtid >= 0 && cell.wtid != tTid && cell.wclk > me.vc.c[cell.wtid]) report(a, write, cell.wtid, true);
		if (write) { for (int r = 0; r < MAXT; ++r) if (r != tTid && cell.rclk[r] > me.vc.c[r]) report(a, true, r, false); cell.wtid = static_cast<int8_t>(tTid); cell.wclk = me.vc.c[tTid]; cell.written = 1; }
		else cell.rclk[tTid] = me.vc.c[tTid];
		uint8_t bit = static_cast<uint8_t>(1u << tTid);
		if (!(cell.touched & bit)) { cell.touched |= bit; }
		if (gCollect && cell.written && (cell.touched & (cell.touched - 1)) && !gHot->count(c)) { gNewHot->push_back(c); }
	}
}
static void acquireOn(uintptr_t a) { auto it = gSyncClock->find(a); if (it != gSyncClock->end()) gT[tTid].vc.join(it->second); }
static void releaseOn(uintptr_t a) { Thread& me = gT[tTid]; (*gSyncClock)[a].join(me.vc); me.vc.c[tTid]++; }

// ---- public API --------------------------------------------------------------------------------------------
static void* trampoline(void* p) {
	Thread* t = static_cast<Thread*>(p);
	futexWait(&t->go);
	tTid = t->id;
	t->fn(t->arg);
	// finish: hand over to another enabled thread or wake main
	{ InRt g; t->finished = true;
		// a thread blocked on a guard held by nobody can not exist here (guards are released before exit)
		int order[MAXT], n = 0; for (int i = 0; i < gN; ++i) if (enabled(i)) order[n++] = i;
		if (n == 0) { bool all = true; for (int i = 0; i < gN; ++i) all = all && gT[i].finished; if (!all) { fprintf(stderr, "RT-DEADLOCK at thread exit\n"); fflush(stderr); _exit(91); } tTid = -1; futexWake(&gMainWake); return nullptr; }
		int k = n > 1 && gDecide ? gDecide(gDecideCtx, n, false) : 0; if (k < 0 || k >= n) k = 0;
		int next = order[k]; tTid = -1; gCur = next; futexWake(&gT[next].go);
	}
	return nullptr;
}
static void segvHandler(int sig) { void* bt[40]; int n = backtrace(bt, 40); const char m[] = "RT-SIGNAL backtrace:\n"; (void)!write(2, m, sizeof m - 1); backtrace_symbols_fd(bt, n, 2); signal(sig, SIG_DFL); raise(sig); }
void reset(bool dense, bool collectHot) {
	InRt g; ensure();
	static bool handler = [] { static char alt[1 << 16]; stack_t ss{}; ss.ss_sp = alt; ss.ss_size = sizeof alt; sigaltstack(&ss, nullptr);
		struct sigaction sa{}; sa.sa_handler = segvHandler; sa.sa_flags = SA_ONSTACK; sigaction(SIGSEGV, &sa, nullptr); sigaction(SIGBUS, &sa, nullptr); return true; }(); (void)handler;
	gShadow->clear(); gSyncClock->clear(); gGuardOwner->clear(); gRaces->clear(); gNewHot->clear();
	gN = 0; gCur = -1; gArmed = false; gDense = dense; gCollect = collectHot; gSteps = gPoints = gAccesses = 0;
	for (auto& t : gT) t = Thread();
}
void setHot(const uintptr_t* cells, size_t n) { InRt g; ensure(); gHot->clear(); for (size_t i = 0; i < n; ++i) gHot->insert(cells[i]); }
int spawn(void (*fn)(void*), void* arg) {
	InRt g; int id = gN++; Thread& t = gT[id]; t.id = id; t.fn = fn; t.arg = arg;
	t.vc.c[id] = 1;
	// own stack mapping: its bounds (which also hold the thread's TLS block) classify accesses as thread-private
	const size_t sz = 8u << 20;
	void* mem = mmap(nullptr, sz, PROT_READ | PROT_WRITE, MAP_PRIVATE | MAP_ANONYMOUS | MAP_STACK, -1, 0);
	t.stackLo = reinterpret_cast<uintptr_t>(mem); t.stackHi = t.stackLo + sz; t.stackMem = mem; t.stackSize = sz;
	pthread_attr_t at; pthread_attr_init(&at); pthread_attr_setstack(&at, mem, sz);
	pthread_create(&t.th, &at, trampoline, &t); pthread_attr_destroy(&at);
	return id;
}
void run(Decider d, void* ctx) {
	{ InRt g; gDecide = d; gDecideCtx = ctx; gArmed = true;
		int order[MAXT], n = 0; for (int i = 0; i < gN; ++i) order[n++] = i;
		int k = n > 1 && d ? d(ctx, n, false) : 0; if (k < 0 || k >= n) k = 0;
		gCur = order[k]; futexWake(&gT[gCur].go); }
	futexWait(&gMainWake);
	for (int i = 0; i < gN; ++i) { pthread_join(gT[i].th, nullptr); if (gT[i].stackMem) munmap(gT[i].stackMem, gT[i].stackSize); gT[i].stackMem = nullptr; }
	InRt g; gArmed = false; gDecide = nullptr;
}
size_t races(RaceReport* out, size_t cap) { size_t n = std::min(cap, gRaces->size()); for (size_t i = 0; i < n; ++i) out[i] = (*gRaces)[i]; return gRaces->size(); }
size_t newHot(uintptr_t* out, size_t cap) { std::sort(gNewHot->begin(), gNewHot->end()); gNewHot->erase(std::unique(gNewHot->begin(), gNewHot->end()), gNewHot->end()); size_t n = std::min(cap, gNewHot->size()); for (size_t i = 0; i < n; ++i) out[i] = (*gNewHot)[i]; return gNewHot->size(); }
void stats(uint64_t& points, uint64_t& accesses) { points = gPoints; accesses = gAccesses; }

} // namespace rt

using namespace rt;

// ---- heap ownership (replacement operator new/delete; this TU is not instrumented) ---------------------------
static void* rtAlloc(size_t n) {
	void* p = malloc(n ? n : 1); if (!p) throw std::bad_alloc();
	if (gHeap && !tInRt) { ++tInRt; pthread_mutex_lock(&gHeapMx); (*gHeap)[reinterpret_cast<uintptr_t>(p)] = Block{n ? n : 1, gArmed ? tTid : -1}; pthread_mutex_unlock(&gHeapMx); --tInRt; }
	return p;
}
static void rtFree(void* p) noexcept {
	if (!p) return;
	if (gHeap && !tInRt) { ++tInRt; pthread_mutex_lock(&gHeapMx); gHeap->erase(reinterpret_cast<uintptr_t>(p)); pthread_mutex_unlock(&gHeapMx); --tInRt; }
	free(p);
}
void* operator new(size_t n) { return rtAlloc(n); }
void* operator new[](size_t n) { return rtAlloc(n); }
void operator delete(void* p) noexcept { rtFree(p); }
void operator delete[](void* p) noexcept { rtFree(p); }
void operator delete(void* p, size_t) noexcept { rtFree(p); }
void operator delete[](void* p, size_t) noexcept { rtFree(p); }

// ---- malloc family called from instrumented objects (RapidJSON's CrtAllocator etc.; linked with --wrap) ----------
extern "C" void* __real_malloc(size_t); extern "C" void __real_free(void*); extern "C" void* __real_calloc(size_t, size_t); extern "C" void* __real_realloc(void*, size_t);
static void track(void* p, size_t n) { if (p && gHeap && !tInRt) { ++tInRt; pthread_mutex_lock(&gHeapMx); (*gHeap)[reinterpret_cast<uintptr_t>(p)] = Block{n ? n : 1, gArmed ? tTid : -1}; pthread_mutex_unlock(&gHeapMx); --tInRt; } }
static void untrack(void* p) { if (p && gHeap && !tInRt) { ++tInRt; pthread_mutex_lock(&gHeapMx); gHeap->erase(reinterpret_cast<uintptr_t>(p)); pthread_mutex_unlock(&gHeapMx); --tInRt; } }
extern "C" void* __wrap_malloc(size_t n) { void* p = __real_malloc(n); track(p, n); return p; }
extern "C" void __wrap_free(void* p) { untrack(p); __real_free(p); }
extern "C" void* __wrap_calloc(size_t a, size_t b) { void* p = __real_calloc(a, b); track(p, a * b); return p; }
extern "C" void* __wrap_realloc(void* o, size_t n) { untrack(o); void* p = __real_realloc(o, n); track(p, n); return p; }

// ---- function-local static guards (linked with -Wl,--wrap=__cxa_guard_acquire,...) ---------------------------
extern "C" int __real___cxa_guard_acquire(void*); extern "C" void __real___cxa_guard_release(void*); extern "C" void __real___cxa_guard_abort(void*);
extern "C" int __wrap___cxa_guard_acquire(void* g) {
	if (!gArmed || tTid < 0 || tInRt) return __real___cxa_guard_acquire(g);
	schedPoint("guard_acquire");
	{ InRt r;
		uintptr_t a = reinterpret_cast<uintptr_t>(g);
		for (;;) { auto it = gGuardOwner->find(a); if (it == gGuardOwner->end() || it->second == tTid) break; --tInRt; blockCurrentOn(g); ++tInRt; }
		acquireOn(a);
	}
	int res = __real___cxa_guard_acquire(g);
	if (res) { InRt r; (*gGuardOwner)[reinterpret_cast<uintptr_t>(g)] = tTid; }
	return res;
}
static void guardDone(void* g) {
	InRt r; uintptr_t a = reinterpret_cast<uintptr_t>(g); gGuardOwner->erase(a);
	for (int t = 0; t < gN; ++t) if (gT[t].blockedOn == g) gT[t].blockedOn = nullptr;
}
extern "C" void __wrap___cxa_guard_release(void* g) {
	if (!gArmed || tTid < 0 || tInRt) { __real___cxa_guard_release(g); return; }
	{ InRt r; releaseOn(reinterpret_cast<uintptr_t>(g)); }
	__real___cxa_guard_release(g); guardDone(g);
	schedPoint("guard_release");
}
extern "C" void __wrap___cxa_guard_abort(void* g) {
	if (!gArmed || tTid < 0 || tInRt) { __real___cxa_guard_abort(g); return; }
	__real___cxa_guard_abort(g); guardDone(g);
}

// ---- the ThreadSanitizer compiler ABI -------------------------------------------------------------------------
extern "C" {
void __tsan_init() {}
void __tsan_func_entry(void*) { if (gDense && gArmed && tTid >= 0 && !tInRt) schedPoint("func_entry"); }
void __tsan_func_exit() {}
#define RW(n) void __tsan_read##n(void* a) { access(reinterpret_cast<uintptr_t>(a), n, false); } void __tsan_write##n(void* a) { access(reinterpret_cast<uintptr_t>(a), n, true); } \
	void __tsan_unaligned_read##n(void* a) { access(reinterpret_cast<uintptr_t>(a), n, false); } void __tsan_unaligned_write##n(void* a) { access(reinterpret_cast<uintptr_t>(a), n, true); }
RW(1) RW(2) RW(4) RW(8) RW(16)
void __tsan_read_range(void* a, unsigned long n) { access(reinterpret_cast<uintptr_t>(a), n, false); }
void __tsan_write_range(void* a, unsigned long n) { access(reinterpret_cast<uintptr_t>(a), n, true); }
void __tsan_vptr_update(void** a, void*) { access(reinterpret_cast<uintptr_t>(a), 8, true); }
void __tsan_vptr_read(void** a) { access(reinterpret_cast<uintptr_t>(a), 8, false); }
void __tsan_ignore_thread_begin() {} void __tsan_ignore_thread_end() {}
// atomics: sequentially consistent execution (the scheduler serialises threads); acquire/release feed the HB relation
static void atomicPre(const volatile void* a, bool isAcquire, bool isRelease) {
	if (!gArmed || tTid < 0 || tInRt) return;
	uintptr_t x = reinterpret_cast<uintptr_t>(a);
	bool hot; { InRt r; hot = gHot->count(x >> 3) != 0; Cell& cell = (*gShadow)[x >> 3]; uint8_t bit = static_cast<uint8_t>(1u << tTid); cell.touched |= bit; if (isRelease) cell.written = 1;
		if (gCollect && cell.written && (cell.touched & (cell.touched - 1)) && !hot) gNewHot->push_back(x >> 3); }
	if (hot) schedPoint("atomic");
	InRt r; if (isRelease) releaseOn(x); if (isAcquire) acquireOn(x);
}
#define ATOMIC(bits, T) \
	T __tsan_atomic##bits##_load(const volatile T* a, int) { atomicPre(a, true, false); return __atomic_load_n(a, __ATOMIC_SEQ_CST); } \
	void __tsan_atomic##bits##_store(volatile T* a, T v, int) { atomicPre(a, false, true); __atomic_store_n(a, v, __ATOMIC_SEQ_CST); } \
	T __tsan_atomic##bits##_exchange(volatile T* a, T v, int) { atomicPre(a, true, true); return __atomic_exchange_n(a, v, __ATOMIC_SEQ_CST); } \
	T __tsan_atomic##bits##_fetch_add(volatile T* a, T v, int) { atomicPre(a, true, true); return __atomic_fetch_add(a, v, __ATOMIC_SEQ_CST); } \
	T __tsan_atomic##bits##_fetch_sub(volatile T* a, T v, int) { atomicPre(a, true, true); return __atomic_fetch_sub(a, v, __ATOMIC_SEQ_CST); } \
	T __tsan_atomic##bits##_fetch_and(volatile T* a, T v, int) { atomicPre(a, true, true); return __atomic_fetch_and(a, v, __ATOMIC_SEQ_CST); } \
	T __tsan_atomic##bits##_fetch_or(volatile T* a, T v, int) { atomicPre(a, true, true); return __atomic_fetch_or(a, v, __ATOMIC_SEQ_CST); } \
	T __tsan_atomic##bits##_fetch_xor(volatile T* a, T v, int) { atomicPre(a, true, true); return __atomic_fetch_xor(a, v, __ATOMIC_SEQ_CST); } \
	T __tsan_atomic##bits##_fetch_nand(volatile T* a, T v, int) { atomicPre(a, true, true); return __atomic_fetch_nand(a, v, __ATOMIC_SEQ_CST); } \
	int __tsan_atomic##bits##_compare_exchange_strong(volatile T* a, T* e, T v, int, int) { atomicPre(a, true, true); return __atomic_compare_exchange_n(a, e, v, false, __ATOMIC_SEQ_CST, __ATOMIC_SEQ_CST); } \
	int __tsan_atomic##bits##_compare_exchange_weak(volatile T* a, T* e, T v, int, int) { atomicPre(a, true, true); return __atomic_compare_exchange_n(a, e, v, false, __ATOMIC_SEQ_CST, __ATOMIC_SEQ_CST); } \
	T __tsan_atomic##bits##_compare_exchange_val(volatile T* a, T e, T v, int, int) { atomicPre(a, true, true); __atomic_compare_exchange_n(a, &e, v, false, __ATOMIC_SEQ_CST, __ATOMIC_SEQ_CST); return e; }
ATOMIC(8, unsigned char) ATOMIC(16, unsigned short) ATOMIC(32, unsigned int) ATOMIC(64, unsigned long)
void __tsan_atomic_thread_fence(int) {} void __tsan_atomic_signal_fence(int) {}
}
