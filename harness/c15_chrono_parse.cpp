// C15 — ISO-8601 parsing either yields the denoted value or throws; it never wraps.
// E1, grammar words + deviations. Scenarios (first three choices partition the work):
//   0 dt        date-time template [sign]Y-M-DTh:m:s[frac]Z[trail]: 4 base strings x per-field alphabets (at/below/above
//               range, delimiter and designator mutations, magnitudes up to 10^20), <= N fields deviating from the base
//               (N = 2 quick, 3 thorough); every string is parsed into 28 time_point types, time_t and tm
//   1 dtbound   per time_point target: reference text of min+k, max+k units (k = -3..3) + sub-unit fraction parts
//   2 dur       duration template [sign]P[nW][nD]T[nH][nM][n[.f]S][trail] per target (28 duration types) x 3 base
//               strings (small, decomposition of max, decomposition of min) x per-field alphabets (magnitudes at/around
//               what the target can hold, 2^31, 2^32, 2^63-1, 2^63, 2^64-1, 2^64, 10^20; Y/M designators; fractions in
//               other parts; separators), <= N deviating fields
//   3 frac      all fraction strings of 1..L digits (and boundary classes above L) as date-time and as duration
// Every string is parsed as char, char16_t and char32_t (same outcome required).
// Oracle: ref/ref_calendar.hpp classifies the text (Valid / Lenient / Malformed + named reason) and gives the denoted
// value in __int128 nanoseconds. Returned => exact value, or within one target unit when (and only because) a seconds
// fraction is not representable; does not fit => std::out_of_range; Malformed => std::invalid_argument (out_of_range
// tolerated when a number in the text is beyond 64 bits or what precedes the malformation already does not fit);
// Lenient => denoted value or throw.
#include "models/lib.hpp"
#include "ref/ref_calendar.hpp"
#include "bitserializer/convert.h"
#include <chrono>
#include <limits>
#include <set>

namespace C = std::chrono;
namespace BS = BitSerializer;
namespace cal = ref::cal;
using ref::i128;
using ref::i128str;
using cal::TextClass;

#ifdef VERIF_FAST
static const bool kFast = true;
#else
static const bool kFast = false;
#endif

// ---------------------------------------------------------------------------------------------------- targets
template <int P> struct Per;
template <> struct Per<0> { using type = std::nano; static constexpr const char* name = "ns"; static constexpr int fd = 9; };
template <> struct Per<1> { using type = std::micro; static constexpr const char* name = "us"; static constexpr int fd = 6; };
template <> struct Per<2> { using type = std::milli; static constexpr const char* name = "ms"; static constexpr int fd = 3; };
template <> struct Per<3> { using type = std::ratio<1>; static constexpr const char* name = "s"; static constexpr int fd = 0; };
template <> struct Per<4> { using type = std::ratio<60>; static constexpr const char* name = "min"; static constexpr int fd = 0; };
template <> struct Per<5> { using type = std::ratio<3600>; static constexpr const char* name = "h"; static constexpr int fd = 0; };
template <> struct Per<6> { using type = std::ratio<86400>; static constexpr const char* name = "days"; static constexpr int fd = 0; };
template <class R> struct RepN;
template <> struct RepN<int64_t> { static constexpr const char* name = "i64"; };
template <> struct RepN<int32_t> { static constexpr const char* name = "i32"; };
template <> struct RepN<uint64_t> { static constexpr const char* name = "u64"; };
template <> struct RepN<int8_t> { static constexpr const char* name = "i8"; };

template <class Rep, int P> struct TT {
	using rep = Rep; using period = typename Per<P>::type;
	using D = C::duration<Rep, period>; using TP = C::time_point<C::system_clock, D>;
	static constexpr int fd = Per<P>::fd;
	static i128 unitNs() { return static_cast<i128>(period::num) * (cal::NS_PER_S / period::den); }
	static i128 minC() { return static_cast<i128>(std::numeric_limits<Rep>::min()); }
	static i128 maxC() { return static_cast<i128>(std::numeric_limits<Rep>::max()); }
	static std::string tag() { return std::string("prec=") + Per<P>::name + "/rep=" + RepN<Rep>::name; }
};
constexpr int NT = 28;   // index = prec*4 + rep (i64, i32, u64, i8)
template <class F> static void withType(int idx, F&& f) {
	switch (idx) {
#define ROW(P) case P * 4 + 0: f(TT<int64_t, P>{}); break; case P * 4 + 1: f(TT<int32_t, P>{}); break; case P * 4 + 2: f(TT<uint64_t, P>{}); break; case P * 4 + 3: f(TT<int8_t, P>{}); break;
	ROW(0) ROW(1) ROW(2) ROW(3) ROW(4) ROW(5) ROW(6)
#undef ROW
	default: abort();
	}
}
struct Tgt { const char* kind; std::string tag; i128 U, minC, maxC; };
template <class T> static Tgt tgtOf(const char* kind) { return Tgt{kind, T::tag(), T::unitNs(), T::minC(), T::maxC()}; }
static const Tgt kTimeT{"time_t", "prec=s/rep=i64", cal::NS_PER_S, static_cast<i128>(std::numeric_limits<int64_t>::min()), static_cast<i128>(std::numeric_limits<int64_t>::max())};

static const i128 DAY_NS = static_cast<i128>(cal::S_PER_DAY) * cal::NS_PER_S;

// exact-size heap copy, so that a read past the end of the view is an ASan report
template <class Ch> struct Exact {
	Ch* p; size_t n;
	explicit Exact(const std::basic_string<Ch>& s) : p(new Ch[s.size()]), n(s.size()) { for (size_t i = 0; i < n; ++i) p[i] = s[i]; }
	~Exact() { delete[] p; }
	Exact(const Exact&) = delete; Exact& operator=(const Exact&) = delete;
	std::basic_string_view<Ch> sv() const { return std::basic_string_view<Ch>(p, n); }
};
template <class Ch> static std::basic_string<Ch> widen(const std::string& s) { std::basic_string<Ch> r; for (unsigned char ch : s) r.push_back(static_cast<Ch>(ch)); return r; }

// ---------------------------------------------------------------------------------------------------- library calls
struct Res {
	enum K { Returned, InvalidArg, OutOfRange, Other } k = Other;
	i128 count = 0; std::string what;
	tm t{};
	bool same(const Res& o) const { return k == o.k && (k != Returned || (count == o.count && t.tm_year == o.t.tm_year && t.tm_mon == o.t.tm_mon && t.tm_mday == o.t.tm_mday && t.tm_hour == o.t.tm_hour && t.tm_min == o.t.tm_min && t.tm_sec == o.t.tm_sec)); }
	std::string str() const { return k == Returned ? "returned " + i128str(count) : k == InvalidArg ? "invalid_argument(" + what + ")" : k == OutOfRange ? "out_of_range(" + what + ")" : "threw " + what; }
	const char* cls() const { return k == Returned ? "returned" : k == InvalidArg ? "invalid_argument" : k == OutOfRange ? "out_of_range" : "other_exception"; }
};
template <class R, class P> static i128 countOf(const C::duration<R, P>& d) { return static_cast<i128>(d.count()); }
template <class Cl, class D> static i128 countOf(const C::time_point<Cl, D>& t) { return static_cast<i128>(t.time_since_epoch().count()); }
static i128 countOf(const BS::CRawTime& t) { return static_cast<i128>(t.Time); }
static i128 countOf(const tm&) { return 0; }
static void keep(Res& r, const tm& t) { r.t = t; }
template <class X> static void keep(Res&, const X&) {}

template <class X, class Ch> static Res parseAs(const std::basic_string<Ch>& text) {
	Exact<Ch> ex(text); Res r;
	try { X x = BS::Convert::To<X>(ex.sv()); r.k = Res::Returned; r.count = countOf(x); keep(r, x); }
	catch (const std::invalid_argument& e) { r.k = Res::InvalidArg; r.what = e.what(); }
	catch (const std::out_of_range& e) { r.k = Res::OutOfRange; r.what = e.what(); }
	catch (const std::exception& e) { r.k = Res::Other; r.what = bsx::demangle(typeid(e).name()) + ": " + e.what(); }
	catch (...) { r.k = Res::Other; r.what = "non-std exception"; }
	return r;
}

struct Book {
	bsx::Ctx& c; std::set<std::string> outcomes; std::map<std::string, int> perSig; uint64_t n = 0;
	explicit Book(bsx::Ctx& cx) : c(cx) {}
	void out(const std::string& o) { outcomes.insert(o); }
	void viol(const std::string& sig, const std::string& detail) { int& k = perSig[sig]; ++k; c.violation(sig, k <= 3 ? detail : std::string()); }
	~Book() { for (auto& o : outcomes) c.outcome(o); if (n > 1) c.evals(n - 1); }
};

// all three encodings must behave alike; returns the char result
static bool gWide = true;   // sanitizer build, words with 3 deviating fields: char only (see scenDt)
template <class X> static Res parse3(Book& b, const std::string& sigTarget, const std::string& text) {
	Res r8 = parseAs<X, char>(text);
	if (!gWide) { b.n += 1; return r8; }
	Res r16 = parseAs<X, char16_t>(widen<char16_t>(text)), r32 = parseAs<X, char32_t>(widen<char32_t>(text));
	b.n += 3;
	if (!r8.same(r16)) b.viol(sigTarget + "/out=char16_differs_from_char", "'" + text + "': char " + r8.str() + ", char16_t " + r16.str());
	if (!r8.same(r32)) b.viol(sigTarget + "/out=char32_differs_from_char", "'" + text + "': char " + r8.str() + ", char32_t " + r32.str());
	return r8;
}

// ---------------------------------------------------------------------------------------------------- oracle
struct Fit { bool representable, inRange, mustFit; };
// whole part W and fraction F (both signed, ns); slack: dropped digits
static Fit fitOf(const Tgt& t, i128 W, i128 F, int slack) {
	Fit f; f.representable = W % t.U == 0;
	i128 lo = cal::fdiv(W + F - slack, t.U), hi = cal::cdiv(W + F + slack, t.U);
	f.inRange = lo >= t.minC && hi <= t.maxC;
	f.mustFit = f.representable && f.inRange; return f;
}
// durations are accumulated component by component: every component must be representable in the target on its own
// and every partial sum must stay in range (the weaker reading of "the value fits"; see assumptions)
static Fit fitOfDuration(const Tgt& t, const TextClass& tc) {
	Fit f{true, true, true};
	if (tc.neg && t.minC == 0) { f.inRange = false; f.mustFit = false; return f; }   // negative sign, unsigned target: refusing is accepted even for -0
	i128 sum = 0;
	for (auto& cp : tc.comps) {
		if (cp.wholeNs % t.U != 0) f.representable = false;
		sum += cp.wholeNs + cp.fracNs;
		i128 s = tc.neg ? -sum : sum;
		if (cal::fdiv(s - tc.slackNs, t.U) < t.minC || cal::cdiv(s + tc.slackNs, t.U) > t.maxC) f.inRange = false;
	}
	f.mustFit = f.representable && f.inRange; return f;
}
static const char* valueClass(const Tgt& t, const Fit& f, i128 V, bool isTp) {
	if (!f.representable) return "whole_part_not_representable";
	if (cal::fdiv(V, t.U) < t.minC) return "below_range";
	if (cal::cdiv(V, t.U) > t.maxC) return "above_range";
	if (isTp) {
		i128 day = cal::fdiv(V, DAY_NS);
		if (day == cal::fdiv(t.minC * t.U, DAY_NS)) return "first_day_of_range";
		if (day == cal::fdiv(t.maxC * t.U, DAY_NS)) return "last_day_of_range";
	} else {
		if (cal::fdiv(V, t.U) == t.minC) return "at_min";
		if (cal::cdiv(V, t.U) == t.maxC) return "at_max";
	}
	return "in_range";
}

// judge one (text class, target, library result); form = "dt" | "dur"
static void judge(Book& b, const char* form, const TextClass& tc, const Tgt& t, const Res& r, const std::string& text) {
	const bool isDur = form[1] == 'u';
	const i128 V = tc.ns();
	const Fit f = isDur ? fitOfDuration(t, tc) : fitOf(t, tc.wholeNs, tc.fracNs, tc.slackNs);
	// value-level violations are named by target and value class (the grammar class of the text is not their cause),
	// grammar-level ones (acceptance of malformed text) by the kind of target and the reference's reason
	auto sigV = [&] { return std::string("C15/") + form + "/target=" + t.kind + "/" + t.tag + "/value=" + valueClass(t, f, V, !isDur); };
	auto sigG = [&] { return std::string("C15/") + form + "/target=" + t.kind + "/class=" + tc.reason; };
	auto what = [&] { return "'" + text + "' -> " + t.kind + "<" + t.tag + ">: " + r.str() + "; reference: " + (tc.kind == TextClass::Valid ? "valid" : tc.kind == TextClass::Lenient ? "lenient" : "malformed") + " (" + tc.reason + ")" + (tc.hasValue ? ", denotes " + i128str(V) + " ns" : ""); };
	b.out(std::string(tc.kind == TextClass::Valid ? "valid" : tc.kind == TextClass::Lenient ? "lenient(" + tc.reason + ")" : "malformed") + ":" + r.cls());
	if (r.k == Res::Other) { b.viol(sigG() + "/out=other_exception", what()); return; }
	if (tc.kind == TextClass::Malformed) {
		if (r.k == Res::Returned) b.viol(sigG() + "/out=accepted_malformed", what());
		else if (r.k == Res::OutOfRange) {
			bool excused = tc.tooBig || (isDur ? !f.mustFit : (tc.hasValue && !f.mustFit));
			if (!excused) b.viol(sigG() + "/out=out_of_range_instead_of_invalid_argument", what());
		}
		return;
	}
	if (r.k == Res::Returned) {
		const i128 got = r.count * t.U;
		const i128 err = cal::iabs(got - V);
		bool ok = f.representable && (V % t.U == 0 && tc.slackNs == 0 ? err == 0 : err < t.U + tc.slackNs);
		if (!ok) {
			const char* o = !f.representable ? "returned_truncated_whole_part" : !f.inRange && err >= t.U ? "returned_wrapped_value" : err >= t.U ? "returned_wrong_value" : "returned_inexact_for_representable_value";
			b.viol(sigV() + "/out=" + o, what());
		}
		return;
	}
	if (tc.kind == TextClass::Lenient) return;   // may throw either exception
	if (r.k == Res::InvalidArg) { b.viol(sigV() + "/out=valid_rejected:invalid_argument", what()); return; }
	if (r.k == Res::OutOfRange && f.mustFit && !tc.tooBig) b.viol(sigV() + "/out=valid_rejected:out_of_range", what());
}

static void judgeTm(Book& b, const TextClass& tc, const Res& r, const std::string& text) {
	auto sigG = [&] { return std::string("C15/dt/target=tm/class=") + tc.reason; };
	auto what = [&] { return "'" + text + "' -> tm: " + (r.k == Res::Returned ? "returned " + std::to_string(r.t.tm_year) + "," + std::to_string(r.t.tm_mon) + "," + std::to_string(r.t.tm_mday) + " " + std::to_string(r.t.tm_hour) + ":" + std::to_string(r.t.tm_min) + ":" + std::to_string(r.t.tm_sec) : r.str()) + "; reference: " + tc.reason; };
	b.out(std::string("tm:") + r.cls());
	if (r.k == Res::Other) { b.viol(sigG() + "/out=other_exception", what()); return; }
	const bool yearFits = tc.y >= std::numeric_limits<int>::min() && tc.y <= std::numeric_limits<int>::max();
	if (tc.kind == TextClass::Malformed) {
		if (r.k == Res::Returned) b.viol(sigG() + "/out=accepted_malformed", what());
		else if (r.k == Res::OutOfRange && !(tc.tooBig || !yearFits)) b.viol(sigG() + "/out=out_of_range_instead_of_invalid_argument", what());
		return;
	}
	if (r.k == Res::Returned) {
		// the library stores the calendar year and month as written (pinned by its tests); the struct tm convention
		// (year-1900, month-1) is accepted as well
		bool raw = r.t.tm_year == tc.y && r.t.tm_mon == tc.mo, conv = r.t.tm_year == tc.y - 1900 && r.t.tm_mon == tc.mo - 1;
		bool rest = r.t.tm_mday == tc.d && r.t.tm_hour == tc.h && r.t.tm_min == tc.mi && r.t.tm_sec == tc.s;
		if (!yearFits) b.viol(sigG() + "/value=year_beyond_int/out=returned_wrapped_value", what());
		else if (!((raw || conv) && rest)) b.viol(sigG() + "/value=in_range/out=returned_wrong_value", what());
		return;
	}
	if (tc.kind == TextClass::Lenient) return;
	if (r.k == Res::InvalidArg) b.viol(sigG() + "/value=in_range/out=valid_rejected:invalid_argument", what());
	else if (r.k == Res::OutOfRange && yearFits) b.viol(sigG() + "/value=in_range/out=valid_rejected:out_of_range", what());
}

static bool crossCheck(bsx::Ctx& c, const char* form, const std::string& text, const TextClass& tc) {
	bool strictOk; i128 sv = 0;
	if (form[1] == 'u') { auto p = cal::parseDurationStrict(text); strictOk = p.ok; sv = p.ns(); } else { auto p = cal::parseDateTimeStrict(text); strictOk = p.ok; if (p.ok) sv = p.ns(); }
	if (strictOk != (tc.kind == TextClass::Valid) || (strictOk && sv != tc.ns())) { c.violation(std::string("C15/") + form + "/out=ref_selfcheck", "strict recogniser and classifier disagree on '" + text + "'"); return false; }
	return true;
}

// ---------------------------------------------------------------------------------------------------- scenario 0: date-time grammar
struct Field { const char* name; std::vector<std::string> alts; };
static std::vector<Field> dtFields() {
	const std::vector<std::string> delim{"-", "", "/", "--", "."}, colon{":", "", ".", "-", " "};
	return {
		{"year", {"1970", "0000", "0001", "9999", "2024", "2023", "1900", "2000", "+10000", "-0001", "-0004", "-0000", "+1970", "1677", "2262", "1901", "2038", "+292277026596", "-292277022657", "+292277026597", "-292277022658",
			"+9223372036854775807", "-9223372036854775808", "+9223372036854775808", "-9223372036854775809", "+18446744073709551616", "+100000000000000000000", "-100000000000000000000",
			"10000", "1", "01970", "", "+", "+-1970", "--1970", "19a0", " 1970"}},
		{"d1", delim},
		{"month", {"01", "02", "12", "04", "00", "13", "99", "1", "012", "", "-1", "1x", "4294967297"}},
		{"d2", delim},
		{"day", {"01", "28", "29", "30", "31", "00", "32", "99", "1", "001", "", "-1", "4294967297"}},
		{"T", {"T", "t", " ", "", "TT", "_"}},
		{"hour", {"00", "23", "12", "24", "25", "99", "0", "000", "", "-1", "+1"}},
		{"c1", colon},
		{"minute", {"00", "59", "30", "60", "99", "0", "", "-1"}},
		{"c2", colon},
		{"second", {"00", "59", "30", "60", "61", "99", "0", "", "-1", "4294967356"}},
		{"fraction", {"", ".0", ".5", ",5", ".4", ".000000001", ".999999999", ".123456789", ".500000000", ".499999999", ".500000001", ".000", ".0000000000", ".1234567890", ".9999999999", ".", ",", ".-5", ".+5", ".5.5", ". 5", ".5e1", ".4294967297"}},
		{"Z", {"Z", "z", "", "+00:00", "-01:00", "Z+01:00", "ZZ"}},
		{"trail", {"", " ", "x", "/P2M", "\n"}},
	};
}
static const std::vector<Field> gDt = dtFields();
static const char* const kDtBases[4][14] = {
	{"1970", "-", "01", "-", "01", "T", "00", ":", "00", ":", "00", "", "Z", ""},
	{"2024", "-", "02", "-", "29", "T", "23", ":", "59", ":", "59", ".999999999", "Z", ""},
	{"1900", "-", "02", "-", "28", "T", "12", ":", "30", ":", "30", ",5", "Z", ""},
	{"-0001", "-", "12", "-", "31", "T", "23", ":", "59", ":", "59", "", "Z", ""},
};

static void scenDt(bsx::Ctx& c) {
	int base = c.choose(4, "base");
	int slice = c.choose(16, "slice");   // balances the partition: every worker enumerates the words, each word is judged in one slice
	static std::vector<std::vector<const std::string*>> altTab[4];   // per base and field: the alternatives other than the base's own symbol
	if (altTab[base].empty()) for (size_t fi = 0; fi < gDt.size(); ++fi) { altTab[base].emplace_back(); for (auto& a : gDt[fi].alts) if (a != kDtBases[base][fi]) altTab[base].back().push_back(&a); }
	std::string text, devs;
	for (size_t fi = 0; fi < gDt.size(); ++fi) {
		const auto& alts = altTab[base][fi];
		int k = c.deviate(static_cast<int>(alts.size()) + 1, gDt[fi].name);
		if (k == 0) text += kDtBases[base][fi];
		else { text += *alts[static_cast<size_t>(k - 1)]; devs += std::string(devs.empty() ? "" : "+") + gDt[fi].name; }
	}
	if (static_cast<int>(bsx::fnv(text) % 16) != slice) return;
	if (c.budget > 0 && c.deviations_used() != c.budget) return;   // already judged and committed in the pass with the smaller budget
	const TextClass tc = cal::classifyDateTime(text);
	const i128 i64min = -(static_cast<i128>(1) << 63), i64max = (static_cast<i128>(1) << 63) - 1;
	const char* yearMag = tc.y == i64min ? "year_int64_min" : (tc.y < i64min || tc.y > i64max) ? "year_beyond_int64" : "year_in_int64";
	// crash signatures (UBSan/ASan) are named by the magnitude class of the year, the only field of unbounded size
	c.describe(std::string("C15/dt/") + yearMag, "'" + text + "' deviating fields: " + (devs.empty() ? "none" : devs));
	if (!crossCheck(c, "dt", text, tc)) return;
	// Sanitizer build, words with three deviating fields (thorough tier): char only; the -O2 build parses every word in all
	// three encodings.
	const bool reduced = !kFast && c.deviations_used() >= 3;
	const bool risky = tc.y == i64min;
	gWide = !reduced;
	if (c.deviations_used() <= 2) c.nontrivial(text);   // the key set is merged in memory: words with three deviations are counted as executions only
	if (c.deviations_used() == 2 && base == 1 && slice == 3) c.sample("'" + text + "' (" + tc.reason + ") -> 28 time_point types, time_t, tm x 3 encodings");
	Book b(c);
	for (int ti = 0; ti < NT; ++ti) withType(ti, [&](auto tag) {
		using T = decltype(tag);
		const Tgt t = tgtOf<T>("tp");
		// the abort for a year of -2^63 happens in code shared by all targets: named (and memoised) by the kind of target only
		const std::string crashSig = risky ? std::string("C15/dt/target=tp/") + yearMag : std::string("C15/dt/target=tp/") + t.tag + "/" + yearMag;
		c.describe(crashSig, "'" + text + "' -> time_point<" + t.tag + ">");
		// crash memo: a year of exactly -2^63 aborts under UBSan (signed overflow in `Year - 1`); once that class has cost a
		// worker for this target it is not run again in this build (the -O2 build judges all its values)
		if (risky && !c.enter(bsx::fnv(crashSig))) { b.out("skipped:same_class_aborted_earlier_in_this_run"); return; }
		Res r = parse3<typename T::TP>(b, std::string("C15/dt/target=tp/") + t.tag + "/class=" + tc.reason, text);
		if (risky) c.leave();
		judge(b, "dt", tc, t, r, text);
	});
	{
		const std::string crashSig = std::string("C15/dt/target=time_t/") + yearMag;
		c.describe(crashSig, "'" + text + "'");
		if (!risky || c.enter(bsx::fnv(crashSig))) { Res r = parse3<BS::CRawTime>(b, std::string("C15/dt/target=time_t/class=") + tc.reason, text); if (risky) c.leave(); judge(b, "dt", tc, kTimeT, r, text); }
		else b.out("skipped:same_class_aborted_earlier_in_this_run");
	}
	c.describe(std::string("C15/dt/target=tm/") + yearMag, "'" + text + "'");
	judgeTm(b, tc, parse3<tm>(b, std::string("C15/dt/target=tm/class=") + tc.reason, text), text);
}

// ---------------------------------------------------------------------------------------------------- scenario 1: time_point boundaries
static void scenDtBound(bsx::Ctx& c) {
	if (c.budget > 0) return;   // no deviation points here: everything is committed in the first pass
	gWide = true;
	int ti = c.choose(NT + 1, "target");
	int ak = c.choose(14, "anchor_k");     // anchor (min|max) x k = -3..3
	int dl = c.choose(5, "subunit");       // sub-unit part: 0, 0.4, 0.5, 0.6 of min(unit, 1 s), 1 ns
	auto run = [&](const Tgt& t, int fd, auto parse) {
		const i128 anchor = ak < 7 ? t.minC : t.maxC; const int k = ak % 7 - 3;
		const i128 sub = t.U < cal::NS_PER_S ? t.U : cal::NS_PER_S;
		const i128 delta = dl == 0 ? 0 : dl == 1 ? sub * 4 / 10 : dl == 2 ? sub / 2 : dl == 3 ? sub * 6 / 10 : 1;
		if (dl != 0 && (sub < 10 || (dl == 4 && sub == 1))) { if (t.U == 1 && dl > 0) { c.outcome("skipped:no_subunit_for_ns"); return; } }
		const i128 V = (anchor + k) * t.U + delta;
		const std::string text = cal::formatInstantNs(V, delta == 0 ? fd : 9);
		const TextClass tc = cal::classifyDateTime(text);
		const std::string sigT = std::string("C15/dtbound/target=") + t.kind + "/" + t.tag + "/class=" + (ak < 7 ? "min" : "max") + (k < 0 ? "-k" : k > 0 ? "+k" : "") + (dl ? "+subunit" : "");
		c.describe(sigT, "'" + text + "'");
		if (!crossCheck(c, "dt", text, tc)) return;
		if (tc.kind != TextClass::Valid || tc.ns() != V) { c.violation("C15/dtbound/out=ref_selfcheck", "reference text does not denote the value: " + text); return; }
		c.nontrivial(t.tag + text);
		if (ak == 7 && dl == 0) c.sample("'" + text + "' -> " + t.kind + "<" + t.tag + ">");
		Book b(c);
		const bool risky = V < t.minC * t.U && t.U == DAY_NS && t.minC < -(static_cast<i128>(1) << 62);   // below the minimum of 64-bit days: known UBSan abort
		if (risky && !c.enter(bsx::fnv(sigT))) { b.out("skipped:same_class_aborted_earlier_in_this_run"); return; }
		Res r = parse(b, sigT, text);
		if (risky) c.leave();
		judge(b, "dt", tc, t, r, text);
	};
	if (ti == NT) run(kTimeT, 0, [](Book& b, const std::string& s, const std::string& text) { return parse3<BS::CRawTime>(b, s, text); });
	else withType(ti, [&](auto tag) { using T = decltype(tag); run(tgtOf<T>("tp"), T::fd, [](Book& b, const std::string& s, const std::string& text) { return parse3<typename T::TP>(b, s, text); }); });
}

// ---------------------------------------------------------------------------------------------------- scenario 2: duration grammar
struct DurBase { std::string sign; i128 w, d, h, m, s; std::string frac; bool hasW; };
static std::string fracText(i128 fracNs) { if (fracNs == 0) return ""; std::string f = cal::pad(fracNs, 9); while (f.back() == '0') f.pop_back(); return "." + f; }
static DurBase decompose(const char* sign, i128 ns) {
	DurBase b; b.sign = sign; b.hasW = false; b.w = 0;
	b.d = ns / DAY_NS; ns %= DAY_NS; b.h = ns / (3600 * static_cast<i128>(cal::NS_PER_S)); ns %= 3600 * static_cast<i128>(cal::NS_PER_S);
	b.m = ns / (60 * static_cast<i128>(cal::NS_PER_S)); ns %= 60 * static_cast<i128>(cal::NS_PER_S); b.s = ns / cal::NS_PER_S; b.frac = fracText(ns % cal::NS_PER_S); return b;
}
static std::vector<std::string> magnitudes(const Tgt& t, i128 unitNs, i128 baseVal, bool present) {
	std::set<i128> v{0, 1, static_cast<i128>(1) << 31, static_cast<i128>(1) << 32, (static_cast<i128>(1) << 63) - 1, static_cast<i128>(1) << 63, (static_cast<i128>(1) << 64) - 1, static_cast<i128>(1) << 64, cal::pow10(20)};
	const i128 M = t.maxC * t.U / unitNs;                 // the largest count of this unit the target can hold
	for (i128 x : {M - 1, M, M + 1}) if (x >= 0) v.insert(x);
	const i128 Mn = (t.minC < 0 ? -t.minC : 0) * t.U / unitNs;   // and on the negative side
	for (i128 x : {Mn - 1, Mn, Mn + 1}) if (x >= 0) v.insert(x);
	if (present) { if (baseVal > 0) v.insert(baseVal - 1); v.insert(baseVal + 1); v.erase(baseVal); }
	std::vector<std::string> r; if (present) r.push_back("");   // component absent
	for (i128 x : v) r.push_back(i128str(x));
	r.push_back("-1"); r.push_back("01");
	return r;
}

struct DurField { const char* name; std::string def; std::vector<std::string> alts; };
static void scenDur(bsx::Ctx& c) {
	int ti = c.choose(NT, "target");
	int base = c.choose(3, "base");
	withType(ti, [&](auto tag) {
		using T = decltype(tag);
		const Tgt t = tgtOf<T>("dur");
		const i128 S = cal::NS_PER_S;
		// the field table of a (target, base) is built once per process
		static std::map<int, std::vector<DurField>> cache;
		std::vector<DurField>& fs = cache[ti * 3 + base];
		if (fs.empty()) {
			DurBase bs;
			if (base == 0) { bs = DurBase{"", 0, 1, 1, 1, 1, "", false}; }
			else if (base == 1) bs = decompose("", t.maxC * t.U);
			else if (t.minC < 0) bs = decompose("-", -t.minC * t.U);
			else { bs = DurBase{"", 1, 0, 0, 0, 0, "", true}; }   // unsigned: a weeks-based base instead of the minimum
			// fields in text order; each: default text and alternatives
			fs.push_back({"sign", bs.sign, {"", "-", "+", "--", "+-", " "}});
			fs.push_back({"P", "P", {"p", "", "PP", "2003-02-15T00:00:00Z/P"}});
			fs.push_back({"weeks", bs.hasW ? i128str(bs.w) : "", magnitudes(t, 604800 * S, bs.w, bs.hasW)});
			fs.push_back({"days", i128str(bs.d), magnitudes(t, 86400 * S, bs.d, true)});
			fs.push_back({"days_fraction", "", {".5", ",5"}});
			fs.push_back({"days_designator", "D", {"d", "Y", "M", "H", "S", "", "X"}});
			fs.push_back({"T", "T", {"", "t", "TT", " "}});
			fs.push_back({"hours", i128str(bs.h), magnitudes(t, 3600 * S, bs.h, true)});
			fs.push_back({"hours_fraction", "", {".5", ",25"}});
			fs.push_back({"minutes", i128str(bs.m), magnitudes(t, 60 * S, bs.m, true)});
			fs.push_back({"minutes_designator", "M", {"m", "S", "D", "", "Y"}});
			fs.push_back({"seconds", i128str(bs.s), magnitudes(t, S, bs.s, true)});
			fs.push_back({"seconds_fraction", bs.frac, {"", ".0", ".5", ",5", ".4", ".6", ".000000001", ".999999999", ".499999999", ".500000001", ".0000000000", ".1234567890", ".", ".-5", ".5.5", ".4294967297"}});
			fs.push_back({"seconds_designator", "S", {"s", "", "M", "H", "Z"}});
			fs.push_back({"trail", "", {" ", " Hello", "\n", "x", "P", "T"}});
			for (auto& f : fs) { std::vector<std::string> keep; for (auto& x : f.alts) if (x != f.def) keep.push_back(x); f.alts.swap(keep); }   // alternatives exclude the default
		}
		std::string text, devs; std::string part[15];
		for (size_t fi = 0; fi < fs.size(); ++fi) {
			int k = c.deviate(static_cast<int>(fs[fi].alts.size()) + 1, fs[fi].name);
			part[fi] = k == 0 ? fs[fi].def : fs[fi].alts[static_cast<size_t>(k - 1)];
			if (k) devs += std::string(devs.empty() ? "" : "+") + fs[fi].name;
		}
		// a component whose number is absent is dropped together with its fraction and designator
		auto comp = [&](int num, int frac, const std::string& des) { return part[num].empty() && (frac < 0 || part[frac].empty()) ? std::string() : part[num] + (frac >= 0 ? part[frac] : std::string()) + des; };
		text = part[0] + part[1] + comp(2, -1, "W") + comp(3, 4, part[5]) + part[6] + comp(7, 8, "H") + comp(9, -1, part[10]) + comp(11, 12, part[13]) + part[14];
		if (c.budget > 0 && c.deviations_used() != c.budget) return;   // already judged and committed in the pass with the smaller budget
		const TextClass tc = cal::classifyDuration(text);
		// magnitude class of the largest number in the text (crash signatures are named by it, not by the grammar class)
		const i128 p63 = static_cast<i128>(1) << 63, u64max = (static_cast<i128>(1) << 64) - 1;
		bool hasEq = false, hasGt = false, hasHuge = false; 
		for (int fi : {2, 3, 7, 9, 11}) {
			const std::string& ps = part[fi]; if (ps.empty() || !cal::isDig(ps[0])) continue;
			size_t q = 0; i128 v; int nd; cal::readNum(ps, q, v, nd);
			if (v == p63) hasEq = true; else if (v > p63 && v <= u64max) hasGt = true; else if (v > u64max) hasHuge = true;
		}
		const char* mag = hasEq ? "eq_2e63" : hasGt ? "gt_2e63" : hasHuge ? "gt_u64" : "lt_2e63";
		const bool negSign = !part[0].empty() && part[0].back() == '-';
		const std::string sigT = std::string("C15/dur/target=dur/") + t.tag + "/class=" + tc.reason;
		// the negation of -2^63 happens in code shared by all targets: named (and memoised) without the target
		const std::string crashSig = (negSign && hasEq) ? std::string("C15/dur/target=dur/sign=neg/mag=eq_2e63") : std::string("C15/dur/target=dur/") + t.tag + (negSign ? "/sign=neg" : "/sign=pos") + "/mag=" + mag;
		c.describe(crashSig, "'" + text + "' -> duration<" + t.tag + ">, deviating fields: " + (devs.empty() ? "none" : devs));
		if (!crossCheck(c, "dur", text, tc)) return;
		gWide = kFast || c.deviations_used() < 3;   // sanitizer build, three deviating fields: char only
		if (c.deviations_used() <= 2) c.nontrivial(t.tag + text);
		if (c.deviations_used() == 2 && ti == 5 && base == 1) c.sample("'" + text + "' (" + tc.reason + ") -> duration<" + t.tag + "> x 3 encodings");
		Book b(c);
		// crash memo: numbers of 2^63..2^64-1 run into known UBSan aborts (negation of -2^63, overflow when such a count is
		// scaled to a coarser 64-bit target); once a (target, sign, magnitude class) has cost a worker it is not run again in
		// this build (the -O2 build judges all its values)
		const bool risky = hasEq || hasGt;
		if (risky && !c.enter(bsx::fnv(crashSig))) { b.out("skipped:same_class_aborted_earlier_in_this_run"); return; }
		Res r = parse3<typename T::D>(b, sigT, text);
		if (risky) c.leave();
		judge(b, "dur", tc, t, r, text);
	});
}

// ---------------------------------------------------------------------------------------------------- scenario 3: fractions
// full: every digit string of the length; boundary: residues {0, +-1, half, half+-1} of every rounding unit (10^3, 10^6, 10^9 ns)
struct FracPlan { int maxFull, maxBoundary, maxWide; };
static FracPlan fracPlan(const std::string& tier) {
	const bool th = tier == "thorough";
	if (kFast) return th ? FracPlan{9, 9, 5} : FracPlan{7, 9, 4};
	return th ? FracPlan{6, 9, 4} : FracPlan{5, 9, 3};
}
constexpr long long FRAC_BLOCK = 250000;
struct FracBlock { int digits; bool full; long long from, to; };   // [from, to): full: values; boundary: quotients of 1000
static std::vector<FracBlock> fracBlocks(const std::string& tier) {
	FracPlan p = fracPlan(tier); std::vector<FracBlock> r;
	for (int L = 1; L <= 9; ++L) {
		long long n = static_cast<long long>(cal::pow10(L));
		if (L <= p.maxFull) { for (long long a = 0; a < n; a += FRAC_BLOCK) r.push_back({L, true, a, std::min(n, a + FRAC_BLOCK)}); }
		else if (L <= p.maxBoundary) { long long q = n / 1000 + 1; for (long long a = 0; a < q; a += FRAC_BLOCK / 8) r.push_back({L, false, a, std::min(q, a + FRAC_BLOCK / 8)}); }
	}
	return r;
}

template <class X> static inline int parseFast(std::string_view sv, i128& out) {
	try { X x = BS::Convert::To<X>(sv); out = countOf(x); return 0; }
	catch (const std::invalid_argument&) { return 1; } catch (const std::out_of_range&) { return 2; } catch (...) { return 3; }
}
struct FracJudge {
	Book& b; int digits;
	template <class X> void one(const char* kind, const char* tag, std::string_view sv, i128 V, i128 U) {
		i128 r; int e = parseFast<X>(sv, r); ++b.n;
		if (e == 0) {
			i128 err = cal::iabs(r * U - V);
			if (V % U == 0 ? err != 0 : err >= U) b.viol(std::string("C15/frac/target=") + kind + "/" + tag + "/digits=" + std::to_string(digits) + (V % U == 0 ? "/class=representable" : "/class=needs_rounding") + "/out=" + (err >= U ? "returned_wrong_value" : "returned_inexact_for_representable_value"),
				"'" + std::string(sv) + "' returned " + i128str(r) + " units, denotes " + i128str(V) + " ns");
		} else b.viol(std::string("C15/frac/target=") + kind + "/" + tag + "/digits=" + std::to_string(digits) + "/class=valid/out=valid_rejected:" + (e == 1 ? "invalid_argument" : e == 2 ? "out_of_range" : "other_exception"), "'" + std::string(sv) + "'");
	}
};

static void scenFrac(bsx::Ctx& c) {
	if (c.budget > 0) return;   // no deviation points here: everything is committed in the first pass
	auto blocks = fracBlocks(c.tier);
	int bi = c.choose(static_cast<int>(blocks.size()), "block");
	c.choose(1, "pad");
	const FracBlock blk = blocks[static_cast<size_t>(bi)];
	const FracPlan plan = fracPlan(c.tier);
	const int L = blk.digits;
	Book b(c); FracJudge J{b, L};
	c.describe("C15/frac/digits=" + std::to_string(L), std::string(blk.full ? "all values " : "boundary classes, quotients ") + std::to_string(blk.from) + ".." + std::to_string(blk.to - 1));
	// exact-size heap buffers (ASan sees any over-read)
	const std::string dtHead = "1970-01-01T00:00:00.", durHead = "PT0.", ndurHead = "-PT0,";
	const size_t dtLen = dtHead.size() + L + 1, durLen = durHead.size() + L + 1, ndurLen = ndurHead.size() + L + 1;
	std::unique_ptr<char[]> dt(new char[dtLen]), du(new char[durLen]), nd(new char[ndurLen]);
	memcpy(dt.get(), dtHead.data(), dtHead.size()); dt[dtLen - 1] = 'Z';
	memcpy(du.get(), durHead.data(), durHead.size()); du[durLen - 1] = 'S';
	memcpy(nd.get(), ndurHead.data(), ndurHead.size()); nd[ndurLen - 1] = 'S';
	const i128 scale = cal::pow10(9 - L);
	using Tns = TT<int64_t, 0>; using Tus = TT<int64_t, 1>; using Tms = TT<int64_t, 2>; using Ts = TT<int64_t, 3>;
	auto runValue = [&](long long f) {
		char digs[10]; long long x = f; for (int k = L - 1; k >= 0; --k) { digs[k] = static_cast<char>('0' + x % 10); x /= 10; }
		memcpy(dt.get() + dtHead.size(), digs, static_cast<size_t>(L)); memcpy(du.get() + durHead.size(), digs, static_cast<size_t>(L)); memcpy(nd.get() + ndurHead.size(), digs, static_cast<size_t>(L));
		const i128 V = static_cast<i128>(f) * scale;
		std::string_view sdt(dt.get(), dtLen), sdu(du.get(), durLen), snd(nd.get(), ndurLen);
		J.one<Tns::TP>("tp", "prec=ns/rep=i64", sdt, V, 1); J.one<Tus::TP>("tp", "prec=us/rep=i64", sdt, V, 1000); J.one<Tms::TP>("tp", "prec=ms/rep=i64", sdt, V, 1000000); J.one<Ts::TP>("tp", "prec=s/rep=i64", sdt, V, 1000000000);
		J.one<Tns::D>("dur", "prec=ns/rep=i64", sdu, V, 1); J.one<Tus::D>("dur", "prec=us/rep=i64", sdu, V, 1000); J.one<Tms::D>("dur", "prec=ms/rep=i64", sdu, V, 1000000); J.one<Ts::D>("dur", "prec=s/rep=i64", sdu, V, 1000000000);
		J.one<Tns::D>("dur_neg", "prec=ns/rep=i64", snd, -V, 1); J.one<Tus::D>("dur_neg", "prec=us/rep=i64", snd, -V, 1000); J.one<Tms::D>("dur_neg", "prec=ms/rep=i64", snd, -V, 1000000); J.one<Ts::D>("dur_neg", "prec=s/rep=i64", snd, -V, 1000000000);
		if (L <= plan.maxWide) {
			std::string s8(sdt); Res a = parseAs<Tms::TP, char16_t>(widen<char16_t>(s8)), d = parseAs<Tms::TP, char32_t>(widen<char32_t>(s8));
			i128 r; int e = parseFast<Tms::TP>(sdt, r); b.n += 2;
			if (e != 0 || a.k != Res::Returned || d.k != Res::Returned || a.count != r || d.count != r) b.viol("C15/frac/target=tp/prec=ms/rep=i64/digits=" + std::to_string(L) + "/out=wide_differs_from_char", "'" + s8 + "'");
			std::string d8(sdu); Res a2 = parseAs<Tus::D, char16_t>(widen<char16_t>(d8)), d2 = parseAs<Tus::D, char32_t>(widen<char32_t>(d8));
			e = parseFast<Tus::D>(sdu, r); b.n += 2;
			if (e != 0 || a2.k != Res::Returned || d2.k != Res::Returned || a2.count != r || d2.count != r) b.viol("C15/frac/target=dur/prec=us/rep=i64/digits=" + std::to_string(L) + "/out=wide_differs_from_char", "'" + d8 + "'");
		}
	};
	if (blk.full) {
		for (long long f = blk.from; f < blk.to; ++f) { if ((f & 16383) == 0) c.heartbeat(); runValue(f); }
		c.nontrivial("full" + std::to_string(L) + "/" + std::to_string(blk.from));
		if (blk.from == 0 && L == 3) c.sample("'1970-01-01T00:00:00.<f>Z', 'PT0.<f>S', '-PT0,<f>S' for all 3-digit f -> {ns,us,ms,s} x int64");
	} else {
		// rounding units in ns: 10^3 (us), 10^6 (ms), 10^9 (s); in units of the last written digit: 10^(k-(9-L))
		const long long n = static_cast<long long>(cal::pow10(L));
		std::set<long long> seen;
		for (long long q = blk.from; q < blk.to; ++q) {
			if ((q & 1023) == 0) c.heartbeat();
			for (int k : {3, 6, 9}) {
				int e = k - (9 - L); if (e < 1) continue;
				const long long unit = static_cast<long long>(cal::pow10(e));
				// quotient index runs over multiples of the finest rounding unit that has e >= 1; coarser ones only use q < n/unit
				if (q > n / unit) continue;
				for (long long off : {0ll, 1ll, -1ll, unit / 2, unit / 2 - 1, unit / 2 + 1}) {
					long long f = q * unit + off; if (f < 0 || f >= n) continue;
					if (k != 3 || e < 1) { if (!seen.insert(f).second) continue; }
					runValue(f);
				}
			}
		}
		c.nontrivial("boundary" + std::to_string(L) + "/" + std::to_string(blk.from));
	}
}

static void body(bsx::Ctx& c) {
	int scen = c.choose(4, "scenario");
	switch (scen) {
	case 0: scenDt(c); break;
	case 1: scenDtBound(c); break;
	case 2: scenDur(c); break;
	default: scenFrac(c); break;
	}
}

int main(int argc, char** argv) {
	bsx::Config cfg; cfg.part_depth = 3; cfg.max_dev = 2; cfg.hang_s = 15;
	bsx::Engine e("C15", body, cfg);
	e.mTierSetup = [](const std::string& tier, bsx::Config& c) { c.max_dev = tier == "thorough" ? 3 : 2; };
	return e.main(argc, argv);
}
