// C11 — transcoding valid Unicode text between UTF-8/16/32 is exact and reversible.
// E1, exhaustive: (A) every one of the 1,112,064 Unicode scalar values individually and (B) every sequence of
// length 0..3 (thorough 0..4) over the boundary alphabet, through all 20 ordered pairs of {UTF-8, UTF-16LE,
// UTF-16BE, UTF-32LE, UTF-32BE} by two routes each (source class ::Decode first / target class ::Encode first),
// both Transcode overloads between all native widths (incl. wchar_t and same-width copies), Convert::To between
// the four C++ string types; x {Skip, ThrowError} x {empty, non-empty output string}. (C) the alphabet strings
// as values and keys of all four string types inside MsgPack, JSON and CSV archives under both UTF policies.
// Oracle: ref/ref_utf.hpp (written from the Unicode standard): the produced code units must equal the standard
// encoding form in the requested byte order, ErrorCode == Success, Iterator == end, InvalidSequencesCount == 0,
// text already in the output string untouched. Round trips follow because (d,s) is itself one of the pairs and
// its input is exactly the verified output of (s,d).
#include "engine/bsx.hpp"
#include "ref/ref_utf.hpp"
#include "bitserializer/bit_serializer.h"
#include "bitserializer/convert.h"
#include "bitserializer/msgpack_archive.h"
#include "bitserializer/rapidjson_archive.h"
#include "bitserializer/csv_archive.h"
#include "bitserializer/types/std/map.h"
#include "bitserializer/types/std/vector.h"
#include <map>
#include <unordered_map>

namespace BS = BitSerializer;
namespace U = BitSerializer::Convert::Utf;
namespace R = ref::utf;
using R::Enc;
static_assert(sizeof(wchar_t) == 4, "wchar_t is handled as a 32-bit character type");

#if defined(__BYTE_ORDER__) && __BYTE_ORDER__ == __ORDER_BIG_ENDIAN__
static constexpr bool kHostBig = true;
#else
static constexpr bool kHostBig = false;
#endif
static constexpr Enc N16 = kHostBig ? R::U16BE : R::U16LE, N32 = kHostBig ? R::U32BE : R::U32LE;
static constexpr bool isNative(Enc e) { return e == R::U8 || e == N16 || e == N32; }
static constexpr Enc nativeOfWidth(int w) { return w == 1 ? R::U8 : w == 2 ? N16 : N32; }
static constexpr int widthOf(Enc e) { return e == R::U8 ? 1 : (e == R::U16LE || e == R::U16BE) ? 2 : 4; }

template <Enc E> struct T;
template <> struct T<R::U8> { using Ch = char; using Cls = U::Utf8; };
template <> struct T<R::U16LE> { using Ch = char16_t; using Cls = U::Utf16Le; };
template <> struct T<R::U16BE> { using Ch = char16_t; using Cls = U::Utf16Be; };
template <> struct T<R::U32LE> { using Ch = char32_t; using Cls = U::Utf32Le; };
template <> struct T<R::U32BE> { using Ch = char32_t; using Cls = U::Utf32Be; };

// ------------------------------------------------------------------------------------------ reference data of one case
struct Bytes { unsigned char b[48]; size_t n = 0; };
static void putUnits(Bytes& o, const uint32_t* u, int cnt, Enc e) {
	const int w = widthOf(e); const bool be = R::bigEndian(e);
	for (int i = 0; i < cnt; ++i) for (int k = 0; k < w; ++k) o.b[o.n++] = static_cast<unsigned char>(u[i] >> (8 * (be ? w - 1 - k : k)));
}
static void encodeSeq(const uint32_t* scalars, size_t n, Enc e, Bytes& o) {
	o.n = 0; for (size_t i = 0; i < n; ++i) { uint32_t u[4]; int k = R::encodeScalar(scalars[i], widthOf(e), u); putUnits(o, u, k, e); }
}
static const uint32_t kPrefix[2] = {0x70, 0x1F600};   // text already in the output string: "p" + U+1F600

struct Case {
	const uint32_t* scalars; size_t n; const char* range;
	Bytes ref[R::ENC_COUNT];        // the text in every encoding scheme
	Bytes pre[R::ENC_COUNT];        // the prefix in every encoding scheme
};
static void prepare(Case& cs) { for (int e = 0; e < R::ENC_COUNT; ++e) encodeSeq(cs.scalars, cs.n, static_cast<Enc>(e), cs.ref[e]); }
static void preparePrefix(Case& cs) { for (int e = 0; e < R::ENC_COUNT; ++e) encodeSeq(kPrefix, 2, static_cast<Enc>(e), cs.pre[e]); }

template <class Ch> static void assignBytes(std::basic_string<Ch>& s, const Bytes& b) { s.resize(b.n / sizeof(Ch)); if (b.n) memcpy(&s[0], b.b, b.n); }
template <class Ch> static bool equalsBytes(const std::basic_string<Ch>& s, const Bytes& pre, bool usePre, const Bytes& body) {
	const size_t pn = usePre ? pre.n : 0;
	if (s.size() * sizeof(Ch) != pn + body.n) return false;
	const unsigned char* p = reinterpret_cast<const unsigned char*>(s.data());
	return (!pn || !memcmp(p, pre.b, pn)) && (!body.n || !memcmp(p + pn, body.b, body.n));
}
template <class Ch> static std::string hexOf(const std::basic_string<Ch>& s) { return bsx::hex(s.data(), s.size() * sizeof(Ch)); }
static std::string hexOf(const Bytes& b) { return bsx::hex(b.b, b.n); }
static std::string scalarsStr(const Case& cs) { std::string s; for (size_t i = 0; i < cs.n; ++i) s += bsx::fmt("%sU+%04X", i ? " " : "", cs.scalars[i]); return s.empty() ? "(empty)" : s; }

// ------------------------------------------------------------------------------------------ accumulators (an execution covers many cases)
struct Acc {
	std::vector<const char*> outcomes; std::unordered_map<std::string, uint32_t> sigs; uint64_t calls = 0;
	void reset() { outcomes.clear(); sigs.clear(); calls = 0; }
	void outcome(const char* o) { for (const char* x : outcomes) if (x == o) return; outcomes.push_back(o); }
	static constexpr uint32_t kCap = 16;
	template <class D> void violation(bsx::Ctx& c, const std::string& sig, D&& detail) { uint32_t& n = sigs[sig]; if (++n <= kCap) c.violation(sig, n <= 3 ? detail() : std::string()); }
	void flush(bsx::Ctx& c) { for (const char* o : outcomes) c.outcome(o); }
};
static Acc gAcc;
static bsx::Ctx* gCtx = nullptr;
static const char* polNames[2] = {"skip", "throw"};
static const U::UtfEncodingErrorPolicy kPol[2] = {U::UtfEncodingErrorPolicy::Skip, U::UtfEncodingErrorPolicy::ThrowError};

// one converter call: f(out, policy) -> UtfEncodingResult<It>; `end` the end iterator of its input
template <class OutCh, class It, class F>
static bool call(const Case& cs, const std::string& sigbase, const char* what, std::basic_string<OutCh>& out, It begin, It end, int pol, bool prefill, Enc outEnc, F&& f) {
	++gAcc.calls;
	if (prefill) assignBytes(out, cs.pre[outEnc]); else out.clear();
	const char* kind = nullptr; static std::string extra; if (!extra.empty()) extra.clear();
	try {
		auto res = f(out, kPol[pol]);
		if (res.ErrorCode != U::UtfEncodingErrorCode::Success || !static_cast<bool>(res)) kind = "error_code";
		else if (!(res.Iterator == end)) kind = "iterator_not_at_end";
		else if (res.InvalidSequencesCount != 0) kind = "count_not_zero";
		else if (!equalsBytes(out, cs.pre[outEnc], prefill, cs.ref[outEnc])) {
			kind = "wrong_units";
			if (prefill && (out.size() * sizeof(OutCh) < cs.pre[outEnc].n || memcmp(out.data(), cs.pre[outEnc].b, cs.pre[outEnc].n))) kind = "prefix_damaged";
		}
		if (kind && !extra.size()) extra = bsx::fmt("rc=%d it=%ld count=%zu", static_cast<int>(res.ErrorCode), static_cast<long>(res.Iterator - begin), res.InvalidSequencesCount);
	}
	catch (const bsx::SkipSubtree&) { throw; }
	catch (const std::exception& ex) { kind = "exception"; extra = bsx::demangle(typeid(ex).name()) + ": " + ex.what(); }
	catch (...) { kind = "exception"; extra = "non-standard exception"; }
	if (!kind) { gAcc.outcome(prefill ? "exact:appended" : "exact"); return true; }
	gAcc.outcome(kind);
	gAcc.violation(*gCtx, sigbase + "/policy=" + polNames[pol] + "/range=" + cs.range + "/out=" + kind, [&] {
		return bsx::fmt("%s of %s %s an output string%s: got bytes %s, expected %s%s (%s)", what, scalarsStr(cs).c_str(), "into", prefill ? " already holding text" : "", hexOf(out).c_str(),
			prefill ? (hexOf(cs.pre[outEnc]) + "+").c_str() : "", hexOf(cs.ref[outEnc]).c_str(), extra.c_str());
	});
	return false;
}

// the two routes of an ordered pair (S, D)
template <Enc S, Enc D> static void pairRoutes(const Case& cs) {
	using SC = typename T<S>::Ch; using DC = typename T<D>::Ch; using SCls = typename T<S>::Cls; using DCls = typename T<D>::Cls;
	static std::basic_string<SC> in; static std::basic_string<DC> out, midD; static std::basic_string<SC> midS;
	assignBytes(in, cs.ref[S]);
	static const std::string pairName = std::string("C11/") + R::name(S) + "->" + R::name(D);
	static const std::string sbD = pairName + "/route=decode_first", sbDd = sbD + "/step=decode", sbDe = sbD + "/step=encode";
	static const std::string sbE = pairName + "/route=encode_first", sbEd = sbE + "/step=decode", sbEe = sbE + "/step=encode";
	constexpr Enc ND = nativeOfWidth(widthOf(D)), NS = nativeOfWidth(widthOf(S));
	for (int pol = 0; pol < 2; ++pol) for (int prefill = 0; prefill < 2; ++prefill) {
		// route 1: the source class decodes into a native string of the target width; a non-native target is then produced by the target class
		{
			if constexpr (isNative(D)) {
				call(cs, sbD, "S::Decode", out, in.cbegin(), in.cend(), pol, prefill != 0, D, [&](auto& o, auto p) { return SCls::Decode(in.cbegin(), in.cend(), o, p); });
			} else {
				if (call(cs, sbDd, "S::Decode", midD, in.cbegin(), in.cend(), pol, false, ND, [&](auto& o, auto p) { return SCls::Decode(in.cbegin(), in.cend(), o, p); }))
					call(cs, sbDe, "D::Encode", out, midD.cbegin(), midD.cend(), pol, prefill != 0, D, [&](auto& o, auto p) { return DCls::Encode(midD.cbegin(), midD.cend(), o, p); });
			}
		}
		// route 2: the target class encodes from native text of the source width; a non-native source is first brought to native order by its own class
		{
			if constexpr (isNative(S)) {
				call(cs, sbE, "D::Encode", out, in.cbegin(), in.cend(), pol, prefill != 0, D, [&](auto& o, auto p) { return DCls::Encode(in.cbegin(), in.cend(), o, p); });
			} else {
				if (call(cs, sbEd, "S::Decode", midS, in.cbegin(), in.cend(), pol, false, NS, [&](auto& o, auto p) { return SCls::Decode(in.cbegin(), in.cend(), o, p); }))
					call(cs, sbEe, "D::Encode", out, midS.cbegin(), midS.cend(), pol, prefill != 0, D, [&](auto& o, auto p) { return DCls::Encode(midS.cbegin(), midS.cend(), o, p); });
			}
		}
	}
}
template <Enc S> static void pairsFrom(const Case& cs) {
	if constexpr (S != R::U8) pairRoutes<S, R::U8>(cs);
	if constexpr (S != R::U16LE) pairRoutes<S, R::U16LE>(cs);
	if constexpr (S != R::U16BE) pairRoutes<S, R::U16BE>(cs);
	if constexpr (S != R::U32LE) pairRoutes<S, R::U32LE>(cs);
	if constexpr (S != R::U32BE) pairRoutes<S, R::U32BE>(cs);
}

// Transcode(it, it, out) and Transcode(string_view, out) between native strings, and Convert::To between string types
template <class InCh, class OutCh> static void transcodeOne(const Case& cs) {
	constexpr Enc SE = nativeOfWidth(sizeof(InCh)), DE = nativeOfWidth(sizeof(OutCh));
	static std::basic_string<InCh> in; static std::basic_string<OutCh> out;
	assignBytes(in, cs.ref[SE]);
	const char* on = std::is_same_v<OutCh, wchar_t> ? "wchar" : R::formName(sizeof(OutCh));
	const char* inn = std::is_same_v<InCh, wchar_t> ? "wchar" : R::formName(sizeof(InCh));
	static const std::string nm = std::string("C11/") + inn + "->" + on, nmIt = nm + "/api=Transcode(it)", nmSv = nm + "/api=Transcode(sv)";
	for (int pol = 0; pol < 2; ++pol) for (int prefill = 0; prefill < 2; ++prefill) {
		call(cs, nmIt, "Transcode(it)", out, in.cbegin(), in.cend(), pol, prefill != 0, DE, [&](auto& o, auto p) { return U::Transcode(in.cbegin(), in.cend(), o, p); });
		const std::basic_string_view<InCh> sv(in);
		call(cs, nmSv, "Transcode(string_view)", out, sv.cbegin(), sv.cend(), pol, prefill != 0, DE, [&](auto& o, auto p) { return U::Transcode(sv, o, p); });
	}
	// Convert::To<TOut>(TIn): no result object; the converted string must be exact and nothing may be thrown
	++gAcc.calls;
	const char* kind = nullptr; static std::string got, extra; got.clear(); extra.clear();
	try {
		auto r = BS::Convert::To<std::basic_string<OutCh>>(in);
		if (!equalsBytes(r, cs.pre[DE], false, cs.ref[DE])) { kind = "wrong_units"; got = hexOf(r); }
		auto t = BS::Convert::TryTo<std::basic_string<OutCh>>(in);
		if (!kind && (!t.has_value() || *t != r)) kind = "tryto_differs";
	}
	catch (const bsx::SkipSubtree&) { throw; }
	catch (const std::exception& ex) { kind = "exception"; extra = bsx::demangle(typeid(ex).name()) + ": " + ex.what(); }
	if (!kind) { gAcc.outcome("exact:convert_to"); return; }
	gAcc.outcome(kind);
	gAcc.violation(*gCtx, nm + "/api=Convert::To/policy=throw/range=" + cs.range + "/out=" + kind, [&] { return "Convert::To of " + scalarsStr(cs) + ": got bytes " + got + ", expected " + hexOf(cs.ref[DE]) + " " + extra; });
}
template <class InCh> static void transcodeFrom(const Case& cs) { transcodeOne<InCh, char>(cs); transcodeOne<InCh, char16_t>(cs); transcodeOne<InCh, char32_t>(cs); transcodeOne<InCh, wchar_t>(cs); }

static void judgeCase(Case& cs) {
	prepare(cs);
	pairsFrom<R::U8>(cs); pairsFrom<R::U16LE>(cs); pairsFrom<R::U16BE>(cs); pairsFrom<R::U32LE>(cs); pairsFrom<R::U32BE>(cs);
	transcodeFrom<char>(cs); transcodeFrom<char16_t>(cs); transcodeFrom<char32_t>(cs); transcodeFrom<wchar_t>(cs);
}

static const char* rangeOf(uint32_t c) { return c < 0x80 ? "ascii" : c < 0x800 ? "two_byte" : c < 0xD800 ? "bmp_below_surrogates" : c < 0x10000 ? "bmp_above_surrogates" : "supplementary"; }

// ------------------------------------------------------------------------------------------ (C) strings inside archives
static const uint32_t kAlpha[] = {0x0000, 0x41, 0x7F, 0x80, 0x7FF, 0x800, 0xD7FF, 0xE000, 0xFEFF, 0xFFFD, 0xFFFE, 0xFFFF, 0x10000, 0x10FFFF};   // 14 boundary scalars
static constexpr int kAlphaN = static_cast<int>(sizeof(kAlpha) / sizeof(kAlpha[0]));

template <class Ch> static std::basic_string<Ch> nativeStr(const uint32_t* sc, size_t n) { Bytes b; encodeSeq(sc, n, nativeOfWidth(sizeof(Ch)), b); std::basic_string<Ch> s; assignBytes(s, b); return s; }

template <class Str> struct Holder {
	Str value; std::map<Str, int> keyed;
	template <class A> void Serialize(A& ar) { ar << BS::KeyValue("v", value) << BS::KeyValue("m", keyed); }
};
template <class Str> struct Row { Str value; template <class A> void Serialize(A& ar) { ar << BS::KeyValue("v", value); } };

template <class Archive, class Str> static void archiveOne(bsx::Ctx& c, const char* arName, const char* strName, const uint32_t* sc, size_t n, const std::string& utf8Ref, const char* range) {
	for (int pol = 0; pol < 2; ++pol) {
		++gAcc.calls;
		BS::SerializationOptions opt; opt.utfEncodingErrorPolicy = kPol[pol];
		const std::string sig = std::string("C11/archive=") + arName + "/string=" + strName + "/policy=" + polNames[pol] + "/range=" + range;
		const char* kind = nullptr; std::string extra, bytes;
		try {
			using Ch = typename Str::value_type;
			if constexpr (std::is_same_v<Archive, BS::Csv::CsvArchive>) {
				std::vector<Row<Str>> rows(1), back; rows[0].value = nativeStr<Ch>(sc, n);
				BS::SaveObject<Archive>(rows, bytes, opt);
				BS::LoadObject<Archive>(back, bytes, opt);
				if (back.size() != 1 || back[0].value != rows[0].value) kind = "roundtrip_differs";
			} else {
				Holder<Str> h, back; h.value = nativeStr<Ch>(sc, n); h.keyed[h.value] = 7;
				BS::SaveObject<Archive>(h, bytes, opt);
				// the stored form is UTF-8: MsgPack stores the bytes verbatim (value and key)
				if constexpr (std::is_same_v<Archive, BS::MsgPack::MsgPackArchive>) {
					size_t first = bytes.find(utf8Ref); if (first == std::string::npos || bytes.find(utf8Ref, first + std::max<size_t>(utf8Ref.size(), 1)) == std::string::npos) if (!utf8Ref.empty()) kind = "stored_bytes_not_utf8_reference";
				}
				BS::LoadObject<Archive>(back, bytes, opt);
				if (!kind && back.value != h.value) kind = "value_roundtrip_differs";
				if (!kind && back.keyed != h.keyed) kind = "key_roundtrip_differs";
			}
		}
		catch (const bsx::SkipSubtree&) { throw; }
		catch (const BS::SerializationException& ex) { kind = "exception"; extra = std::string("SerializationException: ") + ex.what(); }
		catch (const std::exception& ex) { kind = "exception"; extra = bsx::demangle(typeid(ex).name()) + ": " + ex.what(); }
		if (!kind) { gAcc.outcome("archive:roundtrip_exact"); continue; }
		gAcc.outcome(kind);
		std::string s; for (size_t i = 0; i < n; ++i) s += bsx::fmt("%sU+%04X", i ? " " : "", sc[i]);
		gAcc.violation(c, sig + "/out=" + kind, [&] { return std::string(arName) + " " + strName + " [" + s + "]: " + kind + " " + extra + " archive bytes=" + bsx::hex(bytes.substr(0, 120)); });
	}
}
template <class Archive> static void archiveAll(bsx::Ctx& c, const char* arName, const uint32_t* sc, size_t n, const char* range) {
	Bytes b; encodeSeq(sc, n, R::U8, b); const std::string u8(reinterpret_cast<const char*>(b.b), b.n);
	archiveOne<Archive, std::string>(c, arName, "string", sc, n, u8, range);
	archiveOne<Archive, std::u16string>(c, arName, "u16string", sc, n, u8, range);
	archiveOne<Archive, std::u32string>(c, arName, "u32string", sc, n, u8, range);
	archiveOne<Archive, std::wstring>(c, arName, "wstring", sc, n, u8, range);
}

// ------------------------------------------------------------------------------------------ body
enum Scen { S_AllScalars = 0, S_Sequences, S_Archives, SCENS };
static constexpr uint32_t kBlock = 0x800;   // 2048 code points per execution: 544 blocks

static void body(bsx::Ctx& c) {
	const bool thorough = c.tier == "thorough";
	gCtx = &c; gAcc.reset();
	static Case cs; static bool prefixReady = false; if (!prefixReady) { preparePrefix(cs); prefixReady = true; }
	// variant `fast` (-DC11_SWEEP, plain -O2): the all-scalars sweep + sequences; sanitizer variant: sequences + archives
#ifdef C11_SWEEP
	static const int kScen[] = {S_AllScalars, S_Sequences};
#else
	static const int kScen[] = {S_Sequences, S_Archives};
#endif
	const int scen = kScen[c.choose(2, "scenario")];
	if (scen == S_AllScalars) {
		const int blk = c.choose(0x110000 / kBlock, "block");
		const uint32_t lo = static_cast<uint32_t>(blk) * kBlock;
		c.describe("C11/all_scalars", bsx::fmt("scalars U+%04X..U+%04X", lo, lo + kBlock - 1));
		uint64_t scalars = 0;
		for (uint32_t cp = lo; cp < lo + kBlock; ++cp) {
			if (!R::isScalar(cp)) continue;
			cs.scalars = &cp; cs.n = 1; cs.range = rangeOf(cp);
			judgeCase(cs); ++scalars;
			if ((cp & 63) == 0) c.heartbeat();
		}
		if (scalars) c.nontrivial(bsx::fmt("block %d", blk));
		if (blk == 0) c.sample("all_scalars block 0: U+0000..U+07FF, each through 20 pairs x 2 routes x 2 policies x 2 output states + 16 Transcode/Convert::To type pairs");
	} else if (scen == S_Sequences) {
		const int len = c.choose(thorough ? 5 : 4, "length");
		const int f0 = len >= 1 ? c.choose(kAlphaN, "first") : 0;
		const int f1 = len >= 2 ? c.choose(kAlphaN, "second") : 0;
		c.describe("C11/sequences", bsx::fmt("sequences of %d boundary scalars starting U+%04X U+%04X", len, kAlpha[f0], kAlpha[f1]));
		uint32_t s[4] = {kAlpha[f0], kAlpha[f1], 0, 0};
		const int rest = len > 2 ? len - 2 : 0; int idx[2] = {0, 0};
		for (;;) {
			for (int i = 0; i < rest; ++i) s[2 + i] = kAlpha[idx[i]];
			cs.scalars = s; cs.n = static_cast<size_t>(len); cs.range = "sequence";
			judgeCase(cs); c.nontrivial(bsx::fmt("%d:%x:%x:%x:%x", len, s[0], s[1], s[2], s[3]));
			c.heartbeat();
			int k = rest - 1; while (k >= 0) { if (++idx[k] < kAlphaN) break; idx[k] = 0; --k; }
			if (k < 0) break;
		}
		if (len == 2 && f0 == 0 && f1 == 13) c.sample("sequences: [U+0000 U+10FFFF] through every pair/route/policy/output state");
	} else {
		// alphabet strings of length 1..2 (thorough 1..3) as values and map keys of the four string types
		const int ar = c.choose(3, "archive");
		const int len = 1 + c.choose(thorough ? 3 : 2, "length");
		const int f0 = c.choose(kAlphaN, "first");
		static const char* arNames[] = {"msgpack", "json", "csv"};
		c.describe(std::string("C11/archive=") + arNames[ar], bsx::fmt("strings of %d boundary scalars starting U+%04X as values/keys", len, kAlpha[f0]));
		uint32_t s[3] = {kAlpha[f0], 0, 0}; int idx[2] = {0, 0}; const int rest = len - 1;
		for (;;) {
			for (int i = 0; i < rest; ++i) s[1 + i] = kAlpha[idx[i]];
			bool hasNul = false, hasNonChar = false; for (int i = 0; i < len; ++i) { if (s[i] == 0) hasNul = true; if (s[i] == 0xFFFE || s[i] == 0xFFFF) hasNonChar = true; }
			const char* range = hasNul ? "contains_U+0000" : hasNonChar ? "contains_noncharacter" : "boundary_scalars";
			if (ar == 0) archiveAll<BS::MsgPack::MsgPackArchive>(c, "msgpack", s, static_cast<size_t>(len), range);
			else if (ar == 1) archiveAll<BS::Json::RapidJson::JsonArchive>(c, "json", s, static_cast<size_t>(len), range);
			else archiveAll<BS::Csv::CsvArchive>(c, "csv", s, static_cast<size_t>(len), range);
			c.nontrivial(bsx::fmt("a%d:%d:%x:%x:%x", ar, len, s[0], s[1], s[2]));
			c.heartbeat();
			int k = rest - 1; while (k >= 0) { if (++idx[k] < kAlphaN) break; idx[k] = 0; --k; }
			if (k < 0) break;
		}
	}
	gAcc.flush(c);
	if (gAcc.calls > 1) c.evals(gAcc.calls - 1);
}

int main(int argc, char** argv) {
	std::string st = R::selfTest(true);
	if (!st.empty()) { fprintf(stderr, "ref_utf self-test failed: %s\n", st.c_str()); return 2; }
	bsx::Config cfg; cfg.part_depth = 3; cfg.max_dev = 0; cfg.hang_s = 15;
	bsx::Engine e("C11", body, cfg);
	return e.main(argc, argv);
}
