// C18 — xml instantiations, part 0 and the dispatcher (see c18_populated_target.cpp).
#include "harness/c18_common.hpp"
#include "bitserializer/pugixml_archive.h"
std::vector<c18::Entry> c18_table_xml_b();
std::vector<c18::Entry> c18_table_xml(int part) { return part == 0 ? c18::makeTable<BitSerializer::Xml::PugiXml::XmlArchive, true, 0>() : c18_table_xml_b(); }
