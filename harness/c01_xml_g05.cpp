// C01 type catalogue, archive xml, group 5 (see harness/c01_groups.hpp)
#include "bitserializer/pugixml_archive.h"
#include "harness/c01_groups.hpp"
std::vector<c01::Entry> c01_tab_xml_g05() { return c01::makeGroup<BitSerializer::Xml::PugiXml::XmlArchive, c01::Xml, 5>(); }
