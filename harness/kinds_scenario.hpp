// kinds_scenario.hpp - scenario shared by C05 and C17: every scalar target kind (bool, int32, uint8, double, string, registered
// enum, time_point, duration) carries Required and a validator that records the `isLoaded` flag the library passes to validators.
// Each field of a well-typed document is replaced by a value of another kind, or removed (<= N offences), and the document is
// loaded with the Skip policies in MsgPack, JSON and XML from memory and stream.
#pragma once
#include "harness/typed_load.hpp"
#include "bitserializer/types/std/chrono.h"
#include <chrono>
// ---- target-kind scenario: every scalar target kind with a Required validator and a validator that records `isLoaded` ----
// Relational oracle (no table of which value kinds a target accepts): a field is reported loaded <=> its target holds a value from
// the document; reported not loaded <=> the target still holds its canary and Required fires for exactly that path. Fields
// without an offence load their document value. Kinds: bool, int32, uint8, double, string, registered enum, time_point, duration.
enum class Hue { Red, Green, Blue, Canary };
REGISTER_ENUM(Hue, { {Hue::Red, "Red"}, {Hue::Green, "Green"}, {Hue::Blue, "Blue"}, {Hue::Canary, "Canary"} })
struct Kinds {
	using TP = std::chrono::time_point<std::chrono::system_clock, std::chrono::milliseconds>;
	bool b = true; int32_t i = -777; uint8_t u = 201; double d = -7.25; std::string s = "canary"; Hue e = Hue::Canary; TP t{std::chrono::milliseconds(-777)}; std::chrono::seconds dur{-777}; int32_t z = -778;
	bool L[9] = {false, false, false, false, false, false, false, false, false};
	template <class A> void Serialize(A& ar) {
		namespace B = BitSerializer; int n = 0;
		auto rec = [this](int idx) { return [this, idx](const auto&, bool isLoaded) -> std::optional<std::string> { L[idx] = isLoaded; return std::nullopt; }; };
		ar << B::KeyValue("b", b, B::Required(), rec(0)) << B::KeyValue("i", i, B::Required(), rec(1)) << B::KeyValue("u", u, B::Required(), rec(2)) << B::KeyValue("d", d, B::Required(), rec(3))
		   << B::KeyValue("s", s, B::Required(), rec(4)) << B::KeyValue("e", e, B::Required(), rec(5)) << B::KeyValue("t", t, B::Required(), rec(6)) << B::KeyValue("dur", dur, B::Required(), rec(7))
		   << B::KeyValue("z", z, B::Required(), rec(8)); (void)n;
	}
};
static bool endsWith(const std::string& a, const std::string& b) { return a.size() >= b.size() && a.compare(a.size() - b.size(), b.size(), b) == 0; }
// singleChoice: exactly <= 1 offence, chosen with choose() (for engines that run without a deviation budget)
static void kindsScenario(bsx::Ctx& c, const char* prop, const std::vector<std::pair<std::string, ref::Val>>& offs, bool singleChoice = false) {
	using ref::Val; using tl::archName;
	static const char* keys[] = {"b", "i", "u", "d", "s", "e", "t", "dur", "z"};
	int arch = c.choose(3, "archive"); bool stream = c.flag("stream");
	// the well-typed document, per format: chrono values are binary timestamps in MsgPack and ISO text elsewhere
	Val tv = arch == tl::MsgPack ? Val::ts(1577934245, 678000000) : Val::str("2020-01-02T03:04:05.678Z");
	Val dv = arch == tl::MsgPack ? Val::ts(3661, 0) : Val::str("PT1H1M1S");
	Val doc = Val::map({{Val::str("b"), Val::boolean(false)}, {Val::str("i"), Val::integer(5)}, {Val::str("u"), Val::integer(200)}, {Val::str("d"), Val::dbl(1.5)}, {Val::str("s"), Val::str("text")},
		{Val::str("e"), Val::str("Green")}, {Val::str("t"), tv}, {Val::str("dur"), dv}, {Val::str("z"), Val::integer(9)}});
	bool off[9] = {false}, absent[9] = {false}; std::string offDesc, offCls;
	const int nAlt = 1 + static_cast<int>(offs.size());
	int selField = -1, selK = 0;
	if (singleChoice) { int sel = c.choose(1 + 9 * nAlt, "field x offence"); if (sel) { selField = (sel - 1) / nAlt; selK = (sel - 1) % nAlt + 1; } }
	for (size_t i = 0; i < 9; ++i) {
		int k = singleChoice ? (static_cast<int>(i) == selField ? selK : 0) : c.deviate(2 + static_cast<int>(offs.size()), "offence");
		if (!k) continue;
		if (k == 1 + static_cast<int>(offs.size())) { absent[i] = true; off[i] = true; offDesc += std::string(keys[i]) + "=absent "; offCls += std::string(keys[i]) + ":absent,"; continue; }
		const auto& of = offs[static_cast<size_t>(k - 1)];
		if (of.second.k == Val::Str && of.second.ext_type == 1 && (arch != tl::Xml || of.first == "cdata_num")) continue;   // numeric CDATA is well-typed for most scalar kinds
		if (of.second.k == doc.m[i].second.k && of.first != "bigint" && of.first != "str" && of.first != "str8") continue;
		if (arch != tl::MsgPack && (of.second.k == Val::Bin || of.second.k == Val::Ts || of.second.k == Val::Ext)) continue;
		if (arch == tl::Xml && of.second.k == Val::Nil) continue;
		doc.m[i].second = of.second; off[i] = true; offDesc += std::string(keys[i]) + "=" + of.first + " "; offCls += std::string(keys[i]) + ":" + of.first + ",";
	}
	{ Val kept = Val::map(); for (size_t i = 0; i < 9; ++i) if (!absent[i]) kept.m.push_back(doc.m[i]); doc = kept; }
	if (!tl::canCarry(arch, doc)) { c.outcome("n/a:format_cannot_carry"); return; }
	std::string bytes = tl::emit(arch, doc);
	std::string sigbase = std::string(prop) + "/kinds/" + archName(arch) + (stream ? "/stream" : "/mem");
	c.describe(sigbase + "/off=" + offCls, offDesc + "doc=" + (arch == tl::MsgPack ? bsx::hex(bytes) : bytes));
	Kinds k; auto o = lib::opts(false, false);
	std::map<std::string, std::vector<std::string>> errs; bool validationThrown = false;
	auto run = [&](auto tag) { using A = typename decltype(tag)::type; return lib::guard([&] {
		try { if (stream) { std::istringstream is(bytes); BitSerializer::LoadObject<A>(k, is, o); } else BitSerializer::LoadObject<A>(k, bytes, o); }
		catch (const BitSerializer::ValidationException& e) { validationThrown = true; errs = e.GetValidationErrors(); } }); };
	struct TMP { using type = tl::MP; }; struct TJS { using type = tl::JS; }; struct TXM { using type = tl::XM; };
	lib::Out out = arch == tl::MsgPack ? run(TMP{}) : arch == tl::Json ? run(TJS{}) : run(TXM{});
	c.outcome(validationThrown ? "validation_exception" : out.cls); if (!offDesc.empty()) c.nontrivial(sigbase + offDesc);
	if (offDesc == "e=str " && arch == 1 && !stream) c.sample(sigbase + " " + offDesc + "-> " + (validationThrown ? "ValidationException" : out.cls));
	std::string tail = " | " + offDesc + "doc=" + (arch == tl::MsgPack ? bsx::hex(bytes) : bytes);
	if (!out.ok()) { c.violation(sigbase + "/off=" + offCls + "/out=" + out.cls, "Skip/Skip policies, well-formed document, but the load threw " + out.cls + ": " + out.what + tail); return; }
	const bool canary[9] = {true /* bool: not observable */, k.i == -777, k.u == 201, k.d == -7.25, k.s == "canary", k.e == Hue::Canary, k.t == Kinds::TP{std::chrono::milliseconds(-777)}, k.dur == std::chrono::seconds(-777), k.z == -778};
	const bool valid[9] = {k.b == false, k.i == 5, k.u == 200, k.d == 1.5, k.s == "text", k.e == Hue::Green, k.t == Kinds::TP{std::chrono::milliseconds(1577934245678ll)}, k.dur == std::chrono::seconds(3661), k.z == 9};
	for (int f = 0; f < 9; ++f) {
		std::string fs = sigbase + "/field=" + keys[f] + (off[f] ? "/offended" : "/plain");
		bool requiredFired = false; for (auto& kv : errs) if (endsWith(kv.first, std::string("/") + keys[f])) requiredFired = true;   // XML paths start with the root element
		if (!off[f]) {
			if (!k.L[f] || !valid[f] || requiredFired) c.violation(fs + "/out=neighbour_disturbed", std::string("field without an offence: reported loaded=") + (k.L[f] ? "true" : "false") + ", holds its document value: " + (valid[f] ? "yes" : "no") + ", Required fired: " + (requiredFired ? "yes" : "no") + tail);
			continue;
		}
		if (absent[f] && k.L[f]) c.violation(fs + "/out=absent_field_reported_loaded", "the key is not in the document, but the validators were told the field was loaded" + tail);
		if (k.L[f]) {
			if (f != 0 && canary[f]) c.violation(fs + "/out=reported_loaded_but_target_untouched", "the validators were told the field was loaded, but its target still holds the previous value" + tail);
			if (requiredFired) c.violation(fs + "/out=required_fired_for_loaded_field", "Required fired although the field is reported loaded" + tail);
		} else {
			if (f != 0 && !canary[f]) c.violation(fs + "/out=skipped_target_changed", "the field is reported not loaded, but its target no longer holds the previous value" + tail);
			if (f == 0 && k.b != true) c.violation(fs + "/out=skipped_target_changed", "the bool field is reported not loaded, but its target changed" + tail);
			if (!requiredFired) c.violation(fs + "/out=required_did_not_fire", "the field is reported not loaded, but no Required error is listed for its path" + tail);
		}
	}
	for (auto& kv : errs) { bool known = false; for (int f = 0; f < 9; ++f) if (endsWith(kv.first, std::string("/") + keys[f])) known = true; if (!known) c.violation(sigbase + "/out=unknown_error_path", "validation error for an unknown path '" + kv.first + "'" + tail); }
}

