// c01_common.hpp — shared part of the C01 harness (save -> load reproduces the value in every
// archive and output configuration; load -> save -> load is a fixed point).
//
// Generic over the archive so that every (archive, type group) pair gets its own small translation
// unit (c01_<archive>_gNN.cpp). Contents:
//   * value operations written without the library: show / eq (floats bit-wise, NaN == NaN);
//   * NAMED value alphabets per leaf type (integers at every MsgPack/JSON width threshold, floats,
//     strings in four widths, enum, chrono) and the rules that build compound values from them
//     (domCount / domMake: sequences n0, n1 x full element alphabet, n2 / n3 x reduced alphabet; maps,
//     sets, optional, pointers, pair, tuple, classes via tie(), C arrays, bitset, atomic);
//   * placements: AtRoot / AtElem (array element followed by a sentinel) / AtMember (object member
//     followed by a sentinel) / CsvRows (CSV: one or two rows {v, z});
//   * output configurations and the summary of a set of failing configurations into a class name;
//   * runCase<A, W>: one case = (type, value, placement) run through ALL configurations of the archive.
#pragma once
#include "models/lib.hpp"
#include "bitserializer/types/std/array.h"
#include "bitserializer/types/std/atomic.h"
#include "bitserializer/types/std/bitset.h"
#include "bitserializer/types/std/chrono.h"
#include "bitserializer/types/std/ctime.h"
#include "bitserializer/types/std/deque.h"
#include "bitserializer/types/std/forward_list.h"
#include "bitserializer/types/std/list.h"
#include "bitserializer/types/std/map.h"
#include "bitserializer/types/std/memory.h"
#include "bitserializer/types/std/optional.h"
#include "bitserializer/types/std/pair.h"
#include "bitserializer/types/std/queue.h"
#include "bitserializer/types/std/set.h"
#include "bitserializer/types/std/stack.h"
#include "bitserializer/types/std/tuple.h"
#include "bitserializer/types/std/unordered_map.h"
#include "bitserializer/types/std/unordered_set.h"
#include "bitserializer/types/std/valarray.h"
#include "bitserializer/types/std/vector.h"
#include <cfloat>
#include <climits>
#include <cmath>

namespace c01 {

namespace BS = BitSerializer;
using i128 = __int128;

enum Arch { MsgPack = 0, Json = 1, Xml = 2, Csv = 3 };
inline const char* archName(int a) { static const char* n[] = {"msgpack", "json", "xml", "csv"}; return n[a]; }
enum Pos { Root = 0, Elem = 1, Member = 2 };
inline const char* posName(int p) { static const char* n[] = {"root", "elem", "member"}; return n[p]; }
inline bool& thorough() { static bool t = false; return t; }

// ---------------------------------------------------------------------------------------------
// model types of the catalogue
// ---------------------------------------------------------------------------------------------
enum class Color : int { Red = 0, Green = 1, Blue = -1 };
REGISTER_ENUM(Color, { { Color::Red, "Red" }, { Color::Green, "Green" }, { Color::Blue, "Blue" } })

struct Pt {                        // class with internal Serialize()
	int x = 0; std::string s;
	template <class S> static auto tie(S& o) { return std::tie(o.x, o.s); }
	static std::string name() { return "Pt"; }
	template <class A> void Serialize(A& ar) { ar << BS::KeyValue("x", x) << BS::KeyValue("s", s); }
};
struct PtExt {                     // class with external SerializeObject()
	int x = 0; std::string s;
	template <class S> static auto tie(S& o) { return std::tie(o.x, o.s); }
	static std::string name() { return "PtExt"; }
};
template <class A> void SerializeObject(A& ar, PtExt& p) { ar << BS::KeyValue("x", p.x) << BS::KeyValue("s", p.s); }
struct Base { int b = 0; template <class A> void Serialize(A& ar) { ar << BS::KeyValue("b", b); } };
struct Derived : Base {            // base class through BaseObject<>, internal serialisation
	std::string d;
	template <class S> static auto tie(S& o) { return std::tie(o.b, o.d); }
	static std::string name() { return "Derived:Base"; }
	template <class A> void Serialize(A& ar) { ar << BS::BaseObject<Base>(*this) << BS::KeyValue("d", d); }
};
struct BaseExt { int b = 0; };
template <class A> void SerializeObject(A& ar, BaseExt& o) { ar << BS::KeyValue("b", o.b); }
struct DerivedExt : BaseExt {      // base class through BaseObject<>, external serialisation
	std::string d;
	template <class S> static auto tie(S& o) { return std::tie(o.b, o.d); }
	static std::string name() { return "DerivedExt:BaseExt"; }
};
template <class A> void SerializeObject(A& ar, DerivedExt& o) { ar << BS::BaseObject<BaseExt>(o) << BS::KeyValue("d", o.d); }
struct Cond {                      // conditional field: `v` exists only when `has`
	bool has = false; int v = 0;
	static std::string name() { return "Cond"; }
	template <class A> void Serialize(A& ar) { ar << BS::KeyValue("has", has); if (has) ar << BS::KeyValue("v", v); }
};
struct WithEmpty {                 // object with a (possibly empty) container member between two scalars
	int a = 0; std::vector<int> v; int z = 0;
	template <class S> static auto tie(S& o) { return std::tie(o.a, o.v, o.z); }
	static std::string name() { return "WithEmpty"; }
	template <class A> void Serialize(A& ar) { ar << BS::KeyValue("a", a) << BS::KeyValue("v", v) << BS::KeyValue("z", z); }
};
struct Outer {                     // nested classes
	Pt p; std::vector<Pt> ps; std::optional<Pt> o;
	template <class S> static auto tie(S& x) { return std::tie(x.p, x.ps, x.o); }
	static std::string name() { return "Outer"; }
	template <class A> void Serialize(A& ar) { ar << BS::KeyValue("p", p) << BS::KeyValue("ps", ps) << BS::KeyValue("o", o); }
};
struct Row {                       // the CSV row of the container-of-rows entries
	int x = 0; std::string y;
	template <class S> static auto tie(S& o) { return std::tie(o.x, o.y); }
	static std::string name() { return "Row"; }
	template <class A> void Serialize(A& ar) { ar << BS::KeyValue("x", x) << BS::KeyValue("y", y); }
};
// leaf types that are handed to the archive through a library wrapper
struct BinColor { Color v = Color::Red; };     // EnumAsBin<Color>
struct RawTime { time_t t = 0; };              // CTimeRef

template <class D> using TP = std::chrono::time_point<std::chrono::system_clock, D>;

// ---------------------------------------------------------------------------------------------
// traits (after harness/c18_common.hpp)
// ---------------------------------------------------------------------------------------------
template <class T, template <class...> class Tpl> struct is_spec : std::false_type {};
template <template <class...> class Tpl, class... A> struct is_spec<Tpl<A...>, Tpl> : std::true_type {};
template <class T, template <class...> class Tpl> constexpr bool is_spec_v = is_spec<T, Tpl>::value;
template <class T> constexpr bool is_string_v = is_spec_v<T, std::basic_string>;
template <class T> constexpr bool is_unique_v = is_spec_v<T, std::unique_ptr>;
template <class T> constexpr bool is_shared_v = is_spec_v<T, std::shared_ptr>;
template <class T> constexpr bool is_smart_v = is_unique_v<T> || is_shared_v<T>;
template <class T> constexpr bool is_optional_v = is_spec_v<T, std::optional>;
template <class T> constexpr bool is_pair_v = is_spec_v<T, std::pair>;
template <class T> constexpr bool is_tuple_v = is_spec_v<T, std::tuple>;
template <class T> constexpr bool is_valarray_v = is_spec_v<T, std::valarray>;
template <class T> constexpr bool is_queue_v = is_spec_v<T, std::queue>;
template <class T> constexpr bool is_stack_v = is_spec_v<T, std::stack>;
template <class T> constexpr bool is_pqueue_v = is_spec_v<T, std::priority_queue>;
template <class T> constexpr bool is_adapter_v = is_queue_v<T> || is_stack_v<T> || is_pqueue_v<T>;
template <class T> constexpr bool is_fwdlist_v = is_spec_v<T, std::forward_list>;
template <class T> constexpr bool is_atomic_v = is_spec_v<T, std::atomic>;
template <class T> struct is_stdarray : std::false_type {};
template <class E, size_t N> struct is_stdarray<std::array<E, N>> : std::true_type {};
template <class T> constexpr bool is_stdarray_v = is_stdarray<T>::value;
template <class T> struct is_bitset : std::false_type {};
template <size_t N> struct is_bitset<std::bitset<N>> : std::true_type {};
template <class T> constexpr bool is_bitset_v = is_bitset<T>::value;
template <class T> struct is_tp : std::false_type {};
template <class C, class D> struct is_tp<std::chrono::time_point<C, D>> : std::true_type {};
template <class T> constexpr bool is_tp_v = is_tp<T>::value;
template <class T> struct is_dur : std::false_type {};
template <class R, class P> struct is_dur<std::chrono::duration<R, P>> : std::true_type {};
template <class T> constexpr bool is_dur_v = is_dur<T>::value;
template <class T, class = void> struct has_member_begin : std::false_type {};
template <class T> struct has_member_begin<T, std::void_t<decltype(std::declval<const T&>().begin())>> : std::true_type {};
template <class T> constexpr bool is_iterable_v = has_member_begin<T>::value && !is_string_v<T> && !is_stdarray_v<T>;
template <class T, class = void> struct has_mapped : std::false_type {};
template <class T> struct has_mapped<T, std::void_t<typename T::mapped_type>> : std::true_type {};
template <class T> constexpr bool is_maplike_v = has_mapped<T>::value;
template <class T, class = void> struct has_key : std::false_type {};
template <class T> struct has_key<T, std::void_t<typename T::key_type>> : std::true_type {};
template <class T> constexpr bool is_keyed_v = has_key<T>::value;
template <class T> constexpr bool is_setlike_v = is_keyed_v<T> && !is_maplike_v<T>;
template <class T, class = void> struct has_hasher : std::false_type {};
template <class T> struct has_hasher<T, std::void_t<typename T::hasher>> : std::true_type {};
template <class T> constexpr bool is_unordered_v = has_hasher<T>::value;
template <class T> constexpr bool is_multi_v = is_spec_v<T, std::multiset> || is_spec_v<T, std::unordered_multiset> || is_spec_v<T, std::multimap> || is_spec_v<T, std::unordered_multimap>;
template <class T, class = void> struct has_tie : std::false_type {};
template <class T> struct has_tie<T, std::void_t<decltype(T::tie(std::declval<T&>()))>> : std::true_type {};
template <class T> constexpr bool has_tie_v = has_tie<T>::value;
template <class T> constexpr bool is_seqlike_v = (is_iterable_v<T> && !is_keyed_v<T>) || is_valarray_v<T> || is_adapter_v<T>;   // run-time sized sequences
template <class T> constexpr bool is_class_model_v = has_tie_v<T> || std::is_same_v<T, Cond>;

// what opens an array or an object at the place where it stands (XML: only these can be the document root)
template <class T> constexpr bool isCompound() {
	return std::is_array_v<T> || is_seqlike_v<T> || is_keyed_v<T> || is_stdarray_v<T> || is_bitset_v<T> || is_pair_v<T> || is_tuple_v<T> || is_class_model_v<T>;
}
template <class Ad> const typename Ad::container_type& baseOf(const Ad& a) {
	struct Acc : Ad { static const typename Ad::container_type& get(const Ad& x) { return x.*(&Acc::c); } };
	return Acc::get(a);
}

// ---------------------------------------------------------------------------------------------
// type names (signature symbols)
// ---------------------------------------------------------------------------------------------
template <class T> std::string tname();
template <class... A> std::string tnames() { std::string r; ((r += (r.empty() ? "" : ",") + tname<A>()), ...); return r; }
template <class D> std::string unitName() {
	using P = typename D::period;
	if (std::is_same_v<P, std::nano>) return "ns"; if (std::is_same_v<P, std::micro>) return "us"; if (std::is_same_v<P, std::milli>) return "ms";
	if (std::is_same_v<P, std::ratio<1>>) return "s"; if (std::is_same_v<P, std::ratio<60>>) return "min"; if (std::is_same_v<P, std::ratio<3600>>) return "h";
	return "?";
}
template <class T> std::string tname() {
	if constexpr (std::is_same_v<T, bool>) return "bool";
	else if constexpr (std::is_same_v<T, char>) return "char";
	else if constexpr (std::is_same_v<T, signed char>) return "int8";
	else if constexpr (std::is_same_v<T, unsigned char>) return "uint8";
	else if constexpr (std::is_same_v<T, short>) return "int16";
	else if constexpr (std::is_same_v<T, unsigned short>) return "uint16";
	else if constexpr (std::is_same_v<T, int>) return "int32";
	else if constexpr (std::is_same_v<T, unsigned>) return "uint32";
	else if constexpr (std::is_same_v<T, long>) return "int64";
	else if constexpr (std::is_same_v<T, unsigned long>) return "uint64";
	else if constexpr (std::is_same_v<T, long long>) return "longlong";
	else if constexpr (std::is_same_v<T, unsigned long long>) return "ulonglong";
	else if constexpr (std::is_same_v<T, float>) return "float";
	else if constexpr (std::is_same_v<T, double>) return "double";
	else if constexpr (std::is_same_v<T, std::byte>) return "byte";
	else if constexpr (std::is_same_v<T, std::nullptr_t>) return "nullptr_t";
	else if constexpr (std::is_same_v<T, std::string>) return "string";
	else if constexpr (std::is_same_v<T, std::u16string>) return "u16string";
	else if constexpr (std::is_same_v<T, std::u32string>) return "u32string";
	else if constexpr (std::is_same_v<T, std::wstring>) return "wstring";
	else if constexpr (std::is_same_v<T, Color>) return "enum";
	else if constexpr (std::is_same_v<T, BinColor>) return "EnumAsBin";
	else if constexpr (std::is_same_v<T, RawTime>) return "CTimeRef";
	else if constexpr (is_tp_v<T>) return "time_point<" + unitName<typename T::duration>() + ">";
	else if constexpr (is_dur_v<T>) return "duration<" + unitName<T>() + ">";
	else if constexpr (std::is_array_v<T>) return tname<std::remove_extent_t<T>>() + "[" + std::to_string(std::extent_v<T>) + "]";
	else if constexpr (is_atomic_v<T>) return "atomic<" + tname<typename T::value_type>() + ">";
	else if constexpr (is_unique_v<T>) return "unique_ptr<" + tname<typename T::element_type>() + ">";
	else if constexpr (is_shared_v<T>) return "shared_ptr<" + tname<typename T::element_type>() + ">";
	else if constexpr (is_optional_v<T>) return "optional<" + tname<typename T::value_type>() + ">";
	else if constexpr (is_pair_v<T>) return "pair<" + tname<typename T::first_type>() + "," + tname<typename T::second_type>() + ">";
	else if constexpr (is_tuple_v<T>) return std::apply([](auto&&... e) { return "tuple<" + tnames<std::decay_t<decltype(e)>...>() + ">"; }, T{});
	else if constexpr (is_stdarray_v<T>) return "array<" + tname<typename T::value_type>() + "," + std::to_string(std::tuple_size_v<T>) + ">";
	else if constexpr (is_bitset_v<T>) return "bitset<" + std::to_string(T{}.size()) + ">";
	else if constexpr (is_valarray_v<T>) return "valarray<" + tname<typename T::value_type>() + ">";
	else if constexpr (is_queue_v<T>) return "queue<" + tname<typename T::value_type>() + ">";
	else if constexpr (is_stack_v<T>) return "stack<" + tname<typename T::value_type>() + ">";
	else if constexpr (is_pqueue_v<T>) return "priority_queue<" + tname<typename T::value_type>() + ">";
	else if constexpr (is_spec_v<T, std::vector>) return "vector<" + tname<typename T::value_type>() + ">";
	else if constexpr (is_spec_v<T, std::deque>) return "deque<" + tname<typename T::value_type>() + ">";
	else if constexpr (is_spec_v<T, std::list>) return "list<" + tname<typename T::value_type>() + ">";
	else if constexpr (is_fwdlist_v<T>) return "forward_list<" + tname<typename T::value_type>() + ">";
	else if constexpr (is_spec_v<T, std::set>) return "set<" + tname<typename T::value_type>() + ">";
	else if constexpr (is_spec_v<T, std::multiset>) return "multiset<" + tname<typename T::value_type>() + ">";
	else if constexpr (is_spec_v<T, std::unordered_set>) return "unordered_set<" + tname<typename T::value_type>() + ">";
	else if constexpr (is_spec_v<T, std::unordered_multiset>) return "unordered_multiset<" + tname<typename T::value_type>() + ">";
	else if constexpr (is_spec_v<T, std::map>) return "map<" + tname<typename T::key_type>() + "," + tname<typename T::mapped_type>() + ">";
	else if constexpr (is_spec_v<T, std::multimap>) return "multimap<" + tname<typename T::key_type>() + "," + tname<typename T::mapped_type>() + ">";
	else if constexpr (is_spec_v<T, std::unordered_map>) return "unordered_map<" + tname<typename T::key_type>() + "," + tname<typename T::mapped_type>() + ">";
	else if constexpr (is_spec_v<T, std::unordered_multimap>) return "unordered_multimap<" + tname<typename T::key_type>() + "," + tname<typename T::mapped_type>() + ">";
	else return T::name();
}

// type family used in signatures: leaf types by name, compound types by their kind only (the exact type is in the detail
// text, the kinds of the leaves show in the value class)
template <class T> std::string tfam() {
	if constexpr (std::is_array_v<T> || is_stdarray_v<T>) return "fixed_array";
	else if constexpr (is_atomic_v<T>) return "atomic";
	else if constexpr (is_smart_v<T>) return "ptr";
	else if constexpr (is_optional_v<T>) return "optional";
	else if constexpr (is_pair_v<T>) return "pair";
	else if constexpr (is_tuple_v<T>) return "tuple";
	else if constexpr (is_maplike_v<T>) return is_multi_v<T> ? "multimap" : "map";
	else if constexpr (is_setlike_v<T>) return is_multi_v<T> ? "multiset" : "set";
	else if constexpr (is_seqlike_v<T>) return "seq";
	else if constexpr (is_class_model_v<T> || std::is_same_v<T, Row>) return "class";
	else return tname<T>();
}

// ---------------------------------------------------------------------------------------------
// show / eq (no library code)
// ---------------------------------------------------------------------------------------------
template <class T> std::string show(const T& v);
template <class Tup, size_t... I> std::string showTup(const Tup& t, std::index_sequence<I...>) { std::string r; ((r += (I ? "," : "") + show(std::get<I>(t))), ...); return r; }
template <class T> std::string show(const T& v) {
	if constexpr (std::is_same_v<T, bool>) return v ? "T" : "F";
	else if constexpr (std::is_same_v<T, std::nullptr_t>) return "nullptr";
	else if constexpr (std::is_same_v<T, std::byte>) return "byte(" + std::to_string(static_cast<int>(v)) + ")";
	else if constexpr (std::is_same_v<T, float>) { uint32_t b; std::memcpy(&b, &v, 4); return bsx::fmt("%.9g[%08x]", static_cast<double>(v), b); }
	else if constexpr (std::is_same_v<T, double>) { uint64_t b; std::memcpy(&b, &v, 8); return bsx::fmt("%.17g[%016llx]", v, static_cast<unsigned long long>(b)); }
	else if constexpr (std::is_integral_v<T>) return std::to_string(v);
	else if constexpr (std::is_enum_v<T>) return "enum(" + std::to_string(static_cast<long long>(v)) + ")";
	else if constexpr (std::is_same_v<T, BinColor>) return "enum(" + std::to_string(static_cast<long long>(v.v)) + ")";
	else if constexpr (std::is_same_v<T, RawTime>) return "time_t(" + std::to_string(static_cast<long long>(v.t)) + ")";
	else if constexpr (std::is_same_v<T, Cond>) return std::string("{has=") + (v.has ? "T" : "F") + ",v=" + std::to_string(v.v) + "}";
	else if constexpr (is_tp_v<T>) return std::to_string(static_cast<long long>(v.time_since_epoch().count())) + unitName<typename T::duration>() + "@epoch";
	else if constexpr (is_dur_v<T>) return std::to_string(static_cast<long long>(v.count())) + unitName<T>();
	else if constexpr (is_atomic_v<T>) return show(v.load());
	else if constexpr (std::is_array_v<T>) { std::string r = "["; for (size_t i = 0; i < std::extent_v<T>; ++i) r += (i ? "," : "") + show(v[i]); return r + "]"; }
	else if constexpr (is_string_v<T>) {
		std::string r = "\"";
		for (auto ch : v) { auto u = static_cast<uint32_t>(static_cast<std::make_unsigned_t<typename T::value_type>>(ch)); if (u >= 0x20 && u < 0x7f && u != '\\' && u != '"') r.push_back(static_cast<char>(u)); else r += bsx::fmt("\\u%04x", u); }
		return r + "\"";
	}
	else if constexpr (is_smart_v<T>) return v ? "&" + show(*v) : std::string("null");
	else if constexpr (is_optional_v<T>) return v ? "?" + show(*v) : std::string("nullopt");
	else if constexpr (is_pair_v<T>) return "(" + show(v.first) + ":" + show(v.second) + ")";
	else if constexpr (is_tuple_v<T>) return "(" + showTup(v, std::make_index_sequence<std::tuple_size_v<T>>{}) + ")";
	else if constexpr (is_bitset_v<T>) return "b" + v.to_string();
	else if constexpr (is_valarray_v<T>) { std::string r = "["; for (size_t i = 0; i < v.size(); ++i) r += (i ? "," : "") + show(v[i]); return r + "]"; }
	else if constexpr (is_stdarray_v<T>) { std::string r = "["; for (size_t i = 0; i < v.size(); ++i) r += (i ? "," : "") + show(v[i]); return r + "]"; }
	else if constexpr (is_adapter_v<T>) return show(baseOf(v));
	else if constexpr (has_tie_v<T>) { auto t = T::tie(v); return "{" + showTup(t, std::make_index_sequence<std::tuple_size_v<decltype(t)>>{}) + "}"; }
	else {
		std::vector<std::string> parts;
		for (auto it = v.begin(); it != v.end(); ++it) {
			if constexpr (is_maplike_v<T>) parts.push_back(show(it->first) + ":" + show(it->second));
			else { const typename T::value_type& e = *it; parts.push_back(show(e)); }
		}
		if constexpr (is_unordered_v<T>) std::sort(parts.begin(), parts.end());
		std::string r = is_keyed_v<T> ? "{" : "[";
		for (size_t i = 0; i < parts.size(); ++i) r += (i ? "," : "") + parts[i];
		return r + (is_keyed_v<T> ? "}" : "]");
	}
}

template <class T> bool eq(const T& a, const T& b);
template <class Tup, size_t... I> bool eqTup(const Tup& a, const Tup& b, std::index_sequence<I...>) { return (eq(std::get<I>(a), std::get<I>(b)) && ...); }
template <class Ad> std::vector<typename Ad::value_type> drain(Ad a) {
	std::vector<typename Ad::value_type> r;
	while (!a.empty()) { if constexpr (is_queue_v<Ad>) r.push_back(a.front()); else r.push_back(a.top()); a.pop(); }
	return r;
}
template <class T> bool eq(const T& a, const T& b) {
	if constexpr (std::is_floating_point_v<T>) return (std::isnan(a) && std::isnan(b)) || std::memcmp(&a, &b, sizeof a) == 0;   // bit-wise, NaN == NaN
	else if constexpr (std::is_same_v<T, std::nullptr_t>) return true;
	else if constexpr (std::is_same_v<T, BinColor>) return a.v == b.v;
	else if constexpr (std::is_same_v<T, RawTime>) return a.t == b.t;
	else if constexpr (std::is_same_v<T, Cond>) return a.has == b.has && a.v == b.v;
	else if constexpr (is_atomic_v<T>) return eq(a.load(), b.load());
	else if constexpr (std::is_array_v<T>) { for (size_t i = 0; i < std::extent_v<T>; ++i) if (!eq(a[i], b[i])) return false; return true; }
	else if constexpr (is_smart_v<T> || is_optional_v<T>) return static_cast<bool>(a) == static_cast<bool>(b) && (!a || eq(*a, *b));
	else if constexpr (is_pair_v<T>) return eq(a.first, b.first) && eq(a.second, b.second);
	else if constexpr (is_tuple_v<T>) return eqTup(a, b, std::make_index_sequence<std::tuple_size_v<T>>{});
	else if constexpr (has_tie_v<T>) { auto x = T::tie(a); auto y = T::tie(b); return eqTup(x, y, std::make_index_sequence<std::tuple_size_v<decltype(x)>>{}); }
	else if constexpr (is_valarray_v<T> || is_stdarray_v<T>) { if (a.size() != b.size()) return false; for (size_t i = 0; i < a.size(); ++i) if (!eq(a[i], b[i])) return false; return true; }
	else if constexpr (is_adapter_v<T>) return eq(drain(a), drain(b));
	else if constexpr (is_unordered_v<T>) return a == b;     // set / multiset semantics by definition of operator==
	else if constexpr (is_iterable_v<T> && !is_maplike_v<T>) {
		auto i = a.begin(); auto j = b.begin();
		for (; i != a.end() && j != b.end(); ++i, ++j) { const typename T::value_type& x = *i; const typename T::value_type& y = *j; if (!eq(x, y)) return false; }
		return i == a.end() && j == b.end();
	}
	else if constexpr (is_maplike_v<T>) {
		auto i = a.begin(); auto j = b.begin();
		for (; i != a.end() && j != b.end(); ++i, ++j) if (!eq(i->first, j->first) || !eq(i->second, j->second)) return false;
		return i == a.end() && j == b.end();
	}
	else return a == b;
}

// ---------------------------------------------------------------------------------------------
// named leaf alphabets
// ---------------------------------------------------------------------------------------------
constexpr unsigned XmlBit = 1u << Xml, CsvBit = 1u << Csv, JsonBit = 1u << Json, MsgPackBit = 1u << MsgPack;
struct Info {
	std::vector<std::string> syms;     // non-plain leaf symbols and structure marks met while building the value
	unsigned excl = 0;                 // archives whose format cannot carry the value
	bool asKey = false;                // the leaf being built is a map key
	bool keepPlain = false;            // top-level leaf: the class is the symbol itself, also for the boring ones
	int depth = 0;                     // 0 = the value itself, > 0 = inside a container / wrapper / class
	void add(std::string s, bool plain) {
		if (keepPlain) { syms.push_back(s); return; }
		if (plain) return;
		if (s.rfind("s:ws_", 0) == 0) s = "s:ws";            // inside compound values the four whitespace-only strings form one class
		syms.push_back(asKey ? "key:" + s : s);
	}
	std::string cls(const std::string& prefix) const {
		std::vector<std::string> u = syms; std::sort(u.begin(), u.end()); u.erase(std::unique(u.begin(), u.end()), u.end());
		std::string r; for (auto& s : u) r += (r.empty() ? "" : ",") + s;
		return prefix + "(" + (r.empty() ? "plain" : r) + ")";
	}
};
enum Mode { Full = 0, Few = 1 };
struct Deeper { Info& i; explicit Deeper(Info& x) : i(x) { ++i.depth; } ~Deeper() { --i.depth; } };

template <class T> struct NamedV { const char* name; T v; bool plain; };
template <class T> const std::vector<NamedV<T>>& intAlphabet() {
	static const std::vector<NamedV<T>> tab = [] {
		struct C { const char* n; i128 v; bool plain; };
		const i128 p63 = static_cast<i128>(1) << 63;
		const C cand[] = {
			{"0", 0, true}, {"1", 1, true}, {"-1", -1, true}, {"127", 127, false}, {"128", 128, false}, {"-32", -32, false}, {"-33", -33, false}, {"-128", -128, false}, {"-129", -129, false},
			{"255", 255, false}, {"256", 256, false}, {"2^15-1", 32767, false}, {"2^15", 32768, false}, {"-2^15", -32768, false}, {"-2^15-1", -32769, false}, {"2^16-1", 65535, false}, {"2^16", 65536, false},
			{"2^31-1", 2147483647ll, false}, {"2^31", 2147483648ll, false}, {"-2^31", -2147483648ll, false}, {"-2^31-1", -2147483649ll, false}, {"4e9", 4000000000ll, false}, {"2^32-1", 4294967295ll, false},
			{"2^32", 4294967296ll, false}, {"5e9", 5000000000ll, false}, {"-5e9", -5000000000ll, false}, {"2^53+1", (1ll << 53) + 1, false}, {"-2^53-1", -(1ll << 53) - 1, false},
			{"2^63-1", p63 - 1, false}, {"2^63", p63, false}, {"-2^63", -p63, false}, {"2^64-1", p63 * 2 - 1, false}};
		std::vector<NamedV<T>> r;
		const i128 lo = static_cast<i128>(std::numeric_limits<T>::min()), hi = static_cast<i128>(std::numeric_limits<T>::max());
		for (auto& c : cand) if (c.v >= lo && c.v <= hi) r.push_back({c.n, static_cast<T>(c.v), c.plain || c.v == hi});   // plain = member of the reduced alphabet (0, +-1, max)
		return r;
	}();
	return tab;
}
inline const std::vector<NamedV<float>>& floatAlphabet() {
	static const std::vector<NamedV<float>> t = {{"0", 0.f, true}, {"-0", -0.f, false}, {"1.5", 1.5f, true}, {"0.1", 0.1f, true}, {"max", FLT_MAX, false}, {"lowest", -FLT_MAX, false},
		{"min_normal", FLT_MIN, false}, {"denorm_min", std::numeric_limits<float>::denorm_min(), false}, {"2^24+2", 16777218.f, false}, {"nan", std::numeric_limits<float>::quiet_NaN(), false},
		{"inf", std::numeric_limits<float>::infinity(), false}, {"-inf", -std::numeric_limits<float>::infinity(), false}};
	return t;
}
inline const std::vector<NamedV<double>>& doubleAlphabet() {
	static const std::vector<NamedV<double>> t = {{"0", 0., true}, {"-0", -0., false}, {"1.5", 1.5, true}, {"0.1", 0.1, true}, {"max", DBL_MAX, false}, {"lowest", -DBL_MAX, false},
		{"min_normal", DBL_MIN, false}, {"denorm_min", std::numeric_limits<double>::denorm_min(), false}, {"fltmax", static_cast<double>(FLT_MAX), false}, {"2^53+2", 9007199254740994., false},
		{"1e-50", 1e-50, false}, {"nan", std::numeric_limits<double>::quiet_NaN(), false}, {"inf", std::numeric_limits<double>::infinity(), false}, {"-inf", -std::numeric_limits<double>::infinity(), false}};
	return t;
}
struct StrSym { const char* name; std::string utf8; bool plain; unsigned excl; bool xmlName; };
inline const std::vector<StrSym>& strAlphabet() {
	static const std::vector<StrSym> t = {
		{"empty", "", false, 0, false}, {"a", "a", true, 0, true}, {"euro", "\xE2\x82\xAC", true, 0, true},                       // the first three = reduced alphabet
		{"ws_sp", " ", false, 0, false}, {"sp_a_sp", " a ", false, 0, false}, {"e_acute", "\xC3\xA9", false, 0, true}, {"emoji", "\xF0\x9F\x98\x80", false, 0, true},
		{"quote", "\"", false, 0, false}, {"backslash", "\\", false, 0, false}, {"ltampgt", "<&>", false, 0, false}, {"ws_lf", "\n", false, 0, false}, {"ws_tab", "\t", false, 0, false},
		{"ws_cr", "\r", false, 0, false}, {"a_cr_b", "a\rb", false, 0, false}, {"seps", ",;|", false, 0, false},
		{"u0001", "\x01", false, XmlBit | CsvBit, false}, {"ufffd", "\xEF\xBF\xBD", false, 0, false}, {"uffff", "\xEF\xBF\xBF", false, XmlBit, false},
		{"len31", std::string(31, 'x'), false, 0, true}, {"len32", std::string(32, 'x'), false, 0, true}, {"len255", std::string(255, 'y'), false, 0, true}, {"len256", std::string(256, 'y'), false, 0, true}};
	return t;
}
inline std::u32string decode8(const std::string& s) {   // well-formed input only (the alphabet above)
	std::u32string r;
	for (size_t i = 0; i < s.size();) {
		unsigned char c = static_cast<unsigned char>(s[i]);
		int n = c < 0x80 ? 1 : c < 0xE0 ? 2 : c < 0xF0 ? 3 : 4;
		char32_t cp = n == 1 ? c : n == 2 ? (c & 0x1F) : n == 3 ? (c & 0x0F) : (c & 0x07);
		for (int k = 1; k < n; ++k) cp = (cp << 6) | (static_cast<unsigned char>(s[i + static_cast<size_t>(k)]) & 0x3F);
		r.push_back(cp); i += static_cast<size_t>(n);
	}
	return r;
}
template <class S> S widen(const std::string& utf8) {
	using C = typename S::value_type;
	if constexpr (sizeof(C) == 1) return S(utf8.begin(), utf8.end());
	else {
		S r;
		for (char32_t cp : decode8(utf8)) {
			if constexpr (sizeof(C) == 2) { if (cp >= 0x10000) { cp -= 0x10000; r.push_back(static_cast<C>(0xD800 + (cp >> 10))); r.push_back(static_cast<C>(0xDC00 + (cp & 0x3FF))); } else r.push_back(static_cast<C>(cp)); }
			else r.push_back(static_cast<C>(cp));
		}
		return r;
	}
}
// chrono: counts of the duration's own unit at the format boundaries (MsgPack timestamp 32/64/96, ISO year 9999/10000, range ends)
struct TimeSym { std::string name; long long count; bool plain; };
template <class D> const std::vector<TimeSym>& timeAlphabet() {
	static const std::vector<TimeSym> tab = [] {
		using P = typename D::period;
		std::vector<TimeSym> r;
		auto secs = [&](const char* n, i128 sec, i128 nanos, bool plain) {   // value = sec + nanos, if exactly representable in D (int64 count)
			i128 num = (sec * 1000000000 + nanos) * P::den, den = static_cast<i128>(1000000000) * P::num;
			if (num % den) return; i128 cnt = num / den;
			if (cnt < static_cast<i128>(LLONG_MIN) || cnt > static_cast<i128>(LLONG_MAX)) return;
			for (auto& x : r) if (x.count == static_cast<long long>(cnt)) return;
			r.push_back({n, static_cast<long long>(cnt), plain});
		};
		r.push_back({"epoch", 0, true}); r.push_back({"+1unit", 1, true}); r.push_back({"-1unit", -1, true});
		secs("+1.5s", 1, 500000000, false); secs("-0.5s", 0, -500000000, false); secs("-1.5s", -1, -500000000, false); secs("-1s", -1, 0, false);
		secs("2^32s-1s", 4294967295ll, 0, false); secs("2^32s", 4294967296ll, 0, false); secs("2^34s-1s", (1ll << 34) - 1, 0, false); secs("2^34s", 1ll << 34, 0, false);
		secs("y9999end", 253402300799ll, 0, false); secs("y10000", 253402300800ll, 0, false); secs("y0000", -62167219200ll, 0, false); secs("y-0001", -62198755200ll, 0, false);
		r.push_back({"min", LLONG_MIN, false}); r.push_back({"max", LLONG_MAX, false});
		return r;
	}();
	return tab;
}

// ---------------------------------------------------------------------------------------------
// domains: domCount<T>(mode) values, domMake<T>(mode, i, out, info) builds the i-th one
// ---------------------------------------------------------------------------------------------
template <class T> int domCount(int mode);
template <class T> void domMake(int mode, int i, T& out, Info& info);

template <class T> constexpr bool isLeaf() {
	return std::is_arithmetic_v<T> || std::is_same_v<T, std::byte> || std::is_same_v<T, std::nullptr_t> || is_string_v<T> || std::is_enum_v<T> || std::is_same_v<T, BinColor> || std::is_same_v<T, RawTime> || is_tp_v<T> || is_dur_v<T> || is_bitset_v<T>;
}
template <class T> int leafFull() {
	if constexpr (std::is_same_v<T, bool>) return 2;
	else if constexpr (std::is_same_v<T, std::nullptr_t>) return 1;
	else if constexpr (std::is_same_v<T, std::byte>) return static_cast<int>(intAlphabet<unsigned char>().size());
	else if constexpr (std::is_same_v<T, float>) return static_cast<int>(floatAlphabet().size());
	else if constexpr (std::is_same_v<T, double>) return static_cast<int>(doubleAlphabet().size());
	else if constexpr (std::is_integral_v<T>) return static_cast<int>(intAlphabet<T>().size());
	else if constexpr (is_string_v<T>) return static_cast<int>(strAlphabet().size());
	else if constexpr (std::is_same_v<T, Color>) return 4;
	else if constexpr (std::is_same_v<T, BinColor>) return 4;
	else if constexpr (std::is_same_v<T, RawTime>) return static_cast<int>(timeAlphabet<std::chrono::seconds>().size());
	else if constexpr (is_tp_v<T>) return static_cast<int>(timeAlphabet<typename T::duration>().size());
	else if constexpr (is_dur_v<T>) return static_cast<int>(timeAlphabet<T>().size());
	else if constexpr (is_bitset_v<T>) return 5;
}
// index (into the full alphabet) of the k-th symbol of the reduced alphabet
template <class T> int leafFewCount() {
	if constexpr (std::is_same_v<T, bool>) return 2; else if constexpr (std::is_same_v<T, std::nullptr_t>) return 1; else return 3;
}
template <class T> int leafFewIndex(int k) {
	if constexpr (std::is_same_v<T, bool> || std::is_same_v<T, std::nullptr_t>) return k;
	else if constexpr (std::is_integral_v<T> && !std::is_same_v<T, bool>) {
		if (k == 0) return 0;
		if (k == 1) return std::is_signed_v<T> ? 2 : 1;                       // -1 / 1
		const auto& a = intAlphabet<T>(); for (size_t i = 0; i < a.size(); ++i) if (a[i].v == std::numeric_limits<T>::max()) return static_cast<int>(i);
		return 0;
	}
	else if constexpr (std::is_same_v<T, std::byte>) return k == 0 ? 0 : k == 1 ? 1 : leafFull<T>() - 1;
	else if constexpr (std::is_floating_point_v<T>) return k == 0 ? 0 : k == 1 ? 2 : 3;   // 0, 1.5, 0.1
	else return k;                                                           // strings: empty, a, euro; enum: Red, Green, Blue; chrono: epoch, +1, -1; bitset
}
template <class T> void leafMake(int i, T& out, Info& info) {
	if constexpr (std::is_same_v<T, bool>) { out = i == 1; info.add(i ? "b:true" : "b:false", true); }
	else if constexpr (std::is_same_v<T, std::nullptr_t>) { out = nullptr; info.add("nullptr", false); }
	else if constexpr (std::is_same_v<T, std::byte>) { const auto& e = intAlphabet<unsigned char>()[static_cast<size_t>(i)]; out = static_cast<std::byte>(e.v); info.add(std::string("i:") + e.name, e.plain); if (info.asKey) info.excl |= XmlBit; }
	else if constexpr (std::is_same_v<T, float>) { const auto& e = floatAlphabet()[static_cast<size_t>(i)]; out = e.v; info.add(std::string("f:") + e.name, e.plain); if (info.asKey) info.excl |= std::isnan(e.v) ? ~0u : XmlBit; }   // NaN is not a valid key of an ordered map
	else if constexpr (std::is_same_v<T, double>) { const auto& e = doubleAlphabet()[static_cast<size_t>(i)]; out = e.v; info.add(std::string("f:") + e.name, e.plain); if (info.asKey) info.excl |= std::isnan(e.v) ? ~0u : XmlBit; }
	else if constexpr (std::is_integral_v<T>) { const auto& e = intAlphabet<T>()[static_cast<size_t>(i)]; out = e.v; info.add(std::string("i:") + e.name, e.plain); if (info.asKey) info.excl |= XmlBit; }
	else if constexpr (is_string_v<T>) {
		const auto& e = strAlphabet()[static_cast<size_t>(i)]; out = widen<T>(e.utf8); info.add(std::string("s:") + e.name, e.plain); info.excl |= e.excl;
		if (info.asKey && !e.xmlName) info.excl |= XmlBit;                 // an XML element name must be a Name
	}
	else if constexpr (std::is_same_v<T, Color>) {
		static const Color v[] = {Color::Red, Color::Green, Color::Blue, static_cast<Color>(77)}; static const char* n[] = {"e:Red", "e:Green", "e:Blue", "e:unregistered"};
		out = v[i]; info.add(n[i], i < 3); if (i == 3) info.excl |= CsvBit;   // an exception while a CSV row is open ends in std::terminate (recorded by C20)
	}
	else if constexpr (std::is_same_v<T, BinColor>) {
		static const Color v[] = {Color::Red, Color::Green, Color::Blue, static_cast<Color>(77)}; static const char* n[] = {"e:Red", "e:Green", "e:Blue", "e:unregistered"};
		out.v = v[i]; info.add(n[i], i < 3);
	}
	else if constexpr (std::is_same_v<T, RawTime>) { const auto& e = timeAlphabet<std::chrono::seconds>()[static_cast<size_t>(i)]; out.t = static_cast<time_t>(e.count); info.add("t:" + e.name, e.plain); }
	else if constexpr (is_tp_v<T>) { const auto& e = timeAlphabet<typename T::duration>()[static_cast<size_t>(i)]; out = T(typename T::duration(e.count)); info.add("t:" + e.name, e.plain); if (info.asKey) info.excl |= XmlBit; }
	else if constexpr (is_dur_v<T>) { const auto& e = timeAlphabet<T>()[static_cast<size_t>(i)]; out = T(e.count); info.add("t:" + e.name, e.plain); if (info.asKey) info.excl |= XmlBit; }
	else if constexpr (is_bitset_v<T>) {
		static const char* n[] = {"bits:none", "bits:all", "bits:alternate", "bits:first", "bits:last"};
		out.reset(); if (i == 1) out.set(); else if (i == 2) { for (size_t k = 0; k < out.size(); k += 2) out.set(k); } else if (i == 3) out.set(0); else if (i == 4) out.set(out.size() - 1);
		info.add(n[i], i == 2);
	}
}

inline int ipow(int b, int e) { int r = 1; while (e-- > 0) r *= b; return r; }

// element type used by the builders (maps: pair<key, mapped> without the const)
template <class T, class = void> struct elem { using type = typename T::value_type; };
template <class T> struct elem<T, std::enable_if_t<is_maplike_v<T>>> { using type = std::pair<typename T::key_type, typename T::mapped_type>; };
template <class T> using elem_t = typename elem<T>::type;

template <class T, class E> void pushInto(T& c, E&& e) {
	if constexpr (is_adapter_v<T>) c.push(std::move(e));
	else if constexpr (is_fwdlist_v<T>) { auto it = c.before_begin(); for (auto nx = c.begin(); nx != c.end(); ++nx) ++it; c.insert_after(it, std::move(e)); }
	else if constexpr (is_maplike_v<T>) c.emplace(std::move(e.first), std::move(e.second));
	else if constexpr (is_keyed_v<T>) c.insert(std::move(e));
	else c.push_back(std::move(e));
}
template <class T> void clearC(T& c) { if constexpr (is_adapter_v<T>) c = T(); else if constexpr (is_valarray_v<T>) c.resize(0); else c.clear(); }

// members of tuple-like things as a tuple of references
template <class T> auto membersOf(T& v) {
	if constexpr (is_pair_v<T>) return std::tie(v.first, v.second);
	else if constexpr (is_tuple_v<T>) return std::apply([](auto&... m) { return std::tie(m...); }, v);
	else return T::tie(v);
}
template <class Ref, size_t... I> int starCount(std::index_sequence<I...>) { return ((domCount<std::decay_t<std::tuple_element_t<I, Ref>>>(Full)) + ... + 0); }
template <class Ref, size_t... I> int fewProduct(std::index_sequence<I...>) { return (domCount<std::decay_t<std::tuple_element_t<I, Ref>>>(Few) * ... * 1); }

template <class T> struct arr_traits;
template <class E, size_t N> struct arr_traits<E[N]> { using type = E; static constexpr int n = static_cast<int>(N); };
template <class E, size_t N> struct arr_traits<std::array<E, N>> { using type = E; static constexpr int n = static_cast<int>(N); };

// number of two-element sequences: reduced x reduced; thorough tier and leaf elements: full x full
// thorough tier, leaf elements: (full x reduced) + (reduced x full) + reduced x reduced
template <class E> bool widePairs() { return thorough() && isLeaf<E>() && domCount<E>(Few) != domCount<E>(Full); }
template <class E> int seqPairs() { const int f = domCount<E>(Few), nF = domCount<E>(Full); return widePairs<E>() ? 2 * nF * f + f * f : f * f; }
// the "typical" member of the reduced alphabet (what the other positions hold while one position runs its full alphabet):
// leaves: -1 / "a" / 1.5 ...; compound values: the last one (non-null, non-empty)
template <class T> int typical() { const int f = domCount<T>(Few); return isLeaf<T>() ? 1 % f : f - 1; }

template <class T> int domCount(int mode) {
	if constexpr (isLeaf<T>()) return mode == Full ? leafFull<T>() : leafFewCount<T>();
	else if constexpr (std::is_same_v<T, Cond>) return mode == Full ? 3 : 2;
	else if constexpr (is_atomic_v<T>) return domCount<typename T::value_type>(mode);
	else if constexpr (is_optional_v<T>) return mode == Full ? 1 + domCount<typename T::value_type>(Full) : 3;
	else if constexpr (is_smart_v<T>) return mode == Full ? 1 + domCount<typename T::element_type>(Full) : 3;
	else if constexpr (std::is_array_v<T> || is_stdarray_v<T>) {
		using E = typename arr_traits<T>::type; constexpr int N = arr_traits<T>::n;
		return mode == Full ? N * domCount<E>(Full) + ipow(domCount<E>(Few), N) : 3;
	}
	else if constexpr (is_pair_v<T> || is_tuple_v<T> || has_tie_v<T>) {
		using Ref = decltype(membersOf(std::declval<T&>())); constexpr size_t N = std::tuple_size_v<Ref>;
		if constexpr (N == 0) return 1;
		else return mode == Full ? starCount<Ref>(std::make_index_sequence<N>{}) + fewProduct<Ref>(std::make_index_sequence<N>{}) : 3;
	}
	else if constexpr (is_maplike_v<T>) {
		if (mode == Few) return 3;
		using K = typename T::key_type; using V = typename T::mapped_type;
		const int fk = domCount<K>(Few), fv = domCount<V>(Few);
		int n = 1 + domCount<K>(Full) + domCount<V>(Full) + (fk * (fk - 1) / 2) * fv * fv;
		if (is_multi_v<T>) n += fv * fv;                        // n2 with a duplicate key
		if (thorough() && fk >= 3) n += fv * fv * fv;          // n3
		return n;
	}
	else if constexpr (is_setlike_v<T>) {
		if (mode == Few) return 3;
		using E = typename T::value_type; const int f = domCount<E>(Few);
		int n = 1 + domCount<E>(Full) + f * (f - 1) / 2;
		if (is_multi_v<T>) n += f;                              // n2 with a duplicate element
		if (thorough() && f >= 3) n += 1;
		return n;
	}
	else {   // run-time sized sequences
		static_assert(is_seqlike_v<T>, "no domain for this type");
		if (mode == Few) return 3;
		using E = typename T::value_type; const int f = domCount<E>(Few);
		return 1 + domCount<E>(Full) + seqPairs<E>() + (thorough() ? f * f * f : 0);
	}
}

template <class Ref, size_t I = 0> void starMake(int i, Ref refs, Info& info) {   // member I runs its full alphabet, the others hold their typical value
	if constexpr (I < std::tuple_size_v<Ref>) {
		using M = std::decay_t<std::tuple_element_t<I, Ref>>;
		const int n = domCount<M>(Full);
		if (i < n) {
			domMake<M>(Full, i, std::get<I>(refs), info);
			auto others = [&](auto self, auto idx) -> void {
				constexpr size_t J = decltype(idx)::value;
				if constexpr (J < std::tuple_size_v<Ref>) {
					if constexpr (J != I) { using O = std::decay_t<std::tuple_element_t<J, Ref>>; domMake<O>(Few, typical<O>(), std::get<J>(refs), info); }
					self(self, std::integral_constant<size_t, J + 1>{});
				}
			};
			others(others, std::integral_constant<size_t, 0>{});
		} else starMake<Ref, I + 1>(i - n, refs, info);
	}
}
template <class Ref, size_t I = 0> void productMake(int i, Ref refs, Info& info) {
	if constexpr (I < std::tuple_size_v<Ref>) {
		using M = std::decay_t<std::tuple_element_t<I, Ref>>;
		const int f = domCount<M>(Few);
		domMake<M>(Few, i % f, std::get<I>(refs), info);
		productMake<Ref, I + 1>(i / f, refs, info);
	}
}
template <class Ref, size_t I = 0> void diagMake(int k, Ref refs, Info& info) {
	if constexpr (I < std::tuple_size_v<Ref>) { using M = std::decay_t<std::tuple_element_t<I, Ref>>; domMake<M>(Few, k % domCount<M>(Few), std::get<I>(refs), info); diagMake<Ref, I + 1>(k, refs, info); }
}

template <class T> void domMake(int mode, int i, T& out, Info& info) {
	if constexpr (isLeaf<T>()) leafMake<T>(mode == Full ? i : leafFewIndex<T>(i), out, info);
	else if constexpr (std::is_same_v<T, Cond>) { out.has = i >= 1; out.v = i == 1 ? 5 : i == 2 ? 0 : 0; info.add(i == 0 ? "cond:absent" : i == 1 ? "cond:present" : "cond:present_default", i == 1); }
	else if constexpr (is_atomic_v<T>) { typename T::value_type v{}; domMake<typename T::value_type>(mode, i, v, info); out.store(v); }
	else if constexpr (is_optional_v<T>) {
		using V = typename T::value_type; Deeper dg(info);
		if (i == 0) { out.reset(); info.add("null", false); return; }
		out.emplace(); domMake<V>(mode, mode == Full ? i - 1 : (i - 1) % domCount<V>(Few), *out, info);
	}
	else if constexpr (is_smart_v<T>) {
		using V = typename T::element_type; Deeper dg(info);
		if (i == 0) { out.reset(); info.add("null", false); return; }
		if constexpr (is_unique_v<T>) out = std::make_unique<V>(); else out = std::make_shared<V>();
		domMake<V>(mode, mode == Full ? i - 1 : (i - 1) % domCount<V>(Few), *out, info);
	}
	else if constexpr (std::is_array_v<T> || is_stdarray_v<T>) {
		using E = typename arr_traits<T>::type; constexpr int N = arr_traits<T>::n; Deeper dg(info);
		const int nF = domCount<E>(Full), f = domCount<E>(Few);
		if (mode == Few) { for (int k = 0; k < N; ++k) domMake<E>(Few, (i + k) % f, out[k], info); return; }
		if (i < N * nF) { for (int k = 0; k < N; ++k) { if (k == i / nF) domMake<E>(Full, i % nF, out[k], info); else domMake<E>(Few, typical<E>(), out[k], info); } return; }
		i -= N * nF; for (int k = 0; k < N; ++k) { domMake<E>(Few, i % f, out[k], info); i /= f; }
	}
	else if constexpr (is_pair_v<T> || is_tuple_v<T> || has_tie_v<T>) {
		auto refs = membersOf(out); using Ref = decltype(refs); constexpr size_t N = std::tuple_size_v<Ref>; Deeper dg(info);
		if constexpr (N > 0) {
			if (mode == Few) { diagMake<Ref>(i, refs, info); return; }
			const int star = starCount<Ref>(std::make_index_sequence<N>{});
			if (i < star) starMake<Ref>(i, refs, info); else productMake<Ref>(i - star, refs, info);
		}
	}
	else if constexpr (is_maplike_v<T>) {
		using K = typename T::key_type; using V = typename T::mapped_type;
		clearC(out); const bool nested = info.depth > 0; Deeper dg(info);
		const int fk = domCount<K>(Few), fv = domCount<V>(Few);
		auto put = [&](int kmode, int ki, int vmode, int vi) { std::pair<K, V> e; info.asKey = true; domMake<K>(kmode, ki, e.first, info); info.asKey = false; domMake<V>(vmode, vi, e.second, info); pushInto(out, std::move(e)); };
		if (mode == Few) { if (i == 0) { if (nested) info.add("n0", false); } else if (i == 1) put(Few, 0, Few, 0); else { put(Few, 1 % fk, Few, 1 % fv); put(Few, 2 % fk, Few, 2 % fv); } return; }
		if (i == 0) { if (nested) info.add("n0", false); return; } --i;
		if (i < domCount<K>(Full)) { put(Full, i, Few, typical<V>()); return; } i -= domCount<K>(Full);
		if (i < domCount<V>(Full)) { put(Few, typical<K>(), Full, i); return; } i -= domCount<V>(Full);
		const int pairs = fk * (fk - 1) / 2;
		if (i < pairs * fv * fv) {
			int p = i / (fv * fv), r = i % (fv * fv), a = 0, b = 1;
			for (int x = 0, q = 0; x < fk; ++x) for (int y = x + 1; y < fk; ++y, ++q) if (q == p) { a = x; b = y; }
			put(Few, a, Few, r % fv); put(Few, b, Few, r / fv); return;
		}
		i -= pairs * fv * fv;
		if (is_multi_v<T>) { if (i < fv * fv) { put(Few, 1 % fk, Few, i % fv); put(Few, 1 % fk, Few, i / fv); info.add("dupkey", false); return; } i -= fv * fv; }
		put(Few, 0, Few, i % fv); put(Few, 1, Few, (i / fv) % fv); put(Few, 2, Few, i / (fv * fv));
	}
	else if constexpr (is_setlike_v<T>) {
		using E = typename T::value_type;
		clearC(out); const bool nested = info.depth > 0; Deeper dg(info);
		const int f = domCount<E>(Few);
		auto put = [&](int m, int k) { E e{}; domMake<E>(m, k, e, info); pushInto(out, std::move(e)); };
		if (mode == Few) { if (i == 0) { if (nested) info.add("n0", false); } else if (i == 1) put(Few, 0); else { put(Few, 1 % f); put(Few, 2 % f); } return; }
		if (i == 0) { if (nested) info.add("n0", false); return; } --i;
		if (i < domCount<E>(Full)) { put(Full, i); return; } i -= domCount<E>(Full);
		const int pairs = f * (f - 1) / 2;
		if (i < pairs) { int a = 0, b = 1; for (int x = 0, q = 0; x < f; ++x) for (int y = x + 1; y < f; ++y, ++q) if (q == i) { a = x; b = y; } put(Few, a); put(Few, b); return; }
		i -= pairs;
		if (is_multi_v<T>) { if (i < f) { put(Few, i); put(Few, i); info.add("dup", false); return; } i -= f; }
		put(Few, 0); put(Few, 1); put(Few, 2);
	}
	else {
		using E = typename T::value_type;
		std::vector<E> es; const bool nested = info.depth > 0; Deeper dg(info);
		const int f = domCount<E>(Few), nF = domCount<E>(Full), n2 = seqPairs<E>();
		auto put = [&](int m, int k) { es.emplace_back(); if constexpr (std::is_same_v<E, bool>) { bool b = false; domMake<bool>(m, k, b, info); es.back() = b; } else domMake<E>(m, k, es.back(), info); };
		if (mode == Few) { if (i == 0) { if (nested) info.add("n0", false); } else if (i == 1) put(Few, 0); else { put(Few, 1 % f); put(Few, 2 % f); } }
		else if (i == 0) { if (nested) info.add("n0", false); }
		else if (i - 1 < nF) put(Full, i - 1);
		else if (i - 1 - nF < n2) {
			int r = i - 1 - nF;
			if (widePairs<E>() && r < nF * f) { put(Full, r % nF); put(Few, r / nF); }
			else if (widePairs<E>() && r < 2 * nF * f) { r -= nF * f; put(Few, r / nF); put(Full, r % nF); }
			else { if (widePairs<E>()) r -= 2 * nF * f; put(Few, r % f); put(Few, r / f); }
		}
		else { int r = i - 1 - nF - n2; put(Few, r % f); put(Few, (r / f) % f); put(Few, r / (f * f)); }
		clearC(out);
		if constexpr (is_valarray_v<T>) { out.resize(es.size()); for (size_t k = 0; k < es.size(); ++k) out[k] = es[k]; }
		else for (size_t k = 0; k < es.size(); ++k) { if constexpr (std::is_same_v<E, bool>) pushInto(out, static_cast<bool>(es[k])); else pushInto(out, std::move(es[k])); }
	}
}
// top-level size prefix of the value class
template <class T> std::string sizePrefix(const T& v) {
	if constexpr (is_valarray_v<T> || is_adapter_v<T>) return "n" + std::to_string(v.size());
	else if constexpr (is_iterable_v<T>) return "n" + std::to_string(std::distance(v.begin(), v.end()));
	else return "";
}

// ---------------------------------------------------------------------------------------------
// holders and placements
// ---------------------------------------------------------------------------------------------
using BS::Serialize;
template <class T> struct Holder {
	using V = T;
	T v{};
	template <class Ar> bool root(Ar& ar) {
		if constexpr (std::is_same_v<T, BinColor>) return Serialize(ar, BS::EnumAsBin<Color>(v.v));
		else if constexpr (std::is_same_v<T, RawTime>) return Serialize(ar, BS::CTimeRef(v.t));
		else return Serialize(ar, v);
	}
	template <class Ar> void member(Ar& ar) {
		if constexpr (std::is_same_v<T, BinColor>) ar << BS::KeyValue("v", BS::EnumAsBin<Color>(v.v));
		else if constexpr (std::is_same_v<T, RawTime>) ar << BS::KeyValue("v", BS::CTimeRef(v.t));
		else ar << BS::KeyValue("v", v);
	}
};
constexpr int32_t Sentinel = 42;
template <class T> struct AtRoot { Holder<T> h; static constexpr int tails = 0; int32_t tail = Sentinel; };
template <class A, class T> bool Serialize(A& ar, AtRoot<T>& r) { return r.h.root(ar); }
template <class T> struct AtElem { Holder<T> h; int32_t tail = 0; static size_t size() { return 2; } };
template <class A, class T> void SerializeArray(A& ar, AtElem<T>& e) { e.h.root(ar); Serialize(ar, e.tail); }
template <class T> struct AtMember {
	Holder<T> h; int32_t tail = 0;
	template <class A> void Serialize(A& ar) { h.member(ar); ar << BS::KeyValue("z", tail); }
};
template <class T> struct CsvRows { std::list<AtMember<T>> rows; };
template <class A, class T> bool Serialize(A& ar, CsvRows<T>& r) { return Serialize(ar, r.rows); }

template <class W> struct placed;
template <class T> struct placed<AtRoot<T>> { using type = T; static constexpr int pos = Root; };
template <class T> struct placed<AtElem<T>> { using type = T; static constexpr int pos = Elem; };
template <class T> struct placed<AtMember<T>> { using type = T; static constexpr int pos = Member; };
template <class T> struct placed<CsvRows<T>> { using type = T; static constexpr int pos = Member; };

// ---------------------------------------------------------------------------------------------
// output configurations
// ---------------------------------------------------------------------------------------------
struct Cfg { int e = 0; int b = 0; int f = 0; int s = 0; };   // e: 0 memory, 1..5 stream encodings; b: BOM; f: 0 off, 1 tab x1, 2 space x2; s: CSV separator
inline const char* encName(int e) { static const char* n[] = {"mem", "utf8", "utf16le", "utf16be", "utf32le", "utf32be"}; return n[e]; }
inline const char* fmtName(int f) { static const char* n[] = {"off", "tab1", "space2"}; return n[f]; }
inline const char* sepName(int s) { static const char* n[] = {"comma", "semicolon", "tab", "space", "pipe"}; return n[s]; }
inline char sepChar(int s) { return ",;\t |"[s]; }
inline std::string cfgName(int arch, const Cfg& c) {
	std::string r = c.e == 0 ? "mem" : std::string("stream:") + encName(c.e) + (c.b ? "+bom" : "");
	if (arch == Json || arch == Xml || arch == MsgPack) r += std::string(",fmt:") + fmtName(c.f);
	if (arch == Csv) r += std::string(",sep:") + sepName(c.s);
	return r;
}
inline std::vector<Cfg> configs(int arch) {
	std::vector<Cfg> r;
	if (arch == MsgPack) { r.push_back({0, 0, 0, 0}); r.push_back({1, 0, 0, 0}); r.push_back({2, 1, 1, 0}); return r; }   // text options must be ignored
	const int nf = arch == Csv ? 1 : thorough() ? 3 : 2, ns = arch == Csv ? 5 : 1;
	for (int e = 0; e <= 5; ++e) for (int b = 0; b <= (e ? 1 : 0); ++b) for (int f = 0; f < nf; ++f) for (int s = 0; s < ns; ++s) r.push_back({e, b, f, s});
	return r;
}
inline BS::SerializationOptions optsOf(const Cfg& c) {
	using U = BS::Convert::Utf::UtfType;
	BS::SerializationOptions o;
	static const U encs[] = {U::Utf8, U::Utf8, U::Utf16le, U::Utf16be, U::Utf32le, U::Utf32be};
	o.streamOptions.encoding = encs[c.e]; o.streamOptions.writeBom = c.b != 0;
	o.formatOptions.enableFormat = c.f != 0; o.formatOptions.paddingChar = c.f == 2 ? ' ' : '\t'; o.formatOptions.paddingCharNum = c.f == 2 ? 2 : 1;
	o.valuesSeparator = sepChar(c.s);
	return o;
}
// name of a set of failing configurations: "any" when it is the whole list, otherwise the dimensions that are restricted
inline std::string cfgClass(int arch, const std::vector<Cfg>& all, const std::vector<int>& failing) {
	if (failing.size() == all.size()) return "any";
	std::set<int> E, B, F, S; std::set<int> allE, allB, allF, allS;
	for (auto& c : all) { allE.insert(c.e); allB.insert(c.e ? c.b : -1); allF.insert(c.f); allS.insert(c.s); }
	for (int i : failing) { auto& c = all[static_cast<size_t>(i)]; E.insert(c.e); B.insert(c.e ? c.b : -1); F.insert(c.f); S.insert(c.s); }
	size_t prod = 0; for (auto& c : all) if (E.count(c.e) && B.count(c.e ? c.b : -1) && F.count(c.f) && S.count(c.s)) ++prod;
	std::string r;
	auto part = [&](const char* dim, const std::set<int>& sub, const std::set<int>& full, auto namer) {
		if (sub == full) return; std::string p; for (int v : sub) p += (p.empty() ? "" : "+") + std::string(namer(v)); r += (r.empty() ? "" : ",") + std::string(dim) + ":" + p;
	};
	// memory/stream first: all stream encodings failing and memory not (or the reverse) reads better as io:stream
	std::set<int> streamE = allE; streamE.erase(0);
	if (E == streamE && !streamE.empty()) r = "io:stream"; else if (E == std::set<int>{0}) r = "io:mem"; else part("enc", E, allE, [](int v) { return encName(v); });
	if (!(E == std::set<int>{0}) && arch != MsgPack) { std::set<int> b2 = B, ab2 = allB; b2.erase(-1); ab2.erase(-1); part("bom", b2, ab2, [](int v) { return v ? "on" : "off"; }); }
	if (arch != MsgPack) part("fmt", F, allF, [](int v) { return fmtName(v); });   // MsgPack: the text options only prove that they are ignored
	part("sep", S, allS, [](int v) { return sepName(v); });
	if (prod != failing.size()) r = "irregular(" + r + ")";
	return r.empty() ? "any" : r;
}

// ---------------------------------------------------------------------------------------------
// the case runner
// ---------------------------------------------------------------------------------------------
struct Args { int arch = 0, pos = 0, val = 0; };
struct Entry {
	std::string name;
	bool pos[3] = {false, false, false};
	int (*count)() = nullptr;
	void (*run)(bsx::Ctx&, const Args&) = nullptr;
};
inline std::string docText(int arch, const Cfg& c, const std::string& doc) {
	std::string d = doc.size() > 400 ? doc.substr(0, 400) + "...(" + std::to_string(doc.size()) + " bytes)" : doc;
	return (arch == MsgPack || c.e >= 2) ? "hex:" + bsx::hex(d) : d;
}
template <class A, class W> lib::Out saveDoc(W& w, const Cfg& c, std::string& doc) {
	const auto o = optsOf(c); doc.clear();
	if (c.e == 0) return lib::guard([&] { BS::SaveObject<A>(w, doc, o); });
	std::ostringstream os; auto r = lib::guard([&] { BS::SaveObject<A>(w, os, o); }); doc = os.str(); return r;
}
template <class A, class W> lib::Out loadDoc(W& w, const Cfg& c, const std::string& doc) {
	const auto o = optsOf(c);
	if (c.e == 0) return lib::guard([&] { BS::LoadObject<A>(w, doc, o); });
	std::istringstream is(doc); return lib::guard([&] { BS::LoadObject<A>(w, is, o); });
}
template <class W> bool eqW(const W& a, const W& b, bool& tailOk) {
	using T = typename placed<W>::type;
	if constexpr (is_spec_v<W, CsvRows>) {
		tailOk = true; if (a.rows.size() != b.rows.size()) return false;
		auto i = a.rows.begin(); auto j = b.rows.begin(); bool ok = true;
		for (; i != a.rows.end(); ++i, ++j) { if (!eq<T>(i->h.v, j->h.v)) ok = false; if (i->tail != j->tail) tailOk = false; }
		return ok;
	} else { tailOk = a.tail == b.tail; return eq<T>(a.h.v, b.h.v); }
}
template <class W> std::string showW(const W& w) {
	using T = typename placed<W>::type;
	if constexpr (is_spec_v<W, CsvRows>) { std::string r = "rows["; for (auto& x : w.rows) r += "{v=" + show<T>(x.h.v) + ",z=" + std::to_string(x.tail) + "}"; return r + "]"; }
	else if constexpr (is_spec_v<W, AtRoot>) return show<T>(w.h.v);
	else return "{v=" + show<T>(w.h.v) + ",tail=" + std::to_string(w.tail) + "}";
}
// fills the placement with the val-th value of the type (CSV: val / 2 is the value, val % 2 + 1 the number of rows)
template <class W> void fill(W& w, int val, Info& info, std::string& cls) {
	using T = typename placed<W>::type;
	if constexpr (is_spec_v<W, CsvRows>) {
		const int rows = val % 2 + 1;
		for (int r = 0; r < rows; ++r) { w.rows.emplace_back(); Info scratch; domMake<T>(Full, val / 2, w.rows.back().h.v, r == 0 ? info : scratch); w.rows.back().tail = Sentinel + r; }
		cls = "rows" + std::to_string(rows) + ":" + (isLeaf<T>() && !info.syms.empty() ? info.syms[0] : info.cls(""));
	} else {
		domMake<T>(Full, val, w.h.v, info); w.tail = Sentinel;
		if (isLeaf<T>()) cls = info.syms.empty() ? "?" : info.syms[0]; else cls = info.cls(sizePrefix(w.h.v));
	}
}

template <class A, class W> void runCase(bsx::Ctx& c, const Args& a) {
	using T = typename placed<W>::type;
	static const std::vector<Cfg> cfgs = configs(a.arch);
	W src; Info info; std::string cls;
	info.keepPlain = isLeaf<T>();
	fill(src, a.val, info, cls);
	// leaf types: exact placement; compound types: root or nested (array element and object member alike)
	const std::string sigTail = "/type=" + tfam<T>() + "/val=" + cls + "/pos=" + (isLeaf<T>() || placed<W>::pos == Root || is_spec_v<W, CsvRows> ? posName(placed<W>::pos) : "nested");
	const std::string sigArch = std::string("C01/") + archName(a.arch);
	if (info.excl & (1u << a.arch)) { c.outcome(std::string(archName(a.arch)) + ":n/a:format_cannot_carry"); return; }
	const std::string what = tname<T>() + " value=" + showW(src);
	std::map<std::string, std::pair<std::vector<int>, std::string>> fails;   // outcome -> (configurations, detail of the first)
	auto fail = [&](const std::string& out, int ci, const std::string& detail) { auto& f = fails[out]; if (f.first.empty()) f.second = "[" + cfgName(a.arch, cfgs[static_cast<size_t>(ci)]) + "] " + detail; f.first.push_back(ci); };
	std::string memDoc[3][5]; bool memHave[3][5] = {};
	for (size_t ci = 0; ci < cfgs.size(); ++ci) {
		const Cfg& cf = cfgs[ci];
		c.describe(sigArch + "/cfg=" + cfgName(a.arch, cf) + sigTail, what);
		c.heartbeat();
		std::string doc1, doc2;
		lib::Out s1 = saveDoc<A>(src, cf, doc1);
		if (!s1.ok()) {   // the statement allows a failing save, as long as it is an exception derived from std::exception
			c.outcome(std::string(archName(a.arch)) + ":save_threw:" + s1.cls);
			if (s1.cls == "nonstd") fail("save_threw_nonstd", static_cast<int>(ci), what);
			continue;
		}
		if (cf.e == 0) { memDoc[cf.f][cf.s] = doc1; memHave[cf.f][cf.s] = true; }
		// (3) memory output == stream output for UTF-8 without BOM (MsgPack: every stream configuration)
		if (cf.e != 0 && ((cf.e == 1 && !cf.b) || a.arch == MsgPack)) {
			const int mf = a.arch == MsgPack ? 0 : cf.f;
			if (memHave[mf][cf.s] && memDoc[mf][cf.s] != doc1) fail("mem_stream_bytes_differ", static_cast<int>(ci), what + " memory=" + docText(a.arch, cf, memDoc[mf][cf.s]) + " stream=" + docText(a.arch, cf, doc1));
		}
		W t1; lib::Out l1 = loadDoc<A>(t1, cf, doc1);
		if (!l1.ok()) { c.outcome(std::string(archName(a.arch)) + ":cannot_be_loaded"); fail("cannot_be_loaded:" + l1.cls, static_cast<int>(ci), what + " doc=" + docText(a.arch, cf, doc1) + " error=" + l1.what); continue; }
		bool tailOk = true; const bool same = eqW(src, t1, tailOk);
		if (!same) { c.outcome(std::string(archName(a.arch)) + ":loads_different_value"); fail("loads_different_value", static_cast<int>(ci), what + " loaded=" + showW(t1) + " doc=" + docText(a.arch, cf, doc1)); }
		else if (!tailOk) { c.outcome(std::string(archName(a.arch)) + ":sentinel_disturbed"); fail("sentinel_disturbed", static_cast<int>(ci), what + " loaded=" + showW(t1) + " doc=" + docText(a.arch, cf, doc1)); }
		else c.outcome(std::string(archName(a.arch)) + ":ok");
		// (2) fixed point: load -> save -> load
		lib::Out s2 = saveDoc<A>(t1, cf, doc2);
		if (!s2.ok()) { fail("fixed_point_broken:resave_threw:" + s2.cls, static_cast<int>(ci), what + " loaded=" + showW(t1) + " doc=" + docText(a.arch, cf, doc1) + " error=" + s2.what); continue; }
		W t2; lib::Out l2 = loadDoc<A>(t2, cf, doc2);
		if (!l2.ok()) { fail("fixed_point_broken:second_document_cannot_be_loaded:" + l2.cls, static_cast<int>(ci), what + " loaded=" + showW(t1) + " doc2=" + docText(a.arch, cf, doc2) + " error=" + l2.what); continue; }
		bool t2ok = true;
		if (!eqW(t1, t2, t2ok) || !t2ok) fail("fixed_point_broken:value_drifts", static_cast<int>(ci), what + " first load=" + showW(t1) + " second load=" + showW(t2) + " doc=" + docText(a.arch, cf, doc1) + " doc2=" + docText(a.arch, cf, doc2));
	}
	c.evals(cfgs.size() - 1);
	c.nontrivial(sigArch + sigTail + what);
	if (a.val == 1 && a.pos == Member) c.sample(sigArch + sigTail + " " + what + " x " + std::to_string(cfgs.size()) + " configurations");
	for (auto& f : fails) c.violation(sigArch + "/cfg=" + cfgClass(a.arch, cfgs, f.second.first) + sigTail + "/out=" + f.first, f.second.second + " | failing configurations: " + std::to_string(f.second.first.size()) + " of " + std::to_string(cfgs.size()));
}

template <class T> int countOf() { return domCount<T>(Full); }
template <class T> int countCsv() { return 2 * domCount<T>(Full); }

template <class T> struct Tag { using type = T; };

// which placements compile: `long long` / `unsigned long long` (types of their own where int64_t is `long`) are rejected at compile
// time by MsgPack everywhere and by JSON inside arrays and objects (ambiguous overloads); XML roots must open an array or an object
template <int ArchId, class T, int P> constexpr bool placeOk() {
	constexpr bool ll = std::is_same_v<T, long long> || std::is_same_v<T, unsigned long long>;
	if constexpr (ll && ArchId == MsgPack) return false;
	else if constexpr (ll && ArchId == Json) return P == Root;
	else if constexpr (ArchId == Xml && P == Root) return isCompound<T>();
	else return true;
}
// one catalogue entry for a nesting archive (MsgPack, JSON, XML)
template <class A, int ArchId, class T> Entry entry() {
	Entry e; e.name = tname<T>(); e.count = &countOf<T>;
	constexpr bool rootOk = placeOk<ArchId, T, Root>(), elemOk = placeOk<ArchId, T, Elem>(), memberOk = placeOk<ArchId, T, Member>();
	e.pos[Root] = rootOk; e.pos[Elem] = elemOk; e.pos[Member] = memberOk;
	e.run = [](bsx::Ctx& c, const Args& a) {
		if (a.pos == Root) { if constexpr (rootOk) runCase<A, AtRoot<T>>(c, a); }
		else if (a.pos == Elem) { if constexpr (elemOk) runCase<A, AtElem<T>>(c, a); }
		else { if constexpr (memberOk) runCase<A, AtMember<T>>(c, a); }
	};
	return e;
}
// CSV: a scalar as a cell of one or two rows {v, z}
template <class A, class T> Entry entryCsvCell() {
	Entry e; e.name = tname<T>(); e.count = &countCsv<T>; e.pos[Member] = true;
	e.run = [](bsx::Ctx& c, const Args& a) { runCase<A, CsvRows<T>>(c, a); };
	return e;
}
// CSV: a container of row objects at the root
template <class A, class T> Entry entryCsvRoot() {
	Entry e; e.name = tname<T>(); e.count = &countOf<T>; e.pos[Root] = true;
	e.run = [](bsx::Ctx& c, const Args& a) { runCase<A, AtRoot<T>>(c, a); };
	return e;
}

} // namespace c01
