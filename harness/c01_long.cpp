// C01, scenario "long documents": the type catalogue uses short values, so a document never crosses the 256-byte chunk of the
// stream readers / the encoded stream reader. Here one structure is saved and loaded with a padding text of every length p, so
// that every byte of the rest of the document (line ends, quotes, separators, multi-byte characters, length fields, scalars) meets
// every alignment of the chunk boundaries, in memory and through streams of every encoding.
// Oracle: load(save(v)) == v; stream output in UTF-8 without BOM == memory output.
#include "engine/bsx.hpp"
#include "models/lib.hpp"
#include "bitserializer/msgpack_archive.h"
#include "bitserializer/rapidjson_archive.h"
#include "bitserializer/pugixml_archive.h"
#include "bitserializer/csv_archive.h"
#include "bitserializer/types/std/vector.h"
#include "bitserializer/types/std/map.h"
#include <sstream>

namespace BS = BitSerializer;
namespace {
struct LRow { int id = 0; double w = 0; std::string text;
	template <class A> void Serialize(A& ar) { ar << BS::KeyValue("id", id) << BS::KeyValue("w", w) << BS::KeyValue("text", text); }
	bool operator==(const LRow& o) const { return id == o.id && w == o.w && text == o.text; } };
struct LDoc { std::vector<LRow> rows; std::map<std::string, std::string> m; std::vector<uint32_t> nums; std::string tail;
	template <class A> void Serialize(A& ar) { ar << BS::KeyValue("rows", rows) << BS::KeyValue("m", m) << BS::KeyValue("nums", nums) << BS::KeyValue("tail", tail); }
	bool operator==(const LDoc& o) const { return rows == o.rows && m == o.m && nums == o.nums && tail == o.tail; } };
std::vector<LRow> makeRows(size_t p, bool xml) {
	// XML cannot carry a raw CR (end-of-line normalisation, a listed finding), so the XML variant uses LF only
	return {{1, 0.5, std::string(p, 'x')}, {2, -2.25, xml ? "sep , ; | \" quote and\nline break" : "sep , ; | \" quote and\r\nline break"}, {3, 1e300, "\xC3\xA9\xE2\x82\xAC\xF0\x9F\x98\x80"}, {4, 0, ""}, {5, 3, "tail"}};
}
std::string dumpRows(const std::vector<LRow>& r) { std::string s; for (auto& x : r) s += "{" + std::to_string(x.id) + "," + std::to_string(x.w) + ",len" + std::to_string(x.text.size()) + ":" + bsx::hex(x.text.substr(x.text.size() > 12 ? x.text.size() - 12 : 0)) + "}"; return s; }
struct SrcCfg { const char* name; bool stream; BS::Convert::Utf::UtfType enc; bool bom; };
const SrcCfg kCfg[] = {{"mem", false, BS::Convert::Utf::UtfType::Utf8, false}, {"stream:utf8", true, BS::Convert::Utf::UtfType::Utf8, false}, {"stream:utf8+bom", true, BS::Convert::Utf::UtfType::Utf8, true},
	{"stream:utf16le+bom", true, BS::Convert::Utf::UtfType::Utf16le, true}, {"stream:utf16be", true, BS::Convert::Utf::UtfType::Utf16be, false}, {"stream:utf32le+bom", true, BS::Convert::Utf::UtfType::Utf32le, true}};
template <class A, class T> void roundTrip(bsx::Ctx& c, const std::string& sig, const T& value, const SrcCfg& cf, bool formatted, const std::string& what, const std::function<std::string(const T&)>& dump) {
	BS::SerializationOptions o; o.streamOptions.encoding = cf.enc; o.streamOptions.writeBom = cf.bom; o.formatOptions.enableFormat = formatted;
	std::string doc; T copy = value, loaded{};
	lib::Out sv = lib::guard([&] { if (cf.stream) { std::ostringstream os; BS::SaveObject<A>(copy, os, o); doc = os.str(); } else BS::SaveObject<A>(copy, doc, o); });
	if (!sv.ok()) { c.violation(sig + "/out=save_threw:" + sv.cls, what + " save threw " + sv.what); return; }
	lib::Out ld = lib::guard([&] { if (cf.stream) { std::istringstream is(doc); BS::LoadObject<A>(loaded, is, o); } else BS::LoadObject<A>(loaded, doc, o); });
	c.outcome(ld.cls);
	if (!ld.ok()) { c.violation(sig + "/out=cannot_be_loaded:" + ld.cls, what + " document of " + std::to_string(doc.size()) + " bytes: " + ld.what); return; }
	if (!(loaded == value)) c.violation(sig + "/out=loads_different_value", what + " document of " + std::to_string(doc.size()) + " bytes; saved " + dump(value) + " loaded " + dump(loaded));
	if (cf.stream && cf.enc == BS::Convert::Utf::UtfType::Utf8 && !cf.bom) { std::string mem; T c2 = value; lib::Out m2 = lib::guard([&] { BS::SaveObject<A>(c2, mem, o); }); if (m2.ok() && mem != doc) c.violation(sig + "/out=mem_stream_bytes_differ", what + " memory output and UTF-8 stream output differ"); }
}
}

void c01_long(bsx::Ctx& c, int arch, bool thorough) {
	static const char* archName[] = {"msgpack", "json", "xml", "csv"};
	const int nPad = thorough ? 600 : 96;
	int pi = c.choose(nPad, "padding");
	// quick: paddings 0..31 and 224..287 (every alignment of a 32-byte and of the 256-byte chunk); thorough: 0..599
	size_t p = thorough ? static_cast<size_t>(pi) : pi < 32 ? static_cast<size_t>(pi) : static_cast<size_t>(224 + pi - 32);
	int ci = c.choose(arch == 0 ? 2 : 6, "source"); int fmt = (arch == 1 || arch == 2) ? c.choose(2, "formatted") : 0;
	const SrcCfg& cf = kCfg[ci];
	std::string sig = std::string("C01/long/") + archName[arch] + "/cfg=" + cf.name + (fmt ? ",pretty" : "");
	std::string what = "padding " + std::to_string(p) + ":";
	c.describe(sig, what);
	c.nontrivial(sig + std::to_string(p));
	if (p == 250 && ci == 1) c.sample(sig + " padding=250");
	std::function<std::string(const std::vector<LRow>&)> dr = dumpRows;
	if (arch == 3) { roundTrip<BS::Csv::CsvArchive, std::vector<LRow>>(c, sig, makeRows(p, false), cf, false, what, dr); return; }
	LDoc d; d.rows = makeRows(p, arch == 2); d.m = {{"k1", "v1"}, {"key_two", std::string(40, 'm')}}; d.nums = {1, 300, 70000, 4000000000u}; d.tail = "end";
	std::function<std::string(const LDoc&)> dd = [](const LDoc& x) { return dumpRows(x.rows) + " m=" + std::to_string(x.m.size()) + " nums=" + std::to_string(x.nums.size()) + " tail=" + x.tail; };
	if (arch == 0) roundTrip<BS::MsgPack::MsgPackArchive, LDoc>(c, sig, d, cf, false, what, dd);
	else if (arch == 1) roundTrip<BS::Json::RapidJson::JsonArchive, LDoc>(c, sig, d, cf, fmt == 1, what, dd);
	else roundTrip<BS::Xml::PugiXml::XmlArchive, LDoc>(c, sig, d, cf, fmt == 1, what, dd);
}
