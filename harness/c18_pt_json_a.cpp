// C18 — json instantiations, part 0 and the dispatcher (see c18_populated_target.cpp).
#include "harness/c18_common.hpp"
#include "bitserializer/rapidjson_archive.h"
std::vector<c18::Entry> c18_table_json_b();
std::vector<c18::Entry> c18_table_json(int part) { return part == 0 ? c18::makeTable<BitSerializer::Json::RapidJson::JsonArchive, false, 0>() : c18_table_json_b(); }
