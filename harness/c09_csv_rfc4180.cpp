// C09 — CSV written and read per RFC 4180 for any field content and separator.
// E1, two directions, deviation-bounded:
//  fwd        tables (1..3 columns x 0..2 rows; thorough also 3 rows over a reduced alphabet) of string cells over a
//             20-symbol alphabet, header names over 4 symbols, 5 separators, saved from std::vector<Row> (a real class
//             with string members) to memory and to a stream in 5 encodings x BOM. Oracle: the strict RFC 4180
//             reference parser (ref/ref_csv.hpp) recovers exactly header + rows from the memory text; every stream
//             output, decoded by the reference UTF decoder, is that same text (UTF-8 without BOM: the same bytes).
//  rev        every table rendered by the reference writer: optional quoting per field (deviation), CRLF / LF,
//             with / without final line break, every column order; loaded BY NAME into std::vector<Row> from memory
//             and from a stream in 5 encodings x BOM. Oracle: the rows of the table.
//  malformed  the same renderings with one record that has one field more (text or empty) / fewer than the header,
//             at each row position. Oracle: ParsingError.
//  typed      a row class with int32 / bool / time_point / string members, both directions.
// A failing case is minimised inside the harness (every dimension is put back to its default while the same outcome
// class persists); the signature is the named class of the minimised case.
#include "models/lib.hpp"
#include "ref/ref_csv.hpp"
#include "ref/ref_utfstream.hpp"
#include "bitserializer/csv_archive.h"
#include "bitserializer/types/std/vector.h"
#include "bitserializer/types/std/chrono.h"
#include <ctime>

namespace BS = BitSerializer;
using CS = BitSerializer::Csv::CsvArchive;
using Table = std::vector<std::vector<std::string>>;

// ---- alphabets -------------------------------------------------------------------------------------
struct Sym { const char* name; std::string text; };
static const std::vector<Sym>& cellSyms() {
	static const std::vector<Sym> s = {
		{"a", "a"}, {"empty", ""}, {"comma", ","}, {"semicolon", ";"}, {"tab", "\t"}, {"space", " "}, {"pipe", "|"},
		{"quote", "\""}, {"quote2", "\"\""}, {"lf", "\n"}, {"cr", "\r"}, {"crlf", "\r\n"}, {"a_comma_b", "a,b"}, {"sp_a_sp", " a "},
		{"e_acute", "\xC3\xA9"}, {"euro", "\xE2\x82\xAC"}, {"emoji", "\xF0\x9F\x98\x80"}, {"one", "1"}, {"true", "true"}, {"isodate", "2023-01-01T00:00:00Z"}};
	return s;
}
enum { SymA = 0, SymEmpty = 1, SymComma = 2, SymQuote = 7, SymLf = 9, SymCr = 10, SymCrLf = 11, SymEmoji = 16 };
static const std::vector<Sym>& hdrSyms() {
	static const std::vector<Sym> s = {{"a", "a"}, {"a_space_b", "a b"}, {"quoted_q", "\"q\""}, {"e_acute", "\xC3\xA9"}};
	return s;
}
static const char kSep[5] = {',', ';', '\t', ' ', '|'};
static const char* kSepName[5] = {"comma", "semicolon", "tab", "space", "pipe"};
// reduced cell alphabet for the 3-row tables of the thorough tier: default, empty, the separator itself, quote, LF, CR, CRLF, a 4-byte character
static std::vector<int> alphabetFor(int rows, int sep) {
	if (rows == 3) return {SymA, SymEmpty, SymComma + sep, SymQuote, SymLf, SymCr, SymCrLf, SymEmoji};
	std::vector<int> a; for (int i = 0; i < static_cast<int>(cellSyms().size()); ++i) a.push_back(i); return a;
}
// Variant c16 (thorough only) is built with 32-byte encoded stream chunks, so that the stream reader refills its decoded window
// several times inside these small documents (UTF-32: every 8 characters). It runs the reading scenarios from streams only.
#ifdef BITSERIALIZER_VERIF_ENCODED_CHUNK_SIZE
static const bool kSmallChunks = true;
#else
static const bool kSmallChunks = false;
#endif
// sources / sinks: 0 = memory (std::string); 1 + 2*enc + bom = stream
static const int kSources = 11;
static bool srcStream(int s) { return s > 0; }
static int srcEnc(int s) { return (s - 1) / 2; }
static bool srcBom(int s) { return ((s - 1) & 1) != 0; }
static std::string srcName(int s) { return s == 0 ? std::string("src=mem") : std::string("src=stream/enc=") + refus::encName(srcEnc(s)) + "/bom=" + (srcBom(s) ? "on" : "off") + (kSmallChunks ? "/chunk=32" : ""); }
static BS::Convert::Utf::UtfType libEnc(int e) {
	using U = BS::Convert::Utf::UtfType; static const U t[] = {U::Utf8, U::Utf16le, U::Utf16be, U::Utf32le, U::Utf32be}; return t[e];
}
static std::vector<std::vector<int>> makePerms(int n) {
	std::vector<int> p; for (int i = 0; i < n; ++i) p.push_back(i);
	std::vector<std::vector<int>> r; do r.push_back(p); while (std::next_permutation(p.begin(), p.end())); return r;
}
static const std::vector<std::vector<int>>& perms(int n) { static const std::vector<std::vector<int>> P[5] = {makePerms(0), makePerms(1), makePerms(2), makePerms(3), makePerms(4)}; return P[n]; }
static std::string esc(const std::string& s) {
	std::string r; for (unsigned char ch : s) { if (ch == '\r') r += "\\r"; else if (ch == '\n') r += "\\n"; else if (ch == '\t') r += "\\t"; else if (ch < 0x20) r += bsx::fmt("\\x%02x", ch); else r.push_back(static_cast<char>(ch)); } return r;
}
static std::string showTable(const Table& t) {
	std::string r; for (auto& rec : t) { r += "["; for (size_t i = 0; i < rec.size(); ++i) { if (i) r += "|"; r += "'" + esc(rec[i]) + "'"; } r += "]"; } return r;
}

// ---- the real row class: string members, keys chosen at run time ---------------------------------------
static const char* const kCanary = "\x01not-loaded";
struct Schema { int n = 0; std::string names[3]; };
static Schema gSchema;
struct Row {
	std::string c[3];
	Row() { for (auto& s : c) s = kCanary; }
	template <class A> void Serialize(A& ar) { for (int i = 0; i < gSchema.n; ++i) ar << BS::KeyValue(gSchema.names[i], c[i]); }
};

// ---- one case --------------------------------------------------------------------------------------
enum Dir { Fwd = 0, Rev = 1, Malformed = 2 };
static const char* kDirName[] = {"fwd", "rev", "malformed"};
static const char* kBadName[] = {"one_more_field", "one_more_empty_field", "one_field_fewer"};
struct Case {
	int dir = Fwd, sep = 0, cols = 1, rows = 0;
	int hdr[3] = {-1, -1, -1};          // header symbol, -1 = plain name k<i>
	int cell[3][3] = {};                // [row][column of the class], symbol index
	bool qh[3] = {}, qc[3][3] = {};     // rev: quoted although not required
	int eol = 0, fin = 0, perm = 0;     // rev: 0 CRLF / 1 LF; 0 final line break / 1 none; column order of the file
	int src = 0;
	int badRow = 0, badKind = 0;        // malformed
	std::string name(int i) const { return hdr[i] < 0 ? "k" + std::to_string(i) : hdrSyms()[static_cast<size_t>(hdr[i])].text; }
	const std::string& text(int r, int c) const { return cellSyms()[static_cast<size_t>(cell[r][c])].text; }
	char sepChar() const { return kSep[sep]; }
	Table table(const std::vector<int>& order) const {   // header + rows in the given column order
		Table t(static_cast<size_t>(rows) + 1);
		for (int j : order) { t[0].push_back(name(j)); for (int r = 0; r < rows; ++r) t[static_cast<size_t>(r) + 1].push_back(text(r, j)); }
		return t;
	}
	const std::vector<int>& order() const { return perms(cols)[static_cast<size_t>(perm)]; }
};
struct Verdict { std::string cls = "ok", detail; bool ok() const { return cls == "ok"; } bool na() const { return cls.rfind("n/a", 0) == 0; } };

static BS::SerializationOptions optionsFor(const Case& k) {
	BS::SerializationOptions o; o.valuesSeparator = k.sepChar();
	if (srcStream(k.src)) { o.streamOptions.encoding = libEnc(srcEnc(k.src)); o.streamOptions.writeBom = srcBom(k.src); }
	return o;
}
static void setSchema(const Case& k) { gSchema.n = k.cols; for (int i = 0; i < k.cols; ++i) gSchema.names[i] = k.name(i); }

// Everything about a case that does not depend on the source / sink is prepared once per execution.
struct Prep {
	Verdict early;                      // set when the case is decided (or not judged) before any source is looked at
	// fwd
	Table want; std::vector<Row> rowsToSave; std::string mem; Verdict textVerdict;
	// rev / malformed
	Table recs; std::string text; std::u32string utext;
};

// ---- forward ------------------------------------------------------------------------------------------
static Prep prepareFwd(const Case& k) {
	Prep p; setSchema(k);
	std::vector<int> ident; for (int i = 0; i < k.cols; ++i) ident.push_back(i);
	p.want = k.table(ident);
	p.rowsToSave.resize(static_cast<size_t>(k.rows));
	for (int r = 0; r < k.rows; ++r) for (int c = 0; c < k.cols; ++c) p.rowsToSave[static_cast<size_t>(r)].c[c] = k.text(r, c);
	Case km = k; km.src = 0;
	lib::Out om = lib::guard([&] { BS::SaveObject<CS>(p.rowsToSave, p.mem, optionsFor(km)); });
	if (!om.ok()) { p.early.cls = "save_threw:" + om.cls; p.early.detail = om.what; return p; }
	const char sep = k.sepChar(); Verdict& v = p.textVerdict; const std::string& mem = p.mem; const Table& want = p.want;
	if (k.rows == 0 && mem.empty()) {
		// no object, so the writer cannot know the keys: a header line is not demanded, but what was saved must load as an empty list
		std::vector<Row> got(1);
		lib::Out ol = lib::guard([&] { BS::LoadObject<CS>(got, mem, optionsFor(km)); });
		if (!ol.ok() || !got.empty()) { v.cls = "empty_list_saved_as_empty_text_not_loadable"; v.detail = "SaveObject(empty vector) wrote 0 bytes; LoadObject of that: " + ol.cls + " " + ol.what; }
		return p;
	}
	refcsv::Parsed ps = refcsv::parse(mem, sep);
	if (ps.ok && refcsv::values(ps) == want) return p;
	// diagnosis: is the output what a writer produces that leaves the cells of one symbol (or all cells) unquoted although they need quoting?
	bool unquoted = false;
	for (int s = -2; s < static_cast<int>(cellSyms().size()) && !unquoted; ++s) {   // -2: every field raw, -1: header fields raw, >= 0: the cells of that symbol raw
		auto mode = [&](size_t rec, size_t col) { if (rec == 0) return s < 0 ? refcsv::Raw : refcsv::Minimal; return (s == -2 || k.cell[rec - 1][col] == s) ? refcsv::Raw : refcsv::Minimal; };
		if (refcsv::render(want, sep, mode) == mem && refcsv::render(want, sep) != mem) unquoted = true;
	}
	v.cls = unquoted ? "not_quoted" : !ps.ok ? "ref_parser_rejects" : "parser_recovers_other_table";
	v.detail = "table " + showTable(want) + " sep '" + esc(std::string(1, sep)) + "' saved as '" + esc(mem) + "': " + (ps.ok ? "an RFC 4180 parser reads " + showTable(refcsv::values(ps)) : "rejected by an RFC 4180 parser at offset " + std::to_string(ps.errorPos) + " (" + ps.error + ")");
	return p;
}
static Verdict judgeFwd(const Case& k, Prep& p) {
	if (!p.early.ok()) return p.early;
	if (!srcStream(k.src)) return p.textVerdict;
	Verdict v; setSchema(k);
	std::ostringstream os;
	lib::Out so = lib::guard([&] { BS::SaveObject<CS>(p.rowsToSave, os, optionsFor(k)); });
	if (!so.ok()) { v.cls = "stream_save_threw:" + so.cls; v.detail = so.what; return v; }
	const std::string& mem = p.mem;
	std::string bytes = os.str(); const int enc = srcEnc(k.src); const std::string bom = refus::bom(enc);
	const bool hasBom = bytes.compare(0, bom.size(), bom) == 0;
	auto fail = [&](const char* cls) { v.cls = cls; v.detail = "table " + showTable(p.want) + ": memory '" + esc(mem) + "' stream bytes " + bsx::hex(bytes.substr(0, 160)); return v; };
	if (srcBom(k.src) && !hasBom) return fail("bom_missing");
	if (!srcBom(k.src) && hasBom) return fail("unexpected_bom");
	if (enc == refus::U8 && !srcBom(k.src)) { if (bytes != mem) return fail("mem_stream_differ"); return v; }
	refus::Decoded d = refus::decode(bytes.substr(srcBom(k.src) ? bom.size() : 0), enc);
	if (d.tail != refus::TailNone) return fail("stream_not_wellformed");
	if (refus::toUtf8(d.text) != mem) return fail("mem_stream_differ");
	return v;
}

// ---- reverse and malformed -----------------------------------------------------------------------------
static Prep prepareRev(const Case& k) {
	Prep p; Verdict& v = p.early;
	if (k.dir == Malformed && k.badKind == 2 && k.cols == 1) { v.cls = "n/a:no_record_with_zero_fields"; return p; }
	const std::vector<int>& ord = k.order();
	p.recs = k.table(ord);
	if (k.dir == Malformed) {
		auto& rec = p.recs[static_cast<size_t>(k.badRow) + 1];
		if (k.badKind == 0) rec.push_back("x"); else if (k.badKind == 1) rec.push_back(""); else rec.pop_back();
	}
	auto mode = [&](size_t rec, size_t col) {
		if (col >= ord.size()) return refcsv::Minimal;
		int j = ord[col];
		return (rec == 0 ? k.qh[j] : k.qc[rec - 1][j]) ? refcsv::Quoted : refcsv::Minimal;
	};
	p.text = refcsv::render(p.recs, k.sepChar(), mode, k.eol ? "\n" : "\r\n", k.fin == 0);
	// the reference parser must read the rendering back as the table (reference writer and parser check each other on every case)
	refcsv::Parsed ps = refcsv::parse(p.text, k.sepChar());
	if (!(ps.ok && refcsv::values(ps) == p.recs)) {
		// the one ambiguity of the grammar: a last record that is a single empty unquoted field, without final line break, is indistinguishable from a final line break
		const auto& last = p.recs.back();
		if (ps.ok && k.fin == 1 && last.size() == 1 && last[0].empty() && ps.records.size() + 1 == p.recs.size()) { v.cls = "n/a:ambiguous_final_empty_record"; return p; }
		fprintf(stderr, "C09 harness error: reference writer/parser disagree on '%s'\n", esc(p.text).c_str()); abort();
	}
	if (k.dir == Malformed && ps.rectangular()) { fprintf(stderr, "C09 harness error: malformed rendering is rectangular '%s'\n", esc(p.text).c_str()); abort(); }
	p.utext = refus::decode(p.text, refus::U8).text;
	return p;
}
static Verdict judgeRev(const Case& k, Prep& p) {
	if (!p.early.ok()) return p.early;
	Verdict v; setSchema(k);
	const std::string& text = p.text;
	std::string encoded;
	if (srcStream(k.src)) {
		const int enc = srcEnc(k.src);
		// without a BOM the encoding can only be told from the text itself; the library documents auto-detection, which presupposes an ASCII start (same reading as C13)
		if (!srcBom(k.src) && enc != refus::U8 && !p.utext.empty() && p.utext[0] >= 0x80) { v.cls = "n/a:bomless_utf16_32_nonascii_start"; return v; }
		encoded = (srcBom(k.src) ? refus::bom(enc) : std::string()) + (enc == refus::U8 ? text : refus::encode(p.utext, enc));
	}
	std::vector<Row> got;
	lib::Out o = srcStream(k.src) ? lib::guard([&] { std::istringstream is(encoded); BS::LoadObject<CS>(got, is, optionsFor(k)); }) : lib::guard([&] { BS::LoadObject<CS>(got, text, optionsFor(k)); });
	auto doc = [&] { return "document '" + esc(text) + "' (" + srcName(k.src) + ")"; };
	if (k.dir == Malformed) {
		if (o.ok()) { v.cls = "malformed_accepted"; v.detail = doc() + " has a record with " + kBadName[k.badKind] + " but loaded " + std::to_string(got.size()) + " rows without error"; }
		else if (o.cls != "ser:ParsingError") { v.cls = "malformed_other_error:" + o.cls; v.detail = doc() + ": " + o.what; }
		return v;
	}
	if (!o.ok()) { v.cls = "load_threw:" + o.cls; v.detail = doc() + " threw " + o.what; return v; }
	if (static_cast<int>(got.size()) != k.rows) { v.cls = "row_count_differs"; v.detail = doc() + " loaded " + std::to_string(got.size()) + " rows, expected " + std::to_string(k.rows); return v; }
	for (int r = 0; r < k.rows; ++r) for (int c = 0; c < k.cols; ++c) {
		const std::string& g = got[static_cast<size_t>(r)].c[c];
		if (g == k.text(r, c)) continue;
		v.cls = g == kCanary ? "value_not_loaded" : "row_value_differs";
		v.detail = doc() + ": row " + std::to_string(r) + " member '" + esc(k.name(c)) + "' = '" + esc(g) + "', expected '" + esc(k.text(r, c)) + "'";
		return v;
	}
	return v;
}
static Prep prepare(const Case& k) { return k.dir == Fwd ? prepareFwd(k) : prepareRev(k); }
static Verdict judge(const Case& k, Prep& p) { return k.dir == Fwd ? judgeFwd(k, p) : judgeRev(k, p); }
static Verdict judge(const Case& k) { Prep p = prepare(k); return judge(k, p); }

// ---- minimisation and signature --------------------------------------------------------------------------
// One greedy pass: a dimension is put back to its default whenever the case still fails (with whatever outcome class).
// Every minimal failing case is itself inside the enumerated space and minimises to itself, so no cause can hide
// behind another one; the signature carries the outcome class of the minimised case.
static Case minimise(Case k) {
	auto keepIf = [&](Case t) { Verdict r = judge(t); if (!r.ok() && !r.na()) k = t; };
	if (k.src > 1) { Case t = k; t.src = 1; keepIf(t); }
	if (k.dir != Fwd) {
		if (k.perm) { Case t = k; t.perm = 0; keepIf(t); }
		if (k.eol) { Case t = k; t.eol = 0; keepIf(t); }
		if (k.fin) { Case t = k; t.fin = 0; keepIf(t); }
		for (int i = 0; i < k.cols; ++i) if (k.qh[i]) { Case t = k; t.qh[i] = false; keepIf(t); }
		for (int r = 0; r < k.rows; ++r) for (int c = 0; c < k.cols; ++c) if (k.qc[r][c]) { Case t = k; t.qc[r][c] = false; keepIf(t); }
	}
	for (int r = 0; r < k.rows; ++r) for (int c = 0; c < k.cols; ++c) if (k.cell[r][c] != SymA) {
		Case t = k; t.cell[r][c] = SymA; keepIf(t);
		// a special cell that only matters because it is quoted is reported as the quoted default cell
		if (k.cell[r][c] != SymA && k.dir != Fwd && refcsv::needsQuote(k.text(r, c), k.sepChar())) { Case u = k; u.cell[r][c] = SymA; u.qc[r][c] = true; keepIf(u); }
	}
	for (int i = 0; i < k.cols; ++i) if (k.hdr[i] >= 0) { Case t = k; t.hdr[i] = -1; keepIf(t); }
	if (k.sep) { Case t = k; t.sep = 0; keepIf(t); }
	return k;
}
static std::string signature(const Case& k, const std::string& cls) {
	std::string s = std::string("C09/") + kDirName[k.dir] + "/" + srcName(k.src) + "/sep=" + kSepName[k.sep];
	const std::vector<int>& ord = k.order();
	if (k.dir != Fwd) s += std::string("/eol=") + (k.eol ? "lf" : "crlf") + "/final=" + (k.fin ? "no" : "yes") + "/order=" + (k.perm ? "permuted" : "identity");
	if (k.dir == Malformed) s += std::string("/bad=") + kBadName[k.badKind];
	auto pos = [&](int c) { int j = 0; for (int i = 0; i < k.cols; ++i) if (ord[static_cast<size_t>(i)] == c) j = i; return k.cols == 1 ? "only" : j == 0 ? "first" : j == k.cols - 1 ? "last" : "middle"; };
	std::set<std::string> items;
	for (int i = 0; i < k.cols; ++i) if (k.hdr[i] >= 0 || k.qh[i]) items.insert(std::string("hdr:") + (k.qh[i] ? "q:" : "") + (k.hdr[i] < 0 ? "plain" : hdrSyms()[static_cast<size_t>(k.hdr[i])].name) + "@" + pos(i));
	for (int r = 0; r < k.rows; ++r) for (int c = 0; c < k.cols; ++c) if (k.cell[r][c] != SymA || k.qc[r][c]) items.insert(std::string(k.qc[r][c] ? "q:" : "") + cellSyms()[static_cast<size_t>(k.cell[r][c])].name + "@" + pos(c));
	std::string list; for (auto& it : items) list += (list.empty() ? "" : "+") + it;
	s += "/rows=" + std::string(k.rows == 0 ? "0" : "some") + "/cells=" + (list.empty() ? "plain" : list) + "/out=" + cls;
	return s;
}
static void report(bsx::Ctx& c, const Case& k, const Verdict& v) {
	Case m = minimise(k);
	Verdict vm = judge(m);
	if (vm.ok() || vm.na()) { m = k; vm = v; }
	c.violation(signature(m, vm.cls), vm.detail + " || found in: " + v.detail);
}

// Bounds per tier. Every source is judged for every case with at most one deviation; the cases with two deviations are
// judged from the sources in `deepSources` (the encoding layer is crossed before / after the CSV layer and is judged on
// its own by C13; the memory reader / writer and the stream reader / writer are different code and always both run).
struct Bounds { int rowAlts, fwdRot, revRot, malRot; std::vector<int> deepSources; };
static const Bounds& boundsFor(const std::string& tier) {
	static const Bounds quick{3, 4, 2, 1, {0, 1}};                 // memory, UTF-8 stream without BOM
	static const Bounds thorough{4, 4, 2, 1, {0, 1, 2, 4, 9}};     // + UTF-8 with BOM, UTF-16LE with BOM, UTF-32BE without BOM
	static const Bounds small{4, 4, 2, 1, {1, 9}};                 // c16: UTF-8 and UTF-32BE streams without BOM
	return kSmallChunks ? small : tier == "thorough" ? thorough : quick;
}
// ---- typed scenario: int32 / bool / time_point / string members ---------------------------------------------
using TP = std::chrono::time_point<std::chrono::system_clock, std::chrono::seconds>;
struct TRow {
	int32_t i = -77; bool b = false; TP t{std::chrono::seconds(-7)}; std::string s = kCanary;
	template <class A> void Serialize(A& ar) { ar << BS::KeyValue("i", i) << BS::KeyValue("b", b) << BS::KeyValue("t", t) << BS::KeyValue("s", s); }
};
static const int32_t kInts[] = {0, 1, -1, 2147483647, -2147483647 - 1};
static const long long kTimes[] = {0, 1672531200, -1, 951782400};   // 1970-01-01, 2023-01-01, 1969-12-31T23:59:59, 2000-02-29
static std::string isoUtc(long long secs) { time_t t = static_cast<time_t>(secs); struct tm g; gmtime_r(&t, &g); char b[40]; strftime(b, sizeof b, "%Y-%m-%dT%H:%M:%SZ", &g); return b; }
static const char* kTName[4] = {"i", "b", "t", "s"};
static const char* kIntName[] = {"zero", "one", "minus_one", "int_max", "int_min"};
static const char* kTimeName[] = {"epoch", "y2023", "pre_epoch", "leap_day"};
static const char* kStrName[] = {"a", "empty", "quote", "sep", "lf"};
static const int kQuickPerms[] = {0, 23, 9, 16, 5, 14};

struct TCase {
	int dir = 0, sep = 0, nrows = 1, perm = 0, eol = 0, fin = 0, src = 0;
	int v[2][4] = {};            // [row][member] value index
	bool q[3][4] = {};           // [record][member] quoted although not required
	char sepChar() const { return kSep[sep]; }
	std::string str(int r) const { const std::string strs[] = {"a", "", "\"", std::string(1, sepChar()), "\n"}; return strs[v[r][3]]; }
	Table want() const {
		Table t(static_cast<size_t>(nrows) + 1); t[0] = {"i", "b", "t", "s"};
		for (int r = 0; r < nrows; ++r) t[static_cast<size_t>(r) + 1] = {std::to_string(kInts[v[r][0]]), v[r][1] ? "true" : "false", isoUtc(kTimes[v[r][2]]), str(r)};
		return t;
	}
	std::vector<TRow> rows() const {
		std::vector<TRow> rs(static_cast<size_t>(nrows));
		for (int r = 0; r < nrows; ++r) { TRow& x = rs[static_cast<size_t>(r)]; x.i = kInts[v[r][0]]; x.b = v[r][1] != 0; x.t = TP(std::chrono::seconds(kTimes[v[r][2]])); x.s = str(r); }
		return rs;
	}
};
struct TPrep { Table want; std::vector<TRow> rows; std::string mem; lib::Out saved; std::string text; Table recs; };
static TPrep prepareTyped(const TCase& k) {
	TPrep p; p.want = k.want(); p.rows = k.rows();
	BS::SerializationOptions o; o.valuesSeparator = k.sepChar();
	if (k.dir == 0) { p.saved = lib::guard([&] { BS::SaveObject<CS>(p.rows, p.mem, o); }); return p; }
	const std::vector<int>& ord = perms(4)[static_cast<size_t>(k.perm)];
	p.recs.resize(p.want.size());
	for (size_t r = 0; r < p.want.size(); ++r) for (int j : ord) p.recs[r].push_back(p.want[r][static_cast<size_t>(j)]);
	p.text = refcsv::render(p.recs, k.sepChar(), [&](size_t r, size_t col) { return k.q[r][ord[col]] ? refcsv::Quoted : refcsv::Minimal; }, k.eol ? "\n" : "\r\n", k.fin == 0);
	refcsv::Parsed ps = refcsv::parse(p.text, k.sepChar());
	if (!ps.ok || refcsv::values(ps) != p.recs) { fprintf(stderr, "C09 harness error (typed): '%s'\n", esc(p.text).c_str()); abort(); }
	return p;
}
static Verdict judgeTyped(const TCase& k, TPrep& p) {
	Verdict v; const int s = k.src; const char sepc = k.sepChar();
	BS::SerializationOptions o; o.valuesSeparator = sepc;
	if (k.dir == 0) {
		if (!p.saved.ok()) { v.cls = "save_threw:" + p.saved.cls; v.detail = p.saved.what; return v; }
		if (s == 0) {
			refcsv::Parsed ps = refcsv::parse(p.mem, sepc);
			if (!ps.ok || refcsv::values(ps) != p.want) { v.cls = ps.ok ? "typed_text_differs" : "ref_parser_rejects"; v.detail = "expected " + showTable(p.want) + " saved as '" + esc(p.mem) + "'" + (ps.ok ? " read as " + showTable(refcsv::values(ps)) : " rejected: " + ps.error); }
			return v;
		}
		o.streamOptions.encoding = libEnc(srcEnc(s)); o.streamOptions.writeBom = srcBom(s);
		std::ostringstream os; lib::Out oo = lib::guard([&] { BS::SaveObject<CS>(p.rows, os, o); });
		std::string bytes = os.str(), bom = srcBom(s) ? refus::bom(srcEnc(s)) : std::string();
		bool okS = oo.ok() && bytes.compare(0, bom.size(), bom) == 0;
		if (okS) { refus::Decoded d = refus::decode(bytes.substr(bom.size()), srcEnc(s)); okS = d.tail == refus::TailNone && refus::toUtf8(d.text) == p.mem; }
		if (!okS) { v.cls = "mem_stream_differ"; v.detail = "memory '" + esc(p.mem) + "' stream " + oo.cls + " " + bsx::hex(bytes.substr(0, 160)); }
		return v;
	}
	std::string bytes = p.text;
	if (s) bytes = (srcBom(s) ? refus::bom(srcEnc(s)) : std::string()) + refus::encode(refus::decode(p.text, refus::U8).text, srcEnc(s));
	std::vector<TRow> got;
	lib::Out ol = s ? lib::guard([&] { std::istringstream is(bytes); BS::LoadObject<CS>(got, is, o); }) : lib::guard([&] { BS::LoadObject<CS>(got, bytes, o); });
	std::string det;
	if (!ol.ok()) { v.cls = "load_threw:" + ol.cls; det = ol.what; }
	else if (got.size() != p.rows.size()) v.cls = "row_count_differs";
	else for (size_t r = 0; r < p.rows.size() && v.ok(); ++r) {
		if (got[r].i != p.rows[r].i) { v.cls = "int_differs"; det = std::to_string(got[r].i); }
		else if (got[r].b != p.rows[r].b) v.cls = "bool_differs";
		else if (got[r].t != p.rows[r].t) { v.cls = "time_differs"; det = std::to_string(got[r].t.time_since_epoch().count()); }
		else if (got[r].s != p.rows[r].s) { v.cls = got[r].s == kCanary ? "value_not_loaded" : "row_value_differs"; det = esc(got[r].s); }
	}
	if (!v.ok()) v.detail = "document '" + esc(p.text) + "' (" + srcName(s) + ") expected " + showTable(p.want) + " got " + det;
	return v;
}
static Verdict judgeTyped(const TCase& k) { TPrep p = prepareTyped(k); return judgeTyped(k, p); }
static TCase minimiseTyped(TCase k) {
	auto keepIf = [&](TCase t) { if (!judgeTyped(t).ok()) k = t; };
	if (k.src > 1) { TCase t = k; t.src = 1; keepIf(t); }
	if (k.perm) { TCase t = k; t.perm = 0; keepIf(t); }
	if (k.eol) { TCase t = k; t.eol = 0; keepIf(t); }
	if (k.fin) { TCase t = k; t.fin = 0; keepIf(t); }
	for (int r = 0; r <= k.nrows; ++r) for (int m = 0; m < 4; ++m) if (k.q[r][m]) { TCase t = k; t.q[r][m] = false; keepIf(t); }
	for (int r = 0; r < k.nrows; ++r) for (int m = 0; m < 4; ++m) if (k.v[r][m]) { TCase t = k; t.v[r][m] = 0; keepIf(t); }
	if (k.sep) { TCase t = k; t.sep = 0; keepIf(t); }   // the string value "sep" follows the separator
	return k;
}
static std::string signatureTyped(const TCase& k, const std::string& cls) {
	std::string s = std::string("C09/typed-") + (k.dir ? "rev" : "fwd") + "/" + srcName(k.src) + "/sep=" + kSepName[k.sep];
	if (k.dir) s += std::string("/eol=") + (k.eol ? "lf" : "crlf") + "/final=" + (k.fin ? "no" : "yes") + "/order=" + (k.perm ? "permuted" : "identity");
	std::set<std::string> items;
	for (int r = 0; r <= k.nrows; ++r) for (int m = 0; m < 4; ++m) if (k.q[r][m]) items.insert(std::string(r ? "q:" : "q:hdr:") + kTName[m]);
	for (int r = 0; r < k.nrows; ++r) {
		if (k.v[r][0]) items.insert(std::string("i:") + kIntName[k.v[r][0]]);
		if (k.v[r][1]) items.insert("b:true");
		if (k.v[r][2]) items.insert(std::string("t:") + kTimeName[k.v[r][2]]);
		if (k.v[r][3]) items.insert(std::string("s:") + kStrName[k.v[r][3]]);
	}
	std::string list; for (auto& it : items) list += (list.empty() ? "" : "+") + it;
	return s + "/cells=" + (list.empty() ? "plain" : list) + "/out=" + cls;
}

static void typedScenario(bsx::Ctx& c) {
	const bool th = c.tier == "thorough";
	TCase k;
	k.sep = c.choose(5, "sep");
	k.nrows = 1 + c.choose(2, "rows");
	k.dir = c.choose(2, "direction");
	if (kSmallChunks && k.dir == 0) { c.choose(1, "pad"); c.choose(1, "pad"); c.outcome("n/a:chunk_variant_reads_only"); return; }
	if (k.dir == 1) { k.perm = th ? c.choose(24, "order") : kQuickPerms[c.choose(6, "order")]; k.eol = c.choose(2, "eol"); k.fin = c.choose(2, "final"); } else { c.choose(1, "pad"); c.choose(1, "pad"); }
	static const int alts[4] = {5, 2, 4, 5};
	for (int r = 0; r < k.nrows; ++r) for (int m = 0; m < 4; ++m) k.v[r][m] = c.deviate(alts[m], "value");
	if (k.dir == 1) { const Table w = k.want(); for (int r = 0; r <= k.nrows; ++r) for (int m = 0; m < 4; ++m) if (!refcsv::needsQuote(w[static_cast<size_t>(r)][static_cast<size_t>(m)], k.sepChar())) k.q[r][m] = c.deviate(2, "quote") != 0; }
	const std::string base = std::string("C09/typed-") + (k.dir ? "rev" : "fwd");
	c.describe(base + "/prepare", std::string("sep=") + kSepName[k.sep]);
	TPrep p = prepareTyped(k);
	const std::string human = c.replaying ? (k.dir ? "document '" + esc(p.text) + "'" : "rows " + showTable(p.want)) : std::string();
	const uint64_t key = bsx::fnv(k.dir ? p.text : showTable(p.want)) + static_cast<uint64_t>(k.sep * 2 + k.dir);
	const std::vector<int>& deep = boundsFor(c.tier).deepSources;
	int ns = 0;
	for (int s = 0; s < kSources; ++s) {
		if (kSmallChunks && s == 0) continue;
		if (c.deviations_used() > 1 && std::find(deep.begin(), deep.end(), s) == deep.end()) continue;
		++ns; k.src = s;
		c.describe(base + "/" + srcName(s), human);
		Verdict v = judgeTyped(k, p);
		c.outcome(std::string("typed-") + (k.dir ? "rev:" : "fwd:") + (s ? "stream:" : "mem:") + v.cls);
		c.nontrivial(key + static_cast<uint64_t>(s + 1) * 0x9e3779b97f4a7c15ull);
		if (!v.ok()) { TCase m = minimiseTyped(k); Verdict vm = judgeTyped(m); if (vm.ok()) { m = k; vm = v; } c.violation(signatureTyped(m, vm.cls), vm.detail + " || found in: " + v.detail); }
	}
	if (ns > 1) c.evals(static_cast<uint64_t>(ns - 1));
}

static uint64_t caseKey(const Case& k) {
	uint64_t h = bsx::fnv(&k.dir, sizeof k.dir); h = bsx::fnv(&k.sep, sizeof k.sep, h); h = bsx::fnv(&k.cols, sizeof k.cols, h); h = bsx::fnv(&k.rows, sizeof k.rows, h);
	h = bsx::fnv(k.hdr, sizeof k.hdr, h); h = bsx::fnv(k.cell, sizeof k.cell, h); h = bsx::fnv(k.qh, sizeof k.qh, h); h = bsx::fnv(k.qc, sizeof k.qc, h);
	const int rest[5] = {k.eol, k.fin, k.perm, k.badRow, k.badKind}; return bsx::fnv(rest, sizeof rest, h);
}

static void body(bsx::Ctx& c) {
	const Bounds& B = boundsFor(c.tier);
	const int scen = c.choose(4, "scenario");
	if (scen == 3) { typedScenario(c); return; }
	if (kSmallChunks && scen == Fwd) { c.choose(1, "pad"); c.choose(1, "pad"); c.choose(1, "pad"); c.choose(1, "pad"); c.outcome("n/a:chunk_variant_reads_only"); return; }
	Case k; k.dir = scen;
	k.sep = c.choose(5, "sep");
	k.cols = 1 + c.choose(3, "cols");
	k.rows = scen == Malformed ? 1 + c.choose(B.rowAlts - 1, "rows") : c.choose(B.rowAlts, "rows");
	static const int rotOf[3][4] = {{0, 1, 2, 3}, {0, 2, 1, 3}, {0, 2, 1, 3}};
	const int rot = rotOf[scen][c.choose(scen == Fwd ? B.fwdRot : scen == Rev ? B.revRot : B.malRot, "header")];
	for (int i = 0; i < k.cols; ++i) k.hdr[i] = (rot + i) % 4;
	if (scen == Rev) k.perm = c.choose(k.cols == 1 ? 1 : k.cols == 2 ? 2 : 6, "order");
	if (scen != Fwd) { k.eol = c.choose(2, "eol"); k.fin = c.choose(2, "final"); }
	if (scen == Malformed) { k.badRow = c.choose(k.rows, "bad_row"); k.badKind = c.choose(3, "bad_kind"); }
	const std::vector<int> alpha = alphabetFor(scen == Malformed ? 3 : k.rows, k.sep);
	for (int r = 0; r < k.rows; ++r) for (int col = 0; col < k.cols; ++col) k.cell[r][col] = alpha[static_cast<size_t>(c.deviate(static_cast<int>(alpha.size()), "cell"))];
	if (scen == Rev) {
		for (int i = 0; i < k.cols; ++i) if (!refcsv::needsQuote(k.name(i), k.sepChar())) k.qh[i] = c.deviate(2, "quote_header") != 0;
		for (int r = 0; r < k.rows; ++r) for (int col = 0; col < k.cols; ++col) if (!refcsv::needsQuote(k.text(r, col), k.sepChar())) k.qc[r][col] = c.deviate(2, "quote_cell") != 0;
	}
	c.describe(std::string("C09/") + kDirName[k.dir] + "/prepare", std::string("sep=") + kSepName[k.sep]);
	Prep p = prepare(k);
	// the written-out case is only needed for a report; a crash is attributed through the recorded choices
	auto humanText = [&] { return std::string("sep=") + kSepName[k.sep] + (scen == Fwd ? " table " + showTable(p.want) : " document '" + esc(p.text) + "'"); };
	const std::string human = c.replaying ? humanText() : std::string();
	const uint64_t key = caseKey(k);
	int judged = 0;
	for (int s = 0; s < kSources; ++s) {
		if (kSmallChunks && s == 0) continue;
		if (c.deviations_used() > 1 && (std::find(B.deepSources.begin(), B.deepSources.end(), s) == B.deepSources.end() || (scen == Malformed && s > 1))) continue;
		k.src = s;
		c.describe(std::string("C09/") + kDirName[k.dir] + "/" + srcName(s), human);
		Verdict v = judge(k, p); ++judged;
		c.outcome(std::string(kDirName[k.dir]) + ":" + (s ? "stream:" : "mem:") + v.cls);
		if (v.na()) continue;
		c.nontrivial(key + static_cast<uint64_t>(s + 1) * 0x9e3779b97f4a7c15ull);
		if (!v.ok()) report(c, k, v);
		else if (s == 4 && k.cols == 3 && k.rows == 2 && c.deviations_used() == 1 && k.cell[1][2] == SymQuote) c.sample(std::string(kDirName[k.dir]) + " " + srcName(s) + " " + humanText() + " -> ok");
	}
	if (judged > 1) c.evals(static_cast<uint64_t>(judged - 1));
}

int main(int argc, char** argv) {
	if (std::string e = refcsv::selfTest(); !e.empty()) { fprintf(stderr, "C09: reference CSV self-test failed: %s\n", e.c_str()); return 2; }
	bsx::Config cfg; cfg.part_depth = 5; cfg.max_dev = 2; cfg.hang_s = 5;
	bsx::Engine e("C09", body, cfg);
	e.mTierSetup = [](const std::string& tier, bsx::Config& c) { c.max_dev = 2; (void)tier; };
	return e.main(argc, argv);
}
