// C17 — validation reports exactly the failing fields and rules, after a full load.
// E2 against a tiny model (ref/ref_validation.hpp, written from the documentation):
// objects with F <= 3 fields (flat / nested object / elements of a root array of 2 / values of a
// std::map with 2 entries), each field carrying an ordered list of <= 3 validators chosen AT RUN TIME
// from {Required, Range, MinSize, MaxSize, Email, PhoneNumber, custom lambda} with default or custom
// message. The run-time choice is made by DynV<T>, a functor that satisfies the library's is_validator
// trait and delegates to the REAL functor objects of validators.h, so the real KeyValue::VisitArgs /
// SerializationContext::AddValidationError / OnFinishSerialization path runs. Every field of the
// document is put into every condition of its alphabet (valid, at/inside/outside each bound, absent,
// null, mismatched-and-skipped, overflowed-and-skipped), maxValidationErrors in {0,1,2,3}, 4 archives;
// documents come from the independent emitters (tl::emit) applied to a ref::Val tree.
// The enumeration is cut into segments (see plan()): the sanitizer build runs the base plan in both tiers,
// the plain -O2 build compiled with -DC17_WIDE runs the large F=2 / F=3 products in the thorough tier.
// One engine execution = one (archive x nesting, segment, cap, types, message mode, validator lists)
// configuration; its inner loop runs every condition vector of that configuration.
#include "harness/typed_load.hpp"
#include "ref/ref_validation.hpp"
#include "harness/kinds_scenario.hpp"
#include "bitserializer/types/std/vector.h"
#include "bitserializer/types/std/map.h"
#include <unordered_set>

namespace BS = BitSerializer;
using ref::Val; using tl::archName;
using namespace rv;

// ---- run-time shape of the object under test -------------------------------------------------------
struct VSpec { int kind; bool custom; };
struct Shape { int F = 1; int type[3] = {TI, TI, TI}; std::vector<VSpec> vals[3]; };
static Shape gShape;                      // read by Obj (its instances are created by the library inside vector / map)
static uint64_t gInvocations = 0;         // validator invocations (transitions)
static const char* const KEYS[3] = {"c", "a", "b"};   // declaration = load order; differs from sorted (= document = error map) order
static const int DOC_ORDER[3] = {1, 2, 0};
constexpr int32_t CANARY_I = -1000; static const char* const CANARY_S = "canary"; constexpr int32_t SENTINEL = 42;

static const char* customText(int f, int slot, int kind) {
	static std::string t[3][3][NKinds]; static bool init = false;
	// e.g. "custom-G1-a" (Range, second validator, field a); shares no keyword with the default texts
	if (!init) { for (int a = 0; a < 3; ++a) for (int b = 0; b < 3; ++b) for (int k = 0; k < NKinds; ++k) t[a][b][k] = std::string("custom-") + "QGNXEPL"[k] + std::to_string(b) + "-" + KEYS[a]; init = true; }
	return t[f][slot][kind].c_str();
}
static const char* const LAMBDA_TEXT_I = "The value must be even";
static const char* const LAMBDA_TEXT_S = "The field must not contain spaces";
// the custom validators (real lambdas, as in the README example)
static const auto lambdaI = [](const int32_t& value, bool isLoaded) -> std::optional<std::string> { if (!isLoaded || value % 2 == 0) return std::nullopt; return LAMBDA_TEXT_I; };
static const auto lambdaS = [](const std::string& value, bool isLoaded) -> std::optional<std::string> { if (!isLoaded || value.find_first_of(' ') == std::string::npos) return std::nullopt; return LAMBDA_TEXT_S; };

// expected-message objects of the reference model (built once)
static const Msg* expectedMsg(int type, int f, int slot, const VSpec& v) {
	static std::vector<Msg> def, cus; static Msg lam[2];
	if (def.empty()) {
		for (int k = 0; k < NKinds; ++k) def.push_back(defaultMsg(k));
		for (int a = 0; a < 3; ++a) for (int b = 0; b < 3; ++b) for (int k = 0; k < NKinds; ++k) cus.push_back(exactMsg(k, customText(a, b, k)));
		lam[TI] = exactMsg(Lam, LAMBDA_TEXT_I); lam[TS] = exactMsg(Lam, LAMBDA_TEXT_S);
	}
	if (v.kind == Lam) return &lam[type];
	return v.custom ? &cus[static_cast<size_t>((f * 3 + slot) * NKinds + v.kind)] : &def[static_cast<size_t>(v.kind)];
}

// DynV<T>: a validator in the sense of is_validator (operator()(const T&, bool) -> optional<string>) whose
// rule is chosen at run time; it owns one real functor of each kind and forwards the call to the chosen one.
template <class T> class DynV {
	static constexpr bool isStr = std::is_same_v<T, std::string>;
	struct NoRange { NoRange(long long, long long, const char*) {} std::optional<std::string> operator()(const T&, bool) const { return std::nullopt; } };
	using RangeT = std::conditional_t<isStr, NoRange, BS::Range<T>>;
public:
	DynV(const VSpec& s, int f, int slot)
		: mKind(s.kind), mMsg(s.custom ? customText(f, slot, s.kind) : nullptr)
		, mReq(mMsg ? BS::Required(mMsg) : BS::Required()), mRng(static_cast<int32_t>(LO), static_cast<int32_t>(HI), mMsg), mMin(MINSZ, mMsg), mMax(MAXSZ, mMsg)
		, mEml(mMsg ? BS::Email(mMsg) : BS::Email()), mPhn(mMsg ? BS::PhoneNumber(7, 15, true, mMsg) : BS::PhoneNumber()) {}
	std::optional<std::string> operator()(const T& value, bool isLoaded) const {
		++gInvocations;
		if (mKind == Req) return mReq(value, isLoaded);
		if constexpr (isStr) {
			switch (mKind) {
			case Min: return mMin(value, isLoaded);
			case Max: return mMax(value, isLoaded);
			case Eml: return mEml(value, isLoaded);
			case Phn: return mPhn(value, isLoaded);
			case Lam: return lambdaS(value, isLoaded);
			default: return std::nullopt;
			}
		} else {
			if (mKind == Rng) return mRng(value, isLoaded);
			if (mKind == Lam) return lambdaI(value, isLoaded);
			return std::nullopt;
		}
	}
private:
	int mKind; const char* mMsg;
	BS::Required mReq; RangeT mRng; BS::MinSize mMin; BS::MaxSize mMax; BS::Email mEml; BS::PhoneNumber mPhn;
};
static_assert(BS::is_validator_v<DynV<int32_t>, int32_t&> && BS::is_validator_v<DynV<std::string>, std::string&>, "DynV must be accepted by the library as a validator");

template <class A, class T> static void putField(A& ar, int f, T& v) {
	const auto& vs = gShape.vals[f]; using D = DynV<T>; std::string key = KEYS[f];
	switch (vs.size()) {
	case 0: ar << BS::KeyValue(std::move(key), v); break;
	case 1: ar << BS::KeyValue(std::move(key), v, D(vs[0], f, 0)); break;
	case 2: ar << BS::KeyValue(std::move(key), v, D(vs[0], f, 0), D(vs[1], f, 1)); break;
	default: ar << BS::KeyValue(std::move(key), v, D(vs[0], f, 0), D(vs[1], f, 1), D(vs[2], f, 2)); break;
	}
}
struct Obj {
	int32_t i[3]; std::string s[3]; int32_t z = -77;
	Obj() { for (int f = 0; f < 3; ++f) { i[f] = CANARY_I - f; s[f] = CANARY_S; } }
	template <class A> void Serialize(A& ar) {
		for (int f = 0; f < gShape.F; ++f) { if (gShape.type[f] == TI) putField(ar, f, i[f]); else putField(ar, f, s[f]); }
		ar << BS::KeyValue("z", z);   // sentinel declared last: loaded iff the load ran to its end
	}
};
struct Nested { Obj inner; template <class A> void Serialize(A& ar) { ar << BS::KeyValue("inner", inner); } };
struct Mapped { std::map<std::string, Obj> m; template <class A> void Serialize(A& ar) { ar << BS::KeyValue("m", m); } };

enum Nest { Flat = 0, NestedObj, Array2, Map2 };
static const char* nestName(int n) { static const char* s[] = {"flat", "nested", "array2", "map2"}; return s[n]; }
struct Combo { int arch, nest; };
static const std::vector<Combo>& combos() {
	static const std::vector<Combo> c = {{tl::MsgPack, Flat}, {tl::MsgPack, NestedObj}, {tl::MsgPack, Array2}, {tl::MsgPack, Map2}, {tl::Json, Flat}, {tl::Json, NestedObj}, {tl::Json, Array2}, {tl::Json, Map2},
		{tl::Xml, Flat}, {tl::Xml, NestedObj}, {tl::Xml, Array2}, {tl::Xml, Map2}, {tl::Csv, Array2}};   // CSV: flat rows only
	return c;
}

// the loaded targets of one case
struct Target {
	Obj flat; Nested nested; std::vector<Obj> arr; Mapped mapped;
	const Obj* elem(int nest, int e) const {
		switch (nest) {
		case Flat: return &flat; case NestedObj: return &nested.inner;
		case Array2: return static_cast<size_t>(e) < arr.size() ? &arr[static_cast<size_t>(e)] : nullptr;
		default: { auto it = mapped.m.find(e ? "k2" : "k1"); return it == mapped.m.end() ? nullptr : &it->second; }
		}
	}
};
template <class A> static lib::Out loadAs(int nest, Target& t, const std::string& bytes, const BS::SerializationOptions& o) {
	switch (nest) {
	case Flat: return lib::guard([&] { BS::LoadObject<A>(t.flat, bytes, o); });
	case NestedObj: return lib::guard([&] { BS::LoadObject<A>(t.nested, bytes, o); });
	case Array2: return lib::guard([&] { BS::LoadObject<A>(t.arr, bytes, o); });
	default: return lib::guard([&] { BS::LoadObject<A>(t.mapped, bytes, o); });
	}
}
static lib::Out loadCase(int arch, int nest, Target& t, const std::string& bytes, const BS::SerializationOptions& o) {
	switch (arch) {
	case tl::MsgPack: return loadAs<tl::MP>(nest, t, bytes, o);
	case tl::Json: return loadAs<tl::JS>(nest, t, bytes, o);
	case tl::Xml: return loadAs<tl::XM>(nest, t, bytes, o);
	default: return nest == Array2 ? lib::guard([&] { BS::LoadObject<tl::CS>(t.arr, bytes, o); }) : lib::Out{"n/a", "", {}};
	}
}

// ---- documents ---------------------------------------------------------------------------------------
static bool carryable(int arch, int type, const Cond& c) {
	if (arch == tl::MsgPack || arch == tl::Json) return true;
	if (c.st == Null) return false;                                   // XML / CSV have no null
	if (type == TS && c.st == Mismatch) return false;                 // any text is a string there
	if (type == TS && c.st == Value && c.sv[0] == 0) return false;    // empty text is judged by C01
	return true;
}
static Val condVal(int type, const Cond& c) {
	switch (c.st) {
	case Null: return Val::nil();
	case Mismatch: return type == TI ? Val::str(c.sv) : Val::integer(c.iv);
	case Overflow: return Val::integer(c.iv);
	default: return type == TI ? Val::integer(c.iv) : Val::str(c.sv);
	}
}
static Val objVal(const std::vector<const Cond*>& cv) {
	Val o = Val::map();
	for (int k = 0; k < 3; ++k) { int f = DOC_ORDER[k]; if (f >= gShape.F || cv[static_cast<size_t>(f)]->st == Absent) continue; o.m.emplace_back(Val::str(KEYS[f]), condVal(gShape.type[f], *cv[static_cast<size_t>(f)])); }
	o.m.emplace_back(Val::str("z"), Val::integer(SENTINEL));
	return o;
}
static Val docVal(int nest, const std::vector<const Cond*>& e0, const std::vector<const Cond*>& e1) {
	switch (nest) {
	case Flat: return objVal(e0);
	case NestedObj: return Val::map({{Val::str("inner"), objVal(e0)}});
	case Array2: return Val::arr({objVal(e0), objVal(e1)});
	default: return Val::map({{Val::str("m"), Val::map({{Val::str("k1"), objVal(e0)}, {Val::str("k2"), objVal(e1)}})}});
	}
}

// ---- condition sets --------------------------------------------------------------------------------
enum CondMode { Full = 0, Relevant = 1, Reps = 2, RepsFew = 3, RepsMin = 4 };
static bool hasKind(const std::vector<VSpec>& l, int k) { for (auto& v : l) if (v.kind == k) return true; return false; }
// Relevant: the generic conditions plus the boundary conditions of every validator kind in the list.
static bool relevant(int type, const std::vector<VSpec>& l, const Cond& c) {
	std::string n = c.name;
	if (type == TI) {
		if (n == "valid6" || c.st != Value) return true;
		if (hasKind(l, Rng)) return n != "hi+2odd" || hasKind(l, Lam);
		return hasKind(l, Lam) && n == "at_lo";
	}
	if (n == "size4" || c.st != Value) return true;
	if (hasKind(l, Min) && (n == "size2" || n == "size3" || n == "empty")) return true;
	if (hasKind(l, Max) && (n == "size12" || n == "size14" || n == "email_ok_13")) return true;
	if (hasKind(l, Eml) && n.rfind("email", 0) == 0) return true;
	if (hasKind(l, Phn) && n.rfind("phone", 0) == 0) return true;
	if (hasKind(l, Lam) && (n == "space3" || n == "phone_formatted")) return true;
	return false;
}
static std::vector<const Cond*> condSet(int arch, int type, const std::vector<VSpec>& l, int mode) {
	std::vector<const Cond*> r; std::vector<uint32_t> seen;
	for (auto& c : conds(type)) {
		if (!carryable(arch, type, c)) continue;
		if (mode != Full && !relevant(type, l, c)) continue;
		if (mode >= Reps) {
			// one representative per reference outcome (loaded flag + which validators fail); Reps keeps every kind of "not loaded",
			// RepsFew keeps `absent` and the first other kind the format can carry (null / mismatched-and-skipped), RepsMin only `absent`
			if (mode == RepsMin && !c.loaded() && c.st != Absent) continue;
			uint32_t key = c.loaded() ? 1u : 2u + (mode == Reps ? static_cast<uint32_t>(c.st) : c.st == Absent ? 1u : 2u) * 4u;
			if (c.loaded()) for (size_t i = 0; i < l.size(); ++i) if (fails(type, l[i].kind, c)) key |= 16u << i;
			if (std::find(seen.begin(), seen.end(), key) != seen.end()) continue;
			seen.push_back(key);
		}
		r.push_back(&c);
	}
	return r;
}

// ---- enumeration plan ----------------------------------------------------------------------------------
// A segment fixes F, the validator-list length bounds, how messages are chosen and which condition set is used.
struct Segment { const char* name; int F; int maxLen[3]; int exactLenAt; bool perSlotMsg; int nModes; int condMode; int nPlacements; };
static std::vector<Segment> plan(const std::string&) {
	std::vector<Segment> p;
#ifndef C17_WIDE
	// base plan (sanitizer build, both tiers)
	// F=1: every list of <= 3 validators with default/custom chosen per validator, every condition of the alphabet
	p.push_back({"F1_len3_fullconds", 1, {3, 0, 0}, -1, true, 1, Full, 1});
	p.push_back({"F2_len1xlen1", 2, {1, 1, 0}, -1, false, 3, Relevant, 1});
	p.push_back({"F2_len2xlen1", 2, {2, 1, 0}, 0, false, 1, Reps, 2});            // one field with exactly 2 validators, the other <= 1
	p.push_back({"F3_len1", 3, {1, 1, 1}, -1, false, 1, RepsMin, 1});
#else
	// wide plan (plain -O2 build, thorough tier only)
	p.push_back({"F2_len2xlen2", 2, {2, 2, 0}, -1, false, 2, Relevant, 1});
	p.push_back({"F2_len3xlen1", 2, {3, 1, 0}, 0, false, 1, Relevant, 2});        // one field with exactly 3 validators, the other <= 1
	p.push_back({"F3_len1", 3, {1, 1, 1}, -1, false, 1, Reps, 1});
	p.push_back({"F3_one_len2", 3, {2, 1, 1}, 0, false, 1, RepsFew, 3});          // one field with exactly 2 validators, the others <= 1
#endif
	return p;
}
static const int KINDS_I[] = {Req, Rng, Lam}; static const int KINDS_S[] = {Req, Min, Max, Eml, Phn, Lam};
static int nKinds(int type) { return type == TI ? 3 : 6; }
static int kindAt(int type, int i) { return type == TI ? KINDS_I[i] : KINDS_S[i]; }

static std::string listName(int type, const std::vector<VSpec>& l, bool withMsg) {
	std::string r = type == TI ? "int:" : "str:"; if (l.empty()) r += "none";
	for (size_t i = 0; i < l.size(); ++i) { if (i) r += "+"; r += kindName(l[i].kind); if (withMsg && l[i].custom) r += "'"; }
	return r;
}
static std::vector<std::string> split(const std::string& p) {
	std::vector<std::string> r; size_t i = 0;
	while (i <= p.size()) { size_t j = p.find('/', i); if (j == std::string::npos) j = p.size(); r.push_back(p.substr(i, j - i)); i = j + 1; }
	return r;
}

static void body(bsx::Ctx& c) {
	static std::vector<Segment> P; if (P.empty()) { P = plan(c.tier); if (const char* only = getenv("C17_DEBUG_ONLY_SEGMENT")) P = {P[static_cast<size_t>(atoi(only)) % P.size()]}; }   // debugging aid, never set by run_check
	const Combo cb = combos()[static_cast<size_t>(c.choose(static_cast<int>(combos().size()), "archive x nesting"))];
	const Segment& sg = P[static_cast<size_t>(c.choose(static_cast<int>(P.size()), "segment"))];
	const unsigned cap = static_cast<unsigned>(c.choose(4, "maxValidationErrors"));
	const int place = c.choose(sg.nPlacements, "placement of the long list");
	const int arch = cb.arch, nest = cb.nest, F = sg.F;
	gShape = Shape{}; gShape.F = F;
	for (int f = 0; f < F; ++f) gShape.type[f] = c.choose(2, "field type");
	const int mode = c.choose(sg.nModes, "message mode");          // 0 default texts, 1 custom texts, 2 mixed by (field+slot) parity
	const int effMode = sg.nModes == 1 ? 2 : sg.nModes == 2 ? (mode ? 2 : 0) : mode;   // 1 mode: mixed; 2 modes: default, mixed; 3 modes: all
	for (int f = 0; f < F; ++f) {
		// the segment's length bounds are given for placement 0; other placements rotate them over the fields
		int src = (f - place % F + F) % F; int maxLen = sg.maxLen[src]; bool exact = sg.exactLenAt == src;
		int len = exact ? maxLen : c.choose(maxLen + 1, "list length");
		for (int s = 0; s < len; ++s) {
			VSpec v{};
			if (sg.perSlotMsg) { int n = nKinds(gShape.type[f]); int sym = c.choose(2 * n - 1, "validator"); v.kind = kindAt(gShape.type[f], sym / 2); v.custom = sym % 2 == 1; }   // the lambda has one form only (last symbol)
			else { v.kind = kindAt(gShape.type[f], c.choose(nKinds(gShape.type[f]), "validator")); v.custom = effMode == 1 || (effMode == 2 && (f + s) % 2 == 1); }
			gShape.vals[f].push_back(v);
		}
	}
	std::vector<std::vector<const Cond*>> cs(static_cast<size_t>(F));
	size_t total = 1; for (int f = 0; f < F; ++f) { cs[static_cast<size_t>(f)] = condSet(arch, gShape.type[f], gShape.vals[f], sg.condMode); total *= cs[static_cast<size_t>(f)].size(); }
	const bool two = nest == Array2 || nest == Map2;

	std::string lists; for (int f = 0; f < F; ++f) lists += std::string(f ? "," : "") + KEYS[f] + "=" + listName(gShape.type[f], gShape.vals[f], true);
	const std::string sigbase = std::string("C17/") + archName(arch) + "/" + nestName(nest) + "/cap=" + std::to_string(cap);
	const std::string execDesc = std::string(sg.name) + " fields{" + lists + "} ";
	const std::string crashSig = sigbase + "/type=any/rule=any/cond=any";
	auto opts = lib::opts(false, false); opts.maxValidationErrors = cap;

	// expected path of every visited field, in load order (array positions kept apart / normalised)
	std::vector<Item> itemProto;
	for (int e = 0; e < (two ? 2 : 1); ++e) for (int f = 0; f < F; ++f) {
		Item it; it.ref = e * F + f; std::string k = KEYS[f];
		switch (nest) {
		case Flat: it.keyPos = it.keyMerged = k; break;
		case NestedObj: it.keyPos = it.keyMerged = "inner/" + k; break;
		case Array2: it.keyPos = std::to_string(e) + "/" + k; it.keyMerged = "#/" + k; break;
		default: it.keyPos = it.keyMerged = std::string("m/") + (e ? "k2/" : "k1/") + k; break;
		}
		itemProto.push_back(it);
	}
	std::unordered_set<std::string> outSeen; std::unordered_set<uint64_t> ntSeen; uint64_t inv0 = gInvocations;
	std::vector<const Cond*> e0(static_cast<size_t>(F)), e1(static_cast<size_t>(F));
	auto vectorAt = [&](size_t idx, std::vector<const Cond*>& out) { for (int f = F - 1; f >= 0; --f) { auto& s = cs[static_cast<size_t>(f)]; out[static_cast<size_t>(f)] = s[idx % s.size()]; idx /= s.size(); } };
	for (size_t idx = 0; idx < total; ++idx) {
		vectorAt(idx, e0);
		// second element / map entry: the condition vector that follows in enumeration order (CSV: columns are shared, so the same one)
		if (two) vectorAt(arch == tl::Csv ? idx : (idx + 1) % total, e1);
		Val doc = docVal(nest, e0, e1);
		if (!tl::canCarry(arch, doc)) { if (outSeen.insert("n/a").second) c.outcome("n/a:format_cannot_carry"); continue; }
		const std::string bytes = tl::emit(arch, doc);
		std::string conds0, conds1; for (int f = 0; f < F; ++f) { conds0 += std::string(f ? "," : "") + KEYS[f] + ":" + e0[static_cast<size_t>(f)]->name; if (two) conds1 += std::string(f ? "," : "") + KEYS[f] + ":" + e1[static_cast<size_t>(f)]->name; }
		const std::string shortDesc = execDesc + "conds{" + conds0 + (two ? " | " + conds1 : "") + "}";
		c.describe(crashSig, shortDesc);
		if ((idx & 63) == 0) c.heartbeat();

		Target t; lib::Out out = loadCase(arch, nest, t, bytes, opts);

		// ---- reference expectation ----
		std::vector<Item> items;
		for (int e = 0; e < (two ? 2 : 1); ++e) for (int f = 0; f < F; ++f) {
			const Cond& cd = *(e ? e1 : e0)[static_cast<size_t>(f)]; Item it = itemProto[static_cast<size_t>(e * F + f)];
			for (size_t s = 0; s < gShape.vals[f].size(); ++s) {
				const VSpec& v = gShape.vals[f][s];
				if (!fails(gShape.type[f], v.kind, cd)) continue;
				it.msgs.push_back(expectedMsg(gShape.type[f], f, static_cast<int>(s), v));
			}
			items.push_back(std::move(it));
		}
		Candidates cand = expect(items, cap, nest == Array2);
		bool expectAny = !cand.ok[0].empty();

		// ---- the library's report, paths normalised (root element name of XML and array positions aside) ----
		std::map<std::string, std::vector<std::string>> actual; std::string badPath;
		for (auto& kv : out.validation) {
			auto sg2 = split(kv.first); if (!sg2.empty() && sg2[0].empty()) sg2.erase(sg2.begin()); else badPath = kv.first;
			if (arch == tl::Xml && !sg2.empty() && (sg2[0] == "root" || sg2[0] == "array")) sg2.erase(sg2.begin());
			if (nest == Array2 && !sg2.empty()) sg2[0] = "#";
			std::string key; for (size_t i = 0; i < sg2.size(); ++i) key += (i ? "/" : "") + sg2[i];
			bool known = false; for (auto& it : items) if (it.keyMerged == key) known = true;
			if (!known) badPath = kv.first;
			auto& dst = actual[key]; dst.insert(dst.end(), kv.second.begin(), kv.second.end());
		}

		// ---- verdict ----
		// signature: archive / nesting / cap / type of the offending field / the validator kinds whose verdict differs (declaration
		// order) / condition class of that field in the document / outcome
		auto sig = [&](int refIdx, const std::string& rule, const std::string& outc) {
			int f = refIdx % F; int e = refIdx / F; const Cond& cd = *(e ? e1 : e0)[static_cast<size_t>(f)];
			return sigbase + "/type=" + (gShape.type[f] == TI ? "int" : "str") + "/rule=" + rule + "/cond=" + cd.cls + "/out=" + outc;
		};
		// kinds of the validators of field f that are expected-but-not-reported or reported-but-not-expected
		auto culprits = [&](int f, const std::vector<const Msg*>& exp, const std::vector<std::string>& act) {
			std::vector<char> used(act.size(), 0); bool hit[NKinds] = {}; bool unknown = false, any = false;
			for (auto* m : exp) { bool found = false; for (size_t i = 0; i < act.size(); ++i) if (!used[i] && matches(*m, act[i])) { used[i] = 1; found = true; break; } if (!found) { hit[m->kind] = true; any = true; } }
			for (size_t i = 0; i < act.size(); ++i) if (!used[i]) {
				bool id = false;
				for (size_t sl = 0; sl < gShape.vals[f].size(); ++sl) { const Msg* m = expectedMsg(gShape.type[f], f, static_cast<int>(sl), gShape.vals[f][sl]); if (matches(*m, act[i])) { hit[m->kind] = true; id = true; any = true; break; } }
				if (!id) unknown = true;
			}
			if (!any && !unknown) for (auto* m : exp) hit[m->kind] = true;   // same messages, other order
			std::string r; for (auto& v : gShape.vals[f]) if (hit[v.kind]) { hit[v.kind] = false; r += (r.empty() ? "" : "+") + std::string(kindName(v.kind)); }
			if (unknown) r += r.empty() ? "unknown" : "+unknown";
			return r.empty() ? std::string("none") : r;
		};
		auto dumpActual = [&] { std::string r; for (auto& kv : out.validation) { r += kv.first + "=>["; for (auto& m : kv.second) r += "\"" + m + "\","; r += "] "; } return r; };
		auto dumpExpected = [&](const Expected& ex) { std::string r; for (auto& kv : ex) { r += kv.first + "=>["; for (auto& m : kv.second) r += std::string(kindName(m->kind)) + (m->exact ? "(exact)," : ","); r += "] "; } return r; };
		auto mkTail = [&] { return " | expected " + dumpExpected(cand.ok[0]) + "| reported " + dumpActual() + "| " + shortDesc + " doc=" + (arch == tl::MsgPack ? bsx::hex(bytes) : bytes); };
		auto refOfKey = [&](const std::string& key) { int r0 = 0; for (auto& it : items) if (it.keyMerged == key) { r0 = it.ref; if (!it.msgs.empty()) break; } return r0; };
		static const std::vector<std::string> noStrings; static const std::vector<const Msg*> noMsgs;
		std::string oc;
		bool isValidationExc = out.is("ser:FailedValidation");
		if (!out.ok() && !isValidationExc) { oc = out.cls; c.violation(crashSig + "/out=" + out.cls, "unexpected exception " + out.cls + ": " + out.what + mkTail()); }
		else if (out.ok() && expectAny) {
			const Item* it0 = nullptr; for (auto& it : items) if (!it.msgs.empty()) { it0 = &it; break; }
			oc = "no_exception"; c.violation(sig(it0->ref, culprits(it0->ref % F, it0->msgs, noStrings), "no_exception"), "a validator fails but no ValidationException was thrown" + mkTail());
		}
		else if (isValidationExc) {
			bool okMatch = badPath.empty() && std::any_of(cand.ok.begin(), cand.ok.end(), [&](const Expected& ex) { return same(ex, actual); });
			if (okMatch) oc = "validation:" + std::to_string(out.validation.size()) + "_paths";
			else if (!badPath.empty()) { oc = "wrong_path"; c.violation(crashSig + "/out=wrong_path", "reported path " + badPath + " names no field of the object" + mkTail()); }
			else if (std::any_of(cand.truncated.begin(), cand.truncated.end(), [&](const Expected& ex) { return same(ex, actual); })) {
				oc = "cap_field_truncated";
				c.violation(std::string("C17/") + archName(arch) + "/" + nestName(nest) + "/cap=" + std::to_string(cap) + "/out=cap_field_truncated",
					"the field at which maxValidationErrors was reached reports only its first message (documentation: the number of errors for each particular field is unlimited in any case)" + mkTail());
			}
			else {
				// classify against the candidate with the same path set if there is one
				const Expected* ex = &cand.ok[0];
				for (auto& cnd : cand.ok) { bool sameKeys = cnd.size() == actual.size(); for (auto& kv : cnd) if (!actual.count(kv.first)) sameKeys = false; if (sameKeys) { ex = &cnd; break; } }
				// the first field in load order whose report differs is the cause; later differences are consequences (the cap shifts)
				std::string kind, offKey; const std::vector<const Msg*>* em = &noMsgs; const std::vector<std::string>* am = &noStrings;
				std::vector<std::string> visited;
				for (auto& itm : items) {
					if (std::find(visited.begin(), visited.end(), itm.keyMerged) != visited.end()) continue;
					visited.push_back(itm.keyMerged);
					auto ei = std::find_if(ex->begin(), ex->end(), [&](auto& kv) { return kv.first == itm.keyMerged; }); auto ai = actual.find(itm.keyMerged);
					em = ei == ex->end() ? &noMsgs : &ei->second; am = ai == actual.end() ? &noStrings : &ai->second; offKey = itm.keyMerged;
					if (em->empty() && am->empty()) continue;
					if (am->empty()) { kind = "missing_field"; break; }
					if (em->empty()) { kind = ex->empty() ? "extra_error" : "extra_field"; break; }
					if (am->size() < em->size()) { kind = "missing_error"; break; }
					if (am->size() > em->size()) { kind = "extra_error"; break; }
					bool all = true; for (size_t i = 0; i < em->size(); ++i) if (!matches(*(*em)[i], (*am)[i])) all = false;
					if (!all) {
						std::vector<char> used(am->size(), 0); bool perm = true;
						for (auto* m : *em) { bool f1 = false; for (size_t i = 0; i < am->size(); ++i) if (!used[i] && matches(*m, (*am)[i])) { used[i] = 1; f1 = true; break; } if (!f1) perm = false; }
						kind = perm ? "wrong_order" : "wrong_message"; break;
					}
				}
				if (kind.empty()) { kind = "differs"; offKey.clear(); em = &noMsgs; am = &noStrings; }
				if (cap && out.validation.size() > cap) kind = "cap_ignored";
				int r0 = refOfKey(offKey);
				// cap_ignored / wrong_order are faults of the collecting context, not of a rule: no rule / condition in the signature
				oc = kind; c.violation(kind == "cap_ignored" || kind == "wrong_order" ? crashSig + "/out=" + kind : sig(r0, culprits(r0 % F, *em, *am), kind), "reported validation errors differ from the documented rules at " + (offKey.empty() ? std::string("(map)") : offKey) + mkTail());
			}
		}
		else oc = "ok";
		if (outSeen.insert(oc).second) c.outcome(oc);

		// ---- loaded values: every field visited before the cap can first be reached holds the document's value ----
		if (out.ok() || isValidationExc) {
			int lastJudged = cand.firstStop < 0 ? static_cast<int>(items.size()) - 1 : cand.firstStop;
			for (int i = 0; i <= lastJudged; ++i) {
				const Item& it = items[static_cast<size_t>(i)];
				int f = it.ref % F, e = it.ref / F; const Cond& cd = *(e ? e1 : e0)[static_cast<size_t>(f)];
				const Obj* o = t.elem(nest, e);
				if (!o) { c.violation(sig(it.ref, "any", "value_not_loaded"), std::string("element ") + std::to_string(e) + " of the container is missing after the load" + mkTail()); break; }
				bool isI = gShape.type[f] == TI;
				if (cd.loaded() && it.msgs.empty()) {
					bool good = isI ? o->i[f] == cd.iv : o->s[f] == cd.sv;
					if (!good) c.violation(sig(it.ref, "any", "value_not_loaded"), std::string("field ") + KEYS[f] + " passes validation but holds " + (isI ? std::to_string(o->i[f]) : "\"" + o->s[f] + "\"") + mkTail());
				} else if (cd.st == Absent) {
					bool good = isI ? o->i[f] == CANARY_I - f : o->s[f] == CANARY_S;
					if (!good) c.violation(sig(it.ref, "any", "absent_field_modified"), std::string("field ") + KEYS[f] + " is absent from the document but was changed to " + (isI ? std::to_string(o->i[f]) : "\"" + o->s[f] + "\"") + mkTail());
				}
			}
			if (cand.firstStop < 0) for (int e = 0; e < (two ? 2 : 1); ++e) {
				const Obj* o = t.elem(nest, e);
				if (!o || o->z != SENTINEL) c.violation(sigbase + "/type=sentinel/rule=none/cond=valid/out=value_not_loaded", "the cap cannot have been reached, yet the field declared last (z) of element " + std::to_string(e) + " was not loaded: the exception was not thrown after a full load" + mkTail());
			}
		}

		// ---- accounting ----
		uint64_t nk = bsx::fnv(sigbase) + static_cast<uint64_t>(F); for (auto& it : items) nk = bsx::mix(nk ^ (it.msgs.size() * 8 + static_cast<unsigned>((it.ref / F ? e1 : e0)[static_cast<size_t>(it.ref % F)]->st) + 1000u * static_cast<unsigned>(gShape.type[it.ref % F])));
		if (expectAny && ntSeen.insert(nk).second) c.nontrivial(nk);
		if (idx == 1 && cap == 1 && F == 2 && arch == tl::Json && nest == Flat && isValidationExc) c.sample(sigbase + " " + execDesc + "conds{" + conds0 + "} -> " + dumpActual());
	}
	c.evals(total ? total - 1 : 0);
	c.transition(gInvocations - inv0);
}

// Second scenario (sanitizer build only): the `isLoaded` flag and Required for every scalar target kind, including registered enums
// and chrono types, under one offence (value of another kind, or key absent) - harness/kinds_scenario.hpp.
static const std::vector<std::pair<std::string, Val>>& kindOffences() {
	static const std::vector<std::pair<std::string, Val>> o = {{"nil", Val::nil()}, {"bool", Val::boolean(true)}, {"int", Val::integer(7)}, {"bigint", Val::integer(1ll << 40)}, {"negint", Val::integer(-5)}, {"float", Val::dbl(2.5)},
		{"str", Val::str("off")}, {"arr", Val::arr({Val::integer(1), Val::integer(2)})}, {"map", Val::map({{Val::str("x"), Val::integer(1)}})}, {"bin", Val::bin("\x07")}, {"ts64", Val::ts(1, 5)}};
	return o;
}
static void bodyAll(bsx::Ctx& c) {
#ifndef C17_WIDE
	if (c.choose(2, "scenario") == 1) { kindsScenario(c, "C17", kindOffences(), true); return; }
#endif
	body(c);
}
int main(int argc, char** argv) {
	bsx::Config cfg; cfg.part_depth = 5; cfg.max_dev = 0; cfg.hang_s = 10;
	bsx::Engine e("C17", bodyAll, cfg);
	return e.main(argc, argv);
}
