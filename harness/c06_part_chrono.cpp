// C06, part: std::chrono and time_t (scenario 5). See c06_shared.cpp.
#define C06_PART
#include "harness/c06_shared.cpp"

// =============================================================================================
// chrono
// =============================================================================================
static void putTs(std::string& o, int64_t sec, int32_t ns) {   // the layout the writer is known to use (seconds first in the 96-bit form): only for naming causes
	if ((static_cast<uint64_t>(sec) >> 34) == 0) {
		uint64_t d = (static_cast<uint64_t>(static_cast<int64_t>(ns)) << 34) | static_cast<uint64_t>(sec);
		if ((d >> 32) == 0) { o += "\xd6\xff"; ref::mp::putbe(o, d, 4); } else { o += "\xd7\xff"; ref::mp::putbe(o, d, 8); }
	} else { o += "\xc7\x0c\xff"; ref::mp::putbe(o, static_cast<uint64_t>(sec), 8); ref::mp::putbe(o, static_cast<uint32_t>(ns), 4); }
}
static std::string tsClass(const Instant& i) {
	if (i.overflow) return "seconds_beyond_int64";
	bool f32 = i.ns == 0 && i.sec >= 0 && i.sec <= 0xffffffffll, f64 = i.sec >= 0 && i.sec < (1ll << 34);
	if (f32) return "ts32";
	if (f64) return i.ns ? "ts64_subsecond" : "ts64_whole";
	if (i.sec >= 0) return "ts96_post_epoch";
	return i.ns ? "ts96_pre_epoch_subsecond" : "ts96_pre_epoch_whole";
}
static std::string tsCause(const Instant& i, int pos, const std::string& b) {
	if (i.overflow) return (b == wrapBytes(pos, "") || (pos == Member && b == "\x82\xa1" "z\x2a")) ? "/cause=skipped_value_still_counted" : "";
	std::string h1; putTs(h1, i.sec, static_cast<int32_t>(i.ns));
	if (b == wrapBytes(pos, h1)) return "/cause=ts96_seconds_before_nanoseconds";
	if (i.totalNs < 0 && i.ns != 0) {
		i128 tsec = i.totalNs / 1000000000; i128 tns = i.totalNs - tsec * 1000000000;   // truncation towards zero
		std::string h2; putTs(h2, static_cast<int64_t>(tsec), static_cast<int32_t>(tns));
		if (b == wrapBytes(pos, h2)) return tsec == 0 ? "/cause=negative_nanoseconds_in_ts64" : "/cause=negative_nanoseconds+ts96_seconds_before_nanoseconds";
	}
	return "";
}

template <class T> static void chronoCase(bsx::Ctx& c, T value, const Instant& inst, const std::string& typeName, const char* secsName, const char* fracName, int pos, bool skipPolicy) {
	std::string cls = tsClass(inst);
	std::string sigbase = "C06/chrono/type=" + typeName + "/class=" + cls + (inst.overflow ? (skipPolicy ? "/pol=skip" : "/pol=throw") : "") + "/pos=" + POSN[pos];
	c.describe(sigbase, "secs=" + std::string(secsName) + " frac=" + fracName + " total_ns=" + ref::i128str(inst.totalNs));
	Saved s = saveAt(pos, value, lib::opts(!skipPolicy, true));
	c.nontrivial(sigbase + secsName + fracName + (skipPolicy ? "S" : "T"));
	Val exp; if (!inst.overflow) exp = wrapVal(pos, Val::ts(inst.sec, inst.ns));
	if (inst.overflow && !skipPolicy && s.out.ok() && s.outS.ok()) {   // the instant has no MessagePack representation: only a refusal is right
		c.violation(sigbase + "/out=unrepresentable_instant_written", "whole seconds exceed int64 but the save succeeded: bytes=" + clip(s.mem)); return;
	}
	judge(c, s, inst.overflow ? nullptr : &exp, inst.overflow, [&] { return sigbase; }, [&](const std::string& b) { return tsCause(inst, pos, b); });
}

struct SecSym { const char* name; int kind; i128 sec; };   // kind 0: seconds value, 1: type min, 2: type max
static const SecSym SECS[] = {{"tmin", 1, 0}, {"-2^34", 0, -(static_cast<i128>(1) << 34)}, {"-1", 0, -1}, {"0", 0, 0}, {"1", 0, 1}, {"2^32-1", 0, (static_cast<i128>(1) << 32) - 1}, {"2^32", 0, static_cast<i128>(1) << 32},
	{"2^34-1", 0, (static_cast<i128>(1) << 34) - 1}, {"2^34", 0, static_cast<i128>(1) << 34}, {"tmax", 2, 0}};
static const char* FRACS[] = {"0", "+1unit", "-1unit", "999..."};

template <class P> struct PrecName;
template <> struct PrecName<std::nano> { static const char* n() { return "ns"; } };
template <> struct PrecName<std::micro> { static const char* n() { return "us"; } };
template <> struct PrecName<std::milli> { static const char* n() { return "ms"; } };
template <> struct PrecName<std::ratio<1>> { static const char* n() { return "s"; } };
template <> struct PrecName<std::ratio<60>> { static const char* n() { return "min"; } };
template <> struct PrecName<std::ratio<3600>> { static const char* n() { return "h"; } };
template <> struct PrecName<std::ratio<86400>> { static const char* n() { return "days"; } };

// count for (seconds symbol, fraction symbol) in a duration<int64_t, P>; false if the combination does not exist for this type
template <class P> static bool chronoCount(int si, int fi, int64_t& count) {
	const SecSym& S = SECS[si];
	constexpr bool sub = P::den > 1;
	const i128 U = sub ? P::den : 1, per = sub ? 1 : P::num;
	i128 off = 0;
	if (sub) off = fi == 0 ? 0 : fi == 1 ? 1 : fi == 2 ? -1 : U - 1;
	else { if (fi > 1) return false; off = fi; }   // coarse types: the count below / above the seconds value
	i128 cnt;
	if (S.kind == 1) { if (fi == 2) return false; cnt = static_cast<i128>(INT64_MIN) + off; }
	else if (S.kind == 2) { if (fi == 1) return false; cnt = static_cast<i128>(INT64_MAX) - (fi == 0 ? 0 : fi == 2 ? 1 : (sub ? U - 1 : 1)); if (!sub && fi == 1) return false; }
	else cnt = sub ? S.sec * U + off : floordiv(S.sec, per) + off;
	if (cnt < static_cast<i128>(INT64_MIN) || cnt > static_cast<i128>(INT64_MAX)) return false;
	count = static_cast<int64_t>(cnt); return true;
}
template <class P> static void chronoForPrec(bsx::Ctx& c, int kind, int si, int fi, int pos, bool skipPolicy) {
	using D = std::chrono::duration<int64_t, P>;
	int64_t cnt;
	if (!chronoCount<P>(si, fi, cnt)) { c.outcome("n/a:not_representable"); return; }
	D d(cnt); Instant inst = instantOf(d);
	if (kind == 0) chronoCase(c, std::chrono::time_point<std::chrono::system_clock, D>(d), inst, std::string("time_point<") + PrecName<P>::n() + ">", SECS[si].name, FRACS[fi], pos, skipPolicy);
	else chronoCase(c, d, inst, std::string("duration<") + PrecName<P>::n() + ">", SECS[si].name, FRACS[fi], pos, skipPolicy);
}

struct TimeTHolder {   // time_t goes through CTimeRef
	time_t t;
	template <class A> void Serialize(A& ar) { ar << BS::KeyValue("a", BS::CTimeRef(t)) << BS::KeyValue("z", z); }
	int32_t z = 42;
};


void c06_chrono(bsx::Ctx& c) {
	const int scen = 5;
	switch (scen) {
	case 5: {   // std::chrono time points and durations, time_t
		int kind = c.choose(3, "kind");   // time_point, duration, time_t
		int prec = c.choose(7, "precision");
		int si = c.choose(static_cast<int>(sizeof SECS / sizeof SECS[0]), "seconds");
		if (kind == 2) {
			if (prec != 3) { c.outcome("n/a"); return; }
			int pos = c.choose(2, "position");   // root (CTimeRef), member
			const SecSym& Sx = SECS[si]; i128 sec = Sx.kind == 1 ? static_cast<i128>(INT64_MIN) : Sx.kind == 2 ? static_cast<i128>(INT64_MAX) : Sx.sec;
			Instant inst; inst.sec = static_cast<int64_t>(sec); inst.ns = 0; inst.totalNs = sec * 1000000000;
			std::string sigbase = "C06/chrono/type=time_t(CTimeRef)/class=" + tsClass(inst) + "/pos=" + (pos ? "member" : "root");
			c.describe(sigbase, std::string("secs=") + Sx.name);
			c.nontrivial(sigbase);
			time_t t = static_cast<time_t>(sec); Saved s; Val exp;
			if (pos == 0) { BS::CTimeRef r(t); s = saveBoth(r, lib::opts(true, true)); exp = Val::ts(inst.sec, 0); }
			else { TimeTHolder h{t}; s = saveBoth(h, lib::opts(true, true)); exp = wrapVal(Member, Val::ts(inst.sec, 0)); }
			judge(c, s, &exp, false, [&] { return sigbase; }, [&](const std::string& b) { return tsCause(inst, pos ? Member : Root, b); });
			return;
		}
		int fi = c.choose(4, "fraction");
		int pos = c.choose(NPos, "position");
		bool skipPolicy = c.flag("overflow_policy_skip");
		switch (prec) {
		case 0: chronoForPrec<std::nano>(c, kind, si, fi, pos, skipPolicy); break;
		case 1: chronoForPrec<std::micro>(c, kind, si, fi, pos, skipPolicy); break;
		case 2: chronoForPrec<std::milli>(c, kind, si, fi, pos, skipPolicy); break;
		case 3: chronoForPrec<std::ratio<1>>(c, kind, si, fi, pos, skipPolicy); break;
		case 4: chronoForPrec<std::ratio<60>>(c, kind, si, fi, pos, skipPolicy); break;
		case 5: chronoForPrec<std::ratio<3600>>(c, kind, si, fi, pos, skipPolicy); break;
		default: chronoForPrec<std::ratio<86400>>(c, kind, si, fi, pos, skipPolicy); break;
		}
		break;
	}
	}
}
