// C03 — named fields load correctly in any request order, with absent and unread fields.
// E2: every request history up to length L over {Get(k) (full / partly read array / nested
// object opened and left partly read), Get(absent), VisitKeys} on objects with <= 4 keys,
// embedded so that a sentinel follows the object, x 4 archives x {memory, stream} x paddings
// that move the object across the stream reader's chunk boundary. Each history is replayed on
// a fresh archive (scopes are not copyable); the canonical cursor state after every request is
// recorded. Oracle: the document the object was generated from (reference map).
#include "harness/typed_load.hpp"
#include "msgpack/msgpack_readers.h"
#include "csv/csv_readers.h"
#include "bitserializer/types/std/optional.h"
#include "bitserializer/types/std/memory.h"
#include "bitserializer/types/std/atomic.h"

using namespace sv; using ref::Val; using tl::archName;

#ifndef BITSERIALIZER_VERIF_CHUNK_SIZE
#define BITSERIALIZER_VERIF_CHUNK_SIZE 256
#endif
static constexpr int kChunk = BITSERIALIZER_VERIF_CHUNK_SIZE;

// ---- canonical cursor state (private fields, read-only; harness TU is built with -fno-access-control)
static uint64_t gCfgSalt = 0;
namespace sv {
template <class TReader> struct ScopeProbe<BitSerializer::MsgPack::Detail::CMsgPackReadObjectScope<TReader>> {
	static uint64_t state(BitSerializer::MsgPack::Detail::CMsgPackReadObjectScope<TReader>& sc) {
		uint64_t v[10] = {gCfgSalt, sc.mIndex, static_cast<bool>(sc.mCurrentKey) ? 1u : 0u, sc.mMsgPackReader->GetPosition(), 0, 0, 0, 0, 0, 0};
		if (auto* sr = dynamic_cast<BitSerializer::MsgPack::Detail::CMsgPackStreamReader*>(sc.mMsgPackReader)) {
			auto& b = sr->mBinaryStreamReader;
			v[4] = 1; v[5] = static_cast<uint64_t>(b.mStartDataPtr - b.mBuffer); v[6] = static_cast<uint64_t>(b.mEndDataPtr - b.mBuffer); v[7] = b.mStreamPos; v[8] = static_cast<uint64_t>(b.mStream.rdstate());
		}
		return bsx::fnv(v, sizeof v);
	}
};
template <> struct ScopeProbe<BitSerializer::Csv::Detail::CCsvReadObjectScope> {
	static uint64_t state(BitSerializer::Csv::Detail::CCsvReadObjectScope& sc) {
		uint64_t v[6] = {gCfgSalt, 0, 0, 0, 0, 0};
		if (auto* r = dynamic_cast<BitSerializer::Csv::Detail::CCsvStringReader*>(sc.mCsvReader)) { v[1] = 1; v[2] = r->mValueIndex; v[3] = r->mRowIndex; v[4] = r->mCurrentPos; }
		else if (auto* s = dynamic_cast<BitSerializer::Csv::Detail::CCsvStreamReader*>(sc.mCsvReader)) { v[1] = 2; v[2] = s->mValueIndex; v[3] = s->mRowIndex; v[4] = s->mCurrentPos; v[5] = bsx::fnv(s->mDecodedBuffer); }
		return bsx::fnv(v, sizeof v);
	}
};
}

struct Doc { std::string name; Val obj; bool msgpackOnly = false; };
static Val I() { return Val::integer(5); }
static Val U() { return Val::integer(static_cast<ref::i128>(UINT64_MAX)); }
static Val S() { return Val::str("str"); }
static Val L() { return Val::str(std::string(static_cast<size_t>(kChunk + 44), 'L')); }
static Val A() { return Val::arr({Val::integer(1), Val::integer(2), Val::integer(3)}); }
static Val O() { return Val::map({{Val::str("x"), Val::integer(1)}, {Val::str("y"), Val::str("q")}}); }
static std::vector<Doc> docs(bool thorough) {
	std::vector<Doc> d;
	auto m = [](std::vector<std::pair<Val, Val>> kv) { return Val::map(std::move(kv)); };
	d.push_back({"1key", m({{Val::str("a"), I()}})});
	d.push_back({"a:int,b:str", m({{Val::str("a"), I()}, {Val::str("b"), S()}})});
	d.push_back({"a:int,b:str,c:u64max", m({{Val::str("a"), I()}, {Val::str("b"), S()}, {Val::str("c"), U()}})});
	d.push_back({"a:arr,b:int,c:obj", m({{Val::str("a"), A()}, {Val::str("b"), I()}, {Val::str("c"), O()}})});
	d.push_back({"a:longstr,b:int,c:str", m({{Val::str("a"), L()}, {Val::str("b"), I()}, {Val::str("c"), S()}})});
	d.push_back({"a:nil,b:obj,c:arr", m({{Val::str("a"), Val::nil()}, {Val::str("b"), O()}, {Val::str("c"), A()}})});
	d.push_back({"keys:uint,int,f32", m({{Val::integer(1), I()}, {Val::integer(-1), S()}, {Val::flt(1.5f), U()}}), true});
	d.push_back({"keys:ts,f64,str", m({{Val::ts(1, 0), I()}, {Val::dbl(2.5), S()}, {Val::str("s"), A()}}), true});
	// key names that are prefixes / extensions of each other, same value kind, different values (a lookup that confuses them is visible)
	d.push_back({"prefix_keys:k,k1,k10", m({{Val::str("k"), Val::integer(11)}, {Val::str("k1"), Val::integer(12)}, {Val::str("k10"), Val::integer(13)}})});
	d.push_back({"prefix_keys:abc,ab,a", m({{Val::str("abc"), Val::str("v-abc")}, {Val::str("ab"), Val::str("v-ab")}, {Val::str("a"), Val::str("v-a")}})});
	if (thorough) d.push_back({"a:int,b:arr,c:longstr,d:obj", m({{Val::str("a"), I()}, {Val::str("b"), A()}, {Val::str("c"), L()}, {Val::str("d"), O()}})});
	return d;
}

// request alphabet for a document
static std::vector<Req> alphabet(const Val& obj) {
	std::vector<Req> al;
	for (auto& kv : obj.m) {
		Key k = Key::ofVal(kv.first);
		auto add = [&](Node t) { Req r; r.kind = Req::Get; r.key = k; r.target.push_back(std::move(t)); al.push_back(std::move(r)); };
		add(shapeOf(kv.second));                                   // full natural target
		if (kv.second.k == Val::Arr) {                              // array opened and left partly read
			Node t0 = shapeOf(kv.second); t0.items.clear(); add(t0);
			Node t1 = shapeOf(kv.second); t1.items.resize(1); add(t1);
		}
		if (kv.second.k == Val::Map) {                              // nested object opened: nothing read / second key only
			Node e = Node::mk(Obj); e.scripted = true; add(e);
			Node s = Node::mk(Obj); s.scripted = true; Req q; q.key = Key::ofVal(kv.second.m.back().first); q.target.push_back(shapeOf(kv.second.m.back().second)); s.script.push_back(q); add(s);
		}
	}
	{ Req r; r.kind = Req::Get; r.key = Key("zz_absent"); r.target.push_back(Node::mk(I32)); al.push_back(r); }
	{ Req r; r.kind = Req::VisitKeys; al.push_back(r); }
	return al;
}
static std::string reqName(const Req& r) {
	if (r.kind == Req::VisitKeys) return "VisitKeys";
	const Node& t = r.target[0];
	std::string s = "Get(" + r.key.str() + ")";
	if (t.k == Arr) s += "[read" + std::to_string(t.items.size()) + "]";
	if (t.k == Obj && t.scripted) s += "{inner" + std::to_string(t.script.size()) + "}";
	return s;
}
static std::string reqClass(const Req& r) {   // for signatures: no key names
	if (r.kind == Req::VisitKeys) return "VisitKeys";
	if (r.key.t == Key::S && r.key.s == "zz_absent") return "GetAbsent";
	const Node& t = r.target[0];
	if (t.k == Arr) return "GetArr" + std::to_string(t.items.size());
	if (t.k == Obj) return t.scripted ? "GetObjPartial" + std::to_string(t.script.size()) : "GetObj";
	return std::string("Get:") + kname(t.k);
}

// ---- typed scenario: optional / smart pointers / atomic members whose key is present, absent or null ----------------
// The bool returned by each Serialize() call is recorded (it is what validators see).
struct Holder {
	std::optional<int32_t> o; std::unique_ptr<int32_t> u; std::shared_ptr<int32_t> s; std::atomic<int32_t> a{0}; int32_t i = 0;
	bool ro = false, ru = false, rs = false, ra = false, ri = false;
	template <class A> void Serialize(A& ar) {
		if constexpr (A::IsLoading()) {
			ro = BitSerializer::Serialize(ar, std::string("o"), o); ru = BitSerializer::Serialize(ar, std::string("u"), u); rs = BitSerializer::Serialize(ar, std::string("s"), s);
			ra = BitSerializer::Serialize(ar, std::string("a"), a); ri = BitSerializer::Serialize(ar, std::string("i"), i);
		}
	}
};
template <class TA> static lib::Out loadHolder(Holder& h, const std::string& bytes, bool stream) {
	return lib::guard([&] { if (stream) { std::istringstream is(bytes); BitSerializer::LoadObject<TA>(h, is); } else BitSerializer::LoadObject<TA>(h, bytes); });
}
static void typedScenario(bsx::Ctx& c) {
	int arch = c.choose(4, "archive");
	// per key: 0 = present (value 11..15), 1 = absent, 2 = null (where the format has one)
	int st[5]; static const char* keys[5] = {"o", "u", "s", "a", "i"};
	for (int k = 0; k < 5; ++k) st[k] = c.choose(3, "key_state");
	int prior = c.choose(2, "prior");   // 0: targets empty/zero, 1: targets engaged with canary 77
	bool stream = c.flag("stream");
	Val obj = Val::map(); std::string cls;
	for (int k = 0; k < 5; ++k) { if (st[k] == 0) obj.m.emplace_back(Val::str(keys[k]), Val::integer(11 + k)); else if (st[k] == 2) obj.m.emplace_back(Val::str(keys[k]), Val::nil()); cls += st[k] == 0 ? "P" : st[k] == 1 ? "A" : "N"; }
	obj.m.emplace_back(Val::str("zz"), Val::integer(1));   // never an empty object
	Val root = arch == tl::Csv ? Val::arr({obj}) : obj;
	if (!tl::canCarry(arch, root)) { c.outcome("n/a:format_cannot_carry"); return; }
	if (arch == tl::Csv) { c.outcome("n/a:csv_rows_need_a_vector_target"); return; }
	std::string bytes = tl::emit(arch, root);
	std::string sigbase = std::string("C03/typed/") + archName(arch) + (stream ? "/stream" : "/mem") + (prior ? "/prior=engaged" : "/prior=empty");
	c.describe(sigbase, "keys[o,u,s,a,i]=" + cls + " doc=" + (arch == tl::MsgPack ? bsx::hex(bytes) : bytes));
	Holder h; if (prior) { h.o = 77; h.u = std::make_unique<int32_t>(77); h.s = std::make_shared<int32_t>(77); h.a = 77; h.i = 77; }
	lib::Out out = arch == tl::MsgPack ? loadHolder<tl::MP>(h, bytes, stream) : arch == tl::Json ? loadHolder<tl::JS>(h, bytes, stream) : loadHolder<tl::XM>(h, bytes, stream);
	c.outcome(out.cls); c.nontrivial(sigbase + cls); c.transition(5); c.state(bsx::fnv(sigbase + cls));
	if (cls == "PANPA" && !stream) c.sample(sigbase + " keys=" + cls + " -> " + out.cls);
	if (!out.ok()) { c.violation(sigbase + "/out=" + out.cls, "well-formed document but the load threw " + out.cls + ": " + out.what + " keys=" + cls); return; }
	const int base = prior ? 77 : 0;
	auto chk = [&](int k, const char* type, bool result, bool has, int value) {
		std::string s2 = sigbase + "/member=" + type + "/key=" + (st[k] == 0 ? "present" : st[k] == 1 ? "absent" : "null");
		if (st[k] == 0) { if (!result || !has || value != 11 + k) c.violation(s2 + "/out=present_value_not_delivered", std::string(type) + ": result=" + (result ? "true" : "false") + " has=" + (has ? "yes" : "no") + " value=" + std::to_string(value) + " expected " + std::to_string(11 + k) + " keys=" + cls); return; }
		if (result) c.violation(s2 + "/out=reported_loaded", std::string(type) + ": the key is " + (st[k] == 1 ? "absent" : "null") + " but Serialize() returned true (value=" + std::to_string(value) + ") keys=" + cls);
		// not loaded: an optional / smart pointer is reset or left as it was; a plain or atomic integer keeps its previous value
		bool isHolder = k <= 2;
		if (isHolder) { if (has && value != base) c.violation(s2 + "/out=target_changed", std::string(type) + " holds " + std::to_string(value) + " after a request that was not loaded (previous " + std::to_string(base) + ") keys=" + cls); }
		else if (value != base) c.violation(s2 + "/out=target_changed", std::string(type) + " holds " + std::to_string(value) + " after a request that was not loaded (previous " + std::to_string(base) + ") keys=" + cls);
	};
	chk(0, "optional", h.ro, h.o.has_value(), h.o.value_or(0)); chk(1, "unique_ptr", h.ru, h.u != nullptr, h.u ? *h.u : 0); chk(2, "shared_ptr", h.rs, h.s != nullptr, h.s ? *h.s : 0);
	chk(3, "atomic", h.ra, true, h.a.load()); chk(4, "int", h.ri, true, h.i);
}

static void body(bsx::Ctx& c) {
	const bool thorough = c.tier == "thorough";
	if (c.choose(2, "scenario") == 1) { typedScenario(c); return; }
	static std::vector<Doc> D = docs(thorough);
	const int Lmax = thorough ? 4 : 3;
	int arch = c.choose(4, "archive");
	int di = c.choose(static_cast<int>(D.size()), "doc");
	const Doc& d = D[static_cast<size_t>(di)];
	sv::keyMode() = c.choose(2, "keys_as");   // 0: std::string keys straight into Serialize(); 1: C strings through KeyValue, as applications write them
	int embed = c.choose(2, "embed");          // 0: [pad?, obj, sentinel]   1: {p?: pad, o: obj, zz: sentinel}
	// sources: 0 = memory, 1.. = stream with padding index
	std::vector<int> pads;
	if (arch == tl::MsgPack || arch == tl::Csv) {
		if (kChunk <= 32) for (int p = 0; p <= kChunk + 1; ++p) pads.push_back(p);
		else if (thorough) { pads.push_back(0); for (int p = kChunk - 40; p <= kChunk + 2; ++p) pads.push_back(p); }
		else pads = {0, kChunk - 26, kChunk - 13, kChunk - 6, kChunk - 1, kChunk};
	} else pads = {0};
	int srcSel = c.choose(1 + static_cast<int>(pads.size()), "source");
	bool stream = srcSel > 0; int pad = stream ? pads[static_cast<size_t>(srcSel - 1)] : 0;
	if (arch != tl::MsgPack && d.msgpackOnly) { c.outcome("n/a:typed_keys"); return; }

	// build document + root shape
	Val root; Node shape;
	std::string padStr(static_cast<size_t>(pad), 'p');
	Node scripted = Node::mk(Obj); scripted.scripted = true;
	if (arch == tl::Csv) {
		// CSV: flat rows; the scripted object is row 0, the sentinel is row 1 (same columns)
		Val row0 = Val::map(), row1 = Val::map();
		row0.m.emplace_back(Val::str("h" + padStr), Val::str("pad")); row1.m.emplace_back(Val::str("h" + padStr), Val::str("pad"));
		for (auto& kv : d.obj.m) {
			if (kv.first.k != Val::Str) { c.outcome("n/a"); return; }
			Val cell = kv.second.k == Val::Int || kv.second.k == Val::Str ? kv.second : Val::str(kv.second.k == Val::Arr ? "a,\"b\"" : kv.second.k == Val::Nil ? "nil" : "o\nk");
			row0.m.emplace_back(kv.first, cell); row1.m.emplace_back(kv.first, Val::integer(42));
		}
		root = Val::arr({row0, row1});
		Node sent = Node::mk(Obj); sent.fields.emplace_back(d.obj.m.back().first.s, Node::mk(I32));
		shape = Node::arr({scripted, sent});
		if (embed == 1) { c.outcome("n/a"); return; }
	} else if (embed == 0) {
		root = Val::arr(); shape = Node::mk(Arr);
		if (pad) { root.a.push_back(Val::str(padStr)); shape.items.push_back(Node::mk(Str)); }
		root.a.push_back(d.obj); shape.items.push_back(scripted);
		root.a.push_back(Val::integer(42)); shape.items.push_back(Node::mk(I32));
	} else {
		root = Val::map(); shape = Node::mk(Obj);
		if (pad) { root.m.emplace_back(Val::str("p"), Val::str(padStr)); shape.fields.emplace_back("p", Node::mk(Str)); }
		root.m.emplace_back(Val::str("o"), d.obj); shape.fields.emplace_back("o", scripted);
		root.m.emplace_back(Val::str("zz"), Val::integer(42)); shape.fields.emplace_back("zz", Node::mk(I32));
	}
	if (!tl::canCarry(arch, root)) { c.outcome("n/a:format_cannot_carry"); return; }
	const Val& scriptedDoc = arch == tl::Csv ? root.a[0] : d.obj;
	std::vector<Req> al = alphabet(scriptedDoc);

	// history
	int len = c.choose(Lmax + 1, "length");
	Node* sn = nullptr;
	if (arch == tl::Csv) sn = &shape.items[0]; else if (embed == 0) sn = &shape.items[pad ? 1 : 0]; else sn = &shape.fields[pad ? 1 : 0].second;
	std::string hist, cls; int firstPartial = -1;
	auto partialRead = [&](const Req& q) {   // a Get of an array that reads fewer elements than the document holds
		if (q.kind != Req::Get || q.target.empty() || q.target[0].k != Arr || q.key.t != Key::S) return false;
		for (auto& kv : scriptedDoc.m) if (kv.first.k == Val::Str && kv.first.s == q.key.s) return kv.second.k == Val::Arr && kv.second.a.size() > q.target[0].items.size();
		return false; };
	for (int i = 0; i < len; ++i) { int r = c.choose(static_cast<int>(al.size()), "request"); sn->script.push_back(al[static_cast<size_t>(r)]); if (firstPartial < 0 && partialRead(al[static_cast<size_t>(r)])) firstPartial = i; hist += (i ? "," : "") + reqName(al[static_cast<size_t>(r)]); cls += (i ? "," : "") + reqClass(al[static_cast<size_t>(r)]); }

	std::string bytes = tl::emit(arch, root);
	std::string cfg = std::string("C03/") + archName(arch) + (stream ? "/stream" : "/mem") + "/chunk=" + std::to_string(kChunk) + (embed ? "/in=object" : "/in=array") + (sv::keyMode() ? "/keys=cstr" : "") + "/doc=" + d.name;
	gCfgSalt = bsx::fnv(cfg + "/pad=" + std::to_string(pad));
	std::string sigbase = cfg + "/hist=" + cls;
	c.describe(sigbase, "pad=" + std::to_string(pad) + " history=[" + hist + "] doc=" + (bytes.size() < 200 ? (arch == tl::MsgPack ? bsx::hex(bytes) : bytes) : "(long)"));

	shape.canary();
	tl::Source src; src.stream = stream;
	lib::Out out = tl::load(arch, shape, bytes, src, lib::opts(true, true));
	c.outcome(out.cls);
	for (size_t i = 0; i < sn->script.size(); ++i) { c.transition(); uint64_t st = sn->script[i].stateAfter ? sn->script[i].stateAfter : gCfgSalt; c.state(st); if (static_cast<int>(i) + 1 < Lmax) c.aux(st); }
	if (len >= 2) c.nontrivial(sigbase + std::to_string(pad));
	if (len == 3 && di == 3 && srcSel == 1 && c.choices().back() == 1) c.sample(sigbase + " pad=" + std::to_string(pad) + " -> " + out.cls + " " + shape.dumpLoaded());
	// A complaint about something that happens after an array was opened and left partly read carries a cause tag (that is the
	// listed finding: the rest of such an array is not skipped on close); a complaint about the partial read itself or about
	// anything before it does not.
	const std::string afterPartial = "/cause=after_partial_array_read";
	if (!out.ok()) { c.violation(sigbase + (firstPartial >= 0 ? afterPartial : "") + "/out=" + out.cls, "well-formed document, valid request history, but the load threw " + out.cls + ": " + out.what); return; }
	model::Checker ck{true, true};
	ck.walk(&root, shape, "", true);
	for (auto& m : ck.complaints) {
		bool after = false;
		if (firstPartial >= 0) { size_t h = m.find('#'); if (h == std::string::npos || h > 12) after = true; else after = atoi(m.c_str() + h + 1) > firstPartial; }
		c.violation(sigbase + (after ? afterPartial : "") + "/out=wrong_result", m + " | loaded=" + shape.dumpLoaded());
	}
}

int main(int argc, char** argv) {
	bsx::Config cfg; cfg.part_depth = 5; cfg.max_dev = 0;
	bsx::Engine e("C03", body, cfg);
	return e.main(argc, argv);
}
