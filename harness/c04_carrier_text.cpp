// C04 — XML (element text, attribute) and CSV (cell, header as map key) carriers.
#include "harness/c04_common.hpp"
#include "bitserializer/pugixml_archive.h"
#include "bitserializer/csv_archive.h"
#include "bitserializer/types/std/map.h"
#include "bitserializer/types/std/vector.h"

namespace c04 {
using XM = BS::Xml::PugiXml::XmlArchive;
using CS = BS::Csv::CsvArchive;

// XML attributes: what `archive << AttributeValue("a", v)` does (key_value_proxy.h), keeping the result flag
template <class X> struct AttrW {
	X v; bool loaded = false; int32_t z = -77; bool zLoaded = false;
	template <class A> void Serialize(A& ar) {
		if constexpr (BS::can_serialize_attribute_v<A>) {
			static const std::string ka = "a", kz = "z";
			auto scope = ar.OpenAttributeScope();
			if (scope) { loaded = BS::Serialize(*scope, ka, v); zLoaded = BS::Serialize(*scope, kz, z); }
		}
	}
};

Loaded loadXml(const std::string& text, const Req& q) {
	if (q.pos != 3) return loadAt<XM, false>(text, q);
	return withType(q.target, [&](auto tag) {
		using X = typename decltype(tag)::type;
		AttrW<X> w; w.v = canaryOf<X>(q.boolCanary);
		return finish<X>(loadW<XM>(w, text, q), w, q.boolCanary, true);
	});
}

// CSV: one data row {a, z}
template <class X> struct RowsW { MemberW<X> row; size_t rows = 0; size_t size() const { return 1; } };
template <class A, class X> void SerializeArray(A& ar, RowsW<X>& r) {
	if constexpr (A::IsLoading()) { while (!ar.IsEnd()) { if (r.rows == 0) BS::Serialize(ar, r.row); else { MemberW<X> extra; extra.v = X{}; BS::Serialize(ar, extra); } ++r.rows; } }
	else BS::Serialize(ar, r.row);
}
Loaded loadCsv(const std::string& text, const Req& q) {
	return withType(q.target, [&](auto tag) {
		using X = typename decltype(tag)::type;
		RowsW<X> w; w.row.v = canaryOf<X>(q.boolCanary);
		lib::Out out = loadW<CS>(w, text, q);
		Loaded r = finish<X>(out, w.row, q.boolCanary, true);
		if (out.ok() && w.rows != 1) { r.neighbourOk = false; r.note = bsx::fmt("(%zu rows read)", w.rows); }
		return r;
	});
}

MapLoaded loadMapCsv(const std::string& text, const Req& q) {
	return withType(q.target, [&](auto tag) {
		using X = typename decltype(tag)::type;
		std::vector<std::map<X, int32_t>> rows; MapLoaded r;
		auto o = lib::opts(q.ovT, q.mmT);
		r.out = lib::guard([&] { BS::LoadObject<CS>(rows, text, o); });
		if (r.out.ok() && rows.size() != 1) { r.out.cls = "harness:rows=" + std::to_string(rows.size()); return r; }
		if (!rows.empty()) for (auto& kv : rows[0]) r.entries.emplace_back(toVal(kv.first), kv.second);
		return r;
	});
}
} // namespace c04
