// C18 — msgpack instantiations, part 0 and the dispatcher (see c18_populated_target.cpp).
#include "harness/c18_common.hpp"
#include "bitserializer/msgpack_archive.h"
std::vector<c18::Entry> c18_table_msgpack_b();
std::vector<c18::Entry> c18_table_msgpack(int part) { return part == 0 ? c18::makeTable<BitSerializer::MsgPack::MsgPackArchive, false, 0>() : c18_table_msgpack_b(); }
