// C02 — no input can crash, hang, or exhaust the loader or the string converters.
// E1: ALL short inputs over class-complete alphabets (one symbol per format-code class / structural
// character) into scalar, container, map and class targets through the real loaders (memory and
// stream, Throw and Skip policies) and the real converters, plus pumping families for the unbounded
// resources (nesting depth, declared sizes, digit runs). Monitors: termination (engine horizon),
// exception type (must derive from std::exception), process survival (terminate/signal/sanitizer),
// peak allocation and largest single request (allocation seam).
#define ENV_ALLOC_SEAM
#include "harness/typed_load.hpp"
#include "bitserializer/types/std/vector.h"
#include "bitserializer/types/std/map.h"
#include "bitserializer/types/std/list.h"
#include "bitserializer/types/std/tuple.h"
#include "bitserializer/types/std/chrono.h"
#include <chrono>

using namespace sv; using ref::Val; using tl::archName;
namespace BS = BitSerializer;

struct Cls { int a = 0; std::string b; template <class A> void Serialize(A& ar) { ar << BS::KeyValue("a", a) << BS::KeyValue("b", b); } };
struct Row { std::string a; int b = 0; template <class A> void Serialize(A& ar) { ar << BS::KeyValue("a", a) << BS::KeyValue("b", b); } };
struct RowW { std::u16string k; template <class A> void Serialize(A& ar) { ar << BS::KeyValue("k", k); } };
struct RowW32 { std::u32string k; template <class A> void Serialize(A& ar) { ar << BS::KeyValue("k", k); } };
struct Holder3 { std::vector<Cls> k0; std::vector<std::vector<int>> k1; std::map<std::string, Cls> k2; template <class A> void Serialize(A& ar) { ar << BS::KeyValue("k0", k0) << BS::KeyValue("k1", k1) << BS::KeyValue("k2", k2); } };
enum class En { One, Two };
REGISTER_ENUM(En, { {En::One, "One"}, {En::Two, "Two"} })

using RX8 = std::tuple<std::string, uint64_t, int>; using RXS = std::tuple<std::string, std::string, int>; using RXV = std::tuple<std::string, std::vector<uint8_t>, int>;
using RXT = std::tuple<std::string, std::chrono::time_point<std::chrono::system_clock, std::chrono::nanoseconds>, int>; using RXD = std::tuple<std::string, double, int>;
using RXM = std::tuple<std::string, std::map<std::string, int>, int>; using RXA = std::tuple<std::string, std::vector<int>, int>; using RXZ = std::tuple<std::string, bool, int>;   // bool: every item is a mismatch (skip path under Skip)
struct Probe { std::string cls; size_t peak = 0, largest = 0; long refused = 0; };
template <class F> static Probe probe(F&& f) {
	Probe p; auto& a = env::alloc();
	{ env::AllocScope sc(-1); a.hardCap = 64u << 20; lib::Out o = lib::guard(f); p.cls = o.cls; p.peak = a.peakBytes; p.largest = a.largest; p.refused = a.refused; }
	return p;
}
template <class TA, class T> static Probe loadAs(const std::string& bytes, bool stream, const BS::SerializationOptions& o) {
	return probe([&] { T t{}; if (stream) { std::istringstream is(bytes); BS::LoadObject<TA>(t, is, o); } else BS::LoadObject<TA>(t, bytes, o); });
}
static const char* kMpTargets[] = {"int32", "uint8", "double", "string", "vector<int>", "vector<char>", "map<string,int>", "map<int,int>", "class", "time_point", "vector<vector<int>>", "tuple<int,string>"};
static Probe loadMsgPack(int target, const std::string& b, bool s, const BS::SerializationOptions& o) {
	using namespace std::chrono;
	switch (target) {
	case 0: return loadAs<tl::MP, int32_t>(b, s, o); case 1: return loadAs<tl::MP, uint8_t>(b, s, o); case 2: return loadAs<tl::MP, double>(b, s, o);
	case 3: return loadAs<tl::MP, std::string>(b, s, o); case 4: return loadAs<tl::MP, std::vector<int>>(b, s, o); case 5: return loadAs<tl::MP, std::vector<char>>(b, s, o);
	case 6: return loadAs<tl::MP, std::map<std::string, int>>(b, s, o); case 7: return loadAs<tl::MP, std::map<int, int>>(b, s, o); case 8: return loadAs<tl::MP, Cls>(b, s, o);
	case 9: return loadAs<tl::MP, time_point<system_clock, seconds>>(b, s, o); case 10: return loadAs<tl::MP, std::vector<std::vector<int>>>(b, s, o);
	default: return loadAs<tl::MP, std::tuple<int, std::string>>(b, s, o);
	}
}
static bool objectTarget(int t) { return t == 6 || t == 7 || t == 8; }

static void judge(bsx::Ctx& c, const std::string& sig, const Probe& p, size_t inputLen, const std::string& info) {
	c.outcome(p.cls);
	if (p.cls == "nonstd") c.violation(sig + "/out=nonstd_exception", "an exception not derived from std::exception escaped | " + info);
	if (p.cls.rfind("std:", 0) == 0 && p.cls != "std:bad_alloc") c.outcome("note:" + p.cls);
	const size_t budget = (2u << 20) + 64 * inputLen;   // a constant plus linear in the input: anything beyond is 'out of proportion'
	if (p.refused || p.largest > (64u << 20)) c.violation(sig + "/out=huge_allocation_request", "a single allocation of " + std::to_string(p.largest) + " bytes was requested for an input of " + std::to_string(inputLen) + " bytes | " + info);
	else if (p.peak > budget) c.violation(sig + "/out=excessive_memory", "peak " + std::to_string(p.peak) + " live bytes for an input of " + std::to_string(inputLen) + " bytes (budget " + std::to_string(budget) + ") | " + info);
}
// fatal-prone cases run in a forked child; a fatal kind becomes a violation with the given signature
static void judgeIsolated(bsx::Ctx& c, const std::string& sig, size_t inputLen, const std::string& info, const std::function<Probe()>& run, double timeout = 45) {
	std::string r = c.isolate([&] { Probe p = run(); return p.cls + "\t" + std::to_string(p.peak) + "\t" + std::to_string(p.largest) + "\t" + std::to_string(p.refused); }, timeout);
	if (r.rfind("ok:", 0) != 0) { c.outcome("fatal:" + r); c.violation(sig + "/out=" + r, "the process did not survive (" + r + ") | " + info); return; }
	Probe p; size_t t1 = r.find('\t'), t2 = r.find('\t', t1 + 1), t3 = r.find('\t', t2 + 1);
	p.cls = r.substr(3, t1 - 3); p.peak = strtoull(r.c_str() + t1 + 1, nullptr, 10); p.largest = strtoull(r.c_str() + t2 + 1, nullptr, 10); p.refused = atol(r.c_str() + t3 + 1);
	judge(c, sig, p, inputLen, info);
}

static const unsigned char kMpAlpha[] = {0x00, 0x01, 0x7f, 0x80, 0x81, 0x8f, 0x90, 0x91, 0x9f, 0xa0, 0xa1, 0xbf, 0xc0, 0xc1, 0xc2, 0xc3, 0xc4, 0xc5, 0xc6, 0xc7, 0xc8, 0xc9, 0xca, 0xcb, 0xcc, 0xcd, 0xce, 0xcf,
	0xd0, 0xd1, 0xd2, 0xd3, 0xd4, 0xd5, 0xd6, 0xd7, 0xd8, 0xd9, 0xda, 0xdb, 0xdc, 0xdd, 0xde, 0xdf, 0xe0, 0xff, 0x0c};
static const char kCsvAlpha[] = {'a', ',', '"', '\r', '\n', ';', '\xC3', '\x00', '\xFF', '1'};
static const char kJsonAlpha[] = {'{', '}', '[', ']', ':', ',', '"', '\\', 'u', '0', '1', '-', '.', 'e', 't', 'n', ' ', 'a'};
static const char kXmlAlpha[] = {'<', '>', '/', '=', '"', '\'', '&', '#', ';', 'a', ' ', '?', '!', '1'};
static const char kConvAlpha[] = {' ', '\t', '+', '-', '0', '1', '9', '.', ':', 'T', 'Z', 'P', 'D', 'H', 'M', 'S', 'W', 'e', ',', 'x'};

template <class TChar> static std::basic_string<TChar> widen(const std::string& s) { return std::basic_string<TChar>(s.begin(), s.end()); }
template <class TChar> static void runConverters(bsx::Ctx& c, const std::string& sig, const std::string& s8) {
	using namespace std::chrono; using BS::Convert::To;
	auto str = widen<TChar>(s8);
	// the same text once as a (NUL-terminated) std::basic_string and once as a string_view over an exact-size heap block: a parser that
	// looks at the character behind the end reads a 0 in the first case and trips ASan in the second
	std::unique_ptr<TChar[]> hb(new TChar[str.size() ? str.size() : 1]); std::copy(str.begin(), str.end(), hb.get());
	std::basic_string_view<TChar> view(hb.get(), str.size());
	auto run = [&](const auto& s, const char* form) {
		auto one = [&](const char* tn, auto fn) { lib::Out o = lib::guard(fn); c.outcome(o.cls); if (o.cls == "nonstd") c.violation(sig + "/target=" + tn + form + "/out=nonstd_exception", "text=" + bsx::hex(s8)); };
		one("int8", [&] { (void)To<int8_t>(s); }); one("uint8", [&] { (void)To<uint8_t>(s); }); one("int16", [&] { (void)To<int16_t>(s); }); one("uint32", [&] { (void)To<uint32_t>(s); });
		one("int64", [&] { (void)To<int64_t>(s); }); one("uint64", [&] { (void)To<uint64_t>(s); }); one("float", [&] { (void)To<float>(s); }); one("double", [&] { (void)To<double>(s); });
		one("bool", [&] { (void)To<bool>(s); }); one("enum", [&] { (void)To<En>(s); });
		one("tp_s", [&] { (void)To<time_point<system_clock, seconds>>(s); }); one("tp_ms", [&] { (void)To<time_point<system_clock, milliseconds>>(s); }); one("tp_ns", [&] { (void)To<time_point<system_clock, nanoseconds>>(s); });
		one("dur_s", [&] { (void)To<seconds>(s); }); one("dur_ms", [&] { (void)To<milliseconds>(s); }); one("dur_h", [&] { (void)To<hours>(s); });
		one("rawtime", [&] { (void)To<BS::CRawTime>(s); });
	};
	run(str, ""); run(view, "/view");
}

static void body(bsx::Ctx& c) {
	const bool thorough = c.tier == "thorough";
	int scen = c.choose(9, "scenario");
	auto policyOpts = [](int pol) { return lib::opts(pol == 0, pol == 0); };
	if (scen == 0) {
		// ---- MsgPack: all words up to length L over the class-complete byte alphabet; the last symbol is looped inside
		const int L = thorough ? 4 : 3, NA = static_cast<int>(sizeof kMpAlpha);
		int len = 1 + c.choose(L, "len");
		std::string prefix;
		for (int i = 0; i + 1 < len; ++i) prefix.push_back(static_cast<char>(kMpAlpha[c.choose(NA, "sym")]));
		int target = c.choose(12, "target");
		// words of the maximal thorough length go into 3 of the 12 targets (int32, vector<int>, class; the fork-per-word family 'map header then ill-formed' is covered up to length 3): measured alone on 16 cores this tier takes about 6 minutes, with 8 targets more than an hour; the others are covered up to length 3
		if (thorough && len == L && !(target == 0 || target == 4 || target == 8)) { c.outcome("n/a:target_not_used_for_longest_words"); return; }
		std::string sigbase = std::string("C02/msgpack/words/target=") + kMpTargets[target];
		for (int last = 0; last < NA; ++last) {
			std::string bytes = prefix; bytes.push_back(static_cast<char>(kMpAlpha[last]));
			c.describe(sigbase, "bytes=" + bsx::hex(bytes));
			Val dummy; const bool wellFormed = ref::mp::decodeOne(bytes, dummy) == ref::mp::Err::Ok;
			unsigned fb = static_cast<unsigned char>(bytes[0]);
			const bool mapFirst = (fb >= 0x80 && fb <= 0x8f) || fb == 0xde || fb == 0xdf;
			// an ill-formed map into an object target is the known terminate family: run the four source/policy combinations in one child
			if (!wellFormed && objectTarget(target) && mapFirst) {
				// quick tier: the fork-per-case subspace is limited to words that start with fixmap(1) or map16
				if (!thorough && bytes.size() > 2 && !(fb == 0x81 || fb == 0xde)) { c.outcome("skipped_in_quick:risky_word"); continue; }
				if (target != 6) continue;   // the three object targets x four source/policy combinations share one child (run with target 6)
				c.evals(12);
				judgeIsolated(c, "C02/msgpack/words/target=object_targets/map_header_then_illformed", bytes.size(), "bytes=" + bsx::hex(bytes), [&] {
					Probe worst; for (int tg = 6; tg <= 8; ++tg) for (int st = 0; st < 2; ++st) for (int pol = 0; pol < 2; ++pol) { Probe p = loadMsgPack(tg, bytes, st == 1, policyOpts(pol)); if (p.cls == "nonstd" || worst.cls.empty()) worst.cls = p.cls; worst.peak = std::max(worst.peak, p.peak); worst.largest = std::max(worst.largest, p.largest); worst.refused += p.refused; }
					return worst; });
			} else for (int st = 0; st < 2; ++st) for (int pol = 0; pol < 2; ++pol) {
				std::string sig = sigbase + (st ? "/stream" : "/mem") + (pol ? "/pol=SS" : "/pol=TT");
				c.evals(1);
				judge(c, sig, loadMsgPack(target, bytes, st == 1, policyOpts(pol)), bytes.size(), "bytes=" + bsx::hex(bytes));
			}
			if (wellFormed) c.nontrivial(bsx::fnv(bytes) ^ static_cast<uint64_t>(target));
		}
		if (len == 2 && target == 8 && prefix == "\x81") c.sample(sigbase + " words 81 xx");
	} else if (scen == 1 || scen == 2 || scen == 3) {
		// ---- text formats: all words over the structural alphabets
		const char* alpha = scen == 1 ? kCsvAlpha : scen == 2 ? kJsonAlpha : kXmlAlpha;
		const int NA = scen == 1 ? static_cast<int>(sizeof kCsvAlpha) : scen == 2 ? static_cast<int>(sizeof kJsonAlpha) : static_cast<int>(sizeof kXmlAlpha);
		const int L = scen == 1 ? (thorough ? 6 : 5) : (thorough ? 5 : 4);
		int len = 1 + c.choose(L, "len");
		std::string prefix;
		for (int i = 0; i + 1 < len; ++i) prefix.push_back(alpha[c.choose(NA, "sym")]);
		const char* fmt = scen == 1 ? "csv" : scen == 2 ? "json" : "xml";
		std::string sigbase = std::string("C02/") + fmt + "/words";
		for (int last = 0; last < NA; ++last) {
			std::string text = prefix; text.push_back(alpha[last]);
			c.describe(sigbase, "text=" + bsx::hex(text));
			for (int st = 0; st < 2; ++st) for (int pol = 0; pol < 2; ++pol) {
				auto o = policyOpts(pol); std::string sfx = std::string(st ? "/stream" : "/mem") + (pol ? "/pol=SS" : "/pol=TT");
				c.evals(1);
				if (scen == 1) judge(c, sigbase + "/target=vector<Row>" + sfx, loadAs<tl::CS, std::vector<Row>>(text, st == 1, o), text.size(), "text=" + bsx::hex(text));
				else if (scen == 2) {
					judge(c, sigbase + "/target=int" + sfx, loadAs<tl::JS, int>(text, st == 1, o), text.size(), "text=" + bsx::hex(text));
					judge(c, sigbase + "/target=vector<int>" + sfx, loadAs<tl::JS, std::vector<int>>(text, st == 1, o), text.size(), "text=" + bsx::hex(text));
					judge(c, sigbase + "/target=class" + sfx, loadAs<tl::JS, Cls>(text, st == 1, o), text.size(), "text=" + bsx::hex(text));
					judge(c, sigbase + "/target=map" + sfx, loadAs<tl::JS, std::map<std::string, int>>(text, st == 1, o), text.size(), "text=" + bsx::hex(text));
				} else {
					judge(c, sigbase + "/target=vector<int>" + sfx, loadAs<tl::XM, std::vector<int>>(text, st == 1, o), text.size(), "text=" + bsx::hex(text));
					judge(c, sigbase + "/target=class" + sfx, loadAs<tl::XM, Cls>(text, st == 1, o), text.size(), "text=" + bsx::hex(text));
				}
			}
			c.nontrivial(bsx::fnv(text) ^ static_cast<uint64_t>(scen));
		}
	} else if (scen == 4) {
		// ---- pumping families: nesting depth / declared size d = 2^k
		int fam = c.choose(11, "family");
		int k = c.choose(thorough ? 22 : 10, "log2_d"); if (!thorough) k *= 2;
		const bool maxCount = k >= (thorough ? 21 : 18);   // the largest declarable count 2^32-1 (only meaningful for the 32-bit length fields)
		if (maxCount && !(fam >= 3 && fam <= 6)) { c.outcome("n/a"); return; }
		if (maxCount) k = 32;
		size_t d = maxCount ? 0xFFFFFFFFull : static_cast<size_t>(1) << k;
		static const char* famName[] = {"msgpack_nested_fixarray_skipped", "msgpack_nested_fixmap_skipped", "msgpack_nested_fixarray_loaded", "msgpack_array32_declares_d", "msgpack_map32_declares_d", "msgpack_str32_declares_d", "msgpack_bin32_declares_d",
			"json_nested_arrays", "xml_nested_elements", "digit_run_number", "csv_long_field"};
		std::string sig = std::string("C02/pump/") + famName[fam] + "/d=2^" + std::to_string(k);
		c.describe(sig, "d=" + std::to_string(d));
		c.nontrivial(sig);
		auto be32 = [](size_t v) { std::string s; for (int i = 3; i >= 0; --i) s.push_back(static_cast<char>((v >> (8 * i)) & 0xff)); return s; };
		std::string in; std::function<Probe()> run;
		switch (fam) {
		case 0: in = "\x81\xa1z" + std::string(d, '\x91') + "\x01"; run = [&] { return loadAs<tl::MP, Cls>(in, false, lib::opts()); }; break;
		case 1: { in = "\x81\xa1z"; for (size_t i = 0; i < d; ++i) in += "\x81\x01"; in += "\x01"; run = [&] { return loadAs<tl::MP, Cls>(in, true, lib::opts()); }; break; }
		case 2: { if (k > 12) { c.outcome("n/a:target_tree_depth_capped_at_2^12"); return; }
			in = std::string(d, '\x91') + "\x01";
			run = [&] { Node t = Node::mk(I32); for (size_t i = 0; i < d; ++i) { Node n = Node::mk(Arr); n.items.push_back(std::move(t)); t = std::move(n); }   // target tree built outside the meter
				Probe p = probe([&] { sv::load<tl::MP>(t, in, lib::opts(false, false)); });
				while (t.k == Arr && !t.items.empty()) { Node inner = std::move(t.items[0]); t = std::move(inner); }   // iterative teardown
				return p; };
			break; }
		case 3: in = "\xdd" + be32(d); run = [&] { return loadAs<tl::MP, std::vector<int>>(in, false, lib::opts()); }; break;
		case 4: in = "\xdf" + be32(d); run = [&] { return loadAs<tl::MP, std::map<int, int>>(in, true, lib::opts()); }; break;
		case 5: in = "\xdb" + be32(d) + "ab"; run = [&] { return loadAs<tl::MP, std::string>(in, true, lib::opts()); }; break;
		case 6: in = "\xc6" + be32(d) + "ab"; run = [&] { return loadAs<tl::MP, std::vector<char>>(in, false, lib::opts()); }; break;
		case 7: in = std::string(d, '[') + std::string(d, ']'); run = [&] { return loadAs<tl::JS, std::vector<int>>(in, false, lib::opts(false, false)); }; break;
		case 8: { in = "<?xml version=\"1.0\"?>"; for (size_t i = 0; i < d; ++i) in += "<a>"; for (size_t i = 0; i < d; ++i) in += "</a>"; run = [&] { return loadAs<tl::XM, std::vector<int>>(in, false, lib::opts(false, false)); }; break; }
		case 9: in = std::string(std::min<size_t>(d, 1u << 16), '9'); run = [&] { return probe([&] { (void)BS::Convert::To<int64_t>(in); (void)BS::Convert::To<double>(in); (void)BS::Convert::To<std::chrono::seconds>("PT" + in + "S"); }); }; break;
		default: in = "a,b\r\n" + std::string(d, 'x') + ",1\r\n"; run = [&] { return loadAs<tl::CS, std::vector<Row>>(in, true, lib::opts()); }; break;
		}
		judgeIsolated(c, sig, in.size(), "input bytes=" + std::to_string(in.size()), run, thorough ? 150 : 90);
		c.sample(sig + " input=" + std::to_string(in.size()) + " bytes");
	} else if (scen == 6) {
		// ---- stream reader refill boundary: a multi-byte item of every format family slides across the end of the reader's
		// chunk (256 bytes; the stream reader refills and squeezes its cache there) and the stream is cut at every byte of
		// the item and shortly after it, or one byte of the item is replaced. Loaded typed and skipped, from a stream and
		// (as control) from memory. An input that ends inside an item must end in a std exception, never in reads of stale
		// or foreign memory (ASan), a hang or a huge allocation.
		static const std::vector<std::pair<const char*, std::string>> items = {
			{"u16", std::string("\xcd\x12\x34", 3)}, {"u32", std::string("\xce\x01\x02\x03\x37", 5)}, {"u64", std::string("\xcf\x01\x02\x03\x04\x05\x06\x07\x08", 9)},
			{"i64", std::string("\xd3\xff\xfe\xfd\xfc\xfb\xfa\xf9\xf8", 9)}, {"f32", std::string("\xca\x3f\x80\x00\x01", 5)}, {"f64", std::string("\xcb\x3f\xf0\x00\x00\x00\x00\x00\x01", 9)},
			{"str8", std::string("\xd9\x05" "abcde", 7)}, {"str16", std::string("\xda\x00\x05" "abcde", 8)}, {"str32", std::string("\xdb\x00\x00\x00\x05" "abcde", 10)},
			{"bin8", std::string("\xc4\x03\x01\x02\x03", 5)}, {"bin32", std::string("\xc6\x00\x00\x00\x03\x01\x02\x03", 8)},
			{"arr16", std::string("\xdc\x00\x02\x01\x02", 5)}, {"arr32", std::string("\xdd\x00\x00\x00\x02\x01\x02", 7)}, {"map16", std::string("\xde\x00\x01\xa1k\x01", 6)},
			{"ts64", std::string("\xd7\xff\x00\x00\x00\x14\x00\x00\x00\x01", 10)}, {"ts96", std::string("\xc7\x0c\xff\x00\x00\x00\x01\x00\x00\x00\x00\x00\x00\x00\x02", 15)}, {"ext16", std::string("\xc8\x00\x02\x05" "xy", 6)},
			// items that declare more than the document holds (the uncut document is already ill-formed): a length assembled from the wrong bytes now matters
			{"str32_declares_2113", std::string("\xdb\x00\x00\x08\x41" "abcde", 10)}, {"bin32_declares_2113", std::string("\xc6\x00\x00\x08\x41\x01\x02\x03", 8)},
			{"arr32_declares_2113", std::string("\xdd\x00\x00\x08\x41\x01\x02", 7)}, {"str16_declares_2113", std::string("\xda\x08\x41" "abcde", 8)}};
		int it = c.choose(static_cast<int>(items.size()), "item"); int shift = c.choose(20, "shift"); int mode = c.choose(3, "mode");   // 0 = cut, 1 = corrupt one byte to ff, 2 = corrupt to 00
		const std::string& item = items[static_cast<size_t>(it)].second;
		// document: [<str16 padding>, item, 7] (an array root: an ill-formed map would only re-find the throwing destructor of the
		// object scope, a listed finding); the item starts at offset 256 - 16 + shift, so that each of its bytes meets the boundary
		const size_t itemAt = 256 - 16 + static_cast<size_t>(shift);
		const size_t padLen = itemAt - 4;
		std::string doc = std::string("\x93\xda", 2) + std::string(1, static_cast<char>(padLen >> 8)) + std::string(1, static_cast<char>(padLen & 0xff)) + std::string(padLen, 'p');
		if (doc.size() != itemAt) { c.violation("C02/refill/internal", "harness arithmetic"); return; }
		doc += item; const size_t itemEnd = doc.size(); doc += std::string("\x07", 1);
		std::string sigbase = std::string("C02/refill/item=") + items[static_cast<size_t>(it)].first + (mode == 0 ? "/cut" : "/corrupt");
		c.describe(sigbase, "item at offset " + std::to_string(itemAt) + " of a " + std::to_string(doc.size()) + "-byte document");
		c.nontrivial(sigbase + std::to_string(shift));
		for (size_t pos = itemAt; pos <= (mode == 0 ? itemEnd + 1 : itemEnd - 1); ++pos) {
			std::string in = mode == 0 ? doc.substr(0, pos) : doc; if (mode) in[pos] = mode == 1 ? '\xff' : '\x00';
			for (int st = 0; st < 2; ++st) for (int pol = 0; pol < 2; ++pol) {
				auto o = policyOpts(pol); std::string sfx = std::string(st ? "/stream" : "/mem") + (pol ? "/pol=SS" : "/pol=TT"); std::string info = "pos=" + std::to_string(pos) + " bytes=" + bsx::hex(in.substr(itemAt > 8 ? itemAt - 8 : 0));
				c.evals(8);
				judge(c, sigbase + "/target=vector<int>" + sfx, loadAs<tl::MP, RXA>(in, st == 1, o), in.size(), info);
				judge(c, sigbase + "/target=u64" + sfx, loadAs<tl::MP, RX8>(in, st == 1, o), in.size(), info);
				judge(c, sigbase + "/target=string" + sfx, loadAs<tl::MP, RXS>(in, st == 1, o), in.size(), info);
				judge(c, sigbase + "/target=bytes" + sfx, loadAs<tl::MP, RXV>(in, st == 1, o), in.size(), info);
				judge(c, sigbase + "/target=time_point" + sfx, loadAs<tl::MP, RXT>(in, st == 1, o), in.size(), info);
				judge(c, sigbase + "/target=double" + sfx, loadAs<tl::MP, RXD>(in, st == 1, o), in.size(), info);
				judge(c, sigbase + "/target=map" + sfx, loadAs<tl::MP, RXM>(in, st == 1, o), in.size(), info);
				judge(c, sigbase + "/target=skipped" + sfx, loadAs<tl::MP, RXZ>(in, st == 1, o), in.size(), info);
			}
		}
		if (it == 2 && shift == 10 && mode == 0) c.sample(sigbase + " shift=10: u64 item at offset 250, cut at every byte 250..261");
	} else if (scen == 8) {
		// ---- shape mismatch: arrays and objects whose elements / members have every JSON-ish shape (object, empty object, array, empty
		// array, null, number, string, bool), loaded into containers of classes, of containers and of maps in the three nesting formats under
		// both policies. A value of unexpected shape must be rejected or skipped - never loop, recurse or allocate without bound.
		static const std::vector<std::pair<const char*, Val>> el = {{"obj", Val::map({{Val::str("a"), Val::integer(1)}, {Val::str("b"), Val::str("t")}})}, {"empty_obj", Val::map()}, {"arr", Val::arr({Val::integer(1), Val::integer(2)})},
			{"empty_arr", Val::arr()}, {"null", Val::nil()}, {"num", Val::integer(7)}, {"str", Val::str("a")}, {"bool", Val::boolean(true)}};
		const int NE = static_cast<int>(el.size());
		int arch = c.choose(3, "archive"); int rootMap = c.choose(2, "root"); int n = 1 + c.choose(3, "count");
		Val root = rootMap ? Val::map() : Val::arr(); std::string shapeName;
		for (int i = 0; i < n; ++i) { int k = c.choose(NE, "element"); shapeName += std::string(i ? "," : "") + el[static_cast<size_t>(k)].first; if (rootMap) root.m.emplace_back(Val::str("k" + std::to_string(i)), el[static_cast<size_t>(k)].second); else root.a.push_back(el[static_cast<size_t>(k)].second); }
		if (!tl::canCarry(arch, root)) { c.outcome("n/a:format_cannot_carry"); return; }
		std::string in = tl::emit(arch, root);
		std::string sigbase = std::string("C02/shape_mismatch/") + archName(arch) + (rootMap ? "/root=object" : "/root=array");
		c.describe(sigbase, "elements=" + shapeName + " doc=" + (arch == tl::MsgPack ? bsx::hex(in) : in));
		c.nontrivial(sigbase + shapeName);
		if (n == 2 && shapeName == "obj,null" && arch == 1) c.sample(sigbase + " elements=" + shapeName);
		for (int st = 0; st < 2; ++st) for (int pol = 0; pol < 2; ++pol) {
			auto o = policyOpts(pol); std::string sfx = std::string(st ? "/stream" : "/mem") + (pol ? "/pol=SS" : "/pol=TT"); std::string info = "elements=" + shapeName;
			auto all = [&](auto tag) { using A = typename decltype(tag)::type;
				c.evals(4);
				// the four targets of one document share a child process (a hang / unbounded growth in any of them is fatal for the child)
				judgeIsolated(c, sigbase + (rootMap ? "/targets=map<string,class>,map<string,vector<int>>,class_of_containers,map<string,map<string,int>>" : "/targets=vector<class>,vector<vector<int>>,vector<map<string,int>>,list<class>") + sfx, in.size(), info, [&] {
					Probe w; auto acc = [&](const Probe& p) { if (w.cls.empty() || p.cls == "nonstd") w.cls = p.cls; w.peak = std::max(w.peak, p.peak); w.largest = std::max(w.largest, p.largest); w.refused += p.refused; };
					if (!rootMap) { acc(loadAs<A, std::vector<Cls>>(in, st == 1, o)); acc(loadAs<A, std::vector<std::vector<int>>>(in, st == 1, o)); acc(loadAs<A, std::vector<std::map<std::string, int>>>(in, st == 1, o)); acc(loadAs<A, std::list<Cls>>(in, st == 1, o)); }
					else { acc(loadAs<A, std::map<std::string, Cls>>(in, st == 1, o)); acc(loadAs<A, std::map<std::string, std::vector<int>>>(in, st == 1, o)); acc(loadAs<A, Holder3>(in, st == 1, o)); acc(loadAs<A, std::map<std::string, std::map<std::string, int>>>(in, st == 1, o)); }
					return w; }, 20); };
			struct TMP { using type = tl::MP; }; struct TJS { using type = tl::JS; }; struct TXM { using type = tl::XM; };
			if (arch == tl::MsgPack) all(TMP{}); else if (arch == tl::Json) all(TJS{}); else all(TXM{});
		}
	} else if (scen == 7) {
		// ---- UTF payloads: every byte string of length <= 3 (thorough 4) over a UTF-8 class alphabet (ASCII, tails, over-long and 2/3/4-octet
		// leads, surrogate lead ED, F4/F5 limits, the retired 5/6-octet leads F8/FC, FE/FF) as the string value of a MsgPack / JSON / CSV / XML
		// document loaded into char16_t / char32_t / wchar_t / char strings under both UTF error policies, and straight into Convert::To from an
		// exact-size heap buffer (so that a read of one byte beyond the input is an ASan report); the same for UTF-16 code unit strings over
		// {A, D7FF, D800, DBFF, DC00, DFFF, E000, FFFF}. The transcoders must stop at the end of the input whatever came before.
		static const unsigned char u8a[] = {0x41, 0x80, 0xBF, 0xC0, 0xC2, 0xDF, 0xE0, 0xED, 0xEF, 0xF0, 0xF4, 0xF5, 0xF8, 0xFC, 0xFE, 0xFF};
		static const char16_t u16a[] = {0x41, 0xD7FF, 0xD800, 0xDBFF, 0xDC00, 0xDFFF, 0xE000, 0xFFFF};
		const int NA = static_cast<int>(sizeof u8a), L = thorough ? 4 : 3;
		int len = 1 + c.choose(L, "len");
		std::string prefix; std::u16string prefix16;
		for (int i = 0; i + 1 < len; ++i) { int k = c.choose(NA, "sym"); prefix.push_back(static_cast<char>(u8a[k])); prefix16.push_back(u16a[k % 8]); }
		std::string sigbase = "C02/utf_payload";
		for (int last = 0; last < NA; ++last) {
			std::string w = prefix; w.push_back(static_cast<char>(u8a[last]));
			c.describe(sigbase, "payload=" + bsx::hex(w));
			c.nontrivial(bsx::fnv(w) ^ 0x77);
			for (int up = 0; up < 2; ++up) {
				BS::SerializationOptions o = lib::opts(); o.utfEncodingErrorPolicy = up ? BS::Convert::Utf::UtfEncodingErrorPolicy::Skip : BS::Convert::Utf::UtfEncodingErrorPolicy::ThrowError;
				std::string sfx = up ? "/utf=skip" : "/utf=throw"; std::string info = "payload=" + bsx::hex(w);
				std::string mp(1, static_cast<char>(0xa0 + w.size())); mp += w;
				std::string js = "\"" + w + "\"", xm = "<?xml version=\"1.0\"?><root><k>" + w + "</k></root>", cs = "k\r\n" + w + "\r\n";
				for (int st = 0; st < 2; ++st) {
					std::string s2 = sfx + (st ? "/stream" : "/mem");
					c.evals(11);
					judge(c, sigbase + "/msgpack/target=u16string" + s2, loadAs<tl::MP, std::u16string>(mp, st == 1, o), mp.size(), info);
					judge(c, sigbase + "/msgpack/target=u32string" + s2, loadAs<tl::MP, std::u32string>(mp, st == 1, o), mp.size(), info);
					judge(c, sigbase + "/msgpack/target=wstring" + s2, loadAs<tl::MP, std::wstring>(mp, st == 1, o), mp.size(), info);
					judge(c, sigbase + "/msgpack/target=string" + s2, loadAs<tl::MP, std::string>(mp, st == 1, o), mp.size(), info);
					judge(c, sigbase + "/msgpack/target=map<u16string,int>" + s2, loadAs<tl::MP, std::map<std::u16string, int>>(std::string("\x81", 1) + mp + "\x01", st == 1, o), mp.size() + 2, info);
					judge(c, sigbase + "/json/target=u16string" + s2, loadAs<tl::JS, std::u16string>(js, st == 1, o), js.size(), info);
					judge(c, sigbase + "/json/target=u32string" + s2, loadAs<tl::JS, std::u32string>(js, st == 1, o), js.size(), info);
					judge(c, sigbase + "/json/target=string" + s2, loadAs<tl::JS, std::string>(js, st == 1, o), js.size(), info);
					judge(c, sigbase + "/xml/target=u16string" + s2, loadAs<tl::XM, RowW>(xm, st == 1, o), xm.size(), info);
					judge(c, sigbase + "/xml/target=u32string" + s2, loadAs<tl::XM, RowW32>(xm, st == 1, o), xm.size(), info);
					judge(c, sigbase + "/csv/target=rows<u16string>" + s2, loadAs<tl::CS, std::vector<RowW>>(cs, st == 1, o), cs.size(), info);
				}
			}
			{	// converters on exact-size heap buffers
				std::unique_ptr<char[]> hb(new char[w.size()]); std::memcpy(hb.get(), w.data(), w.size()); std::string_view sv8(hb.get(), w.size());
				std::u16string w16 = prefix16; w16.push_back(u16a[last % 8]);
				std::unique_ptr<char16_t[]> hb16(new char16_t[w16.size()]); std::memcpy(hb16.get(), w16.data(), w16.size() * 2); std::u16string_view sv16(hb16.get(), w16.size());
				auto one = [&](const char* tn, auto fn) { c.evals(1); judge(c, sigbase + "/convert/target=" + tn, probe(fn), w.size(), "payload=" + bsx::hex(w)); };
				one("u16string", [&] { (void)BS::Convert::To<std::u16string>(sv8); }); one("u32string", [&] { (void)BS::Convert::To<std::u32string>(sv8); }); one("wstring", [&] { (void)BS::Convert::To<std::wstring>(sv8); });
				one("try_u16string", [&] { (void)BS::Convert::TryTo<std::u16string>(sv8); });
				if (last < 8) { one("string_from_u16", [&] { (void)BS::Convert::To<std::string>(sv16); }); one("u32string_from_u16", [&] { (void)BS::Convert::To<std::u32string>(sv16); }); }
				for (int up = 0; up < 2; ++up) {
					auto pol = up ? BS::Convert::Utf::UtfEncodingErrorPolicy::Skip : BS::Convert::Utf::UtfEncodingErrorPolicy::ThrowError;
					one(up ? "transcode_u16/skip" : "transcode_u16/throw", [&] { std::u16string out; (void)BS::Convert::Utf::Transcode(sv8, out, pol); });
					one(up ? "transcode_u32/skip" : "transcode_u32/throw", [&] { std::u32string out; (void)BS::Convert::Utf::Transcode(sv8, out, pol); });
					if (last < 8) one(up ? "transcode_u16_to_u8/skip" : "transcode_u16_to_u8/throw", [&] { std::string out; (void)BS::Convert::Utf::Transcode(sv16, out, pol); });
				}
			}
		}
		if (len == 2 && prefix == "\xF0") c.sample(sigbase + " payloads f0 xx");
	} else {
		// ---- converters: all strings up to length 3 (thorough 4) over the conversion alphabet, three character widths
		const int NA = static_cast<int>(sizeof kConvAlpha), L = thorough ? 4 : 3;
		int len = c.choose(L + 1, "len");
		std::string prefix;
		for (int i = 0; i + 1 < len; ++i) prefix.push_back(kConvAlpha[c.choose(NA, "sym")]);
		std::string sigbase = "C02/convert";
		for (int last = 0; last < (len == 0 ? 1 : NA); ++last) {
			std::string s = prefix; if (len > 0) s.push_back(kConvAlpha[last]);
			c.describe(sigbase, "text=" + bsx::hex(s));
			c.evals(2 * 3 * 17);
			runConverters<char>(c, sigbase + "/char", s); runConverters<char16_t>(c, sigbase + "/char16", s); runConverters<char32_t>(c, sigbase + "/char32", s);
			c.nontrivial(bsx::fnv(s) ^ 77);
		}
	}
}

int main(int argc, char** argv) {
	bsx::Config cfg; cfg.part_depth = 3; cfg.max_dev = 0; cfg.hang_s = 6;
	bsx::Engine e("C02", body, cfg);
	return e.main(argc, argv);
}
