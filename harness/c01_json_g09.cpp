// C01 type catalogue, archive json, group 9 (see harness/c01_groups.hpp)
#include "bitserializer/rapidjson_archive.h"
#include "harness/c01_groups.hpp"
std::vector<c01::Entry> c01_tab_json_g09() { return c01::makeGroup<BitSerializer::Json::RapidJson::JsonArchive, c01::Json, 9>(); }
