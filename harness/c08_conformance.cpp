// C08 — JSON/XML output is standard-conformant for an independent parser; standard-conforming
// re-renderings of the same data load identically.
//
// Scenario 0 (forward): every (value, configuration) case is saved with the real archive; the bytes and the
//   expected data model go to a file in BSX_AUX_DIR and are judged by oracles/c08_oracle.py (Python json /
//   expat) in the `post` hook of checks.d/C08.py. In --replay mode the harness calls the oracle itself.
// Scenario 1 (reverse): an independent emitter (below) renders each base value with <= N deviations from the
//   plain rendering (whitespace, escape forms, member order, number spelling, empty-element form, quotes,
//   declaration, comments/PIs, encoding x BOM); the real archive loads it; differential oracle.
// Scenario 2 (number spellings): lattice of doubles x decimal spellings through the JSON loader.
#include "models/lib.hpp"
#include "ref/val.hpp"
#include "bitserializer/rapidjson_archive.h"
#include "bitserializer/pugixml_archive.h"
#include "bitserializer/types/std/vector.h"
#include "bitserializer/types/std/map.h"
#include <cfloat>
#include <cmath>
#include <limits>
#include <fcntl.h>
#include <unistd.h>

namespace c08 {

namespace BS = BitSerializer;
using JS = BS::Json::RapidJson::JsonArchive;
using XM = BS::Xml::PugiXml::XmlArchive;
enum Fmt { JSON = 0, XML = 1 };
static const char* fmtName(int f) { return f == JSON ? "json" : "xml"; }
static std::string sigSafe(std::string s) { for (auto& ch : s) { if (ch == '[') ch = '('; else if (ch == ']') ch = ')'; } return s; }   // fnmatch reads [] as a character class

// ---------------------------------------------------------------------------------------------------
// value tree with a run-time shape (same idea as models/shaped_value.hpp, plus XML attributes and the
// `long long` kinds; every node is written/read through the ordinary BitSerializer::Serialize calls)
// ---------------------------------------------------------------------------------------------------
enum K : uint8_t { Nil, Bool, I8, U8, I16, U16, I32, U32, I64, U64, LL, ULL, F32, F64, Str, Arr, Obj };
static bool isSigned(K k) { return k == I8 || k == I16 || k == I32 || k == I64 || k == LL; }
static bool isInt(K k) { return k >= I8 && k <= ULL; }
static const char* kname(K k) { static const char* n[] = {"nil", "bool", "i8", "u8", "i16", "u16", "i32", "u32", "i64", "u64", "ll", "ull", "f32", "f64", "str", "arr", "obj"}; return n[k]; }

struct Node {
	K k = Nil; bool b = false; int64_t i = 0; uint64_t u = 0; float f = 0; double d = 0; std::string s;
	std::vector<Node> items;                                // Arr
	std::vector<std::pair<std::string, Node>> fields;       // Obj (document order)
	std::vector<char> isAttr;                               // Obj: parallel to fields, 1 = XML attribute
	std::string sym;                                        // alphabet symbol of a leaf / of a key
	std::vector<std::string> keySym;                        // Obj: symbol of each key ("" = plain)
	bool loaded = false, unsupported = false; size_t attempted = 0; bool leftover = false;

	static Node mk(K k, const char* sym = "") { Node n; n.k = k; n.sym = sym; return n; }
	static Node integer(K k, ref::i128 v, const char* sym = "") { Node n = mk(k, sym); if (isSigned(k)) n.i = static_cast<int64_t>(v); else n.u = static_cast<uint64_t>(v); return n; }
	static Node boolean(bool v, const char* sym = "") { Node n = mk(Bool, sym); n.b = v; return n; }
	static Node str(std::string v, const char* sym = "") { Node n = mk(Str, sym); n.s = std::move(v); return n; }
	static Node f32(float v, const char* sym = "") { Node n = mk(F32, sym); n.f = v; return n; }
	static Node f64(double v, const char* sym = "") { Node n = mk(F64, sym); n.d = v; return n; }
	static Node arr(std::vector<Node> v = {}) { Node n = mk(Arr); n.items = std::move(v); return n; }
	static Node obj() { return mk(Obj); }
	Node& add(const std::string& key, Node v, bool attr = false, const std::string& ksym = "") { fields.emplace_back(key, std::move(v)); isAttr.push_back(attr ? 1 : 0); keySym.push_back(ksym); return *this; }
	ref::i128 ival() const { return isSigned(k) ? static_cast<ref::i128>(i) : static_cast<ref::i128>(u); }
	bool leaf() const { return k != Arr && k != Obj; }

	void canary() {
		loaded = false; unsupported = false; attempted = 0; leftover = false;
		b = true; i = -77; u = 77; f = -77.5f; d = -77.5; s = "\x7f" "canary";
		for (auto& e : items) e.canary();
		for (auto& e : fields) e.second.canary();
	}
	void markLoaded() { loaded = true; for (auto& e : items) e.markLoaded(); for (auto& e : fields) e.second.markLoaded(); if (k == Arr) attempted = items.size(); }
	bool anyUnsupported() const { if (unsupported) return true; for (auto& e : items) if (e.anyUnsupported()) return true; for (auto& e : fields) if (e.second.anyUnsupported()) return true; return false; }
	// dump with loaded flags; zeroes of either sign compare equal (JSON/XML numbers carry no signed zero)
	std::string dump() const {
		std::string r = loaded ? "+" : "-";
		switch (k) {
		case Arr: { r += "["; for (auto& e : items) r += e.dump() + ","; return r + "]#" + std::to_string(attempted) + (leftover ? "+more" : ""); }
		case Obj: { r += "{"; for (size_t j = 0; j < fields.size(); ++j) r += (isAttr[j] ? "@" : "") + bsx::hex(fields[j].first) + ":" + fields[j].second.dump() + ","; return r + "}"; }
		case Nil: return r + "nil";
		case Bool: return r + (b ? "true" : "false");
		case F32: { float x = f == 0 ? 0.f : f; uint32_t w; std::memcpy(&w, &x, 4); if (x != x) w = 0x7fc00000u; return r + bsx::fmt("f32:%08x", w); }
		case F64: { double x = d == 0 ? 0. : d; uint64_t w; std::memcpy(&w, &x, 8); if (x != x) w = 0x7ff8000000000000ull; return r + bsx::fmt("f64:%016llx", static_cast<unsigned long long>(w)); }
		case Str: return r + "s" + bsx::hex(s);
		default: return r + kname(k) + ":" + ref::i128str(ival());
		}
	}
};

template <class T> struct is_counter : std::false_type {};
template <class A> struct is_counter<BS::FieldsCountVisitor<A>> : std::true_type {};

struct ObjRef { Node& n; template <class A> void Serialize(A& ar); };
struct ArrRef { Node& n; size_t size() const { return n.items.size(); } };

template <class A> struct NoKey {
	A& ar;
	template <class T> static constexpr bool canValue() { return BS::can_serialize_value_v<A, T>; }
	static constexpr bool canObject = BS::can_serialize_object_v<A>;
	static constexpr bool canArray = BS::can_serialize_array_v<A>;
	template <class T> bool operator()(T& v) { return BS::Serialize(ar, v); }
};
template <class A> struct WithKey {
	A& ar; const std::string& key;
	template <class T> static constexpr bool canValue() { return BS::can_serialize_value_with_key_v<A, T, const std::string&>; }
	static constexpr bool canObject = BS::can_serialize_object_with_key_v<A, const std::string&>;
	static constexpr bool canArray = BS::can_serialize_array_with_key_v<A, const std::string&>;
	template <class T> bool operator()(T& v) { return BS::Serialize(ar, key, v); }
};

template <class A, bool AtRoot, class Call>
void dispatch(Node& n, Call call) {
	constexpr bool L = A::IsLoading();
	auto integral = [&](auto tag) {
		using T = decltype(tag);
		if constexpr (Call::template canValue<T>()) {
			T t = isSigned(n.k) ? static_cast<T>(n.i) : static_cast<T>(n.u);
			bool ok = call(t);
			if (L && ok) { if (isSigned(n.k)) n.i = static_cast<int64_t>(t); else n.u = static_cast<uint64_t>(t); }
			n.loaded = ok;
		} else n.unsupported = true;
	};
	switch (n.k) {
	case Nil: if constexpr (Call::template canValue<std::nullptr_t>()) { std::nullptr_t v = nullptr; n.loaded = call(v); } else n.unsupported = true; break;
	case Bool: if constexpr (Call::template canValue<bool>()) n.loaded = call(n.b); else n.unsupported = true; break;
	case I8: integral(int8_t{}); break;
	case U8: integral(uint8_t{}); break;
	case I16: integral(int16_t{}); break;
	case U16: integral(uint16_t{}); break;
	case I32: integral(int32_t{}); break;
	case U32: integral(uint32_t{}); break;
	case I64: integral(int64_t{}); break;
	case U64: integral(uint64_t{}); break;
	// `long long` is a type of its own on LP64 (int64_t is `long`); RapidJSON's GenericValue constructors are ambiguous
	// for it below the root, so the library only compiles it at the root
	case LL: if constexpr (AtRoot) integral(static_cast<long long>(0)); else n.unsupported = true; break;
	case ULL: if constexpr (AtRoot) integral(static_cast<unsigned long long>(0)); else n.unsupported = true; break;
	case F32: if constexpr (Call::template canValue<float>()) n.loaded = call(n.f); else n.unsupported = true; break;
	case F64: if constexpr (Call::template canValue<double>()) n.loaded = call(n.d); else n.unsupported = true; break;
	case Str: if constexpr (Call::template canValue<typename A::string_view_type>()) n.loaded = call(n.s); else n.unsupported = true; break;
	case Arr: if constexpr (Call::canArray) { ArrRef r{n}; n.loaded = call(r); } else n.unsupported = true; break;
	case Obj: if constexpr (Call::canObject) { ObjRef r{n}; n.loaded = call(r); } else n.unsupported = true; break;
	}
}

template <class A>
void ObjRef::Serialize(A& ar) {
	if constexpr (is_counter<A>::value) {
		for (auto& f : n.fields) { (void)f; int dummy = 0; ar << dummy; }
	} else {
		for (size_t j = 0; j < n.fields.size(); ++j) {
			auto& f = n.fields[j];
			if (n.isAttr[j]) {
				if constexpr (BS::can_serialize_attribute_v<A>) {
					auto as = ar.OpenAttributeScope();   // what `archive << AttributeValue(key, value)` does
					using AS = std::decay_t<decltype(*as)>;
					if (as) dispatch<AS, false>(f.second, WithKey<AS>{*as, f.first});
				} else f.second.unsupported = true;
			} else dispatch<A, false>(f.second, WithKey<A>{ar, f.first});
		}
	}
}
template <class A>
void SerializeArray(A& ar, ArrRef& r) {
	if constexpr (A::IsLoading()) {
		r.n.attempted = 0;
		for (auto& it : r.n.items) { if (ar.IsEnd()) break; ++r.n.attempted; dispatch<A, false>(it, NoKey<A>{ar}); }
		r.n.leftover = !ar.IsEnd();
	} else {
		for (auto& it : r.n.items) dispatch<A, false>(it, NoKey<A>{ar});
	}
}
struct Root { Node& n; };
template <class A> bool Serialize(A& ar, Root& r) { dispatch<A, true>(r.n, NoKey<A>{ar}); return r.n.loaded; }

// ---- a real typed model (std containers, nested class, XML attributes through AttributeValue) --------
struct Row {
	int32_t id = -77; std::string name = "\x7f" "canary";
	template <class A> void Serialize(A& ar) {
		if constexpr (BS::can_serialize_attribute_v<A>) ar << BS::AttributeValue("id", id); else ar << BS::KeyValue("id", id);
		ar << BS::KeyValue("name", name);
	}
};
struct TypedDoc {
	std::vector<int32_t> v; std::map<std::string, double> m; std::vector<Row> rows; bool flag = true; uint64_t big = 77; float f = -77.5f; std::string text = "\x7f" "canary";
	template <class A> void Serialize(A& ar) {
		ar << BS::KeyValue("v", v) << BS::KeyValue("m", m) << BS::KeyValue("rows", rows) << BS::KeyValue("flag", flag) << BS::KeyValue("big", big) << BS::KeyValue("f", f) << BS::KeyValue("text", text);
	}
	static TypedDoc preset(int p) {
		TypedDoc t; t.flag = p != 1; t.big = p == 0 ? 7 : UINT64_MAX; t.f = p == 0 ? 1.5f : 0.1f;
		if (p == 0) { t.v = {1, -2}; t.m = {{"k", 2.5}}; t.rows = {{1, "a"}}; t.text = "x"; }
		if (p == 1) { t.v = {INT32_MIN, INT32_MAX, 0}; t.m = {{"a", 0.1}, {"b", 1e300}}; t.rows = {{1, "<&>"}, {2, "\xC3\xA9 \"q\""}}; t.text = " a\tb "; }
		if (p == 2) { t.v = {5}; t.m = {{"\xC3\xA9", -1.5}}; t.rows = {{-1, "\xF0\x9F\x98\x80"}}; t.text = "]]>"; }
		return t;
	}
	Node mirror(int fmt) const {
		Node n = Node::obj();
		Node av = Node::arr(); for (auto x : v) av.items.push_back(Node::integer(I32, x, "typed:i32"));
		Node om = Node::obj(); for (auto& kv : m) om.add(kv.first, Node::f64(kv.second, "typed:f64"));
		Node ar = Node::arr(); for (auto& r : rows) { Node o = Node::obj(); o.add("id", Node::integer(I32, r.id, "typed:i32"), fmt == XML); o.add("name", Node::str(r.name, "typed:str")); ar.items.push_back(o); }
		n.add("v", av).add("m", om).add("rows", ar).add("flag", Node::boolean(flag, "typed:bool")).add("big", Node::integer(U64, big, "typed:u64")).add("f", Node::f32(f, "typed:f32")).add("text", Node::str(text, "typed:str"));
		n.markLoaded(); return n;
	}
};

// ---- UTF helpers (harness strings are valid UTF-8 unless the symbol says otherwise) ---------------------
static std::vector<uint32_t> cps(const std::string& s) {
	std::vector<uint32_t> r;
	for (size_t i = 0; i < s.size();) {
		unsigned char c = static_cast<unsigned char>(s[i]); int n = c < 0x80 ? 1 : c < 0xE0 ? 2 : c < 0xF0 ? 3 : 4;
		uint32_t cp = n == 1 ? c : n == 2 ? (c & 0x1F) : n == 3 ? (c & 0x0F) : (c & 0x07);
		for (int j = 1; j < n && i + static_cast<size_t>(j) < s.size(); ++j) cp = (cp << 6) | (static_cast<unsigned char>(s[i + static_cast<size_t>(j)]) & 0x3F);
		r.push_back(cp); i += static_cast<size_t>(n);
	}
	return r;
}
static void putUtf8(std::string& o, uint32_t c) {
	if (c < 0x80) o.push_back(static_cast<char>(c));
	else if (c < 0x800) { o.push_back(static_cast<char>(0xC0 | (c >> 6))); o.push_back(static_cast<char>(0x80 | (c & 0x3F))); }
	else if (c < 0x10000) { o.push_back(static_cast<char>(0xE0 | (c >> 12))); o.push_back(static_cast<char>(0x80 | ((c >> 6) & 0x3F))); o.push_back(static_cast<char>(0x80 | (c & 0x3F))); }
	else { o.push_back(static_cast<char>(0xF0 | (c >> 18))); o.push_back(static_cast<char>(0x80 | ((c >> 12) & 0x3F))); o.push_back(static_cast<char>(0x80 | ((c >> 6) & 0x3F))); o.push_back(static_cast<char>(0x80 | (c & 0x3F))); }
}
static const char* encName(int e) { static const char* n[] = {"utf8", "utf16le", "utf16be", "utf32le", "utf32be"}; return n[e]; }
static BS::Convert::Utf::UtfType encType(int e) { using U = BS::Convert::Utf::UtfType; static const U t[] = {U::Utf8, U::Utf16le, U::Utf16be, U::Utf32le, U::Utf32be}; return t[e]; }
static std::string encodeAs(const std::string& utf8, int enc, bool bom) {
	std::string o;
	auto unit16 = [&](uint32_t u) { if (enc == 1) { o.push_back(static_cast<char>(u & 0xFF)); o.push_back(static_cast<char>(u >> 8)); } else { o.push_back(static_cast<char>(u >> 8)); o.push_back(static_cast<char>(u & 0xFF)); } };
	auto unit32 = [&](uint32_t u) { for (int k = 0; k < 4; ++k) o.push_back(static_cast<char>((u >> (enc == 3 ? 8 * k : 24 - 8 * k)) & 0xFF)); };
	if (enc == 0) return (bom ? std::string("\xEF\xBB\xBF") : std::string()) + utf8;
	if (bom) { if (enc <= 2) unit16(0xFEFF); else unit32(0xFEFF); }
	for (uint32_t c : cps(utf8)) {
		if (enc <= 2) { if (c >= 0x10000) { c -= 0x10000; unit16(0xD800 + (c >> 10)); unit16(0xDC00 + (c & 0x3FF)); } else unit16(c); }
		else unit32(c);
	}
	return o;
}

// ---------------------------------------------------------------------------------------------------
// alphabets
// ---------------------------------------------------------------------------------------------------
struct Sym { Node leaf; bool jsonOnly = false, rootOnly = false, lenientJson = false, noReverse = false; };
static std::vector<Sym> leafAlphabet() {
	std::vector<Sym> r;
	auto S = [&](const char* n, std::string v, bool jsonOnly = false) { Sym s; s.leaf = Node::str(std::move(v), n); s.jsonOnly = jsonOnly; r.push_back(s); };
	S("str:empty", ""); S("str:a", "a"); S("str:sp", " "); S("str:sp_a_sp", " a "); S("str:e_acute", "\xC3\xA9"); S("str:euro", "\xE2\x82\xAC"); S("str:emoji", "\xF0\x9F\x98\x80");
	S("str:quote", "\""); S("str:backslash", "\\"); S("str:lt_amp_gt", "<&>"); S("str:apos", "'"); S("str:nl", "\n"); S("str:tab", "\t"); S("str:cr", "a\rb"); S("str:slash", "/");
	S("str:u0001", "\x01", true); S("str:ufffd", "\xEF\xBF\xBD"); S("str:uffff", "\xEF\xBF\xBF", true); S("str:cdata_end", "]]>");
	{ Sym s; s.leaf = Node::str("a\xC3", "str:invalid_utf8"); s.jsonOnly = true; s.lenientJson = true; s.noReverse = true; r.push_back(s); }
	auto I = [&](const char* n, K k, ref::i128 v, bool rootOnly = false) { Sym s; s.leaf = Node::integer(k, v, n); s.rootOnly = rootOnly; s.jsonOnly = rootOnly; r.push_back(s); };
	I("i8:min", I8, INT8_MIN); I("i8:max", I8, INT8_MAX); I("u8:max", U8, UINT8_MAX); I("i16:min", I16, INT16_MIN); I("i16:max", I16, INT16_MAX); I("u16:max", U16, UINT16_MAX);
	I("i32:zero", I32, 0); I("i32:min", I32, INT32_MIN); I("i32:max", I32, INT32_MAX); I("u32:max", U32, UINT32_MAX); I("u32:gt_int32max", U32, 4000000000u);
	I("i64:min", I64, INT64_MIN); I("i64:max", I64, INT64_MAX); I("u64:max", U64, static_cast<ref::i128>(UINT64_MAX)); I("u64:gt_int64max", U64, static_cast<ref::i128>(INT64_MAX) + 1);
	I("ll:max", LL, INT64_MAX, true); I("ll:min", LL, INT64_MIN, true); I("ull:max", ULL, static_cast<ref::i128>(UINT64_MAX), true);
	auto D = [&](const char* n, double v, bool nonfinite = false) { Sym s; s.leaf = Node::f64(v, n); s.lenientJson = nonfinite; s.noReverse = nonfinite; r.push_back(s); };
	D("f64:0.1", 0.1); D("f64:1e300", 1e300); D("f64:denorm_min", std::numeric_limits<double>::denorm_min()); D("f64:neg_zero", -0.0); D("f64:1.5", 1.5); D("f64:max", DBL_MAX); D("f64:int3", 3.0); D("f64:neg_1e-7", -1e-7);
	D("f64:nan", NAN, true); D("f64:inf", INFINITY, true); D("f64:neg_inf", -INFINITY, true);
	auto F = [&](const char* n, float v, bool nonfinite = false) { Sym s; s.leaf = Node::f32(v, n); s.lenientJson = nonfinite; s.noReverse = nonfinite; r.push_back(s); };
	F("f32:0.1", 0.1f); F("f32:max", FLT_MAX); F("f32:denorm_min", std::numeric_limits<float>::denorm_min()); F("f32:nan", NAN, true);
	{ Sym s; s.leaf = Node::boolean(true, "bool:true"); r.push_back(s); } { Sym s; s.leaf = Node::boolean(false, "bool:false"); r.push_back(s); } { Sym s; s.leaf = Node::mk(Nil, "nil"); r.push_back(s); }
	return r;
}
static const std::vector<Sym>& L() { static auto v = leafAlphabet(); return v; }
static int symIndex(const char* name) { for (size_t i = 0; i < L().size(); ++i) if (L()[i].leaf.sym == name) return static_cast<int>(i); fprintf(stderr, "no symbol %s\n", name); abort(); }
static const std::vector<int>& M() { static std::vector<int> v = {symIndex("str:a"), symIndex("i32:max"), symIndex("nil"), symIndex("str:empty")}; return v; }

struct KeySym { std::string name, key; bool invalidXmlName = false; };
static std::vector<KeySym> keyAlphabet(int fmt) {
	std::vector<KeySym> r;
	if (fmt == JSON) { for (auto& s : L()) if (s.leaf.k == Str && !s.lenientJson) r.push_back({"key:" + s.leaf.sym.substr(4), s.leaf.s}); return r; }
	r.push_back({"key:a", "a"}); r.push_back({"key:underscore_x", "_x"}); r.push_back({"key:a_dash_b", "a-b"}); r.push_back({"key:a_dot_b", "a.b"}); r.push_back({"key:a1", "a1"}); r.push_back({"key:e_acute", "\xC3\xA9"}); r.push_back({"key:xml_prefix", "xmlfoo"});
	r.push_back({"key:not_a_name:empty", "", true}); r.push_back({"key:not_a_name:space", "a b", true}); r.push_back({"key:not_a_name:digit_first", "1a", true}); r.push_back({"key:not_a_name:lt", "a<b", true});
	return r;
}

// shapes: skeletons with 0..2 leaf holes (x, y) or one key hole
struct Shape { std::string name; int holes = 0; bool keyHole = false, attrName = false; int only = -1; /* -1 both, else Fmt */ bool xAttr = false, yAttr = false, root = false; int typed = -1; bool namedRoot = false, fullPairs = false;   /* namedRoot: SaveObject(KeyValue("Point", value)) */ std::function<Node(const Node&, const Node&, const KeySym&)> build; };
static std::vector<Shape> shapeList() {
	std::vector<Shape> r; using N = Node; using KS = KeySym;
	auto add = [&](const char* name, int holes, std::function<Node(const N&, const N&, const KS&)> b) -> Shape& { Shape s; s.name = name; s.holes = holes; s.build = std::move(b); r.push_back(s); return r.back(); };
	auto O1 = [](const std::string& k, N v, bool attr = false) { N o = N::obj(); o.add(k, std::move(v), attr); return o; };
	{ auto& s = add("root", 1, [](const N& x, const N&, const KS&) { return x; }); s.only = JSON; s.root = true; }
	add("[x]", 1, [](const N& x, const N&, const KS&) { return N::arr({x}); });
	add("{k:x}", 1, [=](const N& x, const N&, const KS&) { return O1("k", x); });
	add("[[x]]", 1, [](const N& x, const N&, const KS&) { return N::arr({N::arr({x})}); });
	add("[{k:x}]", 1, [=](const N& x, const N&, const KS&) { return N::arr({O1("k", x)}); });
	add("{k:[x]}", 1, [=](const N& x, const N&, const KS&) { return O1("k", N::arr({x})); });
	add("{k:{j:x}}", 1, [=](const N& x, const N&, const KS&) { return O1("k", O1("j", x)); });
	add("[[[x]]]", 1, [](const N& x, const N&, const KS&) { return N::arr({N::arr({N::arr({x})})}); });
	add("{k:{j:{m:x}}}", 1, [=](const N& x, const N&, const KS&) { return O1("k", O1("j", O1("m", x))); });
	{ auto& s = add("{@a:x}", 1, [=](const N& x, const N&, const KS&) { return O1("a", x, true); }); s.only = XML; s.xAttr = true; }
	{ auto& s = add("[{@a:x}]", 1, [=](const N& x, const N&, const KS&) { return N::arr({O1("a", x, true)}); }); s.only = XML; s.xAttr = true; }
	{ auto& s = add("{k:{@a:x}}", 1, [=](const N& x, const N&, const KS&) { return O1("k", O1("a", x, true)); }); s.only = XML; s.xAttr = true; }
	{ auto& s = add("[x,y]", 2, [](const N& x, const N& y, const KS&) { return N::arr({x, y}); }); s.fullPairs = true; }
	add("[y,x]", 2, [](const N& x, const N& y, const KS&) { return N::arr({y, x}); });
	{ auto& s = add("{k:x,j:y}", 2, [](const N& x, const N& y, const KS&) { N o = N::obj(); o.add("k", x).add("j", y); return o; }); s.fullPairs = true; }
	add("{k:y,j:x}", 2, [](const N& x, const N& y, const KS&) { N o = N::obj(); o.add("k", y).add("j", x); return o; });
	add("[[x],y]", 2, [](const N& x, const N& y, const KS&) { return N::arr({N::arr({x}), y}); });
	add("{k:[x],j:y}", 2, [](const N& x, const N& y, const KS&) { N o = N::obj(); o.add("k", N::arr({x})).add("j", y); return o; });
	{ auto& s = add("{@a:x,k:y}", 2, [](const N& x, const N& y, const KS&) { N o = N::obj(); o.add("a", x, true).add("k", y); return o; }); s.only = XML; s.xAttr = true; }
	{ auto& s = add("{@a:y,k:x}", 2, [](const N& x, const N& y, const KS&) { N o = N::obj(); o.add("a", y, true).add("k", x); return o; }); s.only = XML; s.yAttr = true; }
	{ auto& s = add("{@a:x,@b:y}", 2, [](const N& x, const N& y, const KS&) { N o = N::obj(); o.add("a", x, true).add("b", y, true); return o; }); s.only = XML; s.xAttr = true; s.yAttr = true; s.fullPairs = true; }
	{ auto& s = add("Point:{k:x}", 1, [=](const N& x, const N&, const KS&) { return O1("k", x); }); s.only = XML; s.namedRoot = true; }
	{ auto& s = add("Point:[x]", 1, [](const N& x, const N&, const KS&) { return N::arr({x}); }); s.only = XML; s.namedRoot = true; }
	// containers without leaves
	auto I1 = [] { return N::integer(I32, 1, "i32:one"); };
	add("[]", 0, [](const N&, const N&, const KS&) { return N::arr(); });
	add("{}", 0, [](const N&, const N&, const KS&) { return N::obj(); });
	add("[[]]", 0, [](const N&, const N&, const KS&) { return N::arr({N::arr()}); });
	add("[{}]", 0, [](const N&, const N&, const KS&) { return N::arr({N::obj()}); });
	add("{k:[]}", 0, [=](const N&, const N&, const KS&) { return O1("k", N::arr()); });
	add("{k:{}}", 0, [=](const N&, const N&, const KS&) { return O1("k", N::obj()); });
	add("[[],[]]", 0, [](const N&, const N&, const KS&) { return N::arr({N::arr(), N::arr()}); });
	add("[{},{}]", 0, [](const N&, const N&, const KS&) { return N::arr({N::obj(), N::obj()}); });
	add("{k:[],j:{}}", 0, [](const N&, const N&, const KS&) { N o = N::obj(); o.add("k", N::arr()).add("j", N::obj()); return o; });
	add("[[[]]]", 0, [](const N&, const N&, const KS&) { return N::arr({N::arr({N::arr()})}); });
	add("{k:[{j:[1,1]},{j:[]}],m:{}}", 0, [=](const N&, const N&, const KS&) { N o = N::obj(); o.add("k", N::arr({O1("j", N::arr({I1(), I1()})), O1("j", N::arr())})).add("m", N::obj()); return o; });
	add("[1,[1,1],{k:1}]", 0, [=](const N&, const N&, const KS&) { return N::arr({I1(), N::arr({I1(), I1()}), O1("k", I1())}); });
	// key holes
	{ auto& s = add("{K:1}", 1, [=](const N&, const N&, const KS& k) { N o = N::obj(); o.add(k.key, I1(), false, k.name); return o; }); s.keyHole = true; }
	{ auto& s = add("[{K:1}]", 1, [=](const N&, const N&, const KS& k) { N o = N::obj(); o.add(k.key, I1(), false, k.name); return N::arr({o}); }); s.keyHole = true; }
	{ auto& s = add("{K:{j:1},z:1}", 1, [=](const N&, const N&, const KS& k) { N o = N::obj(); o.add(k.key, O1("j", I1()), false, k.name).add("z", I1()); return o; }); s.keyHole = true; }
	{ auto& s = add("{@K:1}", 1, [=](const N&, const N&, const KS& k) { N o = N::obj(); o.add(k.key, I1(), true, k.name); return o; }); s.keyHole = true; s.attrName = true; s.only = XML; }
	for (int p = 0; p < 3; ++p) { Shape s; s.name = "typed:preset" + std::to_string(p); s.typed = p; r.push_back(s); }
	return r;
}
static const std::vector<Shape>& shapes() { static auto v = shapeList(); return v; }

// ---- expected data model as text for the Python oracle ------------------------------------------------
// ["s",hex,sym,pos] ["i",dec,sym,pos] ["d",bits,sym,pos] ["f",bits,sym,pos] ["b",0|1,sym,pos] ["n",sym,pos] ["any",sym,pos]
// ["a",[nodes]]  ["o",[[keyhex,keysym,node]...],[[attrhex,keysym,leaf]...]]
static void modelOf(const Node& n, const char* pos, bool lenient, std::string& o) {
	auto tail = [&] { o += ",\"" + n.sym + "\",\"" + pos + "\"]"; };
	switch (n.k) {
	case Arr: { o += "[\"a\",["; for (size_t j = 0; j < n.items.size(); ++j) { if (j) o += ","; modelOf(n.items[j], "elem", lenient, o); } o += "]]"; return; }
	case Obj: {
		o += "[\"o\",["; bool first = true;
		for (size_t j = 0; j < n.fields.size(); ++j) if (!n.isAttr[j]) { if (!first) o += ","; first = false; o += "[\"" + bsx::hex(n.fields[j].first) + "\",\"" + n.keySym[j] + "\","; modelOf(n.fields[j].second, "member", lenient, o); o += "]"; }
		o += "],["; first = true;
		for (size_t j = 0; j < n.fields.size(); ++j) if (n.isAttr[j]) { if (!first) o += ","; first = false; o += "[\"" + bsx::hex(n.fields[j].first) + "\",\"" + n.keySym[j] + "\","; modelOf(n.fields[j].second, "attr", lenient, o); o += "]"; }
		o += "]]"; return;
	}
	default: break;
	}
	bool nonfinite = (n.k == F64 && !std::isfinite(n.d)) || (n.k == F32 && !std::isfinite(n.f));
	if (lenient && (nonfinite || n.sym == "str:invalid_utf8")) { o += "[\"any\""; tail(); return; }
	switch (n.k) {
	case Nil: o += "[\"n\""; break;
	case Bool: o += std::string("[\"b\",") + (n.b ? "1" : "0"); break;
	case F32: { uint32_t w; std::memcpy(&w, &n.f, 4); o += bsx::fmt("[\"f\",\"%08x\"", w); break; }
	case F64: { uint64_t w; std::memcpy(&w, &n.d, 8); o += bsx::fmt("[\"d\",\"%016llx\"", static_cast<unsigned long long>(w)); break; }
	case Str: o += "[\"s\",\"" + bsx::hex(n.s) + "\""; break;
	default: o += "[\"i\",\"" + ref::i128str(n.ival()) + "\""; break;
	}
	tail();
}

// ---- aux records ------------------------------------------------------------------------------------------
static void auxWrite(const std::string& line) {
	static int fd = -2; static pid_t owner = 0;
	if (fd == -2 || owner != getpid()) {
		const char* dir = getenv("BSX_AUX_DIR");
		if (!dir) { fd = -1; } else { std::string p = std::string(dir) + "/fwd." + std::to_string(getpid()) + ".tsv"; fd = open(p.c_str(), O_WRONLY | O_CREAT | O_APPEND, 0644); }
		owner = getpid();
	}
	if (fd >= 0) { size_t off = 0; while (off < line.size()) { ssize_t w = write(fd, line.data() + off, line.size() - off); if (w <= 0) { perror("aux write"); abort(); } off += static_cast<size_t>(w); } }
}
static const char* kOracle = "/verif/oracles/c08_oracle.py";
// replay: let the Python oracle judge this one record now
static void judgeNow(bsx::Ctx& c, const std::string& line) {
	char tmpl[] = "/tmp/c08_replay_XXXXXX"; int fd = mkstemp(tmpl); if (fd < 0) { perror("mkstemp"); return; }
	(void)!write(fd, line.data(), line.size()); close(fd);
	std::string cmd = std::string("python3 ") + kOracle + " --judge " + tmpl;
	FILE* p = popen(cmd.c_str(), "r"); std::string out; if (p) { char buf[4096]; size_t n; while ((n = fread(buf, 1, sizeof buf, p)) > 0) out.append(buf, n); pclose(p); }
	unlink(tmpl);
	size_t pos = 0;
	while (pos < out.size()) {
		size_t e = out.find('\n', pos); if (e == std::string::npos) e = out.size();
		std::string l = out.substr(pos, e - pos); pos = e + 1;
		if (l.rfind("VIOL\t", 0) == 0) { size_t t = l.find('\t', 5); c.violation(l.substr(5, t - 5), t == std::string::npos ? "" : l.substr(t + 1)); }
		else if (!l.empty()) printf("  oracle: %s\n", l.c_str());
	}
}

static const char* styleName(int st) { static const char* n[] = {"compact", "pretty:tab1", "pretty:tab2", "pretty:tab4", "pretty:sp1", "pretty:sp2", "pretty:sp4"}; return n[st]; }
static BS::SerializationOptions optionsFor(int sink, int style) {
	BS::SerializationOptions o;
	if (style) { o.formatOptions.enableFormat = true; o.formatOptions.paddingChar = style <= 3 ? '\t' : ' '; static const uint16_t cnt[] = {1, 2, 4}; o.formatOptions.paddingCharNum = cnt[(style - 1) % 3]; }
	if (sink) { o.streamOptions.encoding = encType((sink - 1) / 2); o.streamOptions.writeBom = (sink - 1) % 2 == 1; }
	return o;
}
template <class A, class T> static lib::Out saveWith(T& obj, int sink, const BS::SerializationOptions& o, std::string& bytes) {
	return lib::guard([&] { if (!sink) BS::SaveObject<A>(obj, bytes, o); else { std::ostringstream os; BS::SaveObject<A>(obj, os, o); bytes = os.str(); } });
}
template <class A, class T> static lib::Out loadWith(T& obj, bool stream, const std::string& bytes) {
	return lib::guard([&] { if (!stream) BS::LoadObject<A>(obj, bytes); else { std::istringstream is(bytes); BS::LoadObject<A>(obj, is); } });
}

// ---------------------------------------------------------------------------------------------------
// scenario 0: forward
// ---------------------------------------------------------------------------------------------------
static void forward(bsx::Ctx& c) {
	int fmt = c.choose(2, "fmt");
	int sh = c.choose(static_cast<int>(shapes().size()), "shape");
	const Shape& S = shapes()[static_cast<size_t>(sh)];
	static const std::vector<KeySym> keys[2] = {keyAlphabet(JSON), keyAlphabet(XML)};
	int nx = S.holes >= 1 ? (S.keyHole ? static_cast<int>(keys[fmt].size()) : static_cast<int>(L().size())) : 1;
	int x = c.choose(nx, "x");
	bool full = c.tier == "thorough" && S.fullPairs;
	int ny = S.holes >= 2 ? (full ? static_cast<int>(L().size()) : static_cast<int>(M().size())) : 1;
	int yi = c.choose(ny, "y");
	int sink = c.choose(11, "sink");     // 0 memory, 1.. stream: encoding x bom
	int style = c.choose(7, "style");
	if (S.only >= 0 && S.only != fmt) { c.outcome("n/a"); return; }
	const Sym* sx = (S.holes >= 1 && !S.keyHole) ? &L()[static_cast<size_t>(x)] : nullptr;
	const Sym* sy = S.holes >= 2 ? &L()[static_cast<size_t>(full ? yi : M()[static_cast<size_t>(yi)])] : nullptr;
	for (const Sym* s : {sx, sy}) if (s) { if ((s->jsonOnly && fmt != JSON) || (s->rootOnly && !S.root)) { c.outcome("n/a"); return; } }
	KeySym none; const KeySym& ks = S.keyHole ? keys[fmt][static_cast<size_t>(x)] : none;
	TypedDoc typed; Node v;
	if (S.typed >= 0) { typed = TypedDoc::preset(S.typed); v = typed.mirror(fmt); }
	else v = S.build(sx ? sx->leaf : Node(), sy ? sy->leaf : Node(), ks);
	bool lenient = (fmt == JSON && ((sx && sx->lenientJson) || (sy && sy->lenientJson))) || ks.invalidXmlName;
	std::string vals = S.keyHole ? ks.name : (sx ? sx->leaf.sym : std::string("none")) + (sy ? "," + sy->leaf.sym : "");
	std::string cfg = std::string(sink ? "stream" : "mem") + "/enc=" + encName(sink ? (sink - 1) / 2 : 0) + "/bom=" + (sink && (sink - 1) % 2 ? "1" : "0") + "/style=" + styleName(style);
	std::string sigbase = std::string("C08/fwd/") + fmtName(fmt) + "/" + cfg + "/shape=" + sigSafe(S.name) + "/val=" + vals;
	c.describe(sigbase, "save " + S.name + " with " + vals);
	auto o = optionsFor(sink, style);
	std::string bytes; lib::Out out;
	if (S.typed >= 0) out = fmt == JSON ? saveWith<JS>(typed, sink, o, bytes) : saveWith<XM>(typed, sink, o, bytes);
	else if (S.namedRoot) {
		out = lib::guard([&] {
			std::ostringstream os;
			if (v.k == Obj) { ObjRef r{v}; if (!sink) BS::SaveObject<XM>(BS::KeyValue("Point", r), bytes, o); else BS::SaveObject<XM>(BS::KeyValue("Point", r), os, o); }
			else { ArrRef r{v}; if (!sink) BS::SaveObject<XM>(BS::KeyValue("Point", r), bytes, o); else BS::SaveObject<XM>(BS::KeyValue("Point", r), os, o); }
			if (sink) bytes = os.str();
		});
	}
	else { Root r{v}; out = fmt == JSON ? saveWith<JS>(r, sink, o, bytes) : saveWith<XM>(r, sink, o, bytes); }
	if (v.anyUnsupported()) { c.outcome("n/a:unsupported_at_this_level"); return; }
	c.nontrivial(std::string(fmtName(fmt)) + S.name + vals);
	if (!out.ok()) {
		if (lenient) { c.outcome("save_refused:" + out.cls); return; }
		c.outcome("save_threw"); c.violation(std::string("C08/fwd/") + fmtName(fmt) + "/shape=" + sigSafe(S.name) + "/val=" + vals + "/out=save_threw:" + out.cls, out.what + " | " + cfg); return;
	}
	c.outcome(lenient ? "saved:lenient_value" : "saved");
	std::string line = "F\t";
	for (size_t i = 0; i < c.choices().size(); ++i) line += (i ? "," : "") + std::to_string(c.choices()[i]);
	line += std::string("\t") + fmtName(fmt) + "\t" + (sink ? "stream" : "mem") + "\t" + encName(sink ? (sink - 1) / 2 : 0) + "\t" + (sink && (sink - 1) % 2 ? "1" : "0") + "\t" + styleName(style) + "\t" + S.name + "\t" + (ks.invalidXmlName ? "any_wellformed" : S.namedRoot ? "root=Point" : "-") + "\t" + bsx::hex(bytes) + "\t";
	modelOf(v, "root", lenient, line); line += "\n";
	if (sink == 0 && style == 0 && x % 7 == 0 && yi == 0) c.sample(std::string(fmtName(fmt)) + " " + S.name + " " + vals + " -> " + (bytes.size() < 80 ? bytes : bytes.substr(0, 80)));
	if (c.replaying) { printf("  document (%zu bytes): %s\n", bytes.size(), bsx::jesc(bytes).c_str()); judgeNow(c, line); }
	else auxWrite(line);
}

// ---------------------------------------------------------------------------------------------------
// scenario 1: reverse — independent emitters driven by deviation decisions
// ---------------------------------------------------------------------------------------------------
struct Decider {
	bsx::Ctx* c = nullptr; const std::vector<int>* forced = nullptr;
	std::vector<int> picks; std::vector<std::string> kinds; bool redundant = false, capped = false;
	// alts[0] is the plain form (name ""), the others are named deviations; the list never depends on earlier picks
	int pick(const std::vector<std::string>& alts) {
		if (alts.size() < 2) return 0;
		int v = 0;
		if (forced) v = picks.size() < forced->size() ? (*forced)[picks.size()] : 0;
		else if (picks.size() >= 84) capped = true;
		else v = c->deviate(static_cast<int>(alts.size()));
		picks.push_back(v); kinds.push_back(alts[static_cast<size_t>(v)]);
		return v;
	}
};
static std::vector<std::vector<int>> perms(size_t n) {
	std::vector<int> id(n); for (size_t i = 0; i < n; ++i) id[i] = static_cast<int>(i);
	std::vector<std::vector<int>> r;
	if (n <= 4) { std::vector<int> p = id; do r.push_back(p); while (std::next_permutation(p.begin(), p.end())); return r; }
	r.push_back(id); std::vector<int> rev(id.rbegin(), id.rend()); r.push_back(rev); std::vector<int> rot = id; std::rotate(rot.begin(), rot.begin() + 1, rot.end()); r.push_back(rot);
	return r;
}
static std::vector<int> pickOrder(Decider& D, size_t n, const char* kind) {
	auto ps = perms(n); if (ps.size() < 2) return ps.empty() ? std::vector<int>{} : ps[0];
	std::vector<std::string> alts(ps.size(), kind); alts[0] = "";
	return ps[static_cast<size_t>(D.pick(alts))];
}

// shortest decimal digits that strtod maps back to d (d finite, non-zero): value = 0.d1d2.. x 10^(e+1) = d1.d2.. x 10^e
static void shortest(double d, bool asFloat, std::string& digits, int& e) {
	char buf[64];
	for (int p = 1; p <= 17; ++p) {
		snprintf(buf, sizeof buf, "%.*e", p - 1, std::fabs(d));
		if (asFloat ? strtof(buf, nullptr) == static_cast<float>(std::fabs(d)) : strtod(buf, nullptr) == std::fabs(d)) break;
	}
	std::string b = buf; size_t ep = b.find('e'); e = atoi(b.c_str() + ep + 1);
	digits.clear(); for (size_t i = 0; i < ep; ++i) if (b[i] != '.') digits.push_back(b[i]);
	while (digits.size() > 1 && digits.back() == '0') digits.pop_back();
}
static std::string plainDecimal(const std::string& digits, int e, bool dotZero) {
	std::string r;
	if (e >= 0) {
		for (int i = 0; i <= e; ++i) r.push_back(static_cast<size_t>(i) < digits.size() ? digits[static_cast<size_t>(i)] : '0');
		if (digits.size() > static_cast<size_t>(e) + 1) r += "." + digits.substr(static_cast<size_t>(e) + 1); else if (dotZero) r += ".0";
	} else { r = "0." + std::string(static_cast<size_t>(-e - 1), '0') + digits; }
	return r;
}
static std::string mantissa(const std::string& digits, bool forceDot) { std::string r(1, digits[0]); if (digits.size() > 1) r += "." + digits.substr(1); else if (forceDot) r += ".0"; return r; }
// spellings of a float value; [0] is the plain one
static void floatSpellings(const Node& n, std::vector<std::string>& names, std::vector<std::string>& texts) {
	double d = n.k == F32 ? static_cast<double>(n.f) : n.d;
	auto add = [&](const char* nm, const std::string& t) { for (auto& x : texts) if (x == t) return; names.push_back(nm); texts.push_back(t); };
	std::string sg = std::signbit(d) ? "-" : "";
	if (d == 0) { names.push_back(""); texts.push_back(sg + "0.0"); add("num:int_form@float", sg + "0"); add("num:exp@float", sg + "0e0"); add("num:EXP_plus@float", sg + "0.0E+00"); return; }
	std::string dg; int e; shortest(d, false, dg, e);
	bool plain = e >= -5 && e < 17;
	names.push_back(""); texts.push_back(sg + (plain ? plainDecimal(dg, e, true) : mantissa(dg, false) + "e" + std::to_string(e)));
	add("num:exp@float", sg + mantissa(dg, !plain) + "e" + std::to_string(e));
	add("num:EXP_plus@float", sg + mantissa(dg, false) + "E" + (e < 0 ? "-" : "+") + bsx::fmt("%02d", std::abs(e)));
	add("num:17digits@float", bsx::fmt("%.17g", d));
	if (plain && e >= 0 && dg.size() <= static_cast<size_t>(e) + 1) add("num:int_form@float", sg + plainDecimal(dg, e, false));
	if (n.k == F32) { std::string fd; int fe; shortest(d, true, fd, fe); bool fp = fe >= -5 && fe < 17; add("num:f32_short@float", sg + (fp ? plainDecimal(fd, fe, true) : mantissa(fd, false) + "e" + std::to_string(fe))); }
}
static void intSpellings(const Node& n, std::vector<std::string>& names, std::vector<std::string>& texts) {
	std::string s = ref::i128str(n.ival()); names.push_back(""); texts.push_back(s);
	if (n.ival() == 0) { names.push_back("num:neg_zero@int"); texts.push_back("-0"); }
	std::string sg = s[0] == '-' ? "-" : "", dg = s[0] == '-' ? s.substr(1) : s; int e = static_cast<int>(dg.size()) - 1;
	while (dg.size() > 1 && dg.back() == '0') dg.pop_back();
	names.push_back("num:exp@int"); texts.push_back(sg + mantissa(dg, false) + "e" + std::to_string(e));
	names.push_back("num:dot_zero@int"); texts.push_back(s + ".0");
}

struct JsonEmit {
	Decider& D;
	std::string ws() { static const std::vector<std::string> a = {"", "ws:space", "ws:nl_tab"}; static const char* t[] = {"", " ", "\n\t"}; return t[D.pick(a)]; }
	std::string str(const std::string& s) {
		std::string r = "\"";
		for (uint32_t cp : cps(s)) {
			std::vector<std::string> names, texts; std::string lit; putUtf8(lit, cp);
			const char* sh = cp == '"' ? "\\\"" : cp == '\\' ? "\\\\" : cp == '/' ? "\\/" : cp == 8 ? "\\b" : cp == 12 ? "\\f" : cp == '\n' ? "\\n" : cp == '\r' ? "\\r" : cp == '\t' ? "\\t" : nullptr;
			bool litOk = cp >= 0x20 && cp != '"' && cp != '\\';
			std::string lo, up;
			if (cp <= 0xFFFF) { lo = bsx::fmt("\\u%04x", cp); up = bsx::fmt("\\u%04X", cp); }
			else { uint32_t v = cp - 0x10000; lo = bsx::fmt("\\u%04x\\u%04x", 0xD800 + (v >> 10), 0xDC00 + (v & 0x3FF)); up = bsx::fmt("\\u%04X\\u%04X", 0xD800 + (v >> 10), 0xDC00 + (v & 0x3FF)); }
			const char* uname = cp <= 0xFFFF ? "esc:u4" : "esc:surrogate_pair";
			names.push_back(""); texts.push_back(litOk ? lit : sh ? std::string(sh) : lo);
			if (sh && texts[0] != sh) { names.push_back("esc:short"); texts.push_back(sh); }
			if (texts[0] != lo) { names.push_back(uname); texts.push_back(lo); }
			if (up != lo) { names.push_back(std::string(uname) + "_upper"); texts.push_back(up); }
			r += texts[static_cast<size_t>(D.pick(names))];
		}
		return r + "\"";
	}
	std::string value(const Node& n) {
		switch (n.k) {
		case Nil: return "null";
		case Bool: return n.b ? "true" : "false";
		case F32: case F64: { std::vector<std::string> nm, tx; floatSpellings(n, nm, tx); return tx[static_cast<size_t>(D.pick(nm))]; }
		case Str: return str(n.s);
		case Arr: { std::string r = "[" + ws(); for (size_t i = 0; i < n.items.size(); ++i) { if (i) { r += ws(); r += ","; r += ws(); } r += value(n.items[i]); } if (!n.items.empty()) r += ws(); return r + "]"; }
		case Obj: {
			auto order = pickOrder(D, n.fields.size(), "order:members");
			std::vector<std::string> ms; for (auto& f : n.fields) { std::string m = str(f.first); m += ws(); m += ":"; m += ws(); m += value(f.second); ms.push_back(m); }
			std::string r = "{" + ws(); for (size_t i = 0; i < ms.size(); ++i) { if (i) { r += ws(); r += ","; r += ws(); } r += ms[static_cast<size_t>(order[i])]; } if (!ms.empty()) r += ws(); return r + "}";
		}
		default: { std::vector<std::string> nm, tx; intSpellings(n, nm, tx); return tx[static_cast<size_t>(D.pick(nm))]; }
		}
	}
	std::string document(const Node& n) { std::string r = ws(); r += value(n); r += ws(); return r; }
};

struct XmlEmit {
	Decider& D;
	std::string wsTag() { static const std::vector<std::string> a = {"", "ws_tag:space", "ws_tag:nl_tab"}; static const char* t[] = {"", " ", "\n\t"}; return t[D.pick(a)]; }
	std::string misc(const std::string& where) {
		std::vector<std::string> a = {"", "ws_" + where + ":space", "ws_" + where + ":nl_tab", "misc_" + where + ":comment", "misc_" + where + ":pi"};
		static const char* t[] = {"", " ", "\n\t", "<!-- c -->", "<?pi d?>"}; return t[D.pick(a)];
	}
	static const char* named(uint32_t cp) { return cp == '<' ? "&lt;" : cp == '>' ? "&gt;" : cp == '&' ? "&amp;" : cp == '\'' ? "&apos;" : cp == '"' ? "&quot;" : nullptr; }
	std::string chars(const std::string& s, bool attr, char q) {
		auto v = cps(s); std::string r; bool whole = false;
		if (!attr && v.size() >= 2 && s.find("]]>") == std::string::npos) whole = D.pick({"", "cdata:whole_text"}) == 1;
		bool anyCharDev = false;
		for (size_t i = 0; i < v.size(); ++i) {
			uint32_t cp = v[i]; std::string lit; putUtf8(lit, cp);
			bool litOk = cp != '<' && cp != '&' && cp != '\r' && !(cp == '>' && i >= 2 && v[i - 1] == ']' && v[i - 2] == ']');
			if (attr) litOk = litOk && cp != static_cast<uint32_t>(q) && cp != '\t' && cp != '\n';
			const char* nm = named(cp); std::string dec = bsx::fmt("&#%u;", cp), hx = bsx::fmt("&#x%X;", cp);
			std::vector<std::string> names = {"", "ref:decimal", "ref:hex"}, texts = {litOk ? lit : nm ? std::string(nm) : dec, dec, hx};
			if (nm) { names.push_back("ref:named"); texts.push_back(nm); }
			if (!attr) { names.push_back(v.size() == 1 ? "cdata:whole_text" : "cdata:one_char_of_text"); texts.push_back("<![CDATA[" + lit + "]]>"); }
			int p = D.pick(names); if (p) anyCharDev = true;
			r += texts[static_cast<size_t>(p)];
		}
		if (whole) { if (anyCharDev) D.redundant = true; return "<![CDATA[" + s + "]]>"; }
		return r;
	}
	static std::string scalarText(const Node& n) {
		switch (n.k) {
		case Nil: return ""; case Bool: return n.b ? "true" : "false"; case Str: return n.s;
		case F32: return bsx::fmt("%.9g", static_cast<double>(n.f)); case F64: return bsx::fmt("%.17g", n.d);
		default: return ref::i128str(n.ival());
		}
	}
	std::string element(const std::string& name, const Node& n) {
		std::string start = "<" + name;
		if (n.k == Obj) {
			std::vector<std::string> as;
			for (size_t j = 0; j < n.fields.size(); ++j) if (n.isAttr[j]) {
				std::string a = D.pick({"", "ws_tag:nl_tab"}) ? "\n\t" : " ";
				a += n.fields[j].first; a += D.pick({"", "ws_tag:around_eq"}) ? " = " : "=";
				char q = D.pick({"", "quote:apos"}) ? '\'' : '"';
				a.push_back(q); a += chars(scalarText(n.fields[j].second), true, q); a.push_back(q); as.push_back(a);
			}
			auto order = pickOrder(D, as.size(), "order:attributes");
			for (size_t i = 0; i < as.size(); ++i) start += as[static_cast<size_t>(order[i])];
		}
		std::string content; bool empty;
		if (n.k == Arr) {
			empty = n.items.empty();
			for (auto& it : n.items) { content += misc("content"); content += element(it.k == Arr ? "array" : it.k == Obj ? "object" : "value", it); }
			if (!empty) content += misc("content");
		} else if (n.k == Obj) {
			std::vector<std::string> kids;
			for (size_t j = 0; j < n.fields.size(); ++j) if (!n.isAttr[j]) kids.push_back(element(n.fields[j].first, n.fields[j].second));
			auto order = pickOrder(D, kids.size(), "order:members");
			empty = kids.empty();
			for (size_t i = 0; i < kids.size(); ++i) { content += misc("content"); content += kids[static_cast<size_t>(order[i])]; }
			if (!empty) content += misc("content");
		} else {
			std::string t = scalarText(n); empty = t.empty();
			if (!empty) content = n.k == Str ? chars(t, false, 0) : t;
		}
		if (empty) { int p = D.pick({"", "empty:start_end_tags", "empty:space_slash"}); return p == 0 ? start + "/>" : p == 1 ? start + "></" + name + ">" : start + " />"; }
		std::string r = start; r += wsTag(); r += ">"; r += content; r += "</" + name; r += wsTag(); r += ">";
		return r;
	}
	std::string document(const Node& n, const std::string& encLabel, bool& hasDecl) {
		static const std::vector<std::string> da = {"", "decl:absent", "decl:with_encoding", "decl:standalone", "decl:apos_quotes"};
		int dp = D.pick(da); hasDecl = dp != 1;
		std::string r = dp == 0 ? "<?xml version=\"1.0\"?>" : dp == 1 ? "" : dp == 2 ? "<?xml version=\"1.0\" encoding=\"" + encLabel + "\"?>" : dp == 3 ? "<?xml version=\"1.0\" standalone=\"yes\"?>" : "<?xml version='1.0'?>";
		r += misc("prolog"); r += element(n.k == Arr ? "array" : "root", n); r += misc("epilog");
		return r;
	}
};

struct Base { std::string name; Node v; int only = -1; int typed = -1; bool single = false; };
static std::vector<Base> baseList() {
	std::vector<Base> r; using N = Node;
	auto O1 = [](const std::string& k, N v, bool attr = false) { N o = N::obj(); o.add(k, std::move(v), attr); return o; };
	for (auto& s : L()) {
		if (s.noReverse) continue;
		auto add = [&](const char* shape, N v, int only) { Base b; b.name = std::string(shape) + "=" + s.leaf.sym; b.v = std::move(v); b.only = s.jsonOnly ? JSON : only; b.single = true; if (s.jsonOnly && only == XML) return; r.push_back(b); };
		add("root", s.leaf, JSON);
		if (s.rootOnly) continue;
		add("[x]", N::arr({s.leaf}), -1); add("{k:x}", O1("k", s.leaf), -1); add("{@a:x}", O1("a", s.leaf, true), XML);
	}
	auto I = [](int v) { return N::integer(I32, v, "i32:small"); };
	auto add = [&](const char* name, N v, int only = -1) { Base b; b.name = name; b.v = std::move(v); b.only = only; r.push_back(b); };
	{ N o = N::obj(); o.add("a", I(1)).add("b", N::str("x", "str:x")).add("c", N::boolean(true, "bool:true")); add("{a:1,b:'x',c:true}", o); }
	{ N o = N::obj(); o.add("a", N::arr({I(1), I(2)})).add("b", O1("c", N::str("\xC3\xA9", "str:e_acute"))); add("{a:[1,2],b:{c:'e_acute'}}", o); }
	{ N r1 = N::obj(); r1.add("x", I(1)).add("y", N::str("q", "str:q")); N r2 = N::obj(); r2.add("x", I(2)).add("y", N::str("r", "str:r")); add("[{x:1,y:'q'},{x:2,y:'r'}]", N::arr({r1, r2})); }
	add("[1,[2,3],{k:'v'}]", N::arr({I(1), N::arr({I(2), I(3)}), O1("k", N::str("v", "str:v"))}));
	{ N o = N::obj(); o.add("a", I(1), true).add("b", N::str("x", "str:x"), true).add("c", N::f64(2.5, "f64:2.5")); add("{@a:1,@b:'x',c:2.5}", o, XML); }
	{ N o = N::obj(); o.add("a", I(1), true).add("b", N::str("x'\"y", "str:apos_quote"), true).add("c", N::str("<a> & b", "str:markup")).add("d", N::str("p", "str:p")); add("{@a:1,@b:apos_quote,c:markup,d:'p'}", o, XML); }
	{ N o = N::obj(); o.add("a", N::arr()).add("b", N::obj()); add("{a:[],b:{}}", o); }
	add("[]", N::arr()); add("{}", N::obj());
	{ N o = N::obj(); o.add("k", N::mk(Nil, "nil")).add("s", N::str("", "str:empty")).add("z", I(9)); add("{k:null,s:'',z:9}", o); }
	add("[[1,2],[3]]", N::arr({N::arr({I(1), I(2)}), N::arr({I(3)})}));
	for (int p : {0, 2}) { Base b; b.name = "typed:preset" + std::to_string(p); b.typed = p; r.push_back(b); }
	for (auto& b : r) b.v.markLoaded();
	return r;
}
static const std::vector<Base>& bases() { static auto v = baseList(); return v; }

struct Loaded { std::string cls, what, dump; };
static Loaded loadDoc(int fmt, const Base& b, const std::string& bytes, bool stream) {
	Loaded r; lib::Out o;
	if (b.typed >= 0) { TypedDoc t; o = fmt == JSON ? loadWith<JS>(t, stream, bytes) : loadWith<XM>(t, stream, bytes); if (o.ok()) r.dump = t.mirror(fmt).dump(); }
	else { Node t = b.v; t.canary(); Root root{t}; o = fmt == JSON ? loadWith<JS>(root, stream, bytes) : loadWith<XM>(root, stream, bytes); if (o.ok()) r.dump = t.dump(); }
	r.cls = o.cls; r.what = o.what; return r;
}
static const char* srcName(int s) { static const char* n[] = {"", "src:stream_utf8", "src:stream_utf8_bom", "src:stream_utf16le", "src:stream_utf16le_bom", "src:stream_utf16be", "src:stream_utf16be_bom", "src:stream_utf32le", "src:stream_utf32le_bom", "src:stream_utf32be", "src:stream_utf32be_bom"}; return n[s]; }

struct Attempt { std::string out, detail, text; std::vector<int> picks; std::vector<std::string> kinds; bool na = false, capped = false; Loaded got; };
// renders the base with the decisions of D, loads it, judges it against the model and the library's own rendering
static Attempt attempt(int fmt, const Base& b, const Node& model, const Loaded& own, Decider& D) {
	Attempt a;
	static const std::vector<std::string> srcAlts = [] { std::vector<std::string> v; for (int i = 0; i <= 10; ++i) v.push_back(srcName(i)); return v; }();
	int src = D.pick(srcAlts); int enc = src ? (src - 1) / 2 : 0; bool bom = src && (src - 1) % 2 == 1;
	std::string text; bool hasDecl = true;
	if (fmt == JSON) { JsonEmit e{D}; text = e.document(model); }
	else { static const char* lab[] = {"UTF-8", "UTF-16", "UTF-16", "UTF-32", "UTF-32"}; static const char* labNoBom[] = {"UTF-8", "UTF-16LE", "UTF-16BE", "UTF-32LE", "UTF-32BE"}; XmlEmit e{D}; text = e.document(model, bom ? lab[enc] : labNoBom[enc], hasDecl); }
	a.picks = D.picks; a.kinds = D.kinds; a.text = text; a.capped = D.capped;
	if (D.redundant) { a.na = true; return a; }
	if (enc && !bom) {   // without a byte order mark the encoding is only detectable from the first characters (XML appendix F / RFC 4627 section 3)
		auto v = cps(text);
		if (fmt == XML ? !hasDecl : (v.size() < 2 || v[0] >= 0x80 || v[1] >= 0x80)) { a.na = true; return a; }
	}
	a.got = loadDoc(fmt, b, encodeAs(text, enc, bom), src != 0);
	const Loaded& g = a.got;
	bool ok = (g.cls == "ok" && g.dump == model.dump()) || (g.cls == own.cls && g.dump == own.dump);
	if (!ok && g.cls == "ser:MismatchedTypes") for (auto& k : a.kinds) if (k.size() > 4 && k.compare(k.size() - 4, 4, "@int") == 0 && k != "num:neg_zero@int") ok = true;   // 1e1 / 10.0 for an integer target: refusing is accepted
	if (ok) return a;
	a.out = g.cls == "ser:ParsingError" ? "rerendering_rejected" : g.cls != "ok" ? "rerendering_throws:" + g.cls : "rerendering_loads_differently";
	a.detail = (g.cls == "ok" ? "loaded " + g.dump : g.cls + ": " + g.what) + " | model " + model.dump() + " | own rendering loads " + (own.cls == "ok" ? own.dump : own.cls);
	return a;
}

static void reverse(bsx::Ctx& c) {
	int fmt = c.choose(2, "fmt");
	int bi = c.choose(static_cast<int>(bases().size()), "base");
	const Base& b = bases()[static_cast<size_t>(bi)];
	(void)c.choose(1, "pad");   // keeps the partition depth at four choices in every scenario
	if (b.only >= 0 && b.only != fmt) { c.outcome("n/a"); return; }
	std::string sigbase = std::string("C08/rev/") + fmtName(fmt) + "/base=" + sigSafe(b.name);
	c.describe(sigbase, "re-renderings of " + b.name);
	// the library's own rendering and what it loads to (once per process and base)
	struct Own { Loaded l; Node model; std::string doc; bool usable; };
	static std::map<std::pair<int, int>, Own> cache;
	auto it = cache.find({fmt, bi});
	if (it == cache.end()) {
		Own o; std::string doc; lib::Out so; BS::SerializationOptions opt;
		if (b.typed >= 0) { TypedDoc t = TypedDoc::preset(b.typed); o.model = t.mirror(fmt); so = fmt == JSON ? saveWith<JS>(t, 0, opt, doc) : saveWith<XM>(t, 0, opt, doc); }
		else { o.model = b.v; Node v = b.v; Root r{v}; so = fmt == JSON ? saveWith<JS>(r, 0, opt, doc) : saveWith<XM>(r, 0, opt, doc); o.usable = !v.anyUnsupported(); }
		if (b.typed >= 0) o.usable = true;
		if (so.ok()) o.l = loadDoc(fmt, b, doc, false); else o.l.cls = "save:" + so.cls;
		o.doc = doc; it = cache.emplace(std::make_pair(fmt, bi), std::move(o)).first;
	}
	const Own& own = it->second;
	if (!own.usable) { c.outcome("n/a:unsupported_at_this_level"); return; }
	Decider D; D.c = &c;
	Attempt a = attempt(fmt, b, own.model, own.l, D);
	if (a.capped) c.outcome("decision_points_capped");
	if (a.na) { c.outcome("n/a:not_self_describing_or_redundant"); return; }
	int ndev = 0; for (int p : a.picks) if (p) ++ndev;
	c.nontrivial(sigbase + a.text + (a.picks.empty() ? "" : srcName(a.picks[0])));
	if (own.l.cls == "ok" && own.l.dump != own.model.dump()) c.outcome("own_rendering_does_not_round_trip(C01)");
	if (a.out.empty()) { c.outcome(a.got.cls == "ok" ? (a.got.dump == own.model.dump() ? "loads_to_model" : "loads_like_own_rendering") : "throws_like_own_rendering_or_lenient:" + a.got.cls); if (ndev == 2 && bi % 9 == 0 && a.picks[0] == 0) c.sample(sigbase + " [" + a.text + "] -> " + a.got.cls); return; }
	c.outcome(a.out);
	// name the cause: drop every deviation that is not needed for this outcome
	std::vector<int> picks = a.picks; Attempt last = a;
	for (size_t j = 0; j < picks.size(); ++j) {
		if (!picks[j]) continue;
		std::vector<int> trial = picks; trial[j] = 0;
		Decider F; F.forced = &trial; Attempt t = attempt(fmt, b, own.model, own.l, F);
		if (!t.na && t.out == a.out) { picks = trial; last = t; }
	}
	std::set<std::string> kinds; bool numDev = false;
	for (size_t j = 0; j < picks.size(); ++j) if (picks[j]) { kinds.insert(last.kinds[j]); if (last.kinds[j].rfind("num:", 0) == 0) numDev = true; }
	std::string dev; for (auto& k : kinds) dev += (dev.empty() ? "" : "+") + k;
	if (dev.empty()) dev = "none/base=" + sigSafe(b.name);
	std::string sig = std::string("C08/rev/") + fmtName(fmt) + "/dev=" + dev + (numDev && b.single ? "/val=" + b.v.sym + (b.v.leaf() ? "" : (b.v.k == Arr ? b.v.items[0].sym : b.v.fields[0].second.sym)) : "") + "/out=" + a.out;
	c.violation(sig, "base " + b.name + " | document as enumerated [" + a.text + "] | smallest failing re-rendering [" + last.text + "] " + (picks.empty() || !picks[0] ? "from memory" : std::string("as ") + srcName(picks[0])) + " | " + last.detail + " | own rendering [" + own.doc + "]");
}

// ---------------------------------------------------------------------------------------------------
// scenario 2: decimal spellings of doubles through the JSON loader (lattice: every binary exponent x mantissa patterns)
// ---------------------------------------------------------------------------------------------------
static void numberSpellings(bsx::Ctx& c) {
	(void)c.choose(1, "fmt");
	int blk = c.choose(64, "exponent_block");
	int sgn = c.choose(2, "sign");
	c.describe("C08/rev/json/numspell", "doubles with binary exponents " + std::to_string(blk * 32) + ".." + std::to_string(blk * 32 + 31));
	int nm = c.tier == "thorough" ? 40 : 6;
	static const char* spell[] = {"17_significant_digits", "exponent_form_16E", "20_significant_digits", "shortest_exponent_form"};
	uint64_t bad[4][2] = {{0, 0}, {0, 0}, {0, 0}, {0, 0}}; std::string ex[4][2]; uint64_t n = 0, ownOff = 0;
	for (int e = blk * 32; e < blk * 32 + 32 && e < 2047; ++e) for (int m = 0; m < nm; ++m) {
		uint64_t mant = (m < nm / 2 ? (1ull << (m * 52 / (nm / 2))) - 1 : ~((1ull << ((m - nm / 2) * 52 / (nm / 2))) - 1)) & 0xFFFFFFFFFFFFFull;
		mant ^= (static_cast<uint64_t>(e) * 0x9E3779B97F4A7C15ull) & 0xFFFFF00000ull;
		uint64_t bits = (static_cast<uint64_t>(sgn) << 63) | (static_cast<uint64_t>(e) << 52) | mant; double d; std::memcpy(&d, &bits, 8);
		if (d == 0) continue;
		++n; c.heartbeat();
		std::string own; double r0 = 0; BS::SaveObject<JS>(d, own); auto o0 = lib::guard([&] { BS::LoadObject<JS>(r0, own); });
		if (!o0.ok() || std::memcmp(&r0, &d, 8)) ++ownOff;
		std::string dg; int de; shortest(d, false, dg, de);
		std::string txt[4] = {bsx::fmt("%.17g", d), bsx::fmt("%.16E", d), bsx::fmt("%.20g", d), std::string(sgn ? "-" : "") + mantissa(dg, false) + "e" + std::to_string(de)};
		for (int s = 0; s < 4; ++s) {
			double r1 = 0; auto o1 = lib::guard([&] { BS::LoadObject<JS>(r1, txt[s]); });
			bool ok = o1.ok() && (!std::memcmp(&r1, &d, 8) || (o0.ok() && !std::memcmp(&r1, &r0, 8)));
			if (!ok) { int cls = e == 0 ? 1 : 0; if (!bad[s][cls]++) ex[s][cls] = txt[s] + " loads as " + (o1.ok() ? bsx::fmt("%.17g", r1) : o1.cls) + ", the library's own rendering " + own + " loads as " + bsx::fmt("%.17g", r0) + ", value " + bsx::fmt("%.17g", d); }
		}
	}
	c.evals(n * 5); c.nontrivial(static_cast<uint64_t>(blk * 2 + sgn));
	c.outcome(ownOff ? "own_rendering_does_not_round_trip(C01)" : "own_rendering_round_trips");
	for (int s = 0; s < 4; ++s) for (int cls = 0; cls < 2; ++cls) if (bad[s][cls])
		c.violation(std::string("C08/rev/json/dev=num:") + spell[s] + "@float/class=" + (cls ? "subnormal" : "normal") + "/out=rerendering_loads_differently", std::to_string(bad[s][cls]) + " of " + std::to_string(n) + " values of this block, e.g. " + ex[s][cls]);
	if (!bad[0][0] && !bad[1][0] && !bad[2][0] && !bad[3][0]) c.outcome("all_spellings_load_alike");
}

} // namespace c08

static void body(bsx::Ctx& c) {
	int scen = c.choose(3, "scenario");
	if (scen == 0) { if (c.budget > 0) return; c08::forward(c); }
	else if (scen == 1) c08::reverse(c);
	else { if (c.budget > 0) return; c08::numberSpellings(c); }
}
int main(int argc, char** argv) {
	if (getenv("C08_COUNTS")) { printf("leaf symbols %zu, shapes %zu, bases %zu, json keys %zu, xml keys %zu\n", c08::L().size(), c08::shapes().size(), c08::bases().size(), c08::keyAlphabet(c08::JSON).size(), c08::keyAlphabet(c08::XML).size()); return 0; }
	bsx::Config cfg; cfg.part_depth = 4; cfg.max_dev = 2; cfg.hang_s = 20;
	bsx::Engine e("C08", body, cfg);
	e.mTierSetup = [](const std::string& tier, bsx::Config& c) { c.max_dev = tier == "thorough" ? 3 : 2; };
	return e.main(argc, argv);
}
