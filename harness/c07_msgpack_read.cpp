// C07 — MsgPack reader accepts every valid encoding and matches a reference decoder.
// E1, deviation-bounded: every legal encoding of every alphabet value into every scalar
// target at three positions; composite corpus with <=N non-canonical width choices, all key
// orders and nil substitutions; every truncation and every single-byte corruption of the
// corpus. Oracle: strict reference decoder (ref/ref_msgpack.hpp) + typed-load model
// (models/num_model.hpp). Both readers (memory, stream) are driven and must agree.
#include "models/num_model.hpp"
#include "models/alphabet.hpp"
#include "ref/ref_msgpack.hpp"
#include "bitserializer/msgpack_archive.h"

using namespace sv;
using ref::Val;
using MP = BitSerializer::MsgPack::MsgPackArchive;

static std::vector<alpha::Named> gVals = alpha::scalarsAll();
static const K gTargets[] = {Nil, Bool, I8, U8, I16, U16, I32, U32, I64, U64, F32, F64, Str, Bin, Ts};

struct LoadRes { lib::Out out; Node t; };

static LoadRes loadOne(const Node& shape, const std::string& bytes, bool stream, bool ovT, bool mmT) {
	LoadRes r; r.t = shape; r.t.canary();
	auto o = lib::opts(ovT, mmT);
	if (stream) { std::istringstream is(bytes); r.out = sv::load<MP>(r.t, is, o); }
	else r.out = sv::load<MP>(r.t, bytes, o);
	return r;
}

// What a shape-guided reader has to look at: tuple-like array targets read only as many
// elements as the shape has, so ill-formedness that lies entirely in an unread array tail is
// tagged with its cause (it is still a violation of the statement: a truncated encoding was accepted).
static bool lazyOk(ref::mp::Decoder& d, const Node& shape) {
	if (d.pos >= d.d.size()) return false;
	unsigned c = static_cast<unsigned char>(d.d[d.pos]);
	if (shape.k == Arr && ((c >= 0x90 && c <= 0x9f) || c == 0xdc || c == 0xdd)) {
		size_t n; ++d.pos;
		if (c == 0xdc) { if (!d.need(2)) return false; n = d.be(2); } else if (c == 0xdd) { if (!d.need(4)) return false; n = d.be(4); } else n = c & 15;
		for (size_t i = 0; i < std::min(n, shape.items.size()); ++i) if (!lazyOk(d, shape.items[i])) return false;
		return true;
	}
	if (shape.k == Obj && ((c >= 0x80 && c <= 0x8f) || c == 0xde || c == 0xdf)) {
		size_t n; ++d.pos;
		if (c == 0xde) { if (!d.need(2)) return false; n = d.be(2); } else if (c == 0xdf) { if (!d.need(4)) return false; n = d.be(4); } else n = c & 15;
		for (size_t i = 0; i < n; ++i) {
			Val k; if (!d.decode(k)) return false;
			const Node* f = nullptr; if (k.k == Val::Str) for (auto& fl : shape.fields) if (fl.first == k.s) { f = &fl.second; break; }
			if (f) { if (!lazyOk(d, *f)) return false; } else { Val v; if (!d.decode(v)) return false; }
		}
		return true;
	}
	Val v; return d.decode(v);
}

// judge one (document, bytes, target shape) under all policies and both readers.
// C07 speaks about ill-formed input (must be rejected) and about compatible targets (must
// receive the reference value); incompatible targets are the business of C04/C05, reader
// agreement on arbitrary input that of C10.
static void judge(bsx::Ctx& c, const std::string& sigbase, const Val* docp, ref::mp::Err refErr, const std::string& bytes, const Node& shape) {
	std::string cause;
	if (refErr != ref::mp::Err::Ok) { ref::mp::Decoder d(bytes); cause = lazyOk(d, shape) ? "/cause=unread_array_tail" : "/cause=needed_bytes"; }
	else {
		model::Checker pre{true, true}; Node probe = shape; probe.canary(); pre.walk(docp, probe, "", false);
		if (pre.incompatible) { c.outcome("skipped:incompatible_target"); return; }
	}
	for (int pol = 0; pol < 4; ++pol) {
		bool ovT = pol & 1, mmT = pol & 2;
		for (int rd = 0; rd < 2; ++rd) {
			const char* rdn = rd ? "stream" : "mem";
			LoadRes r = loadOne(shape, bytes, rd == 1, ovT, mmT);
			std::string sig = sigbase + "/rd=" + rdn + "/pol=" + lib::polName(ovT, mmT) + cause;
			c.outcome(r.out.cls);
			if (r.out.cls == "nonstd" || r.out.cls.rfind("std:", 0) == 0) {
				c.violation(sig + "/out=" + r.out.cls, "load threw a non-serialization exception: " + r.out.cls + " " + r.out.what + " bytes=" + bsx::hex(bytes));
				continue;
			}
			if (refErr != ref::mp::Err::Ok) {
				// ill-formed / truncated per the reference decoder: must be rejected with a parsing error
				if (r.out.ok()) c.violation(sig + "/out=accepted_illformed", "reference decoder rejects the bytes (err=" + std::to_string(static_cast<int>(refErr)) + ") but the load succeeded: target=" + r.t.dumpLoaded() + " bytes=" + bsx::hex(bytes));
				else if (!ovT && !mmT && r.out.cls != "ser:ParsingError") c.violation(sig + "/out=wrong_error_class", "ill-formed input under Skip policies must give ParsingError, got " + r.out.cls + " bytes=" + bsx::hex(bytes));
				continue;
			}
			if (!r.out.ok()) { c.violation(sig + "/out=" + r.out.cls, "well-formed document rejected by a compatible target with " + r.out.cls + " (" + r.out.what + ") bytes=" + bsx::hex(bytes) + " doc=" + docp->dump()); continue; }
			model::Checker ck{ovT, mmT};
			ck.walk(docp, r.t, "", true);
			for (auto& m : ck.complaints) c.violation(sig + "/out=wrong_value", m + " bytes=" + bsx::hex(bytes) + " doc=" + docp->dump());
		}
	}
}

// lenient decode: a timestamp with ns > 999999999 is only ill-formed for a reader that looks at it
static ref::mp::Err refDecode(const std::string& bytes, Val& out) {
	return ref::mp::decodeOne(bytes, out);
}

static std::vector<alpha::Named> corpus() {
	using V = Val;
	std::vector<alpha::Named> r;
	r.push_back({"obj3", V::map({{V::str("a"), V::integer(1)}, {V::str("b"), V::str("xy")}, {V::str("c"), V::boolean(true)}})});
	r.push_back({"arr4", V::arr({V::integer(1), V::integer(-2), V::integer(300), V::integer(70000)})});
	r.push_back({"arr_of_obj", V::arr({V::map({{V::str("x"), V::integer(1)}}), V::map({{V::str("x"), V::integer(2)}})})});
	r.push_back({"obj_arr_field", V::map({{V::str("a"), V::arr({V::integer(1), V::integer(2)})}, {V::str("z"), V::integer(9)}})});
	r.push_back({"arr_arr", V::arr({V::arr({V::integer(1), V::integer(2)}), V::arr({V::integer(3)})})});
	r.push_back({"obj_bin", V::map({{V::str("b"), V::bin(std::string("\x00\x01\x02", 3))}, {V::str("z"), V::integer(9)}})});
	r.push_back({"obj_floats", V::map({{V::str("f"), V::flt(1.5f)}, {V::str("d"), V::dbl(0.1)}})});
	r.push_back({"obj_ts", V::map({{V::str("t"), V::ts(1, 5)}, {V::str("u"), V::ts(5000000000ll, 0)}, {V::str("v"), V::ts(7, 0)}})});   // timestamp 96 is exercised in scenario A only
	r.push_back({"obj_nested", V::map({{V::str("o"), V::map({{V::str("i"), V::integer(7)}, {V::str("s"), V::str("q")}})}, {V::str("n"), V::nil()}, {V::str("z"), V::integer(9)}})});
	r.push_back({"obj_str16", V::map({{V::str("s"), V::str(std::string(40, 'k'))}, {V::str("z"), V::integer(9)}})});
	return r;
}
static std::vector<alpha::Named> gCorpus = corpus();

static void permute(Val& v, bsx::Ctx& c) {   // choose a key order for every map (all permutations explored)
	if (v.k == Val::Map && v.m.size() > 1) {
		std::vector<std::pair<Val, Val>> src = v.m, dst;
		while (!src.empty()) { int i = src.size() > 1 ? c.choose(static_cast<int>(src.size()), "keyorder") : 0; dst.push_back(src[static_cast<size_t>(i)]); src.erase(src.begin() + i); }
		v.m = dst;
	}
	for (auto& e : v.a) permute(e, c);
	for (auto& e : v.m) permute(e.second, c);
}
static int countNodes(const Val& v) { int n = 1; for (auto& e : v.a) n += countNodes(e); for (auto& e : v.m) n += countNodes(e.second); return n; }
static void nilAt(Val& v, int& idx) { if (idx == 0) { v = Val::nil(); idx = -1; return; } if (idx < 0) return; --idx; for (auto& e : v.a) { nilAt(e, idx); if (idx < 0) return; } for (auto& e : v.m) { nilAt(e.second, idx); if (idx < 0) return; } }

static void body(bsx::Ctx& c) {
	const bool thorough = c.tier == "thorough";
	int scen = c.choose(5, "scenario");
	if (scen == 0) {
		// --- A: every encoding of every scalar alphabet value into every scalar target at 3 positions
		int vi = c.choose(static_cast<int>(gVals.size()), "value");
		int ti = c.choose(static_cast<int>(sizeof(gTargets) / sizeof(gTargets[0])), "target");
		int pos = c.choose(3, "position");
		const auto& nv = gVals[static_cast<size_t>(vi)];
		bool firstPick = true;   // all format alternatives of the value itself; nested values stay canonical (composites: scenario B)
		ref::mp::Picker pick = [&](int n, const char* what) { if (!firstPick) return 0; firstPick = false; return c.choose(n, what); };
		Val doc; Node shape;
		Node tgt = Node::mk(gTargets[ti]);
		if (pos == 0) { doc = nv.v; shape = tgt; }
		else if (pos == 1) { doc = Val::arr({nv.v, Val::integer(42)}); shape = Node::arr({tgt, Node::mk(I32)}); }
		else { doc = Val::map({{Val::str("a"), nv.v}, {Val::str("z"), Val::integer(42)}}); shape = Node::obj({{"a", tgt}, {"z", Node::mk(I32)}}); }
		std::string bytes;
		if (pos == 0) bytes = ref::mp::encode(nv.v, pick);
		else {   // only the value under test uses non-canonical formats
			std::string inner = ref::mp::encode(nv.v, pick);
			if (pos == 1) { bytes = "\x92"; bytes += inner; bytes += "\x2a"; }
			else { bytes = "\x82\xa1" "a"; bytes += inner; bytes += "\xa1" "z\x2a"; }
		}
		static const char* posn[] = {"root", "elem", "member"};
		// the format used for the value under test is named by its first byte (fix* families by their base code)
		unsigned fb = static_cast<unsigned char>(ref::mp::encode(nv.v, [&](int, const char*) { return 0; })[0]);
		{ std::string inner = pos == 0 ? bytes : bytes.substr(pos == 1 ? 1 : 3); fb = static_cast<unsigned char>(inner[0]); }
		if (fb <= 0x7f) fb = 0x00; else if (fb <= 0x8f) fb = 0x80; else if (fb <= 0x9f) fb = 0x90; else if (fb <= 0xbf) fb = 0xa0; else if (fb >= 0xe0) fb = 0xe0;
		std::string sigbase = std::string("C07/scalar/pos=") + posn[pos] + "/target=" + kname(gTargets[ti]) + "/src=" + nv.name + "/enc=" + bsx::fmt("%02x", fb);
		c.describe(sigbase, "bytes=" + bsx::hex(bytes));
		Val back; auto err = refDecode(bytes, back);
		if (err != ref::mp::Err::Ok || !(back == doc)) {
			// F32 widened to float64 decodes as F64 of the same value: adjust the expected document
			if (err == ref::mp::Err::Ok) doc = back; else { c.violation(sigbase + "/out=ref_selfcheck", "reference encoder/decoder disagree"); return; }
		}
		c.nontrivial(sigbase); if (vi == 5 && ti == 4) c.sample(sigbase + " bytes=" + bsx::hex(bytes));
		judge(c, sigbase, &doc, ref::mp::Err::Ok, bytes, shape);
	} else if (scen == 4) {
		// --- E: a member the target never requests, in every encoding of every alphabet value, must be passed over:
		// {a:1, x:V, b:2} into {a,b} requested in document order and in reversed order (both readers)
		int vi = c.choose(static_cast<int>(gVals.size()), "value");
		int order = c.choose(2, "order");
		int pos = c.choose(3, "xpos");   // where the unrequested member sits: first, middle, last
		const auto& nv = gVals[static_cast<size_t>(vi)];
		bool firstPick = true;   // all format alternatives of the value itself; nested values stay canonical (composites: scenario B)
		ref::mp::Picker pick = [&](int n, const char* what) { if (!firstPick) return 0; firstPick = false; return c.choose(n, what); };
		std::string inner = ref::mp::encode(nv.v, pick);
		unsigned fb = static_cast<unsigned char>(inner[0]);
		if (fb <= 0x7f) fb = 0x00; else if (fb <= 0x8f) fb = 0x80; else if (fb <= 0x9f) fb = 0x90; else if (fb <= 0xbf) fb = 0xa0; else if (fb >= 0xe0) fb = 0xe0;
		std::string A = std::string("\xa1" "a\x01"), B = std::string("\xa1" "b\x02"), X = std::string("\xa1" "x") + inner;
		std::string bytes = "\x83" + (pos == 0 ? X + A + B : pos == 1 ? A + X + B : A + B + X);
		Val doc; if (refDecode(bytes, doc) != ref::mp::Err::Ok) { c.violation("C07/unrequested/out=ref_selfcheck", "reference decoder rejects reference encoding"); return; }
		Node shape = order ? Node::obj({{"b", Node::mk(I32)}, {"a", Node::mk(I32)}}) : Node::obj({{"a", Node::mk(I32)}, {"b", Node::mk(I32)}});
		static const char* posn2[] = {"first", "middle", "last"};
		std::string sigbase = std::string("C07/unrequested/xpos=") + posn2[pos] + "/order=" + (order ? "reversed" : "document") + "/src=" + nv.name + "/enc=" + bsx::fmt("%02x", fb);
		c.describe(sigbase, "bytes=" + (bytes.size() < 80 ? bsx::hex(bytes) : bsx::hex(bytes.substr(0, 60)) + "..."));
		c.nontrivial(sigbase);
		judge(c, sigbase, &doc, ref::mp::Err::Ok, bytes, shape);
	} else if (scen == 1) {
		// --- B: composite corpus: key orders, nil substitution, <= max_dev non-canonical widths
		int di = c.choose(static_cast<int>(gCorpus.size()), "doc");
		Val doc = gCorpus[static_cast<size_t>(di)].v;
		Node shape = shapeOf(doc);   // natural target of the original document
		int nn = countNodes(doc);
		int nilpos = c.choose(nn, "nilpos");   // 0 = none, else node index (root excluded)
		if (nilpos > 0) { int idx = nilpos; nilAt(doc, idx); }
		permute(doc, c);
		int devs = 0;
		// timestamp 96 (always the last alternative) is confined to scenario A, where the signature names it
		ref::mp::Picker pick = [&](int n, const char* what) { if (what[0] == 't' && what[1] == 's') --n; int k = n > 1 ? c.deviate(n, what) : 0; if (k) ++devs; return k; };
		std::string bytes = ref::mp::encode(doc, pick);
		std::string sigbase = "C07/corpus/doc=" + gCorpus[static_cast<size_t>(di)].name + (nilpos ? "/nil" : "") + (devs ? "/noncanon" : "/canon");
		c.describe(sigbase, "bytes=" + bsx::hex(bytes) + " doc=" + doc.dump());
		Val back; auto err = refDecode(bytes, back);
		if (err != ref::mp::Err::Ok) { c.violation(sigbase + "/out=ref_selfcheck", "reference decoder rejects reference encoding"); return; }
		c.nontrivial(bytes); if (di == 0 && devs == 1) c.sample(sigbase + " bytes=" + bsx::hex(bytes));
		judge(c, sigbase, &back, ref::mp::Err::Ok, bytes, shape);
	} else if (scen == 2) {
		// --- C: every truncation of every canonical corpus document (MessagePack is prefix-free)
		int di = c.choose(static_cast<int>(gCorpus.size()), "doc");
		const Val& doc = gCorpus[static_cast<size_t>(di)].v;
		std::string full = ref::mp::encode(doc);
		int len = c.choose(static_cast<int>(full.size()), "len");
		std::string bytes = full.substr(0, static_cast<size_t>(len));
		std::string sigbase = "C07/truncate/doc=" + gCorpus[static_cast<size_t>(di)].name + "/len=" + std::to_string(len);
		c.describe(sigbase, "len=" + std::to_string(len) + " bytes=" + bsx::hex(bytes));
		Val back; auto err = refDecode(bytes, back);
		if (err == ref::mp::Err::Ok) { c.violation(sigbase + "/out=ref_selfcheck", "strict prefix decodes"); return; }
		c.nontrivial(bytes); if (di == 0 && len == 3) c.sample(sigbase + " len=3 bytes=" + bsx::hex(bytes));
		judge(c, sigbase, nullptr, err, bytes, shapeOf(doc));
	} else {
		// --- D: every single-byte corruption of every canonical corpus document
		int di = c.choose(static_cast<int>(gCorpus.size()), "doc");
		const Val& doc = gCorpus[static_cast<size_t>(di)].v;
		std::string full = ref::mp::encode(doc);
		if (!thorough && full.size() > 24 && di != 0) { /* quick: only the first 24 positions of the longer documents */ }
		int pos = c.choose(static_cast<int>(thorough ? full.size() : std::min<size_t>(full.size(), 24)), "pos");
		int blk = c.choose(8, "valueblock");
		Node shape = shapeOf(doc);
		std::string sigbase0 = "C07/corrupt/doc=" + gCorpus[static_cast<size_t>(di)].name;
		for (int k = 0; k < 32; ++k) {
			unsigned char nb = static_cast<unsigned char>(blk * 32 + k);
			if (nb == static_cast<unsigned char>(full[static_cast<size_t>(pos)])) continue;
			std::string bytes = full; bytes[static_cast<size_t>(pos)] = static_cast<char>(nb);
			char cls[48]; snprintf(cls, sizeof cls, "/pos=%d/byte=%02x", pos, nb);
			std::string sigbase = sigbase0 + cls;
			c.describe(sigbase, "pos=" + std::to_string(pos) + " bytes=" + bsx::hex(bytes));
			Val back; auto err = refDecode(bytes, back);
			if (err == ref::mp::Err::BadTimestamp) continue;   // judged in scenario A/B with timestamp targets only
			c.evals(1); c.nontrivial(bytes);
			judge(c, sigbase, err == ref::mp::Err::Ok ? &back : nullptr, err, bytes, shape);
		}
	}
}

int main(int argc, char** argv) {
	bsx::Config cfg; cfg.part_depth = 3; cfg.max_dev = 2;
	bsx::Engine e("C07", body, cfg);
	e.mTierSetup = [](const std::string& tier, bsx::Config& c) { c.max_dev = tier == "thorough" ? 3 : 2; };
	return e.main(argc, argv);
}
