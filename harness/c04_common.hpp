// c04_common.hpp — shared by the translation units of the C04 harness (numbers load exactly or are
// reported per policy): type table, value lattices, typed position wrappers, the judge.
// Reference semantics come from models/num_model.hpp (expectScalar / expectFromText).
#pragma once
#include "models/num_model.hpp"
#include "ref/ref_msgpack.hpp"
#include <map>

namespace c04 {

namespace BS = BitSerializer;
using ref::Val; using ref::i128; using sv::K;

// ---- the twelve arithmetic types of the statement --------------------------------------------------
enum T : int { TBool, TChar, TI8, TU8, TI16, TU16, TI32, TU32, TI64, TU64, TF32, TF64, NT };
inline const char* tname(int t) { static const char* n[] = {"bool", "char", "i8", "u8", "i16", "u16", "i32", "u32", "i64", "u64", "f32", "f64"}; return n[t]; }
// char is a signed 8-bit integer on this platform (x86-64 Linux); the library treats it as a number everywhere
inline K kindOf(int t) { static const K k[] = {sv::Bool, sv::I8, sv::I8, sv::U8, sv::I16, sv::U16, sv::I32, sv::U32, sv::I64, sv::U64, sv::F32, sv::F64}; return k[t]; }
static_assert(std::is_signed_v<char>, "C04 assumes a signed char");

template <class X> struct Tag { using type = X; };
template <class F> auto withType(int t, F&& f) {
	switch (t) {
	case TBool: return f(Tag<bool>{}); case TChar: return f(Tag<char>{}); case TI8: return f(Tag<int8_t>{}); case TU8: return f(Tag<uint8_t>{});
	case TI16: return f(Tag<int16_t>{}); case TU16: return f(Tag<uint16_t>{}); case TI32: return f(Tag<int32_t>{}); case TU32: return f(Tag<uint32_t>{});
	case TI64: return f(Tag<int64_t>{}); case TU64: return f(Tag<uint64_t>{}); case TF32: return f(Tag<float>{}); default: return f(Tag<double>{});
	}
}
template <class X> Val toVal(X v) {
	if constexpr (std::is_same_v<X, bool>) return Val::boolean(v);
	else if constexpr (std::is_same_v<X, float>) return Val::flt(v);
	else if constexpr (std::is_same_v<X, double>) return Val::dbl(v);
	else return Val::integer(static_cast<i128>(v));
}
template <class X> X canaryOf(bool boolCanary) {
	if constexpr (std::is_same_v<X, bool>) return boolCanary;
	else if constexpr (std::is_floating_point_v<X>) return static_cast<X>(-77.5);
	else return static_cast<X>(77);
}

inline i128 p2(int k) { return static_cast<i128>(1) << k; }
inline bool isNumeric(const Val& v) { return v.k == Val::Int || v.k == Val::Bool || v.k == Val::F32 || v.k == Val::F64; }
inline std::string valText(const Val& v) {
	if (v.k == Val::F32) { float f; std::memcpy(&f, &v.f32, 4); return bsx::fmt("%.9g(f32 %08x)", static_cast<double>(f), v.f32); }
	if (v.k == Val::F64) return bsx::fmt("%.17g(f64 %016llx)", v.asDouble(), static_cast<unsigned long long>(v.f64));
	return v.dump();
}

// ---- value lattices -----------------------------------------------------------------------------------
struct LV { std::string cls; Val v; };

// integers: +-2^k+d for d in -3..3 (covers every type limit +-2), optionally +-(2^k +- 2^j)
// `ks`: the exponents k used (all of 0..65, or the subset at type limits and mantissa widths)
inline std::vector<int> exponents(bool all) {
	std::vector<int> r;
	if (all) { for (int k = 0; k <= 65; ++k) r.push_back(k); return r; }
	return {0, 1, 2, 7, 8, 15, 16, 23, 24, 25, 31, 32, 52, 53, 54, 62, 63, 64};
}
inline std::vector<LV> intLattice(bool rich, i128 lo, i128 hi, const std::vector<int>& ks = exponents(true)) {
	std::map<i128, std::string> m;
	auto add = [&](i128 v, const std::string& c) { if (v >= lo && v <= hi) m.emplace(v, c); };
	static const char* dn[] = {"", "+-1", "+-2", "+-3"};
	for (int d = 0; d <= 3; ++d) for (int k : ks) for (int s = -1; s <= 1; s += 2) for (int ds = -1; ds <= 1; ds += 2) {
		i128 v = s * (p2(k) + ds * d);
		add(v, std::string(s < 0 ? "int:-2^k" : "int:2^k") + dn[d]);
	}
	add(0, "int:2^k+-1");
	if (rich) for (int k : ks) for (int j = 0; j < k; ++j) for (int s = -1; s <= 1; s += 2) for (int ds = -1; ds <= 1; ds += 2)
		add(s * (p2(k) + ds * p2(j)), s < 0 ? "int:-2^k+-2^j" : "int:2^k+-2^j");
	std::vector<LV> r; for (auto& kv : m) r.push_back({kv.second, Val::integer(kv.first)});
	return r;
}

inline std::vector<LV> f32Lattice(const std::vector<int>& ks = exponents(true)) {
	std::map<uint32_t, std::string> m; std::vector<uint32_t> order;
	auto add = [&](float f, const std::string& c) { uint32_t b; std::memcpy(&b, &f, 4); if (m.emplace(b, c).second) order.push_back(b); };
	add(0.f, "f32:0"); add(-0.f, "f32:-0"); add(0.5f, "f32:0.5"); add(1.5f, "f32:1.5"); add(-1.5f, "f32:-1.5"); add(-0.5f, "f32:-0.5");
	add(std::numeric_limits<float>::denorm_min(), "f32:denorm"); add(-std::numeric_limits<float>::denorm_min(), "f32:denorm"); add(FLT_MIN, "f32:min_normal");
	add(FLT_MAX, "f32:max"); add(-FLT_MAX, "f32:-max"); add(std::nextafter(FLT_MAX, 0.f), "f32:max_prev");
	add(INFINITY, "f32:inf"); add(-INFINITY, "f32:-inf"); add(NAN, "f32:nan");
	add(16777215.f, "f32:2^24-1"); add(16777216.f, "f32:2^24"); add(16777218.f, "f32:2^24+2");
	for (int k : ks) for (int s = -1; s <= 1; s += 2) {
		float p = std::ldexp(1.f, k) * s;
		add(p, s < 0 ? "f32:-2^k" : "f32:2^k");
		add(std::nextafter(p, 0.f), s < 0 ? "f32:-2^k_prev" : "f32:2^k_prev"); add(std::nextafter(p, p * 2), s < 0 ? "f32:-2^k_next" : "f32:2^k_next");
		if (k <= 22) { add(p + s * 0.5f, s < 0 ? "f32:-2^k+-0.5" : "f32:2^k+-0.5"); if (k >= 1) add(p - s * 0.5f, s < 0 ? "f32:-2^k+-0.5" : "f32:2^k+-0.5"); }
		if (k <= 23) { add(p + 1.f, s < 0 ? "f32:-2^k+-1" : "f32:2^k+-1"); add(p - 1.f, s < 0 ? "f32:-2^k+-1" : "f32:2^k+-1"); }
	}
	std::vector<LV> r; for (auto b : order) r.push_back({m[b], Val::f32bits(b)});
	return r;
}
inline std::vector<LV> f64Lattice(const std::vector<int>& ks = exponents(true)) {
	std::map<uint64_t, std::string> m; std::vector<uint64_t> order;
	auto add = [&](double f, const std::string& c) { uint64_t b; std::memcpy(&b, &f, 8); if (m.emplace(b, c).second) order.push_back(b); };
	add(0., "f64:0"); add(-0., "f64:-0"); add(0.5, "f64:0.5"); add(1.5, "f64:1.5"); add(-1.5, "f64:-1.5"); add(-0.5, "f64:-0.5"); add(0.1, "f64:0.1");
	add(std::numeric_limits<double>::denorm_min(), "f64:denorm"); add(-std::numeric_limits<double>::denorm_min(), "f64:denorm"); add(DBL_MIN, "f64:min_normal");
	add(static_cast<double>(std::numeric_limits<float>::denorm_min()), "f64:f32denorm"); add(static_cast<double>(std::numeric_limits<float>::denorm_min()) / 4, "f64:below_f32denorm"); add(1e-50, "f64:below_f32denorm");
	const double fm = static_cast<double>(FLT_MAX), half = std::ldexp(1.0, 127 - 24);
	add(fm, "f64:fltmax"); add(-fm, "f64:-fltmax"); add(std::nextafter(fm, INFINITY), "f64:fltmax_next"); add(-std::nextafter(fm, INFINITY), "f64:-fltmax_next"); add(std::nextafter(fm, 0.), "f64:fltmax_prev");
	add(fm + half, "f64:fltmax+halfulp"); add(std::nextafter(fm + half, 0.), "f64:fltmax+halfulp_prev"); add(-(fm + half), "f64:-fltmax-halfulp"); add(1e39, "f64:1e39"); add(-1e39, "f64:-1e39");
	add(DBL_MAX, "f64:max"); add(-DBL_MAX, "f64:-max"); add(INFINITY, "f64:inf"); add(-INFINITY, "f64:-inf"); add(NAN, "f64:nan");
	add(16777215., "f64:2^24-1"); add(16777216., "f64:2^24"); add(16777217., "f64:2^24+1");
	add(9007199254740991., "f64:2^53-1"); add(9007199254740992., "f64:2^53"); add(9007199254740994., "f64:2^53+2");
	for (int k : ks) for (int s = -1; s <= 1; s += 2) {
		double p = std::ldexp(1.0, k) * s;
		add(p, s < 0 ? "f64:-2^k" : "f64:2^k");
		add(std::nextafter(p, 0.), s < 0 ? "f64:-2^k_prev" : "f64:2^k_prev"); add(std::nextafter(p, p * 2), s < 0 ? "f64:-2^k_next" : "f64:2^k_next");
		if (k <= 51) { add(p + s * 0.5, s < 0 ? "f64:-2^k+-0.5" : "f64:2^k+-0.5"); if (k >= 1) add(p - s * 0.5, s < 0 ? "f64:-2^k+-0.5" : "f64:2^k+-0.5"); }
		if (k <= 52) { add(p + 1., s < 0 ? "f64:-2^k+-1" : "f64:2^k+-1"); add(p - 1., s < 0 ? "f64:-2^k+-1" : "f64:2^k+-1"); }
	}
	std::vector<LV> r; for (auto b : order) r.push_back({m[b], Val::f64bits(b)});
	return r;
}

// ---- relation of a source value to a target (the cause class used in signatures) -----------------------
inline std::string relation(const Val& v, int t) {
	if (!isNumeric(v)) return v.k == Val::Nil ? "nil" : "other_kind";
	const K k = kindOf(t);
	if (v.k == Val::Int || v.k == Val::Bool) {
		i128 x = v.k == Val::Bool ? (v.b ? 1 : 0) : v.i;
		if (k == sv::Bool) return x < 0 ? "below_min" : x > 1 ? "above_max" : "fits";
		if (sv::isInt(k)) { if (model::intFits(x, k)) return "fits"; if (x > static_cast<i128>(UINT64_MAX)) return "above_u64"; if (x < static_cast<i128>(INT64_MIN)) return "below_i64"; return x < 0 ? "below_min" : "above_max"; }
		// exactly representable iff the odd part fits into the mantissa (independent of model::expectScalar)
		unsigned __int128 a = x < 0 ? -static_cast<unsigned __int128>(x) : static_cast<unsigned __int128>(x);
		while (a && !(a & 1)) a >>= 1;
		return a < (static_cast<unsigned __int128>(1) << (k == sv::F32 ? 24 : 53)) ? "fits" : "inexact";
	}
	double d = v.asDouble();
	if (!std::isfinite(d)) return "nonfinite";
	if (k == sv::F64 || (k == sv::F32 && v.k == Val::F32)) return "fits";
	if (k == sv::F32) { if (std::fabs(d) > static_cast<double>(FLT_MAX)) return d < 0 ? "below_min" : "above_max"; return static_cast<double>(static_cast<float>(d)) == d ? "fits" : "inexact"; }
	if (d != std::floor(d)) return "fraction";
	if (std::fabs(d) >= 3.5e19) return d < 0 ? "below_min" : "above_max";
	i128 x = static_cast<i128>(d);
	if (k == sv::Bool) return x < 0 ? "below_min" : x > 1 ? "above_max" : "integral_fits";
	if (model::intFits(x, k)) return "integral_fits";
	return x < 0 ? "below_min" : "above_max";
}

// ---- result of one load -------------------------------------------------------------------------------
struct Loaded {
	lib::Out out;
	bool loaded = false;        // what Serialize() reported for the target
	Val value;                  // what the target holds afterwards
	bool canaryIntact = true;   // target still holds its canary
	bool neighbourOk = true;    // the sentinel next to the target loaded as 42
	std::string note;
};
struct Req { int target = 0; int pos = 0; bool ovT = true, mmT = true, stream = false, boolCanary = true; };

// mathematical equality (+0 == -0, NaN == NaN), kinds must agree
inline bool sameMath(const Val& a, const Val& b) {
	if (a.k != b.k) return false;
	if (a.k == Val::F32 || a.k == Val::F64) { double x = a.asDouble(), y = b.asDouble(); return (std::isnan(x) && std::isnan(y)) || x == y; }
	return a.dump() == b.dump();
}

// One violation class of an inner case; sweeps aggregate them per block.
struct Collector {
	bsx::Ctx& c;
	std::map<std::string, std::pair<uint64_t, std::string>> agg;
	explicit Collector(bsx::Ctx& ctx) : c(ctx) {}
	void add(const std::string& sig, const std::string& detail) { auto& e = agg[sig]; if (e.first++ == 0) e.second = detail; }
	void flush() { for (auto& kv : agg) c.violation(kv.first, kv.second.second + (kv.second.first > 1 ? bsx::fmt(" [%llu cases of this class in the block]", static_cast<unsigned long long>(kv.second.first)) : std::string())); agg.clear(); }
};

// Verdict of one load against an allowed-outcome set; "" = fine, else the outcome symbol.
inline std::string verdict(const model::Expect& e, const Loaded& r, std::string& why) {
	const std::string& cls = r.out.cls;
	if (cls != "ok") {
		if (cls == "ser:Overflow") { if (e.allowed & model::ThrowOverflow) return ""; why = "Overflow error is not an allowed outcome"; return "wrong_error:Overflow"; }
		if (cls == "ser:MismatchedTypes") { if (e.allowed & model::ThrowMismatch) return ""; why = "MismatchedTypes error is not an allowed outcome"; return "wrong_error:MismatchedTypes"; }
		why = "unexpected exception " + cls + ": " + r.out.what; return (cls.rfind("ser:", 0) == 0 ? "wrong_error:" + cls.substr(4) : "exception:" + cls);
	}
	if (r.loaded) {
		if ((e.allowed & model::Exact) && sameMath(r.value, e.exact)) return "";
		if ((e.allowed & model::Nearest) && sameMath(r.value, e.nearest)) return "";
		why = "loaded " + valText(r.value) + ((e.allowed & model::Exact) ? ", expected " + valText(e.exact) : (e.allowed & model::Nearest) ? ", only " + valText(e.nearest) + " or an error is acceptable" : ", no value is acceptable (the policy must be followed)");
		return "wrong_value";
	}
	if (!(e.allowed & model::NotLoaded)) {
		why = std::string("reported not loaded without an error, but ") + ((e.allowed & (model::Exact | model::Nearest)) ? "the value must be loaded" : "the policy demands an exception");
		return (e.allowed & (model::Exact | model::Nearest)) ? "not_loaded" : "not_reported";
	}
	if (!r.canaryIntact) { why = "reported not loaded but the target changed to " + valText(r.value); return "not_loaded_but_changed"; }
	return "";
}

inline std::string allowedText(const model::Expect& e) {
	std::string s;
	if (e.allowed & model::Exact) s += "exact=" + valText(e.exact) + " ";
	if (e.allowed & model::Nearest) s += "nearest=" + valText(e.nearest) + " ";
	if (e.allowed & model::NotLoaded) s += "not_loaded "; if (e.allowed & model::ThrowOverflow) s += "Overflow "; if (e.allowed & model::ThrowMismatch) s += "MismatchedTypes ";
	return s;
}

// A source in a carrier: either a typed document value or a lexical value (text carriers).
// signature name of a source class: the lattices by their alphabet name, everything else by its symbol
inline std::string sigClass(const std::string& cls) {
	if (cls.rfind("int:", 0) == 0) return "lattice_int"; if (cls.rfind("f32:", 0) == 0) return "lattice_f32"; if (cls.rfind("f64:", 0) == 0) return "lattice_f64";
	return cls;
}
struct Source {
	std::string cls;      // alphabet symbol / sweep name (detail text; sigClass(cls) in signatures)
	Val v;                // the document value (numeric sources); for text-only symbols kind Str
	bool textual = false; std::string text;   // text carriers: the exact text in the document
};

// Exact value of a decimal literal  -?digits[.digits][(e|E)[+-]digits]  that spans the whole text.
struct Dec { bool valid = false, plainInt = false, integral = false, fits = false, zero = false; i128 value = 0; };
inline Dec exactDecimal(const std::string& t) {
	Dec d; size_t i = 0; while (i < t.size() && (t[i] == ' ' || t[i] == '\t')) ++i;
	bool neg = false; if (i < t.size() && t[i] == '-') { neg = true; ++i; }
	std::string digits; long exp10 = 0; bool frac = false, hasExp = false; size_t nd = 0;
	while (i < t.size() && t[i] >= '0' && t[i] <= '9') { digits.push_back(t[i++]); ++nd; }
	if (i < t.size() && t[i] == '.') { frac = true; ++i; while (i < t.size() && t[i] >= '0' && t[i] <= '9') { digits.push_back(t[i++]); --exp10; ++nd; } }
	if (nd == 0) return d;
	if (i < t.size() && (t[i] == 'e' || t[i] == 'E')) {
		size_t j = i + 1; bool eneg = false; if (j < t.size() && (t[j] == '+' || t[j] == '-')) { eneg = t[j] == '-'; ++j; }
		size_t j0 = j; long ev = 0; while (j < t.size() && t[j] >= '0' && t[j] <= '9') { if (ev < 100000) ev = ev * 10 + (t[j] - '0'); ++j; }
		if (j == j0) return d;
		hasExp = true; exp10 += eneg ? -ev : ev; i = j;
	}
	if (i != t.size()) return d;
	d.valid = true; d.plainInt = !frac && !hasExp;
	size_t lead = 0; while (lead < digits.size() && digits[lead] == '0') ++lead; digits.erase(0, lead);
	while (!digits.empty() && digits.back() == '0') { digits.pop_back(); ++exp10; }
	if (digits.empty()) { d.zero = d.integral = d.fits = true; return d; }
	if (exp10 < 0) return d;                                    // a fraction remains
	d.integral = true;
	if (static_cast<long>(digits.size()) + exp10 > 30) return d;   // beyond every target and beyond i128 arithmetic here
	i128 v = 0; for (char ch : digits) v = v * 10 + (ch - '0'); for (long k = 0; k < exp10; ++k) v *= 10;
	d.fits = true; d.value = neg ? -v : v; return d;
}

// Allowed outcomes for a source in a carrier. Text carriers (XML text/attribute, CSV cell, text keys) are
// judged by their lexical value (model::expectFromText). Two corrections where the model looks at the
// integer prefix of the text only (reported): for an integer/bool target a numeric text with a fraction or
// an exponent (a) may be refused as another kind OR as out of range (both readings), and (b) may be stored
// only if the value of the WHOLE text is that integer ("5e0" -> 5, "125.0" -> 125 yes; "1e+20" -> 1, "0.5" -> false no);
// for a floating target a non-zero text whose nearest value is zero may also be reported as overflow.
inline model::Expect expectFor(const Source& s, int target, bool ovT, bool mmT) {
	const K k = kindOf(target);
	if (!s.textual) return model::expectScalar(s.v, k, ovT, mmT);
	model::Expect e = model::expectFromText(s.text, k, ovT, mmT);
	const unsigned ovOut = ovT ? model::ThrowOverflow : model::NotLoaded, mmOut = mmT ? model::ThrowMismatch : model::NotLoaded;
	if (s.text.size() > 1 && s.text[0] == '+' && s.text[1] != '+' && s.text[1] != '-') {
		// "+5": no literal for from_chars (mismatch, the model's reading) or the value 5 (as_int); both accepted, as in C16 A1
		Source t = s; t.text = s.text.substr(1); model::Expect p = expectFor(t, target, ovT, mmT);
		if (p.allowed & model::Exact) { e.allowed |= model::Exact; e.exact = p.exact; }
		if (p.allowed & model::Nearest) { e.allowed |= model::Nearest; e.nearest = p.nearest; }
		e.allowed |= p.allowed & (model::NotLoaded | model::ThrowOverflow | model::ThrowMismatch);
		return e;
	}
	const Dec d = exactDecimal(s.text);
	if (!d.valid) return e;
	if ((sv::isInt(k) || k == sv::Bool) && !d.plainInt) {
		e.allowed |= ovOut | mmOut;
		e.allowed &= ~static_cast<unsigned>(model::Exact);
		// the whole text denotes an integer the target can hold ("5e0", "-129.0"): storing it is exact, too
		if (d.integral && d.fits) {
			if (k == sv::Bool) { if (d.value == 0 || d.value == 1) { e.allowed |= model::Exact; e.exact = Val::boolean(d.value == 1); } }
			else if (model::intFits(d.value, k)) { e.allowed |= model::Exact; e.exact = Val::integer(d.value); }
		}
	}
	if ((k == sv::F32 || k == sv::F64) && !d.zero && (e.allowed & model::Exact) && e.exact.asDouble() == 0) e.allowed |= ovOut;
	return e;
}

// Runs `load` under the four policy combinations and reports violations. Folding: the same outcome under all
// four policies -> pol=all; an out-of-range value consistently treated by the mismatched-types policy (or the
// reverse) -> pol=all/out=handled_as_mismatch (handled_as_overflow).
// `polMask`: bit p set = run policy pair p (0 SS, 1 overflow-throw/mismatch-skip, 2 overflow-skip/mismatch-throw, 3 TT).
inline unsigned gPolMask = 0xF;
template <class FLoad>
void judge4(Collector& col, const std::string& sigPrefix, const Source& s, int target, const std::string& docText, FLoad&& load) {
	if (gPolMask != 0xF) {   // reduced policy set (16-bit sweeps): no folding across policies except "all that ran"
		static const char* pn[4] = {"SS", "TS", "ST", "TT"};
		std::string outs[4], whys[4]; int ran = 0, bad = 0, firstBad = -1; bool same = true;
		for (int pol = 0; pol < 4; ++pol) {
			if (!(gPolMask & (1u << pol))) continue;
			const bool ovT = pol & 1, mmT = pol & 2;
			model::Expect e = expectFor(s, target, ovT, mmT);
			col.c.describe(sigPrefix + "/pol=" + pn[pol], docText);
			Loaded r = load(ovT, mmT); ++ran;
			col.c.outcome(r.out.cls == "ok" ? (r.loaded ? "ok:loaded" : "ok:not_loaded") : r.out.cls);
			outs[pol] = verdict(e, r, whys[pol]);
			if (outs[pol].empty() && r.out.ok() && !r.neighbourOk) { outs[pol] = "neighbour_disturbed"; whys[pol] = "the value next to the target was not loaded as expected " + r.note; }
			if (!outs[pol].empty()) { whys[pol] += " | allowed: " + allowedText(e) + "| got: " + r.out.cls + (r.out.ok() ? (r.loaded ? " loaded " : " not loaded, target ") + valText(r.value) : "") + " | source " + s.cls + " " + (s.textual ? "text '" + s.text + "'" : valText(s.v)) + " -> " + tname(target) + " | pol=" + pn[pol] + " doc=" + docText;
				if (firstBad >= 0 && outs[pol] != outs[firstBad]) same = false; if (firstBad < 0) firstBad = pol; ++bad; }
		}
		if (!bad) return;
		if (bad == ran && same) { col.add(sigPrefix + "/pol=all/out=" + outs[firstBad], whys[firstBad]); return; }
		for (int pol = 0; pol < 4; ++pol) if (!outs[pol].empty()) col.add(sigPrefix + "/pol=" + pn[pol] + "/out=" + outs[pol], whys[pol]);
		return;
	}
	std::string outs[4], whys[4]; Loaded rs[4]; model::Expect es[4]; bool any = false;
	static const char* polNames[4] = {"SS", "TS", "ST", "TT"};
	static const std::string okLoaded = "ok:loaded", okNot = "ok:not_loaded";
	std::string sigPol = sigPrefix + "/pol=";
	for (int pol = 0; pol < 4; ++pol) {
		const bool ovT = pol & 1, mmT = pol & 2;
		es[pol] = expectFor(s, target, ovT, mmT);
		col.c.describe(sigPol + polNames[pol], docText);
		rs[pol] = load(ovT, mmT);
		col.c.outcome(rs[pol].out.cls == "ok" ? (rs[pol].loaded ? okLoaded : okNot) : rs[pol].out.cls);
		outs[pol] = verdict(es[pol], rs[pol], whys[pol]);
		if (outs[pol].empty() && rs[pol].out.ok() && !rs[pol].neighbourOk) { outs[pol] = "neighbour_disturbed"; whys[pol] = "the value next to the target was not loaded as expected " + rs[pol].note; }
		if (!outs[pol].empty()) any = true;
	}
	if (!any) return;
	auto detail = [&](int pol) {
		return whys[pol] + " | allowed: " + allowedText(es[pol]) + "| got: " + rs[pol].out.cls + (rs[pol].out.ok() ? (rs[pol].loaded ? " loaded " : " not loaded, target ") + valText(rs[pol].value) : "")
			+ " | source " + s.cls + " " + (s.textual ? "text '" + s.text + "'" : valText(s.v)) + " -> " + tname(target) + " | pol=" + polNames[pol] + " doc=" + docText;
	};
	if (outs[0] == outs[1] && outs[1] == outs[2] && outs[2] == outs[3]) { col.add(sigPol + "all/out=" + outs[0], detail(0)); return; }
	// consistently handled by the other policy?
	for (int alt = 0; alt < 2; ++alt) {
		bool all = true;
		for (int pol = 0; pol < 4 && all; ++pol) {
			model::Expect e; const bool ovT = pol & 1, mmT = pol & 2;
			e.allowed = alt == 0 ? (mmT ? model::ThrowMismatch : model::NotLoaded) : (ovT ? model::ThrowOverflow : model::NotLoaded);
			std::string w; if (!verdict(e, rs[pol], w).empty()) all = false;
		}
		if (all) { int first = 0; while (outs[first].empty()) ++first; col.add(sigPol + "all/out=" + (alt == 0 ? "handled_as_mismatch" : "handled_as_overflow"), detail(first)); return; }
	}
	for (int pol = 0; pol < 4; ++pol) if (!outs[pol].empty()) col.add(sigPol + polNames[pol] + "/out=" + outs[pol], detail(pol));
}

// ---- typed targets at the archive positions ----------------------------------------------------------
template <class X> struct RootW { X v; bool loaded = false; };
template <class A, class X> bool Serialize(A& ar, RootW<X>& r) { r.loaded = BS::Serialize(ar, r.v); return r.loaded; }

template <class X> struct ElemW { X v; bool loaded = false; int32_t z = -77; bool zLoaded = false; size_t size() const { return 2; } };
template <class A, class X> void SerializeArray(A& ar, ElemW<X>& r) {
	if constexpr (A::IsLoading()) {
		if (!ar.IsEnd()) r.loaded = BS::Serialize(ar, r.v);
		if (!ar.IsEnd()) r.zLoaded = BS::Serialize(ar, r.z);
	} else { BS::Serialize(ar, r.v); BS::Serialize(ar, r.z); }
}

template <class X> struct MemberW {
	X v; bool loaded = false; int32_t z = -77; bool zLoaded = false;
	template <class A> void Serialize(A& ar) {
		if constexpr (sv::is_counter<A>::value) { int d = 0; ar << d; ar << d; }
		else { static const std::string ka = "a", kz = "z"; loaded = BS::Serialize(ar, ka, v); zLoaded = BS::Serialize(ar, kz, z); }
	}
};

template <class X, class W> Loaded finish(const lib::Out& out, const W& w, bool boolCanary, bool hasNeighbour) {
	Loaded r; r.out = out; r.loaded = w.loaded; r.value = toVal(w.v);
	r.canaryIntact = sameMath(toVal(w.v), toVal(canaryOf<X>(boolCanary)));
	if constexpr (!std::is_same_v<W, RootW<X>>) { if (hasNeighbour) { r.neighbourOk = w.zLoaded && w.z == 42; if (!r.neighbourOk) r.note = bsx::fmt("(z loaded=%d value=%d)", w.zLoaded ? 1 : 0, static_cast<int>(w.z)); } }
	return r;
}

// generic: load wrapper W<X> with archive A from memory or a std::istringstream
template <class A, class W> lib::Out loadW(W& w, const std::string& bytes, const Req& q) {
	auto o = lib::opts(q.ovT, q.mmT);
	if (q.stream) { std::istringstream is(bytes); return lib::guard([&] { BS::LoadObject<A>(w, is, o); }); }
	return lib::guard([&] { BS::LoadObject<A>(w, bytes, o); });
}
template <class A, bool kRootScalar = true> Loaded loadAt(const std::string& bytes, const Req& q) {
	return withType(q.target, [&](auto tag) {
		using X = typename decltype(tag)::type;
		if constexpr (kRootScalar) if (q.pos == 0) { RootW<X> w; w.v = canaryOf<X>(q.boolCanary); return finish<X>(loadW<A>(w, bytes, q), w, q.boolCanary, false); }
		if (q.pos == 1) { ElemW<X> w; w.v = canaryOf<X>(q.boolCanary); return finish<X>(loadW<A>(w, bytes, q), w, q.boolCanary, true); }
		MemberW<X> w; w.v = canaryOf<X>(q.boolCanary); return finish<X>(loadW<A>(w, bytes, q), w, q.boolCanary, true);
	});
}

// a bool canary that a sloppy conversion of the source would not reproduce
inline bool boolCanaryFor(const Val& v) {
	if (v.k == Val::Bool) return !v.b;
	if (v.k == Val::Int) return v.i == 0;
	if (v.k == Val::F32 || v.k == Val::F64) return v.asDouble() == 0;
	return true;
}

// ---- carriers implemented in the other translation units ---------------------------------------------
Loaded loadMsgPack(const std::string& bytes, const Req& q);                 // pos 0 root, 1 element, 2 member
Loaded loadJson(const std::string& text, const Req& q);                     // pos 0 root, 1 element, 2 member
Loaded loadXml(const std::string& text, const Req& q);                      // pos 1 element, 2 member, 3 attribute
Loaded loadCsv(const std::string& text, const Req& q);                      // one cell
// map key position: the document is an object/map with the key under test -> 7 and a sentinel key -> 9.
struct MapLoaded { lib::Out out; std::vector<std::pair<Val, int32_t>> entries; };
MapLoaded loadMapMsgPack(const std::string& bytes, const Req& q);
MapLoaded loadMapJson(const std::string& text, const Req& q);
MapLoaded loadMapCsv(const std::string& text, const Req& q);

} // namespace c04
