// C18 — msgpack instantiations, part 1 (see c18_populated_target.cpp).
#include "harness/c18_common.hpp"
#include "bitserializer/msgpack_archive.h"
std::vector<c18::Entry> c18_table_msgpack_b() { return c18::makeTable<BitSerializer::MsgPack::MsgPackArchive, false, 1>(); }
