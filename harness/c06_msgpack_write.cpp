// C06 — MsgPack output is spec-conformant, compact and readable by any decoder.
// E1 (bounded exhaustive enumeration of input values): real typed values (every 8/16-bit integer value through every
// C++ integer type, 32/64-bit values around every format threshold, float/double bit-pattern lattice, str/bin/array/map
// at every length threshold, std::chrono time points and durations, time_t, classes with base class / conditional
// fields / nesting, maps with every key type, std containers) and shaped-value trees of depth <= 3, each saved at the
// positions root / array element / object member / map key, to std::string and to std::ostringstream.
// Oracle: the strict reference decoder (ref/ref_msgpack.hpp, written from the specification) must accept the bytes as
// exactly one object with nothing left over and recover the expected tree, which is computed here from the C++ value
// (integers and instants in __int128) without looking at the library; the output must not be longer than the reference
// canonical (most compact) encoding of that tree; memory and stream output must be byte-identical.
// An encoding that is as short as the canonical one but uses another format family (int16_t 300 -> d1 01 2c instead of
// cd 01 2c) satisfies "most compact" and is accepted (outcome class ok:equal_size_other_format).
#define C06_PART
#include "harness/c06_shared.cpp"

static void body(bsx::Ctx& c) {
	const bool thorough = c.tier == "thorough";
	int scen = c.choose(10, "scenario");
	switch (scen) {
	case 0: case 1: case 2: c06_scalars(c, scen, thorough); break;
	case 5: c06_chrono(c); break;
	case 3: case 4: case 7: case 8: c06_containers(c, scen); break;
	default: c06_classes(c, scen, thorough); break;
	}
}

int main(int argc, char** argv) {
	bsx::Config cfg; cfg.part_depth = 3; cfg.max_dev = 0; cfg.hang_s = 20;
	bsx::Engine e("C06", body, cfg);
	return e.main(argc, argv);
}
