// C10 — memory and stream loading are equivalent wherever buffer boundaries fall.
// E2/differential: corpus documents of all four archives (valid, every truncation, a byte
// alphabet of single-byte corruptions) x every padding that moves the document across the
// stream reader's chunk boundary x stream kinds (istringstream; harness streambuf with
// explorer-chosen short deliveries, deviation-bounded; non-seekable streambuf) x request
// orders (document order, reversed). Oracle: outcome(memory) == outcome(stream), where outcome
// is the loaded value incl. not-loaded flags, or the error category.
#include "harness/typed_load.hpp"
#include "msgpack/msgpack_readers.h"

using namespace sv; using ref::Val; using tl::archName;

#ifndef BITSERIALIZER_VERIF_CHUNK_SIZE
#define BITSERIALIZER_VERIF_CHUNK_SIZE 256
#endif
#ifndef BITSERIALIZER_VERIF_ENCODED_CHUNK_SIZE
#define BITSERIALIZER_VERIF_ENCODED_CHUNK_SIZE 256
#endif
static constexpr int kBinChunk = BITSERIALIZER_VERIF_CHUNK_SIZE, kEncChunk = BITSERIALIZER_VERIF_ENCODED_CHUNK_SIZE;

struct Doc { std::string name; Val v; };
static std::vector<Doc> corpus(int arch) {
	using V = Val; std::vector<Doc> r;
	if (arch == tl::Csv) {
		auto row = [](Val a, Val b, Val c) { return V::map({{V::str("a"), a}, {V::str("b"), b}, {V::str("c"), c}}); };
		r.push_back({"rows_plain", V::arr({row(V::integer(1), V::str("x"), V::integer(3)), row(V::integer(4), V::str("y"), V::integer(6))})});
		r.push_back({"rows_quoted", V::arr({row(V::integer(1), V::str("x,\"q\""), V::str("l1\nl2")), row(V::integer(4), V::str("é€"), V::str("z"))})});
		r.push_back({"rows_text_last", V::arr({row(V::integer(1), V::str("x"), V::str("p3")), row(V::integer(4), V::str("y"), V::str("q6")), row(V::integer(7), V::str("z"), V::str(""))})});   // the last column is text: a CR left on it is visible
		r.push_back({"rows_1", V::arr({row(V::str("only"), V::str("r"), V::integer(-9))})});
		return r;
	}
	r.push_back({"obj3", V::map({{V::str("a"), V::integer(1)}, {V::str("b"), V::str("xy")}, {V::str("c"), V::boolean(true)}})});
	r.push_back({"arr4", V::arr({V::integer(1), V::integer(-2), V::integer(300), V::integer(70000)})});
	r.push_back({"obj_nested", V::map({{V::str("o"), V::map({{V::str("i"), V::integer(7)}, {V::str("s"), V::str("q")}})}, {V::str("l"), V::arr({V::integer(1), V::str("two")})}, {V::str("z"), V::integer(9)}})});
	r.push_back({"obj_long", V::map({{V::str("h"), V::integer(1)}, {V::str("s"), V::str(std::string(600, 'L'))}, {V::str("z"), V::integer(9)}})});   // a value longer than two reader chunks
	// numbers whose shortest decimal form has 16-17 significant digits or an extreme exponent: the slow, correctly rounding path of a number parser
	r.push_back({"obj_doubles", V::map({{V::str("a"), V::dbl(3421.8506787330318)}, {V::str("b"), V::dbl(5.409760742964738e124)}, {V::str("c"), V::dbl(1.3927926388013963e-143)}, {V::str("d"), V::dbl(1.7976931348623157e308)}, {V::str("e"), V::dbl(4.9406564584124654e-324)}, {V::str("z"), V::integer(9)}})});
	r.push_back({"obj_text", V::map({{V::str("s"), V::str("a\"b\\c<d>&e é€\xF0\x9F\x98\x80")}, {V::str("f"), V::dbl(0.1)}, {V::str("z"), V::integer(9)}})});
	if (arch == tl::MsgPack) {
		r.push_back({"obj_bin_ts", V::map({{V::str("b"), V::bin(std::string("\x00\x01\x02", 3))}, {V::str("t"), V::ts(1, 5)}, {V::str("n"), V::nil()}, {V::str("u"), V::integer(static_cast<ref::i128>(UINT64_MAX))}})});
		r.push_back({"obj_str16", V::map({{V::str("s"), V::str(std::string(40, 'k'))}, {V::str("z"), V::integer(9)}})});
		r.push_back({"typed_keys", V::map({{V::integer(1), V::integer(5)}, {V::integer(-1), V::str("s")}, {V::dbl(2.5), V::integer(7)}})});
	}
	return r;
}
// erases the i-th field of the first object found depth-first (in every row for an array of rows); false if there is none
static bool dropField(Node& n, int i) {
	if (n.k == Obj && !n.scripted) { if (i >= static_cast<int>(n.fields.size()) || n.fields.size() < 2) return false; n.fields.erase(n.fields.begin() + i); return true; }
	if (n.k == Obj && n.scripted) { if (i >= static_cast<int>(n.script.size()) || n.script.size() < 2) return false; n.script.erase(n.script.begin() + i); return true; }
	bool any = false; for (auto& e : n.items) { if (e.k == Obj) { if (dropField(e, i)) any = true; } }
	return any;
}
static void reverseFields(Node& n) { if (n.k == Obj) std::reverse(n.fields.begin(), n.fields.end()); for (auto& e : n.items) reverseFields(e); for (auto& f : n.fields) reverseFields(f.second); }

// document with padding p in front of the payload (format-specific), plus the matching shape
static bool build(int arch, const Val& doc, int pad, Val& root, Node& shape) {
	shape = shapeOf(doc); root = doc;
	if (doc.k == Val::Map) for (auto& kv : doc.m) if (kv.first.k != Val::Str) {   // typed keys: request script instead of named fields
		shape = Node::mk(Obj); shape.scripted = true;
		for (auto& e : doc.m) { Req q; q.key = Key::ofVal(e.first); q.target.push_back(shapeOf(e.second)); shape.script.push_back(q); }
		break;
	}
	if (pad == 0) return true;
	if (arch == tl::MsgPack) { root = Val::arr({Val::str(std::string(static_cast<size_t>(pad), 'p')), doc}); Node s = shape; shape = Node::arr({Node::mk(Str), s}); }
	return true;
}
static std::string render(int arch, const Val& root, int pad) {
	std::string b = tl::emit(arch, root);
	if (pad == 0 || arch == tl::MsgPack) return b;
	if (arch == tl::Json) return std::string(static_cast<size_t>(pad), ' ') + b;
	if (arch == tl::Xml) { std::string c = "<!--" + std::string(static_cast<size_t>(pad), 'p') + "-->"; size_t p = b.find("?>"); return b.substr(0, p + 2) + c + b.substr(p + 2); }
	// CSV: lengthen the first header name
	return std::string(static_cast<size_t>(pad), 'h') + b;
}
static void fixCsvShape(Node& shape, int pad) { if (pad) for (auto& row : shape.items) row.fields[0].first = std::string(static_cast<size_t>(pad), 'h') + row.fields[0].first; }

static std::string category(const lib::Out& o) { return o.cls; }

static void body(bsx::Ctx& c) {
	const bool thorough = c.tier == "thorough";
	int arch = c.choose(4, "archive");
	static std::vector<Doc> C[4] = {corpus(0), corpus(1), corpus(2), corpus(3)};
	int di = c.choose(static_cast<int>(C[arch].size()), "doc");
	const Doc& d = C[arch][static_cast<size_t>(di)];
	if (!tl::canCarry(arch, d.v)) { c.outcome("n/a"); return; }
	const int chunk = (arch == tl::MsgPack) ? kBinChunk : kEncChunk;
	std::vector<int> pads;
	if (chunk <= 32) { for (int p = 0; p <= chunk; ++p) if (thorough || chunk <= 16 || arch == tl::Csv || p % 3 == 0 || p >= chunk - 2) pads.push_back(p); }   // CSV: every alignment (line ends are single characters)
	else if (thorough) { pads.push_back(0); for (int p = chunk - 48; p <= chunk; ++p) if (p % 2 == 0 || p >= chunk - 9) pads.push_back(p); }
	else pads = {0, chunk - 30, chunk - 17, chunk - 9, chunk - 4, chunk - 1};
	int pad = pads[static_cast<size_t>(c.choose(static_cast<int>(pads.size()), "pad"))];
	int kind = c.choose(3, "kind");   // 0 valid, 1 truncation, 2 corruption
	Val root; Node shape; build(arch, d.v, pad, root, shape);
	std::string bytes = render(arch, root, pad);
	if (arch == tl::Csv) fixCsvShape(shape, pad);
	const char* kindName[] = {"valid", "truncated", "corrupted"};
	std::string mutDesc, byteTag;
	if (kind == 1) {
		// every truncation of the payload part (the padding itself is not cut)
		int lo = arch == tl::MsgPack ? 0 : 0; int n = static_cast<int>(bytes.size());
		int cut = c.choose(std::min(n, thorough ? 48 : 24), "cut");   // number of bytes removed from the end (1..)
		bytes.resize(static_cast<size_t>(n - 1 - cut)); mutDesc = "cut" + std::to_string(cut + 1); (void)lo;
	} else if (kind == 2) {
		static const unsigned char vals[] = {0x01, 0x22, 0x2c, 0x3c, 0x0a, 0x80, 0xc0, 0xc1, 0xff, 0x91, 0x20, 0x5b, 0x7b, 0xa5, 0xd9, 0xdc};   // quick: the first 10
		int n = static_cast<int>(bytes.size());
		int back = c.choose(std::min(n, thorough ? 32 : 12), "pos");   // position counted from the end
		int vi = c.choose(thorough ? static_cast<int>(sizeof vals) : 10, "byte");
		size_t pos = static_cast<size_t>(n - 1 - back);
		if (static_cast<unsigned char>(bytes[pos]) == vals[vi]) { c.outcome("n/a:same_byte"); return; }
		bytes[pos] = static_cast<char>(vals[vi]); mutDesc = bsx::fmt("end-%d=%02x", back, vals[vi]); byteTag = bsx::fmt("/byte=%02x", vals[vi]);
	}
	// request pattern: all fields in document order, all fields reversed, or all but the i-th top-level field (an unrequested member
	// is skipped by the reader: on a stream that means seeking forward or discarding input past the end of the cache)
	int order = c.choose(6, "order");
	if (order == 1) reverseFields(shape);
	if (order >= 2 && !dropField(shape, order - 2)) { c.outcome("n/a:no_such_field"); return; }
	int skind = c.choose(3, "stream");   // 0 istringstream, 1 harness streambuf (seekable, short deliveries), 2 non-seekable streambuf
	const char* sname[] = {"istringstream", "chunked", "nonseekable"};
	int polsel = c.choose(2, "policy");  // 0 = Throw/Throw, 1 = Skip/Skip
	auto opt = lib::opts(polsel == 0, polsel == 0);

	std::string sigbase = std::string("C10/") + archName(arch) + "/chunk=" + std::to_string(chunk) + "/" + kindName[kind] + "/doc=" + d.name + "/order=" + (order == 0 ? "document" : order == 1 ? "reversed" : "without_field" + std::to_string(order - 2)) + "/stream=" + sname[skind] + "/pol=" + (polsel ? "SS" : "TT") + byteTag;
	c.describe(sigbase, "pad=" + std::to_string(pad) + " " + mutDesc + " bytes=" + (bytes.size() <= 120 ? bsx::hex(bytes) : bsx::hex(bytes.substr(bytes.size() - 100))));

	// a mutated document whose load killed a worker earlier in this run (std::terminate from a throwing
	// scope destructor - judged by C20) is not repeated for every padding / stream kind / delivery schedule
	const uint64_t loadKey = bsx::fnv(std::string(archName(arch)) + "|" + d.name + "|" + mutDesc + "|" + std::to_string(order) + (polsel ? "SS" : "TT") + (kind == 0 ? std::to_string(pad) + sname[skind] : std::string()));
	if (!c.enter(loadKey)) { c.outcome("skipped:identical_load_crashed_earlier"); return; }
	Node tm = shape; tm.canary();
	lib::Out om = tl::load(arch, tm, bytes, tl::Source{}, opt);
	Node ts = shape; ts.canary();
	env::ChunkedInBuf buf(bytes);
	tl::Source src; src.stream = true;
	int devs = 0;
	if (skind >= 1) {
		src.buf = &buf; buf.seekable = skind == 1;
		buf.deliver = [&](size_t avail, size_t refill) -> size_t {
			if (refill >= 6) return avail;
			static const size_t sizes[] = {0, 1, 2, 3, 7};
			if (kind != 0 && devs >= 1) return avail;   // two delivery deviations only for the valid documents (thorough); mutated ones get one
			int k = c.deviate(5, "delivery"); if (k) ++devs;
			return k ? std::min(avail, sizes[k]) : avail;
		};
	}
	lib::Out os = tl::load(arch, ts, bytes, src, opt);
	c.leave();
	c.outcome(om.cls + "|" + os.cls);
	c.transition(buf.refills + 1);
	// state evidence: window alignment reached = (pad, length, delivery pattern) class
	c.state(bsx::fnv(sigbase + std::to_string(pad) + mutDesc + std::to_string(buf.refills) + std::to_string(buf.seeks)));
	if (bytes.size() + static_cast<size_t>(0) > static_cast<size_t>(chunk)) c.nontrivial(sigbase + std::to_string(pad) + mutDesc);
	if (kind == 0 && pad == pads.back() && skind == 1 && devs == 1 && di == 0) c.sample(sigbase + " pad=" + std::to_string(pad) + " -> mem:" + om.cls + " stream:" + os.cls);
	std::string dm = om.ok() ? tm.dumpLoaded() : "", ds = os.ok() ? ts.dumpLoaded() : "";
	if (category(om) != category(os) || dm != ds) {
		// a non-seekable stream legitimately cannot serve a backward request: InputOutputError is the documented category for that
		// (only when a position before the current one was really asked for and refused; a forward skip must work by discarding input)
		if (skind == 2 && os.cls == "ser:InputOutputError" && arch == tl::MsgPack && buf.failedBackwardSeeks > 0) { c.outcome("nonseekable:io_error_on_backward_request"); return; }
		c.violation(sigbase + (buf.failedBackwardSeeks ? "/backward_seek_refused" : "") + "/out=" + om.cls + "_vs_" + os.cls, "memory: " + om.cls + " " + (om.ok() ? dm : om.what) + " | stream: " + os.cls + " " + (os.ok() ? ds : os.what) + " | pad=" + std::to_string(pad) + " " + mutDesc + " deliveries_deviated=" + std::to_string(devs));
	}
}

int main(int argc, char** argv) {
	bsx::Config cfg; cfg.part_depth = 4; cfg.max_dev = 1; cfg.hang_s = 1.5;
	bsx::Engine e("C10", body, cfg);
	e.mTierSetup = [](const std::string& tier, bsx::Config& c) { c.max_dev = tier == "thorough" ? 2 : 1; };
	return e.main(argc, argv);
}
