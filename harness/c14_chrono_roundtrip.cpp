// C14 — ISO-8601 text of times and durations is calendar-correct and parses back exactly.
// E1, exhaustive sweep. Scenarios (first three choices = scenario, type, block):
//   0 selftest  reference calendar: day-by-day walker == closed form on every day of the swept range, anchors
//   1 sweep     every day of the year range at 00:00:00 and at the last representable instant of the day,
//               for time_point<system_clock, duration<rep, period>>, period in {ns,us,ms,s,min,h,days} x rep in
//               {int64,int32}, and CRawTime — wherever the whole calendar day is representable
//   2 seconds   every second of the selected days (leap days, century/400-year borders, epoch, years 0/-1/9999/10000,
//               first and last (partial) day of every type's range) x fraction classes
//   3 lattice   per type: 0, min..min+3, max-3..max, +-2^k, +-2^k+-1; time points, durations and time_t; all four
//               string types; Convert <-> CBinTimestamp; MsgPack and JSON archive round trip (value and map key)
//   4 durations structured d/h/m/s/fraction combinations and a contiguous range of counts around zero
// Oracle: ref/ref_calendar.hpp (incremental calendar + independent closed form, __int128): printed text equals the
// documented text form; parse(print(x)) == x; duration text is inside the ISO duration grammar and denotes x;
// binary timestamp holds exactly x and converts back to x. Buffer overruns are found by ASan (variant p256).
#include "models/lib.hpp"
#include "ref/ref_calendar.hpp"
#include "bitserializer/convert.h"
#include "bitserializer/types/std/chrono.h"
#include "bitserializer/types/std/ctime.h"
#include "bitserializer/types/std/map.h"
#include "bitserializer/msgpack_archive.h"
#include "bitserializer/rapidjson_archive.h"
#include <chrono>
#include <limits>
#include <set>

namespace C = std::chrono;
namespace BS = BitSerializer;
namespace cal = ref::cal;
using ref::i128;
using ref::i128str;
using MP = BS::MsgPack::MsgPackArchive;
using JS = BS::Json::RapidJson::JsonArchive;

#ifdef VERIF_FAST
static const bool kFast = true;
#else
static const bool kFast = false;
#endif

// ---------------------------------------------------------------------------------------------------- types
template <int P> struct Per;
template <> struct Per<0> { using type = std::nano; static constexpr const char* name = "ns"; static constexpr int fd = 9; };
template <> struct Per<1> { using type = std::micro; static constexpr const char* name = "us"; static constexpr int fd = 6; };
template <> struct Per<2> { using type = std::milli; static constexpr const char* name = "ms"; static constexpr int fd = 3; };
template <> struct Per<3> { using type = std::ratio<1>; static constexpr const char* name = "s"; static constexpr int fd = 0; };
template <> struct Per<4> { using type = std::ratio<60>; static constexpr const char* name = "min"; static constexpr int fd = 0; };
template <> struct Per<5> { using type = std::ratio<3600>; static constexpr const char* name = "h"; static constexpr int fd = 0; };
template <> struct Per<6> { using type = std::ratio<86400>; static constexpr const char* name = "days"; static constexpr int fd = 0; };
template <class R> struct RepN;
template <> struct RepN<int64_t> { static constexpr const char* name = "i64"; };
template <> struct RepN<int32_t> { static constexpr const char* name = "i32"; };

template <class Rep, int P> struct TT {
	using rep = Rep; using period = typename Per<P>::type;
	using D = C::duration<Rep, period>; using TP = C::time_point<C::system_clock, D>;
	static constexpr int fd = Per<P>::fd;
	static i128 unitNs() { return static_cast<i128>(period::num) * (cal::NS_PER_S / period::den); }
	static i128 minC() { return std::numeric_limits<Rep>::min(); }
	static i128 maxC() { return std::numeric_limits<Rep>::max(); }
	static std::string tag() { return std::string("prec=") + Per<P>::name + "/rep=" + RepN<Rep>::name; }
};
constexpr int NTYPES = 14;     // index = prec*2 + (rep == i32)
constexpr int RAWTIME = 14;    // pseudo type: time_t through CRawTime / CTimeRef
template <class F> static void withType(int idx, F&& f) {
	switch (idx) {
	case 0: f(TT<int64_t, 0>{}); break; case 1: f(TT<int32_t, 0>{}); break; case 2: f(TT<int64_t, 1>{}); break; case 3: f(TT<int32_t, 1>{}); break;
	case 4: f(TT<int64_t, 2>{}); break; case 5: f(TT<int32_t, 2>{}); break; case 6: f(TT<int64_t, 3>{}); break; case 7: f(TT<int32_t, 3>{}); break;
	case 8: f(TT<int64_t, 4>{}); break; case 9: f(TT<int32_t, 4>{}); break; case 10: f(TT<int64_t, 5>{}); break; case 11: f(TT<int32_t, 5>{}); break;
	case 12: f(TT<int64_t, 6>{}); break; case 13: f(TT<int32_t, 6>{}); break;
	default: abort();
	}
}

static const i128 DAY_NS = static_cast<i128>(cal::S_PER_DAY) * cal::NS_PER_S;

// exact-size heap copy, so that a read past the end of the view is an ASan report
template <class Ch> struct Exact {
	Ch* p; size_t n;
	explicit Exact(const std::basic_string<Ch>& s) : p(new Ch[s.size()]), n(s.size()) { for (size_t i = 0; i < n; ++i) p[i] = s[i]; }
	~Exact() { delete[] p; }
	Exact(const Exact&) = delete; Exact& operator=(const Exact&) = delete;
	std::basic_string_view<Ch> sv() const { return std::basic_string_view<Ch>(p, n); }
};
template <class Ch> static std::basic_string<Ch> widen(const std::string& s) { std::basic_string<Ch> r; for (unsigned char ch : s) r.push_back(static_cast<Ch>(ch)); return r; }

static int digitsOf(i128 v) { if (v < 0) v = -v; int n = 1; while (v >= 10) { v /= 10; ++n; } return n; }
static const char* yearClass(i128 y) {
	int d = digitsOf(y);
	if (y < 0) return d <= 3 ? "yneg1to3" : d == 4 ? "yneg4" : d <= 15 ? "yneg5to15" : d == 16 ? "yneg16" : "yneg17plus";
	return d <= 4 ? "y0000_9999" : d <= 15 ? "ypos5to15" : d == 16 ? "ypos16" : "ypos17plus";
}
template <class T> static const char* posClass(i128 dayIdx) {
	if (dayIdx == cal::fdiv(T::minC() * T::unitNs(), DAY_NS)) return "first_day_of_range";
	if (dayIdx == cal::fdiv(T::maxC() * T::unitNs(), DAY_NS)) return "last_day_of_range";
	return "interior";
}
// cause class of an instant: its position in the type's range and the form of its year
static std::string instantClass(const char* pos, i128 year) {
	const std::string yc = yearClass(year);
	if (std::string(pos) == "interior") return yc;
	const bool special = yc == "yneg1to3" || yc == "yneg16" || yc == "yneg17plus" || yc == "ypos16" || yc == "ypos17plus";
	return special ? std::string(pos) + "+" + yc : std::string(pos);
}
// cause class for the binary timestamp form: sign of the value and of its sub-second part
static const char* binClass(i128 valueNs) {
	const i128 sec = valueNs / cal::NS_PER_S, fr = valueNs % cal::NS_PER_S;   // truncating, like duration_cast
	if (fr < 0) return sec == 0 ? "bin_neg_fraction_zero_seconds" : "bin_neg_fraction";
	if (fr > 0) return valueNs < 0 ? "bin_neg" : "bin_pos_fraction";
	return valueNs < 0 ? "bin_neg_whole" : "bin_nonneg_whole";
}
static std::string excName(const std::exception& e) { return bsx::demangle(typeid(e).name()); }

// per-execution bookkeeping that must not grow with the number of inner cases
struct Book {
	bsx::Ctx& c; std::set<std::string> outcomes; std::map<std::string, int> perSig; uint64_t n = 0;
	explicit Book(bsx::Ctx& cx) : c(cx) {}
	void out(const char* o) { if (!outcomes.count(o)) outcomes.insert(o); }
	void viol(const std::string& sig, const std::string& detail) { int& k = perSig[sig]; ++k; c.violation(sig, k <= 3 ? detail : std::string()); }
	~Book() { for (auto& o : outcomes) c.outcome(o); c.evals(n); }
};

template <class T> struct Holder {
	T v{}; std::map<T, int> m;
	template <class A> void Serialize(A& a) { a << BS::KeyValue("v", v) << BS::KeyValue("m", m); }
};
struct TimeHolder {
	time_t t = 0;
	template <class A> void Serialize(A& a) { a << BS::KeyValue("t", BS::CTimeRef(t)); }
};

// binary timestamp: holds exactly the value, converts back to it. X = time_point or duration.
// Signature class = sign of the value / of its sub-second part (what the binary form depends on).
template <class T, class X> static void checkBinTs(Book& b, const std::string& pfx, const X& x, i128 valueNs, const std::string& what) {
	using BS::Detail::CBinTimestamp;
	const i128 sec = valueNs / cal::NS_PER_S;
	const bool secFits = sec >= std::numeric_limits<int64_t>::min() && sec <= std::numeric_limits<int64_t>::max();
	auto sig = [&] { return pfx + "/class=" + binClass(valueNs); };
	try {
		CBinTimestamp ts = BS::Convert::To<CBinTimestamp>(x);
		i128 v = static_cast<i128>(ts.Seconds) * cal::NS_PER_S + ts.Nanoseconds;
		if (v != valueNs || ts.Nanoseconds > 999999999 || ts.Nanoseconds < -999999999) { b.viol(sig() + "/out=bints_wrong_value", what + " -> CBinTimestamp(" + ts.ToString() + ") does not hold the value"); return; }
		b.out(ts.Nanoseconds < 0 ? "bints:negative_nanoseconds" : "bints:ok");
		X back = BS::Convert::To<X>(ts);
		if (!(back == x)) b.viol(sig() + "/out=bints_roundtrip_differs", what + " -> CBinTimestamp(" + ts.ToString() + ") -> different value");
	}
	catch (const std::out_of_range& e) {
		if (secFits) b.viol(sig() + "/out=bints_threw:std::out_of_range", what + " <-> CBinTimestamp threw out_of_range: " + e.what());
		else b.out("bints:out_of_range_seconds_exceed_int64");
	}
	catch (const std::exception& e) { b.viol(sig() + "/out=bints_threw:" + excName(e), what + " <-> CBinTimestamp threw " + e.what()); }
}

// archives: value and map key through MsgPack (binary timestamp) and JSON (ISO text; only when the text round trip works)
template <class X> static void checkArchives(Book& b, const std::string& pfx, const std::string& cls, const X& x, i128 valueNs, bool textRoundTripOk, const std::string& what) {
	const i128 sec = valueNs / cal::NS_PER_S;
	const bool binRepresentable = sec >= std::numeric_limits<int64_t>::min() && sec <= std::numeric_limits<int64_t>::max();
	Holder<X> h; h.v = x; h.m[x] = 7;
	{
		Holder<X> h2; std::string bytes; const std::string sig = pfx + "/class=" + binClass(valueNs);
		auto o = lib::guard([&] { bytes = BS::SaveObject<MP>(h); BS::LoadObject<MP>(h2, bytes); });
		if (o.ok()) { if (!(h2.v == x) || h2.m != h.m) b.viol(sig + "/out=msgpack_roundtrip_differs", what + " bytes=" + bsx::hex(bytes)); else b.out("msgpack:ok"); }
		else if (!binRepresentable && o.cls == "ser:Overflow") b.out("msgpack:Overflow_seconds_exceed_int64");
		else b.viol(sig + "/out=msgpack_threw:" + o.cls, what + " " + o.what);
	}
	if (textRoundTripOk) {
		Holder<X> h2; std::string js; const std::string sig = pfx + "/class=" + cls;
		auto o = lib::guard([&] { js = BS::SaveObject<JS>(h); BS::LoadObject<JS>(h2, js); });
		if (o.ok()) { if (!(h2.v == x) || h2.m != h.m) b.viol(sig + "/out=json_roundtrip_differs", what + " json=" + js); else b.out("json:ok"); }
		else b.viol(sig + "/out=json_threw:" + o.cls, what + " " + o.what + " json=" + js);
	}
}

template <class X, class Ch> static const char* wideRoundTrip(const X& x, const std::string& text) {
	auto w = BS::Convert::To<std::basic_string<Ch>>(x);
	if (w != widen<Ch>(text)) return "print_differs";
	Exact<Ch> ex(w);
	X back = BS::Convert::To<X>(ex.sv());
	return back == x ? nullptr : "parse_back_differs";
}
template <class X> static void checkWide(Book& b, const std::string& sig, const X& x, const std::string& text, const std::string& what) {
	try {
		if (auto w = wideRoundTrip<X, char16_t>(x, text)) b.viol(sig + "/out=utf16_" + w, what);
		if (auto w = wideRoundTrip<X, char32_t>(x, text)) b.viol(sig + "/out=utf32_" + w, what);
		if (auto w = wideRoundTrip<X, wchar_t>(x, text)) b.viol(sig + "/out=wchar_" + w, what);
	}
	catch (const std::exception& e) { b.viol(sig + "/out=wide_threw:" + excName(e), what + " " + e.what()); }
}

// ---- one time point ----------------------------------------------------------------------------------------
// expect: reference text; alt: reference text without the fraction when the fraction is zero (the library
// documents "fractions are rendered only when present", the tests pin the fixed width) — both accepted.
// A failing parse of a text that is already reported as wrong is a consequence and not reported again.
template <class T> static void checkTp(Book& b, const std::string& pfx, const std::string& cls, typename T::rep count, const std::string& expect, const std::string& alt, bool heavy) {
	using TP = typename T::TP; using D = typename T::D;
	++b.n;
	const TP tp{D{count}};
	const i128 valueNs = static_cast<i128>(count) * T::unitNs();
	auto what = [&] { return "time_point<" + T::tag() + "> count=" + std::to_string(count) + " expected '" + expect + "'"; };
	auto sig = [&] { return pfx + "/class=" + cls; };
	std::string text; bool printed = false, ok = false;
	try { text = BS::Convert::ToString(tp); printed = true; }
	catch (const std::exception& e) { b.viol(sig() + "/out=print_threw:" + excName(e), what() + ": " + e.what()); }
	if (printed) {
		const bool textOk = text == expect || (!alt.empty() && text == alt);
		if (!textOk) b.viol(sig() + "/out=text_mismatch", what() + " printed '" + text + "'");
		Exact<char> ex(text);
		try {
			TP back = BS::Convert::To<TP>(ex.sv());
			if (back == tp) { ok = textOk; if (ok) b.out("tp:ok"); }
			else if (textOk) b.viol(sig() + "/out=parse_back_differs", what() + " printed '" + text + "' parsed back as count=" + std::to_string(back.time_since_epoch().count()));
		}
		catch (const std::exception& e) { if (textOk) b.viol(sig() + "/out=parse_back_threw:" + excName(e), what() + " printed '" + text + "', parsing it threw: " + e.what()); }
	}
	checkBinTs<T>(b, pfx, tp, valueNs, what());
	if (heavy) {
		if (ok) checkWide(b, sig(), tp, text, what());
		if constexpr (sizeof(typename T::rep) == 8) checkArchives(b, pfx, cls, tp, valueNs, ok, what());
	}
}

// ---- one duration --------------------------------------------------------------------------------------------
template <class T> static void checkDur(Book& b, const std::string& pfx, const std::string& cls, typename T::rep count, bool heavy) {
	using D = typename T::D;
	++b.n;
	const D d{count};
	const i128 valueNs = static_cast<i128>(count) * T::unitNs();
	auto what = [&] { return "duration<" + T::tag() + "> count=" + std::to_string(count); };
	auto sig = [&] { return pfx + "/class=" + cls; };
	std::string text; bool printed = false, ok = false;
	try { text = BS::Convert::ToString(d); printed = true; }
	catch (const std::exception& e) { b.viol(sig() + "/out=print_threw:" + excName(e), what() + ": " + e.what()); }
	if (printed) {
		bool textOk = false;
		auto rp = cal::parseDurationStrict(text);
		if (!rp.ok) b.viol(sig() + "/out=text_outside_grammar", what() + " printed '" + text + "'");
		else if (rp.ns() != valueNs) b.viol(sig() + "/out=text_denotes_other_value", what() + " printed '" + text + "' which denotes " + i128str(rp.ns()) + " ns");
		else textOk = true;
		Exact<char> ex(text);
		try {
			D back = BS::Convert::To<D>(ex.sv());
			if (back == d) { ok = textOk; if (ok) b.out("dur:ok"); }
			else if (textOk) b.viol(sig() + "/out=parse_back_differs", what() + " printed '" + text + "' parsed back as count=" + std::to_string(back.count()));
		}
		catch (const std::exception& e) { if (textOk) b.viol(sig() + "/out=parse_back_threw:" + excName(e), what() + " printed '" + text + "', parsing it threw: " + e.what()); }
	}
	checkBinTs<T>(b, pfx, d, valueNs, what());
	if (heavy) {
		if (ok) checkWide(b, sig(), d, text, what());
		if constexpr (sizeof(typename T::rep) == 8) checkArchives(b, pfx, cls, d, valueNs, ok, what());
	}
}

// ---- time_t ------------------------------------------------------------------------------------------------------
static void checkRaw(Book& b, const std::string& cls, int64_t t, const std::string& expect, bool heavy) {
	++b.n;
	auto what = [&] { return "time_t " + std::to_string(t) + " expected '" + expect + "'"; };
	auto sig = [&] { return "C14/time_t/class=" + cls; };
	std::string text; bool printed = false, ok = false;
	try { text = BS::Convert::ToString(BS::CRawTime(static_cast<time_t>(t))); printed = true; }
	catch (const std::exception& e) { b.viol(sig() + "/out=print_threw:" + excName(e), what() + ": " + e.what()); }
	if (printed) {
		const bool textOk = text == expect;
		if (!textOk) b.viol(sig() + "/out=text_mismatch", what() + " printed '" + text + "'");
		Exact<char> ex(text);
		try {
			time_t back = BS::Convert::To<BS::CRawTime>(ex.sv());
			if (back == static_cast<time_t>(t)) { ok = textOk; if (ok) b.out("time_t:ok"); }
			else if (textOk) b.viol(sig() + "/out=parse_back_differs", what() + " printed '" + text + "' parsed back as " + std::to_string(back));
		}
		catch (const std::exception& e) { if (textOk) b.viol(sig() + "/out=parse_back_threw:" + excName(e), what() + " printed '" + text + "', parsing it threw: " + e.what()); }
	}
	if (heavy) {
		TimeHolder h; h.t = static_cast<time_t>(t);
		{ TimeHolder h2; h2.t = 12345; std::string bytes; auto o = lib::guard([&] { bytes = BS::SaveObject<MP>(h); BS::LoadObject<MP>(h2, bytes); });
		  if (!o.ok()) b.viol(sig() + "/out=msgpack_threw:" + o.cls, what() + " " + o.what); else if (h2.t != h.t) b.viol(sig() + "/out=msgpack_roundtrip_differs", what() + " bytes=" + bsx::hex(bytes)); else b.out("msgpack:ok"); }
		if (ok) { TimeHolder h2; h2.t = 12345; std::string js; auto o = lib::guard([&] { js = BS::SaveObject<JS>(h); BS::LoadObject<JS>(h2, js); });
		  if (!o.ok()) b.viol(sig() + "/out=json_threw:" + o.cls, what() + " " + o.what + " json=" + js); else if (h2.t != h.t) b.viol(sig() + "/out=json_roundtrip_differs", what() + " json=" + js); else b.out("json:ok"); }
	}
}
static std::string rawClass(i128 dayIdx, i128 year) {
	const i128 lo = std::numeric_limits<int64_t>::min(), hi = std::numeric_limits<int64_t>::max();
	return instantClass(dayIdx == cal::fdiv(lo, 86400) ? "first_day_of_range" : dayIdx == cal::fdiv(hi, 86400) ? "last_day_of_range" : "interior", year);
}

// ---- bounds per tier and build flavour ----------------------------------------------------------------------------
struct YearRange { long long from, to; };   // inclusive
static std::vector<YearRange> sweepRanges(const std::string& tier) {
	const bool th = tier == "thorough";
	if (kFast) return th ? std::vector<YearRange>{{-10000, 20000}} : std::vector<YearRange>{{-1000, 4000}};
	return th ? std::vector<YearRange>{{-10000, 20000}} : std::vector<YearRange>{{-60, 60}, {1560, 2440}, {9960, 10040}};
}
constexpr long long BLOCK_YEARS = 64;
struct SweepBlock { long long from, to; };   // [from, to)
static std::vector<SweepBlock> sweepBlocks(const std::string& tier) {
	std::vector<SweepBlock> r;
	for (auto& yr : sweepRanges(tier)) for (long long y = yr.from; y <= yr.to; y += BLOCK_YEARS) r.push_back({y, std::min(y + BLOCK_YEARS, yr.to + 1)});
	return r;
}

struct NamedDay { std::string name; i128 day; };
static std::vector<NamedDay> selectedDays() {
	std::vector<NamedDay> r;
	auto civil = [&](const char* n, long long y, int m, int d) { r.push_back({n, cal::daysFromCivil(y, m, d)}); };
	civil("epoch", 1970, 1, 1); civil("day_before_epoch", 1969, 12, 31); civil("leap_day_2000", 2000, 2, 29); civil("feb28_1900", 1900, 2, 28); civil("mar01_1900", 1900, 3, 1);
	civil("leap_day_2400", 2400, 2, 29); civil("dec31_2399", 2399, 12, 31); civil("feb28_2100", 2100, 2, 28); civil("leap_day_2024", 2024, 2, 29);
	civil("jan01_0000", 0, 1, 1); civil("dec31_-0001", -1, 12, 31); civil("leap_day_0000", 0, 2, 29); civil("dec31_9999", 9999, 12, 31); civil("jan01_10000", 10000, 1, 1);
	civil("dec31_-1000", -1000, 12, 31); civil("jan01_-9999", -9999, 1, 1); civil("dec31_-10000", -10000, 12, 31);
	for (int t = 0; t < NTYPES; ++t) withType(t, [&](auto tag) {
		using T = decltype(tag);
		r.push_back({"first_day_" + T::tag(), cal::fdiv(T::minC() * T::unitNs(), DAY_NS)});
		r.push_back({"last_day_" + T::tag(), cal::fdiv(T::maxC() * T::unitNs(), DAY_NS)});
	});
	std::vector<NamedDay> u;   // dedupe by day index, keep the first name
	for (auto& d : r) { bool dup = false; for (auto& e : u) if (e.day == d.day) dup = true; if (!dup) u.push_back(d); }
	return u;
}
static const std::vector<NamedDay> gDays = selectedDays();

template <class T> static std::vector<i128> lattice() {
	std::set<i128> s; s.insert(0);
	const int bits = static_cast<int>(sizeof(typename T::rep) * 8);
	for (int k = 0; k <= bits - 2; ++k) for (int sg = -1; sg <= 1; sg += 2) for (int o = -1; o <= 1; ++o) {
		i128 v = sg * (static_cast<i128>(1) << k) + o; if (v >= T::minC() && v <= T::maxC()) s.insert(v);
	}
	for (int i = 0; i <= 3; ++i) { s.insert(T::minC() + i); s.insert(T::maxC() - i); }
	return std::vector<i128>(s.begin(), s.end());
}

// ---------------------------------------------------------------------------------------------------- scenarios
static void tickFn();
static bsx::Ctx* gCtx = nullptr;
static void tickFn() { if (gCtx) gCtx->heartbeat(); }

static void scenSelftest(bsx::Ctx& c) {
	c.choose(1, "x"); c.choose(1, "y");
	c.describe("C14/selftest", "reference calendar self test");
	long long lo = 0, hi = 0; for (auto& r : sweepRanges(c.tier)) { lo = std::min(lo, r.from); hi = std::max(hi, r.to); }
	std::string err; gCtx = &c;
	bool ok = cal::selftest(err, lo - 1, hi + 1, tickFn);
	gCtx = nullptr;
	c.outcome(ok ? "selftest:ok" : "selftest:failed");
	c.evals(static_cast<uint64_t>((hi - lo + 2) * 366));
	c.nontrivial("selftest");
	if (!ok) c.violation("C14/selftest/out=ref_selfcheck", "reference calendar self test failed: " + err);
}

static void scenSweep(bsx::Ctx& c) {
	int type = c.choose(NTYPES + 1, "type");
	auto blocks = sweepBlocks(c.tier);
	int bi = c.choose(static_cast<int>(blocks.size()), "block");
	const SweepBlock blk = blocks[static_cast<size_t>(bi)];
	Book b(c);
	cal::Walker w; { i128 d0 = cal::daysFromCivil(blk.from, 1, 1); w.day = static_cast<long long>(d0); w.y = blk.from; w.m = 1; w.d = 1; }
	const std::string where = "every day of years " + std::to_string(blk.from) + ".." + std::to_string(blk.to - 1);
	if (type == RAWTIME) {
		c.describe("C14/time_t/class=sweep_block", where);
		for (; w.y < blk.to; w.next()) {
			if (w.m == 1 && w.d == 1) { c.nontrivial("raw/" + std::to_string(w.y)); c.heartbeat(); }
			const std::string date = cal::formatDate(w.date());
			const std::string cls = yearClass(w.y);
			checkRaw(b, cls, w.day * cal::S_PER_DAY, date + "T00:00:00Z", false);
			checkRaw(b, cls, w.day * cal::S_PER_DAY + 86399, date + "T23:59:59Z", false);
		}
	}
	else withType(type, [&](auto tag) {
		using T = decltype(tag);
		const std::string pfx = "C14/tp/" + T::tag();
		c.describe(pfx + "/class=sweep_block", where);
		const i128 U = T::unitNs();
		const std::string z0 = cal::formatTime(0, 0, T::fd);
		const i128 lastOff = DAY_NS - U;   // last representable instant of the day
		const cal::Instant li = cal::splitNs(lastOff);
		const std::string z1 = cal::formatTime(li.sod, li.fracNs, T::fd);
		for (; w.y < blk.to; w.next()) {
			if (w.m == 1 && w.d == 1) { c.nontrivial(T::tag() + "/" + std::to_string(w.y)); c.heartbeat(); }
			const i128 dayNs = static_cast<i128>(w.day) * DAY_NS;
			if (dayNs < T::minC() * U || dayNs + lastOff > T::maxC() * U) continue;   // partial boundary days: scenario 2
			const std::string date = cal::formatDate(w.date());
			const std::string cls = yearClass(w.y);
			checkTp<T>(b, pfx, cls, static_cast<typename T::rep>(dayNs / U), date + "T" + z0 + "Z", T::fd ? date + "T00:00:00Z" : std::string(), false);
			if (lastOff != 0) checkTp<T>(b, pfx, cls, static_cast<typename T::rep>((dayNs + lastOff) / U), date + "T" + z1 + "Z", std::string(), false);
		}
		if (blk.from <= 2000 && 2000 < blk.to) c.sample("time_point<" + T::tag() + "> " + where + ", first and last instant of each day");
	});
	// the walker must have arrived where the closed form says the next block starts
	if (static_cast<i128>(w.day) != cal::daysFromCivil(blk.to, 1, 1)) c.violation("C14/sweep/out=ref_selfcheck", "walker and closed form disagree at the end of " + where);
}

static void scenSeconds(bsx::Ctx& c) {
	int type = c.choose(NTYPES + 1, "type");
	int di = c.choose(static_cast<int>(gDays.size()), "day");
	int hour = c.choose(24, "hour");
	const NamedDay& nd = gDays[static_cast<size_t>(di)];
	Book b(c);
	const cal::Date date = cal::civilFromDays(nd.day);
	const std::string ds = cal::formatDate(date);
	if (type == RAWTIME) {
		const i128 lo = std::numeric_limits<int64_t>::min(), hi = std::numeric_limits<int64_t>::max();
		const std::string cls = rawClass(nd.day, date.y);
		c.describe("C14/time_t/class=" + cls, nd.name + " " + ds + " hour " + std::to_string(hour));
		for (int s = hour * 3600; s < hour * 3600 + 3600; ++s) {
			i128 v = nd.day * cal::S_PER_DAY + s; if (v < lo || v > hi) continue;
			checkRaw(b, cls, static_cast<int64_t>(v), ds + "T" + cal::formatTime(s, 0, 0) + "Z", false);
		}
		if (b.n) c.nontrivial("raw/" + nd.name + std::to_string(hour));
		return;
	}
	withType(type, [&](auto tag) {
		using T = decltype(tag);
		const i128 U = T::unitNs();
		const std::string pfx = "C14/tp/" + T::tag(), cls = instantClass(posClass<T>(nd.day), date.y);
		c.describe(pfx + "/class=" + cls, nd.name + " " + ds + " hour " + std::to_string(hour));
		std::vector<long long> fr{0};
		if (U < cal::NS_PER_S) { const long long u = static_cast<long long>(U); std::set<long long> f{0, u, cal::NS_PER_S - u, 123456789 / u * u, 100000000ll / u * u}; fr.assign(f.begin(), f.end()); }
		for (int s = hour * 3600; s < hour * 3600 + 3600; ++s) {
			if (U > cal::NS_PER_S && (static_cast<i128>(s) * cal::NS_PER_S) % U != 0) continue;
			for (long long f : fr) {
				const i128 v = nd.day * DAY_NS + static_cast<i128>(s) * cal::NS_PER_S + f;
				if (v < T::minC() * U || v > T::maxC() * U) continue;
				checkTp<T>(b, pfx, cls, static_cast<typename T::rep>(v / U), ds + "T" + cal::formatTime(s, f, T::fd) + "Z", (f == 0 && T::fd) ? ds + "T" + cal::formatTime(s, 0, 0) + "Z" : std::string(), false);
			}
		}
		if (b.n) c.nontrivial(T::tag() + nd.name + std::to_string(hour));
		if (b.n && hour == 0 && di == 2) c.sample("time_point<" + T::tag() + "> every second of " + ds + " hour 0 x fraction classes");
	});
}

static void scenLattice(bsx::Ctx& c) {
	int kt = c.choose(2 * NTYPES + 1, "kind_type");   // 0..13 time_point, 14..27 duration, 28 time_t
	if (kt == 2 * NTYPES) {
		static const std::vector<i128> vals = lattice<TT<int64_t, 3>>();
		int vi = c.choose(static_cast<int>(vals.size()), "value");
		const i128 v = vals[static_cast<size_t>(vi)];
		const cal::Instant in = cal::splitNs(v * cal::NS_PER_S); const cal::Date date = cal::civilFromDays(in.days);
		const std::string cls = rawClass(in.days, date.y);
		c.describe("C14/time_t/class=" + cls, "time_t " + i128str(v));
		Book b(c); c.nontrivial("raw" + i128str(v));
		checkRaw(b, cls, static_cast<int64_t>(v), cal::formatDateTime(date, in.sod, 0, 0), true);
		return;
	}
	const bool isDur = kt >= NTYPES;
	withType(kt % NTYPES, [&](auto tag) {
		using T = decltype(tag);
		static const std::vector<i128> vals = lattice<T>();
		int vi = c.choose(static_cast<int>(vals.size()), "value");
		const i128 v = vals[static_cast<size_t>(vi)];
		const i128 ns = v * T::unitNs();
		Book b(c); c.nontrivial((isDur ? "d" : "t") + T::tag() + i128str(v));
		if (isDur) {
			const std::string pfx = "C14/dur/" + T::tag();
			const std::string cls = std::string(v == 0 ? "zero" : v == T::minC() ? "min" : v == T::maxC() ? "max" : v < 0 ? "neg" : "pos") + (ns % cal::NS_PER_S ? "_frac" : "");
			c.describe(pfx + "/class=" + cls, "duration count " + i128str(v));
			checkDur<T>(b, pfx, cls, static_cast<typename T::rep>(v), true);
			if (vi == 5) c.sample("duration<" + T::tag() + "> count " + i128str(v));
		} else {
			const cal::Instant in = cal::splitNs(ns); const cal::Date date = cal::civilFromDays(in.days);
			const std::string pfx = "C14/tp/" + T::tag(), cls = instantClass(posClass<T>(in.days), date.y);
			c.describe(pfx + "/class=" + cls, "time_point count " + i128str(v) + " = " + cal::formatDateTime(date, in.sod, in.fracNs, T::fd));
			checkTp<T>(b, pfx, cls, static_cast<typename T::rep>(v), cal::formatDateTime(date, in.sod, in.fracNs, T::fd), (in.fracNs == 0 && T::fd) ? cal::formatDateTime(date, in.sod, 0, 0) : std::string(), true);
		}
	});
}

static void scenDurations(bsx::Ctx& c) {
	int type = c.choose(NTYPES, "type");
	int blk = c.choose(17, "block");   // 0: structured, 1..16: slices of the contiguous range
	const bool th = c.tier == "thorough";
	const long long N = kFast ? (th ? 4000000 : 400000) : (th ? 200000 : 40000);
	withType(type, [&](auto tag) {
		using T = decltype(tag);
		const i128 U = T::unitNs();
		const std::string pfx = "C14/dur/" + T::tag();
		Book b(c);
		auto clsOf = [&](i128 cnt) { return std::string(cnt == 0 ? "zero" : cnt == T::minC() ? "min" : cnt == T::maxC() ? "max" : cnt < 0 ? "neg" : "pos") + ((cnt * U) % cal::NS_PER_S ? "_frac" : ""); };
		if (blk == 0) {
			c.describe(pfx + "/class=structured_block", "structured duration values");
			std::set<i128> fracs{0};
			if (U < cal::NS_PER_S) { for (i128 p = U; p < cal::NS_PER_S; p *= 10) { fracs.insert(p); fracs.insert(9 * p); } fracs.insert(cal::NS_PER_S - U); fracs.insert(123456789 / U * U); }
			static const long long ds[] = {0, 1, 2, 7, 106751, 24855}, hs[] = {0, 1, 23}, ms[] = {0, 1, 59}, ss[] = {0, 1, 59};
			for (long long d : ds) for (long long h : hs) for (long long m : ms) for (long long s : ss) for (i128 f : fracs) for (int sg = -1; sg <= 1; sg += 2) {
				i128 ns = sg * ((((static_cast<i128>(d) * 24 + h) * 60 + m) * 60 + s) * cal::NS_PER_S + f);
				if (ns % U != 0) continue; i128 cnt = ns / U; if (cnt < T::minC() || cnt > T::maxC()) continue;
				checkDur<T>(b, pfx, clsOf(cnt), static_cast<typename T::rep>(cnt), false);
			}
			c.nontrivial("structured" + T::tag());
		} else {
			const long long per = (2 * N + 1 + 15) / 16, from = -N + (blk - 1) * per, to = std::min(N, from + per - 1);
			c.describe(pfx + "/class=range_block", "counts " + std::to_string(from) + ".." + std::to_string(to));
			for (long long v = from; v <= to; ++v) {
				if (v < T::minC() || v > T::maxC()) continue;
				if ((v & 8191) == 0) c.heartbeat();
				checkDur<T>(b, pfx, clsOf(v), static_cast<typename T::rep>(v), false);
			}
			c.nontrivial("range" + T::tag() + std::to_string(blk));
			if (blk == 9) c.sample("duration<" + T::tag() + "> counts " + std::to_string(from) + ".." + std::to_string(to));
		}
	});
}

static void body(bsx::Ctx& c) {
	int scen = c.choose(5, "scenario");
	switch (scen) {
	case 0: scenSelftest(c); break;
	case 1: scenSweep(c); break;
	case 2: scenSeconds(c); break;
	case 3: scenLattice(c); break;
	default: scenDurations(c); break;
	}
}

int main(int argc, char** argv) {
	bsx::Config cfg; cfg.part_depth = 3; cfg.max_dev = 0; cfg.hang_s = 15;
	bsx::Engine e("C14", body, cfg);
	return e.main(argc, argv);
}
