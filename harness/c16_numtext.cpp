// C16 — number <-> text conversion is lossless; numeric parsing is total and range-checked.
// E1, exhaustive inside the stated alphabets:
//  (1) ToString of every value of every 8/16-bit integer type and of the +-2^k, +-2^k+-1 lattice of the
//      32/64-bit types, in four string widths: canonical decimal text, To<T>(text) == x, TryTo agrees;
//  (2) ToString of floats (every exponent x 64 mantissa patterns x sign; `fast` variant: all 2^32 bit
//      patterns) and of doubles on a lattice: the text is a decimal literal that glibc strtof/strtod
//      maps back to the identical bits, no decimal with fewer significant digits does, and the
//      library's own parser maps it back too;
//  (3) the parser on every string of length <= 5 (thorough 6) over a 13-symbol alphabet, on digit-run /
//      exponent / halfway / boundary families and on bool / inf / nan words, for 14 targets x 4 string
//      widths x {To, TryTo}: outcome = what ref/ref_numparse.hpp says about the leading literal.
// Oracle facts come from ref/ref_numparse.hpp (own grammar, __int128, glibc strto*); the accepted outcome
// sets (where the property statement leaves room) are in expect*() below and listed in checks.d/C16.py.
#include "engine/bsx.hpp"
#include "ref/ref_numparse.hpp"
#include "bitserializer/convert.h"
#include <map>
#include <optional>
#include <set>
#include <string>
#include <vector>

namespace rn = ref::num;
namespace BC = BitSerializer::Convert;
using rn::i128; using rn::u128;

// ------------------------------------------------------------------------------------------
// strings in four widths
static const char* kWidth[4] = {"char", "char16", "char32", "wchar"};
struct W4 { std::string a; std::u16string b; std::u32string c; std::wstring d; };

static W4 widths(const std::u32string& s) {
	W4 w;
	for (char32_t c : s) {
		if (c < 0x80) w.a.push_back(static_cast<char>(c));
		else if (c < 0x800) { w.a.push_back(static_cast<char>(0xC0 | (c >> 6))); w.a.push_back(static_cast<char>(0x80 | (c & 0x3F))); }
		else if (c < 0x10000) { w.a.push_back(static_cast<char>(0xE0 | (c >> 12))); w.a.push_back(static_cast<char>(0x80 | ((c >> 6) & 0x3F))); w.a.push_back(static_cast<char>(0x80 | (c & 0x3F))); }
		else { w.a.push_back(static_cast<char>(0xF0 | (c >> 18))); w.a.push_back(static_cast<char>(0x80 | ((c >> 12) & 0x3F))); w.a.push_back(static_cast<char>(0x80 | ((c >> 6) & 0x3F))); w.a.push_back(static_cast<char>(0x80 | (c & 0x3F))); }
		if (c < 0x10000) w.b.push_back(static_cast<char16_t>(c));
		else { char32_t v = c - 0x10000; w.b.push_back(static_cast<char16_t>(0xD800 + (v >> 10))); w.b.push_back(static_cast<char16_t>(0xDC00 + (v & 0x3FF))); }
		w.c.push_back(c);
		w.d.push_back(static_cast<wchar_t>(c));
	}
	return w;
}
template <class F> static void forWidths(const W4& w, F&& f) { f(0, w.a); f(1, w.b); f(2, w.c); f(3, w.d); }

static std::string showSyms(const std::u32string& s) {
	std::string r = "\"";
	for (char32_t c : s) {
		if (c == U'\t') r += "\\t"; else if (c == 0) r += "\\0"; else if (c == U'"' || c == U'\\') { r.push_back('\\'); r.push_back(static_cast<char>(c)); }
		else if (c >= 0x20 && c < 0x7f) r.push_back(static_cast<char>(c));
		else r += bsx::fmt("\\u{%x}", static_cast<unsigned>(c));
	}
	if (r.size() > 160) r = r.substr(0, 100) + "...(" + std::to_string(s.size()) + " symbols)..." + r.substr(r.size() - 40);
	return r + "\"";
}
template <class Ch> static bool narrowAscii(const std::basic_string<Ch>& s, std::string& out) {
	out.clear();
	for (Ch c : s) { auto v = static_cast<uint32_t>(static_cast<std::make_unsigned_t<Ch>>(c)); if (v >= 0x80) return false; out.push_back(static_cast<char>(v)); }
	return true;
}

// ------------------------------------------------------------------------------------------
// result of one library conversion
struct Res {
	enum K { Value, OOR, Inv, Other } k = Other;
	bool isFloat = false, nan = false; i128 iv = 0; uint64_t fb = 0; double shown = 0; std::string what;
	bool sameAs(const Res& o) const {
		if (k != o.k) return false;
		if (k == Other) return what == o.what;
		if (k != Value) return true;
		if (isFloat) return (nan && o.nan) || (!nan && !o.nan && fb == o.fb);
		return iv == o.iv;
	}
	const char* kname() const { return k == Value ? "value" : k == OOR ? "out_of_range" : k == Inv ? "invalid_argument" : "other_exception"; }
	std::string show() const {
		if (k == Value) return isFloat ? bsx::fmt("%.17g (bits %llx)", shown, static_cast<unsigned long long>(fb)) : rn::toDecimal(iv);
		return k == Other ? "exception " + what : kname();
	}
};
template <class T> static void setVal(Res& r, T v) {
	r.k = Res::Value;
	if constexpr (std::is_floating_point_v<T>) { r.isFloat = true; r.nan = std::isnan(v); r.fb = rn::bitsOf(v); r.shown = static_cast<double>(v); }
	else r.iv = static_cast<i128>(v);
}
template <class T, class Ch> static Res callTo(const std::basic_string<Ch>& s) {
	Res r;
	try { T v = BC::To<T>(s); setVal(r, v); }
	catch (const std::out_of_range&) { r.k = Res::OOR; }
	catch (const std::invalid_argument&) { r.k = Res::Inv; }
	catch (const std::exception& e) { r.k = Res::Other; r.what = bsx::demangle(typeid(e).name()); }
	catch (...) { r.k = Res::Other; r.what = "nonstd"; }
	return r;
}
template <class T, class Ch> static Res callTry(const std::basic_string<Ch>& s) {
	Res r; std::optional<T> o = BC::TryTo<T>(s);
	if (o) setVal(r, *o); else { r.k = Res::Other; r.what = "empty"; }
	return r;
}

// ------------------------------------------------------------------------------------------
// per-execution collector: violations are aggregated per signature so that a block of 10^5..10^6 inner
// cases reports each signature once (with the number of cases in the block)
struct J {
	bsx::Ctx& c;
	std::map<std::string, std::pair<uint64_t, std::string>> viol;
	std::set<std::string> outcomes; uint64_t evals = 0;
	explicit J(bsx::Ctx& cc) : c(cc) {}
	void violation(const std::string& sig, const std::string& detail) { auto& e = viol[sig]; if (e.first++ == 0) e.second = detail; }
	void outcome(const std::string& o) { outcomes.insert(o); }
	void flush() {
		for (auto& kv : viol) c.violation(kv.first, kv.second.second + (kv.second.first > 1 ? bsx::fmt(" [%llu cases with this signature in this execution]", static_cast<unsigned long long>(kv.second.first)) : std::string()));
		for (auto& o : outcomes) c.outcome(o);
		if (evals) c.evals(evals);
	}
};

// ------------------------------------------------------------------------------------------
// targets
template <class T> struct Tag { using type = T; };
enum { T_CHAR, T_I8, T_U8, T_I16, T_U16, T_I32, T_U32, T_I64, T_U64, T_LL, T_ULL, T_F32, T_F64, T_BOOL, T_COUNT };
static const char* kTarget[T_COUNT] = {"char", "i8", "u8", "i16", "u16", "i32", "u32", "i64", "u64", "llong", "ullong", "float", "double", "bool"};
template <class F> static void withTarget(int t, F&& f) {
	switch (t) {
	case T_CHAR: f(Tag<char>{}); break; case T_I8: f(Tag<int8_t>{}); break; case T_U8: f(Tag<uint8_t>{}); break;
	case T_I16: f(Tag<int16_t>{}); break; case T_U16: f(Tag<uint16_t>{}); break; case T_I32: f(Tag<int32_t>{}); break;
	case T_U32: f(Tag<uint32_t>{}); break; case T_I64: f(Tag<int64_t>{}); break; case T_U64: f(Tag<uint64_t>{}); break;
	case T_LL: f(Tag<long long>{}); break; case T_ULL: f(Tag<unsigned long long>{}); break;
	case T_F32: f(Tag<float>{}); break; case T_F64: f(Tag<double>{}); break; case T_BOOL: f(Tag<bool>{}); break;
	}
}

// ------------------------------------------------------------------------------------------
// literal classes (named alphabet symbols only) and accepted outcomes
static const char* symClass(char32_t c) {
	if (rn::isBlank(c)) return "blank"; if (c == U'+') return "plus"; if (c == U'-') return "minus"; if (rn::isDigit(c)) return "digit";
	if (c == U'.') return "dot"; if (c == U'e' || c == U'E') return "letter_e"; if (c == U'x' || c == U'X') return "letter_x";
	if ((c >= U'a' && c <= U'z') || (c >= U'A' && c <= U'Z')) return "letter"; if (c == 0) return "nul"; if (c >= 0x80) return "non_ascii";
	return "other";
}
static std::string signPart(const rn::Scan& sc) { return sc.sign == '-' ? "minus." : sc.sign == '+' ? "plus_sign." : ""; }
static std::string intPartClass(const std::u32string& s, const rn::Scan& sc) {
	size_t n = sc.intEnd - sc.intBeg;
	if (n == 0) return "no_int_digits";
	if (s[sc.intBeg] == U'0') return n > 1 ? "leading_zeros" : "zero";
	return n > 20 ? "overlong_digits" : "digits";
}
static std::string noLiteralClass(const std::u32string& s, const rn::Scan& sc) {
	std::string r = "none." + signPart(sc);
	if (sc.signEnd >= s.size()) return r + (sc.sign ? "sign_only" : sc.blanks ? "blank_only" : "empty");
	return r + symClass(s[sc.signEnd]);
}

struct Exp {
	bool okValue = false, okOOR = false, okInv = false; Res val;
	const char* want = "invalid_argument";   // the first reading of the statement (names the violation)
	std::string cls; const char* coarse = "literal"; size_t coreEnd = 0; bool hasCore = false; bool refBroken = false;
	bool accepts(const Res& r) const { return r.k == Res::Value ? (okValue && r.sameAs(val)) : r.k == Res::OOR ? okOOR : r.k == Res::Inv ? okInv : false; }
	std::string label(const Res& r) const { return (r.k == Res::Value && okValue) ? "wrong_value" : std::string(r.kname()) + "_want_" + want; }
	std::string show() const {
		std::string r;
		if (okValue) r += "value " + val.show();
		if (okOOR) r += std::string(r.empty() ? "" : " or ") + "out_of_range";
		if (okInv) r += std::string(r.empty() ? "" : " or ") + "invalid_argument";
		return r;
	}
};

// integer targets (all but bool): blanks* '-'? digits ; `digits . digit` is a fractional literal
template <class T> static Exp expectInt(const std::u32string& s, const rn::Scan& sc) {
	Exp e; const bool neg = sc.sign == '-';
	if (!sc.hasInt()) { e.okInv = true; e.cls = noLiteralClass(s, sc); return e; }
	rn::Mag m = rn::magnitude(s, sc.intBeg, sc.intEnd); T v{}; const bool rep = rn::fits<T>(neg, m, v);
	e.cls = signPart(sc) + intPartClass(s, sc); e.hasCore = true; e.coarse = "int_literal";
	if (sc.dotDigitAfterInt()) { e.cls += ".dot_digit_for_int"; e.okInv = true; e.want = "invalid_argument"; if (!rep) e.okOOR = true; e.coreEnd = sc.fracBeg + 1; }
	else { e.coreEnd = sc.intEnd; if (rep) { e.okValue = true; setVal(e.val, v); e.want = "value"; } else { e.okOOR = true; e.want = "out_of_range"; } }
	if (neg && std::is_unsigned_v<T>) e.okInv = true;   // assumption A2: a minus sign in front of an unsigned target may also count as "no literal"
	if (sc.sign == '+') e.okInv = true;                 // assumption A1: a plus sign may or may not belong to the literal
	return e;
}
// bool: 0 | 1 (as a number) | true | false (any case)
static Exp expectBool(const std::u32string& s, const rn::Scan& sc) {
	Exp e;
	if (sc.sign == 0 && (sc.word == rn::Word::True || sc.word == rn::Word::False)) {
		e.okValue = true; setVal(e.val, sc.word == rn::Word::True); e.want = "value"; e.cls = sc.word == rn::Word::True ? "word_true" : "word_false"; e.coarse = "bool_word"; e.hasCore = true; e.coreEnd = sc.wordEnd; return e;
	}
	if (!sc.hasInt()) { e.okInv = true; e.cls = noLiteralClass(s, sc); return e; }
	const bool neg = sc.sign == '-';
	rn::Mag m = rn::magnitude(s, sc.intBeg, sc.intEnd);
	e.cls = signPart(sc) + intPartClass(s, sc); e.hasCore = true; e.coreEnd = sc.intEnd; e.coarse = "int_literal";
	if (!m.sat && (m.v == 0 || (m.v == 1 && !neg))) { e.okValue = true; setVal(e.val, m.v == 1); e.want = "value"; }
	else { e.okOOR = true; e.want = "out_of_range"; }
	if (neg) e.okInv = true;            // A2 (the pinned suite demands invalid_argument for To<bool>("-1"))
	if (sc.sign == '+') e.okInv = true; // A1
	if (sc.dotDigitAfterInt()) { e.cls += ".dot_digit"; e.okInv = true; e.coreEnd = sc.fracBeg + 1; }   // A3: the statement does not say whether bool is an "integer target"
	return e;
}
// float targets: decimal float literal; inf / nan words undecided (A4)
template <class F> static Exp expectFloat(const std::u32string& s, const rn::Scan& sc) {
	Exp e; const bool neg = sc.sign == '-';
	if (sc.hasFloat()) {
		std::string lit = (neg ? "-" : "") + rn::ascii(s, sc.signEnd, sc.floatEnd);
		rn::FloatVal<F> fv = rn::floatValue<F>(lit);
		if (!fv.consumedAll) e.refBroken = true;
		e.hasCore = true; e.coreEnd = sc.floatEnd; e.coarse = "float_literal";
		e.cls = signPart(sc) + intPartClass(s, sc);
		if (sc.dot) e.cls += sc.fracEnd > sc.fracBeg ? (sc.hasInt() ? ".frac" : ".leading_dot") : ".trailing_dot";
		if (sc.expDigits) { size_t p = sc.mantEnd + 1; e.cls += (p < s.size() && s[p] == U'-') ? ".exp_neg" : ".exp"; }
		if (fv.overflow) { e.cls += ".overflow"; e.okOOR = true; e.want = "out_of_range"; }
		else if (fv.roundsToZero) { e.cls += ".rounds_to_zero"; e.okOOR = true; e.okValue = true; setVal(e.val, fv.value); e.want = "out_of_range"; }   // A5
		else { if (fv.subnormal) e.cls += ".subnormal"; e.okValue = true; setVal(e.val, fv.value); e.want = "value"; }
		if (sc.sign == '+') e.okInv = true;   // A1
		return e;
	}
	if (sc.word == rn::Word::Inf || sc.word == rn::Word::Infinity || sc.word == rn::Word::Nan || sc.word == rn::Word::NanSeq) {
		const bool isInf = sc.word == rn::Word::Inf || sc.word == rn::Word::Infinity;
		F v = isInf ? std::numeric_limits<F>::infinity() : std::numeric_limits<F>::quiet_NaN(); if (neg) v = -v;
		e.okValue = true; setVal(e.val, v); e.okInv = true; e.want = "value"; e.cls = signPart(sc) + (isInf ? "word_inf" : "word_nan"); e.coarse = "inf_nan_word"; e.hasCore = true; e.coreEnd = sc.wordEnd;
		return e;
	}
	e.okInv = true; e.cls = noLiteralClass(s, sc); return e;
}
template <class T> static Exp expectFor(const std::u32string& s, const rn::Scan& sc) {
	if constexpr (std::is_same_v<T, bool>) return expectBool(s, sc);
	else if constexpr (std::is_floating_point_v<T>) return expectFloat<T>(s, sc);
	else return expectInt<T>(s, sc);
}

template <class T> static void runTarget(const W4& w, Res* r, Res* tr) {
	r[0] = callTo<T>(w.a); r[1] = callTo<T>(w.b); r[2] = callTo<T>(w.c); r[3] = callTo<T>(w.d);
	if (tr) { tr[0] = callTry<T>(w.a); tr[1] = callTry<T>(w.b); tr[2] = callTry<T>(w.c); tr[3] = callTry<T>(w.d); }
}

// one input string against every target in every width
static void judgeString(J& j, const std::u32string& s, int onlyTarget = -1) {
	const rn::Scan sc = rn::scan(s);
	const W4 w = widths(s);
	for (int t = 0; t < T_COUNT; ++t) {
		if (onlyTarget >= 0 && t != onlyTarget) continue;
		withTarget(t, [&](auto tag) {
			using T = typename decltype(tag)::type;
			Exp e = expectFor<T>(s, sc);
			if (e.refBroken) j.violation("C16/parse/out=ref_selfcheck", "reference grammar and strto* disagree about the extent of the literal in " + showSyms(s));
			Res r[4], tr[4]; runTarget<T>(w, r, tr);
			j.evals += 8;
			const char* fam = std::is_same_v<T, bool> ? "bool" : std::is_floating_point_v<T> ? "float" : std::is_unsigned_v<T> ? "uint" : "int";
			bool allSame = true, anyBad = false, allBad = true; bool bad[4];
			for (int i = 0; i < 4; ++i) {
				bad[i] = !e.accepts(r[i]); anyBad |= bad[i]; allBad &= bad[i]; if (!r[i].sameAs(r[0])) allSame = false;
				j.outcome(std::string("parse:") + fam + ":" + r[i].kname());
			}
			const std::string base = std::string("C16/parse/target=") + kTarget[t];
			if (anyBad) {
				// attribute to the bare literal if that alone fails the same way; otherwise the context is the cause:
				// find out whether the blanks, the symbol after the literal, or only both together matter
				const bool hasB = sc.blanks > 0, hasT = e.hasCore && e.coreEnd < s.size();
				auto failsSame = [&](const std::u32string& t, int i, const std::string& lab) {
					Exp te = expectFor<T>(t, rn::scan(t)); Res tr2[4]; runTarget<T>(widths(t), tr2, nullptr);
					return !te.accepts(tr2[i]) && te.label(tr2[i]) == lab;
				};
				auto report = [&](int i, const char* wname) {
					std::string lab = e.label(r[i]), cls = e.cls;
					if (e.hasCore && (hasB || hasT) && !failsSame(s.substr(sc.blanks, e.coreEnd - sc.blanks), i, lab)) {
						const std::string nx = hasT ? std::string("next_") + symClass(s[e.coreEnd]) : std::string();
						std::string ctx;
						if (hasB && hasT) ctx = failsSame(s.substr(0, e.coreEnd), i, lab) ? "blanks" : failsSame(s.substr(sc.blanks), i, lab) ? nx : "blanks+" + nx;
						else ctx = hasB ? "blanks" : nx;
						cls = std::string(e.coarse) + "/ctx=" + ctx;
					}
					j.violation(base + "/width=" + wname + "/class=" + cls + "/out=" + lab,
						"To<" + std::string(kTarget[t]) + ">(" + showSyms(s) + ") as " + (i == 0 && allSame ? "any width" : kWidth[i]) + " string gave " + r[i].show() + "; the statement allows: " + e.show());
				};
				if (allSame && allBad) report(0, "all");
				else for (int i = 0; i < 4; ++i) if (bad[i]) report(i, kWidth[i]);
			}
			// widths that differ although each result is acceptable on its own (a width with a wrong result is reported above)
			if (!allSame && !anyBad) for (int i = 1; i < 4; ++i) if (!r[i].sameAs(r[0])) {
				j.violation(base + "/width=" + kWidth[i] + "/class=" + e.cls + "/out=width_mismatch", "To<" + std::string(kTarget[t]) + ">(" + showSyms(s) + "): char string gave " + r[0].show() + ", " + kWidth[i] + " string gave " + r[i].show());
			}
			for (int i = 0; i < 4; ++i) {
				bool agree = (r[i].k == Res::Value) ? tr[i].sameAs(r[i]) : (tr[i].k == Res::Other && tr[i].what == "empty");
				if (!agree) j.violation(base + "/width=" + kWidth[i] + "/class=" + e.cls + "/api=TryTo/out=disagrees_with_To", "TryTo<" + std::string(kTarget[t]) + ">(" + showSyms(s) + ") gave " + tr[i].show() + " but To gave " + r[i].show());
			}
		});
	}
}

static void judgeBlock(bsx::Ctx& c, J& j, const std::u32string& s) {
	const rn::Scan sc = rn::scan(s);
	std::string cls = sc.hasFloat() ? signPart(sc) + intPartClass(s, sc) : (sc.word != rn::Word::None ? std::string("word") : noLiteralClass(s, sc));
	c.describe("C16/parse/target=any/width=any/class=" + cls, "input=" + showSyms(s));
	c.heartbeat();
	c.nontrivial(bsx::fnv(s.data(), s.size() * sizeof(char32_t)));
	judgeString(j, s);
}

// ------------------------------------------------------------------------------------------
// ToString checks
template <class T> static const char* typeName() {
	if (std::is_same_v<T, char>) return "char"; if (std::is_same_v<T, int8_t>) return "i8"; if (std::is_same_v<T, uint8_t>) return "u8";
	if (std::is_same_v<T, int16_t>) return "i16"; if (std::is_same_v<T, uint16_t>) return "u16"; if (std::is_same_v<T, int32_t>) return "i32";
	if (std::is_same_v<T, uint32_t>) return "u32"; if (std::is_same_v<T, int64_t>) return "i64"; if (std::is_same_v<T, uint64_t>) return "u64";
	if (std::is_same_v<T, long long>) return "llong"; if (std::is_same_v<T, unsigned long long>) return "ullong";
	if (std::is_same_v<T, float>) return "float"; if (std::is_same_v<T, double>) return "double"; return "bool";
}
template <class T> static bool toStrings(T x, W4& w, std::string& err) {
	try { w.a = BC::ToString(x); w.b = BC::To<std::u16string>(x); w.c = BC::To<std::u32string>(x); w.d = BC::ToWString(x); return true; }
	catch (const std::exception& e) { err = bsx::demangle(typeid(e).name()) + ": " + e.what(); }
	catch (...) { err = "nonstd"; }
	return false;
}

template <class T> static void checkIntValue(J& j, T x) {
	const char* vc = x == 0 ? "zero" : x == std::numeric_limits<T>::max() ? "max" : (std::is_signed_v<T> && x == std::numeric_limits<T>::min()) ? "min" : x < 0 ? "negative" : "positive";
	const std::string base = std::string("C16/tostring/type=") + typeName<T>();
	std::string refTxt;
	if constexpr (std::is_same_v<T, bool>) refTxt = x ? "true" : "false";
	else if constexpr (std::is_signed_v<T>) refTxt = rn::toDecimal(static_cast<i128>(x)); else refTxt = rn::toDecimal(static_cast<u128>(x));
	W4 w; std::string err;
	j.evals += 4;
	if (!toStrings(x, w, err)) { j.violation(base + "/width=any/class=" + vc + "/out=tostring_threw", "ToString(" + refTxt + ") threw " + err); return; }
	j.outcome(std::string("tostring:") + (std::is_same_v<T, bool> ? "bool" : "int") + ":" + vc);
	forWidths(w, [&](int i, const auto& text) {
		using Ch = typename std::decay_t<decltype(text)>::value_type;
		std::string asc; bool isAscii = narrowAscii(text, asc);
		if (!isAscii || asc != refTxt) j.violation(base + "/width=" + kWidth[i] + "/class=" + vc + "/out=text_not_decimal", "text form of " + refTxt + " is \"" + (isAscii ? asc : std::string("<non-ASCII>")) + "\"");
		Res r = callTo<T, Ch>(text), tr = callTry<T, Ch>(text);
		if (!(r.k == Res::Value && r.iv == static_cast<i128>(x))) j.violation(base + "/width=" + kWidth[i] + "/class=" + vc + "/out=parse_back_" + (r.k == Res::Value ? "wrong_value" : r.kname()), "To<T>(ToString(" + refTxt + ")) gave " + r.show() + " (text \"" + asc + "\")");
		if (!tr.sameAs(r) && !(r.k != Res::Value && tr.what == "empty")) j.violation(base + "/width=" + kWidth[i] + "/class=" + vc + "/api=TryTo/out=disagrees_with_To", "TryTo gave " + tr.show() + ", To gave " + r.show() + " for text \"" + asc + "\"");
	});
}

template <class F> static const char* floatClass(F x) {
	using B = typename rn::Bits<F>::type; const B mant = rn::bitsOf(x) & ((static_cast<B>(1) << (std::numeric_limits<F>::digits - 1)) - 1);
	if (x == 0) return "zero"; if (std::fabs(x) < std::numeric_limits<F>::min()) return "subnormal";
	if (std::fabs(x) == std::numeric_limits<F>::max()) return "max"; if (mant == 0) return "pow2"; return "normal";
}
// returns the number of significant digits of the text (0 for non-finite values)
template <class F> static int checkFloatValue(J& j, F x, bool allWidths) {
	const std::string base = std::string("C16/tostring/type=") + typeName<F>();
	const bool finite = std::isfinite(x);
	const char* vc = finite ? floatClass(x) : std::isnan(x) ? "nan" : "inf";
	auto hexOf = [&]() { return bsx::fmt("%.17g (bits %llx)", static_cast<double>(x), static_cast<unsigned long long>(rn::bitsOf(x))); };
	std::string text;
	try { text = BC::ToString(x); }
	catch (const std::exception& e) { j.violation(base + "/width=char/class=" + vc + "/out=tostring_threw", "ToString(" + hexOf() + ") threw " + bsx::demangle(typeid(e).name())); return 0; }
	++j.evals;
	int n = 0;
	if (!finite) j.outcome(std::string("tostring:") + typeName<F>() + ":" + vc);   // not covered by the statement; only totality and width agreement
	else {
		n = rn::sigDigits(text);
		if (n < 0) { j.violation(base + "/width=char/class=" + vc + "/out=text_not_decimal_literal", "text form of " + hexOf() + " is \"" + text + "\""); return 0; }
		if (!rn::parsesBackTo<F>(text.c_str(), x)) j.violation(base + "/width=char/class=" + vc + "/out=strtod_mismatch", "text \"" + text + "\" of " + hexOf() + " does not parse back to the same bits with glibc strto*");
		std::string wit;
		if (rn::shorterRoundTripExists<F>(x, n, &wit)) {
			// A6: "shortest" may count significant digits or characters of the printf-style text (what to_chars
			// promises); only a text that is longer on both counts is a violation
			for (int p = 1; p < n - 1; ++p) if (rn::shorterRoundTripExists<F>(x, p + 1, &wit)) break;
			if (text.size() > rn::printfStyleMinLength(wit)) j.violation(base + "/width=char/class=" + vc + "/out=not_shortest", "text \"" + text + "\" of " + hexOf() + " has " + std::to_string(n) + " significant digits but \"" + wit + "\" parses back to the same bits and can be written in " + std::to_string(rn::printfStyleMinLength(wit)) + " characters");
			else j.outcome(std::string("tostring:") + typeName<F>() + ":more_digits_but_not_longer");
		}
		Res r = callTo<F, char>(text);
		if (!(r.k == Res::Value && !r.nan && r.fb == rn::bitsOf(x))) j.violation(base + "/width=char/class=" + vc + "/out=parse_back_" + (r.k == Res::Value ? "wrong_value" : r.kname()), "To<T>(ToString(x)) gave " + r.show() + " for x = " + hexOf() + ", text \"" + text + "\"");
		j.outcome(std::string("tostring:") + typeName<F>() + ":digits=" + std::to_string(n));
	}
	if (allWidths) {
		W4 w; std::string err;
		if (!toStrings(x, w, err)) { j.violation(base + "/width=any/class=" + vc + "/out=tostring_threw", "wide ToString(" + hexOf() + ") threw " + err); return n; }
		j.evals += 3;
		forWidths(w, [&](int i, const auto& wt) {
			using Ch = typename std::decay_t<decltype(wt)>::value_type;
			std::string asc; bool isAscii = narrowAscii(wt, asc);
			if (!isAscii || asc != text) j.violation(base + "/width=" + kWidth[i] + "/class=" + vc + "/out=width_mismatch", "char text \"" + text + "\", " + kWidth[i] + " text \"" + asc + "\"");
			if (!finite || i == 0) return;
			Res r = callTo<F, Ch>(wt), tr = callTry<F, Ch>(wt);
			if (!(r.k == Res::Value && !r.nan && r.fb == rn::bitsOf(x))) j.violation(base + "/width=" + kWidth[i] + "/class=" + vc + "/out=parse_back_" + (r.k == Res::Value ? "wrong_value" : r.kname()), "To<T>(ToString(x)) gave " + r.show() + " for x = " + hexOf());
			if (!tr.sameAs(r) && !(r.k != Res::Value && tr.what == "empty")) j.violation(base + "/width=" + kWidth[i] + "/class=" + vc + "/api=TryTo/out=disagrees_with_To", "TryTo gave " + tr.show() + ", To gave " + r.show());
		});
	}
	return n;
}

// ------------------------------------------------------------------------------------------
// alphabets
static const char32_t kAlpha[13] = {U' ', U'\t', U'+', U'-', U'0', U'1', U'9', U'.', U'e', U'x', U'a', 0, 0xE9};
static const char* kAlphaName[13] = {"space", "tab", "plus", "minus", "0", "1", "9", "dot", "e", "x", "a", "nul", "u00e9"};

static std::vector<uint32_t> floatMantissas() {   // 64 distinct 23-bit patterns
	std::vector<uint32_t> v = {0, 1, 2, 3, 0x7FFFFF, 0x7FFFFE, 0x400000, 0x400001, 0x3FFFFF, 0x555555, 0x2AAAAA, 0x333333, 0x4CCCCC, 0x123456, 0x654321, 0x0F0F0F};
	auto add = [&](uint32_t m) { m &= 0x7FFFFF; if (v.size() < 64 && std::find(v.begin(), v.end(), m) == v.end()) v.push_back(m); };
	for (int k = 2; k < 22; ++k) add(1u << k);
	for (int k = 2; k < 23; ++k) add((1u << k) - 1);
	for (int k = 0; k < 23; ++k) add(0x7FFFFF ^ (1u << k));
	return v;
}
static std::vector<uint64_t> doubleMantissas() {
	const uint64_t all = (1ull << 52) - 1;
	std::vector<uint64_t> v = {0, 1, 2, 3, all, all - 1, 1ull << 51, (1ull << 51) + 1, (1ull << 51) - 1, 0x5555555555555ull, 0xAAAAAAAAAAAAAull, 0x3333333333333ull, 0xCCCCCCCCCCCCCull, 0x0F0F0F0F0F0F0ull, 0x123456789ABCDull, 0xFEDCBA9876543ull};
	auto add = [&](uint64_t m) { m &= all; if (std::find(v.begin(), v.end(), m) == v.end()) v.push_back(m); };
	for (int k = 0; k < 52; ++k) add(1ull << k);
	for (int k = 2; k < 52; ++k) add((1ull << k) - 1);
	for (int k = 0; k < 52; ++k) add(all ^ (1ull << k));
	return v;
}
static const std::vector<uint32_t> gFM = floatMantissas();
static const std::vector<uint64_t> gDM = doubleMantissas();

static std::u32string U(const std::string& s) { std::u32string r; for (unsigned char ch : s) r.push_back(ch); return r; }
static std::string digitRun(int kind, int n) {   // 0: 1..1, 1: 9..9, 2: 10..0, 3: 0..0
	if (kind == 0) return std::string(static_cast<size_t>(n), '1'); if (kind == 1) return std::string(static_cast<size_t>(n), '9');
	if (kind == 3) return std::string(static_cast<size_t>(n), '0');
	return "1" + std::string(static_cast<size_t>(n - 1), '0');
}
static std::vector<std::string> exponentSuffixes() {
	std::vector<std::string> r = {""};
	static const int ks[] = {0, 1, 2, 7, 8, 10, 22, 23, 37, 38, 39, 44, 45, 46, 50, 300, 307, 308, 309, 323, 324, 325, 400};
	for (int k : ks) { r.push_back("e" + std::to_string(k)); r.push_back("e-" + std::to_string(k)); }
	for (int k : {1, 38, 308}) for (const char* sg : {"", "-"}) { std::string sk = std::to_string(k); r.push_back(std::string("E") + sg + sk); if (!*sg) r.push_back("e+" + sk); r.push_back(std::string("e") + sg + "00" + sk); }
	for (const char* big : {"2147483648", "4294967296", "99999999999999999999"}) { r.push_back(std::string("e") + big); r.push_back(std::string("e-") + big); }
	return r;
}
static const std::vector<std::string> gExps = exponentSuffixes();

// exact decimal expansion of a long double that is a sum of few powers of two (glibc printf is exact)
static std::string exactDecimal(long double v, int fracDigits) { char buf[2600]; snprintf(buf, sizeof buf, "%.*Lf", fracDigits, v); return buf; }
static std::string justAbove(std::string d) { if (d.find('.') == std::string::npos) d += "."; return d + "0000000001"; }
static std::string justBelow(std::string d) {   // decrement the last digit (with borrow), then append nines
	if (d.find('.') == std::string::npos) d += ".";
	size_t i = d.size();
	while (i > 0) { --i; if (d[i] == '.') continue; if (d[i] == '0') { d[i] = '9'; continue; } d[i] = static_cast<char>(d[i] - 1); break; }
	return d + "9999999999";
}

// ------------------------------------------------------------------------------------------
#ifndef C16_SWEEP
template <class T> static void intBlock(J& j, bsx::Ctx& c, int blk) {
	using Wd = std::conditional_t<std::is_signed_v<T>, long, unsigned long>;
	const long total = 1L << (8 * sizeof(T)), per = total / 16;
	const long lo = static_cast<long>(std::numeric_limits<T>::min());
	for (long i = blk * per; i < (blk + 1) * per; ++i) { T x = static_cast<T>(static_cast<Wd>(lo + i)); c.nontrivial(bsx::fnv(typeName<T>()) ^ bsx::mix(static_cast<uint64_t>(i))); checkIntValue<T>(j, x); }
	c.heartbeat();
}
template <class T> static void intLattice(J& j, bsx::Ctx& c) {
	std::set<i128> vals;
	const i128 lo = static_cast<i128>(std::numeric_limits<T>::min()), hi = static_cast<i128>(std::numeric_limits<T>::max());
	auto add = [&](i128 v) { if (v >= lo && v <= hi) vals.insert(v); };
	for (int k = 0; k <= 64; ++k) for (int d = -1; d <= 1; ++d) { i128 p = static_cast<i128>(1) << k; add(p + d); add(-p + d); }
	for (int k = 1; k <= 19; ++k) { i128 p = 1; for (int q = 0; q < k; ++q) p *= 10; add(p); add(p - 1); add(p + 1); add(-p); add(-p + 1); add(-p - 1); }   // digit-count boundaries
	add(0); add(lo); add(hi); add(lo + 1); add(hi - 1);
	for (i128 v : vals) { c.nontrivial(bsx::fnv(typeName<T>()) ^ bsx::mix(static_cast<uint64_t>(v))); checkIntValue<T>(j, static_cast<T>(v)); }
	c.heartbeat();
}

static void familyIntRuns(bsx::Ctx& c, J& j, int n) {
	static const char* signs[] = {"", "-", "+"}; static const int lzs[] = {0, 1, 2, 39}; static const char* sufs[] = {"", ".", ".5", "e1", " ", "x"};
	for (const char* sg : signs) for (int lz : lzs) for (int kind = 0; kind < 3; ++kind) for (const char* sf : sufs)
		judgeBlock(c, j, U(std::string(sg) + std::string(static_cast<size_t>(lz), '0') + digitRun(kind, n) + sf));
}
static void familyLattice(bsx::Ctx& c, J& j, int blk) {
	static const char* signs[] = {"", "-", "+"}; static const char* sufs[] = {"", ".0", "x"};
	for (int k = blk * 8; k < blk * 8 + 8; ++k) for (int d = -1; d <= 1; ++d) {
		u128 v = (static_cast<u128>(1) << k) + static_cast<u128>(static_cast<i128>(d));
		for (const char* sg : signs) for (int lz = 0; lz < 2; ++lz) for (const char* sf : sufs) judgeBlock(c, j, U(std::string(sg) + (lz ? "0" : "") + rn::toDecimal(v) + sf));
	}
}
static void familyFloatRuns(bsx::Ctx& c, J& j, int n) {
	for (int neg = 0; neg < 2; ++neg) for (int kind = 0; kind < 4; ++kind) for (int dp = 0; dp < 4; ++dp) for (const std::string& ex : gExps) {
		std::string d = digitRun(kind, n), m;
		if (dp == 0) m = d; else if (dp == 1) m = d.substr(0, 1) + "." + d.substr(1); else if (dp == 2) m = "." + d; else m = d + ".";
		judgeBlock(c, j, U(std::string(neg ? "-" : "") + m + ex));
	}
}
// exact midpoints between adjacent floats/doubles (ties), and the literals just above/below them
template <class F> static void familyHalfway(bsx::Ctx& c, J& j, int blk, int nblk) {
	constexpr int P = std::numeric_limits<F>::digits;                 // 24 / 53
	constexpr int minE = std::numeric_limits<F>::min_exponent - P;    // exponent of the smallest subnormal: -149 / -1074
	constexpr int maxE = std::numeric_limits<F>::max_exponent - 1;    // 127 / 1023
	int idx = 0;
	for (int k = minE - 1; k <= maxE; ++k, ++idx) {
		if (idx % nblk != blk) continue;
		const int he = std::max(k - P, minE - 1);                     // exponent of half a unit in the last place at 2^k
		for (int odd = 0; odd < 2; ++odd) {
			long double v = (k >= minE ? std::ldexp(1.0L, k) : 0.0L) + (odd ? 3.0L : 1.0L) * std::ldexp(1.0L, he);
			if (k < minE && odd) continue;
			std::string d = exactDecimal(v, he < 0 ? -he : 0);
			for (int neg = 0; neg < 2; ++neg) { std::string sg = neg ? "-" : ""; judgeBlock(c, j, U(sg + d)); judgeBlock(c, j, U(sg + justAbove(d))); judgeBlock(c, j, U(sg + justBelow(d))); }
		}
	}
	if (blk == 0) {   // largest finite value, the overflow threshold max + half ulp, the smallest normal
		long double mx = static_cast<long double>(std::numeric_limits<F>::max()), thr = mx + std::ldexp(1.0L, maxE - P);
		for (long double v : {mx, thr}) { std::string d = exactDecimal(v, 0); for (const char* sg : {"", "-"}) { judgeBlock(c, j, U(sg + d)); judgeBlock(c, j, U(sg + justAbove(d))); judgeBlock(c, j, U(sg + justBelow(d))); } }
		std::string d = exactDecimal(static_cast<long double>(std::numeric_limits<F>::min()), 1 - std::numeric_limits<F>::min_exponent);
		judgeBlock(c, j, U(d)); judgeBlock(c, j, U(justAbove(d))); judgeBlock(c, j, U(justBelow(d)));
	}
}
static void familyWords(bsx::Ctx& c, J& j, int blk) {
	std::vector<std::u32string> sufs = {U("")}; for (char32_t a : kAlpha) sufs.push_back(std::u32string(1, a));
	static const char* pres[] = {"", " ", "\t", " \t"};
	if (blk < 2) {   // true / false in every case pattern, every suffix symbol, blank prefixes
		const std::string wd = blk == 0 ? "true" : "false";
		for (unsigned m = 0; m < (1u << wd.size()); ++m) {
			std::string v = wd; for (size_t i = 0; i < wd.size(); ++i) if (m >> i & 1) v[i] = static_cast<char>(v[i] - 32);
			for (const char* p : pres) for (auto& sf : sufs) judgeBlock(c, j, U(std::string(p) + v) + sf);
		}
	} else if (blk == 2) {   // near misses: truncations and single-symbol substitutions; signs in front of the words
		for (std::string wd : {"true", "false", "TRUE", "FALSE"}) {
			for (size_t n = 1; n < wd.size(); ++n) judgeBlock(c, j, U(wd.substr(0, n)));
			for (size_t i = 0; i < wd.size(); ++i) for (char32_t a : kAlpha) { std::u32string v = U(wd); v[i] = a; judgeBlock(c, j, v); }
			for (const char* sg : {"-", "+"}) judgeBlock(c, j, U(sg + wd));
		}
		for (std::string d : {"0", "1"}) for (const char* p : pres) for (auto& sf : sufs) for (const char* sg : {"", "-", "+"}) judgeBlock(c, j, U(std::string(p) + sg + d) + sf);
	} else {   // inf / nan words
		for (std::string wd : {"inf", "INF", "Inf", "infinity", "INFINITY", "Infinity", "infin", "in", "nan", "NAN", "NaN", "na", "nan()", "nan(1)", "nan(a_1)", "nan(", "nan(1", "nan(-)"})
			for (const char* sg : {"", "-", "+"}) for (const char* p : {"", " "}) for (auto& sf : sufs) judgeBlock(c, j, U(std::string(p) + sg + wd) + sf);
	}
}

static void body(bsx::Ctx& c) {
	const bool thorough = c.tier == "thorough";
	const int maxLen = thorough ? 6 : 5;
	J j(c);
	int scen = c.choose(8, "scenario");
	if (scen == 0) {
		c.describe("C16/ref_selftest", "reference self-test");
		std::string why; if (!rn::selftest(why)) c.violation("C16/ref_selftest/out=ref_selfcheck", "ref_numparse self-test failed: " + why);
		c.outcome("ref_selftest"); c.nontrivial("ref_selftest");
	} else if (scen == 1) {
		// all values of the 8/16-bit integer types
		int ty = c.choose(5, "type"); int blk = c.choose(16, "block");
		static const char* tn[] = {"char", "i8", "u8", "i16", "u16"};
		c.describe(std::string("C16/tostring/type=") + tn[ty] + "/width=any/class=any", bsx::fmt("block %d of 16 of all values", blk));
		if (ty == 0) intBlock<char>(j, c, blk); else if (ty == 1) intBlock<int8_t>(j, c, blk); else if (ty == 2) intBlock<uint8_t>(j, c, blk);
		else if (ty == 3) intBlock<int16_t>(j, c, blk); else intBlock<uint16_t>(j, c, blk);
		if (ty == 3 && blk == 0) c.sample("i16 -32768..-28673: ToString in 4 widths == reference decimal, To<int16_t>(text) == x, TryTo agrees");
	} else if (scen == 2) {
		int ty = c.choose(7, "type");
		static const char* tn[] = {"i32", "u32", "i64", "u64", "llong", "ullong", "bool"};
		c.describe(std::string("C16/tostring/type=") + tn[ty] + "/width=any/class=any", "+-2^k, +-2^k+-1, 10^k+-1 lattice and limits");
		switch (ty) { case 0: intLattice<int32_t>(j, c); break; case 1: intLattice<uint32_t>(j, c); break; case 2: intLattice<int64_t>(j, c); break; case 3: intLattice<uint64_t>(j, c); break;
			case 4: intLattice<long long>(j, c); break; case 5: intLattice<unsigned long long>(j, c); break; default: checkIntValue<bool>(j, false); checkIntValue<bool>(j, true); c.nontrivial("bool"); }
	} else if (scen == 3) {
		// floats: every exponent x 64 mantissa patterns x sign, four widths
		int e = c.choose(256, "exponent"); int sg = c.choose(2, "sign");
		c.describe("C16/tostring/type=float/width=any/class=any", bsx::fmt("biased exponent %d, sign %d, 64 mantissa patterns", e, sg));
		for (uint32_t m : gFM) {
			uint32_t bits = (static_cast<uint32_t>(sg) << 31) | (static_cast<uint32_t>(e) << 23) | m;
			int n = checkFloatValue<float>(j, rn::fromBits<float>(bits), true);
			c.nontrivial(bsx::mix(bits));
			if (e == 100 && sg == 0 && m == 0x555555) c.sample(bsx::fmt("float bits %08x -> \"%s\" (%d significant digits): strtof gives the same bits, no 8-digit decimal does", bits, BC::ToString(rn::fromBits<float>(bits)).c_str(), n));
		}
		c.heartbeat();
	} else if (scen == 4) {
		int blk = c.choose(128 + 8, "block"); int sg = c.choose(2, "sign");
		c.describe("C16/tostring/type=double/width=any/class=any", bsx::fmt("double lattice block %d sign %d", blk, sg));
		auto dbl = [&](double x) { if (sg) x = -x; checkFloatValue<double>(j, x, true); c.nontrivial(bsx::mix(rn::bitsOf(x))); };
		auto flt = [&](float x) { if (sg) x = -x; checkFloatValue<float>(j, x, true); c.nontrivial(bsx::mix(rn::bitsOf(x)) ^ 1); };
		if (blk < 128) {
			for (uint64_t e = static_cast<uint64_t>(blk) * 16; e < static_cast<uint64_t>(blk) * 16 + 16; ++e) { for (uint64_t m : gDM) dbl(rn::fromBits<double>((e << 52) | m)); c.heartbeat(); }
		} else if (blk == 128) {   // powers of ten and their neighbours
			for (int k = -324; k <= 308; ++k) { double p = strtod(("1e" + std::to_string(k)).c_str(), nullptr); uint64_t b = rn::bitsOf(p); for (int d = -2; d <= 2; ++d) if (b + d < 0x7FF0000000000000ull && !(b == 0 && d < 0)) dbl(rn::fromBits<double>(b + d)); }
			for (int k = -46; k <= 38; ++k) { float p = strtof(("1e" + std::to_string(k)).c_str(), nullptr); uint32_t b = rn::bitsOf(p); for (int d = -2; d <= 2; ++d) if (b + d < 0x7F800000u && !(b == 0 && d < 0)) flt(rn::fromBits<float>(b + d)); }
		} else if (blk <= 132) {   // short decimals k / 10^jj: the shortest text must not be longer than k
			int jj = blk - 128;
			for (int k = 1; k <= 9999; ++k) { std::string t = std::to_string(k) + "e-" + std::to_string(jj); dbl(strtod(t.c_str(), nullptr)); flt(strtof(t.c_str(), nullptr)); if (k % 512 == 0) c.heartbeat(); }
		} else if (blk == 133) {   // integers around powers of two (exactly representable ones and the first that are not)
			for (int k = 0; k <= 64; ++k) for (int d = -2; d <= 2; ++d) { double x = std::ldexp(1.0, k) + d; dbl(x); flt(static_cast<float>(x)); }
		} else if (blk == 134) {   // sums of decimal fractions (classic 17-digit cases)
			double acc = 0; for (int k = 1; k <= 2000; ++k) { acc += 0.1; dbl(acc); dbl(k * 0.1); dbl(k * 0.01); dbl(1.0 / k); flt(1.0f / static_cast<float>(k)); flt(static_cast<float>(k) * 0.1f); }
		} else {   // non-finite values
			dbl(std::numeric_limits<double>::infinity()); dbl(std::numeric_limits<double>::quiet_NaN()); flt(std::numeric_limits<float>::infinity()); flt(std::numeric_limits<float>::quiet_NaN());
		}
		if (blk == 64 && sg == 0) c.sample("double lattice: biased exponents 1024..1039 x 170 mantissa patterns, e.g. bits 4005555555555555 -> shortest round-trip text, checked with strtod and %.{n-2}e");
	} else if (scen == 5) {
		// every string of length <= maxLen over the 13-symbol alphabet
		int len = c.choose(maxLen + 1, "length");
		int pl = std::min(len, 2); int np = pl == 0 ? 1 : pl == 1 ? 13 : 169;
		int p = c.choose(np, "prefix");
		std::u32string s(static_cast<size_t>(len), U' ');
		if (pl == 1) s[0] = kAlpha[p]; else if (pl == 2) { s[0] = kAlpha[p / 13]; s[1] = kAlpha[p % 13]; }
		long rest = 1; for (int i = pl; i < len; ++i) rest *= 13;
		for (long r = 0; r < rest; ++r) {
			long q = r; for (int i = len - 1; i >= pl; --i) { s[static_cast<size_t>(i)] = kAlpha[q % 13]; q /= 13; }
			judgeBlock(c, j, s);
		}
		if (len == 3 && p == 3 * 13 + 4) { std::string names; for (int i = 0; i < 13; ++i) names += std::string(i ? "," : "") + kAlphaName[i]; c.sample("all strings \"-0\" + s, s in {" + names + "}, into 14 targets x 4 widths x {To, TryTo}"); }
	} else if (scen == 6) {
		int fam = c.choose(5, "family");
		if (fam == 0) { int n = 1 + c.choose(40, "digits"); familyIntRuns(c, j, n); }
		else if (fam == 1) { int blk = c.choose(16, "block"); familyLattice(c, j, blk); }
		else if (fam == 2) { int n = 1 + c.choose(40, "digits"); familyFloatRuns(c, j, n); if (n == 17) c.sample("17-digit runs 1..1 / 9..9 / 10..0 / 0..0 x 4 dot positions x 77 exponent suffixes (e-400..e400, E, e+, e00k, 20-digit exponents) x sign"); }
		else if (fam == 3) { int blk = c.choose(16, "block"); familyHalfway<float>(c, j, blk, 16); }
		else { int blk = c.choose(64, "block"); familyHalfway<double>(c, j, blk, 64); }
	} else {
		int blk = c.choose(4, "words"); familyWords(c, j, blk);
	}
	j.flush();
}
static const int kPartDepth = 3;

#else
// `fast` variant: all 2^32 float bit patterns, char strings; block = upper 16 bits
static void body(bsx::Ctx& c) {
	int hi = c.choose(256, "bits31_24"); int mid = c.choose(256, "bits23_16");
	const uint32_t base = (static_cast<uint32_t>(hi) << 24) | (static_cast<uint32_t>(mid) << 16);
	c.describe("C16/tostring/type=float/width=char/class=sweep", bsx::fmt("float bit patterns %08x..%08x", base, base + 0xFFFF));
	J j(c);
	const uint32_t step = c.tier == "thorough" ? 1 : 61;   // the quick tier does not run this variant; a thinned sweep if someone asks for it
	for (uint32_t lo = 0; lo < 0x10000; lo += step) {
		const uint32_t bits = base | lo;
		int n = checkFloatValue<float>(j, rn::fromBits<float>(bits), false);
		if ((lo & 0xFF) == 0) { c.nontrivial((static_cast<uint64_t>((bits >> 23) & 0xFF) << 8) | static_cast<uint64_t>(n)); if ((lo & 0xFFF) == 0) c.heartbeat(); }
	}
	if (hi == 0x3F && mid == 0x80) c.sample("float bit patterns 3f800000..3f80ffff: text parses back with strtof and from_chars, no shorter decimal round-trips");
	j.flush();
}
static const int kPartDepth = 2;
#endif

int main(int argc, char** argv) {
	bsx::Config cfg; cfg.part_depth = kPartDepth; cfg.max_dev = 0; cfg.hang_s = 15;
	bsx::Engine e("C16", body, cfg);
	return e.main(argc, argv);
}
