// C19 — independent serializations on different threads do not interfere.
// E3: 2-3 threads x one operation each, drawn from an alphabet chosen so that operations collide on
// the lazily built globals of the library; every schedule with <= N preemptions is executed under the
// cooperative scheduler of sched/tsan_rt.cpp (scheduling points at modelled synchronisation and at every
// access to a location written by one thread and touched by another); a happens-before detector fed by
// compiler instrumentation decides data races independently of the schedule; every thread's result is
// compared with the result of the same operation run alone. Each execution runs in a forked child so
// that function-local statics start uninitialised every time.
//
// Build variants: `tsanabi` (this exploration; -DC19_EXPLORE) and `tsan` (real ThreadSanitizer,
// free-running backstop for accesses inside uninstrumented libraries; -DC19_BACKSTOP).
#include "engine/bsx.hpp"
#include "bitserializer/bit_serializer.h"
#include "bitserializer/msgpack_archive.h"
#include "bitserializer/rapidjson_archive.h"
#include "bitserializer/pugixml_archive.h"
#include "bitserializer/csv_archive.h"
#include "bitserializer/types/std/vector.h"
#include "bitserializer/types/std/map.h"
#include "bitserializer/types/std/pair.h"
#include "bitserializer/types/std/chrono.h"
#include "bitserializer/types/std/optional.h"
#include <sstream>
#include <thread>
#ifdef C19_EXPLORE
#include "sched/tsan_rt.h"
#endif
#include <pugixml.hpp>
// pugixml allocates with malloc inside its shared library; route it through operator new so that the runtime knows the owning thread
static void* pugiAlloc(size_t n) { try { return ::operator new(n); } catch (...) { return nullptr; } }
static void pugiFree(void* p) { ::operator delete(p); }
static const bool kPugiSeam = (pugi::set_memory_management_functions(pugiAlloc, pugiFree), true);

namespace BS = BitSerializer;
using MP = BS::MsgPack::MsgPackArchive; using JS = BS::Json::RapidJson::JsonArchive; using XM = BS::Xml::PugiXml::XmlArchive; using CS = BS::Csv::CsvArchive;

enum class Color { Red, Green, Blue };
REGISTER_ENUM(Color, { {Color::Red, "Red"}, {Color::Green, "Green"}, {Color::Blue, "Blue"} })
struct Item { int id = 0; std::string name; Color color = Color::Red; double w = 0;
	template <class A> void Serialize(A& ar) { ar << BS::KeyValue("id", id) << BS::KeyValue("name", name) << BS::KeyValue("color", color) << BS::KeyValue("w", w); } };
struct Strict { int a = 0; std::string s;
	template <class A> void Serialize(A& ar) { ar << BS::KeyValue("a", a, BS::Required(), BS::Range(0, 10)) << BS::KeyValue("s", s, BS::Required(), BS::MaxSize(3)); } };

// shared read-only inputs (constants for the threads)
static const std::string kSharedJson = R"({"id":7,"name":"shared €","color":"Blue","w":2.5})";
static const Item kSharedItem = [] { Item i; i.id = 42; i.name = "const source"; i.color = Color::Green; i.w = 0.125; return i; }();

static std::string fmtItem(const Item& i) { return std::to_string(i.id) + "|" + i.name + "|" + BS::Convert::ToString(i.color) + "|" + std::to_string(i.w); }

// ---- operation alphabet: each returns a result string; `salt` makes per-thread data distinct ------------------
static std::string opPairMultimapJson(int salt) {
	std::multimap<int, std::string> m{{1 + salt, "a"}, {1 + salt, "b"}, {3, "c"}}; std::string out = BS::SaveObject<JS>(m);
	std::multimap<int, std::string> r; BS::LoadObject<JS>(r, out); std::string s = out + "#"; for (auto& kv : r) s += std::to_string(kv.first) + kv.second; return s;
}
static std::string opPairMsgPack(int salt) {
	std::pair<std::string, int> p{"key" + std::to_string(salt), 5 + salt}; std::string out = BS::SaveObject<MP>(p);
	std::pair<std::string, int> r; BS::LoadObject<MP>(r, out); return bsx::hex(out) + "#" + r.first + std::to_string(r.second);
}
static std::string opEnum(int salt) {
	Color c = static_cast<Color>(salt % 3); std::string n = BS::Convert::ToString(c); Color back = BS::Convert::To<Color>(n);
	std::vector<Color> v{Color::Blue, c}; std::string out = BS::SaveObject<JS>(v); std::vector<Color> r; BS::LoadObject<JS>(r, out);
	return n + std::to_string(static_cast<int>(back)) + out + std::to_string(r.size());
}
static std::string opJsonMem(int salt) {
	Item i; i.id = salt; i.name = "n\xC3\xA9" + std::to_string(salt); i.color = Color::Green; i.w = 1.5 * salt; std::string out = BS::SaveObject<JS>(i);
	Item r; BS::LoadObject<JS>(r, out); return out + "#" + fmtItem(r);
}
static std::string opXmlStream(int salt) {
	Item i; i.id = salt; i.name = "x<&>" + std::to_string(salt); i.w = -2.25; std::ostringstream os; BS::SaveObject<XM>(i, os);
	std::istringstream is(os.str()); Item r; BS::LoadObject<XM>(r, is); return os.str() + "#" + fmtItem(r);
}
static std::string opCsvMem(int salt) {
	std::vector<Item> v(2); v[0].id = salt; v[0].name = "a,\"b\""; v[1].id = salt + 1; v[1].name = "line\nbreak"; v[1].color = Color::Blue; std::string out = BS::SaveObject<CS>(v);
	std::vector<Item> r; BS::LoadObject<CS>(r, out); std::string s = out + "#"; for (auto& i : r) s += fmtItem(i) + ";"; return s;
}
static std::string opMsgPackStream(int salt) {
	std::map<std::string, std::vector<int>> m{{"k" + std::to_string(salt), {1, 2, salt}}, {"z", {}}}; std::ostringstream os; BS::SaveObject<MP>(m, os);
	std::istringstream is(os.str()); std::map<std::string, std::vector<int>> r; BS::LoadObject<MP>(r, is); std::string s = bsx::hex(os.str()) + "#"; for (auto& kv : r) { s += kv.first + ":"; for (int x : kv.second) s += std::to_string(x) + ","; } return s;
}
static std::string opConvert(int salt) {
	using namespace std::chrono;
	std::string s = BS::Convert::ToString(123456789 + salt) + BS::Convert::ToString(1.0 / (3 + salt)) + std::to_string(BS::Convert::To<int>(std::string("  -42"))) + std::to_string(BS::Convert::To<double>(std::string("1e3")));
	auto tp = time_point<system_clock, milliseconds>(milliseconds(1700000000123ll + salt)); std::string iso = BS::Convert::ToString(tp); auto back = BS::Convert::To<time_point<system_clock, milliseconds>>(iso);
	s += iso + std::to_string(back.time_since_epoch().count()) + BS::Convert::ToString(seconds(3661 + salt));
	std::u16string u16 = BS::Convert::To<std::u16string>(std::string("\xE2\x82\xAC\xF0\x9F\x98\x80") + std::to_string(salt)); s += BS::Convert::To<std::string>(u16);
	return s;
}
static std::string opValidationFail(int salt) {
	Strict t; std::string doc = std::string("{\"a\":") + std::to_string(50 + salt) + ",\"s\":\"toolong\"}";
	try { BS::LoadObject<JS>(t, doc); return "no exception"; }
	catch (const BS::ValidationException& e) { std::string s; for (auto& kv : e.GetValidationErrors()) { s += kv.first + "="; for (auto& m : kv.second) s += m + ";"; } return s; }
}
static std::string opSharedConst(int salt) {
	Item r; BS::LoadObject<JS>(r, kSharedJson); std::string out = BS::SaveObject<MP>(kSharedItem); (void)salt; return fmtItem(r) + "#" + bsx::hex(out);
}
// string members wider than the archive's native character type go through the per-session transcoding buffer
struct Wide { std::u16string a; std::wstring b; std::u32string c; int n = 0;
	template <class A> void Serialize(A& ar) { ar << BS::KeyValue("a", a) << BS::KeyValue("b", b) << BS::KeyValue("c", c) << BS::KeyValue("n", n); } };
static std::string opWideStrings(int salt) {
	Wide w; w.a = u"u16 \u20AC " + BS::Convert::To<std::u16string>(std::to_string(salt)); w.b = L"wide \u00E9" + std::to_wstring(salt * 7); w.c = U"u32 \U0001F600" + BS::Convert::To<std::u32string>(std::to_string(salt + 100)); w.n = salt;
	std::string js = BS::SaveObject<JS>(w); std::string mp = BS::SaveObject<MP>(w);
	Wide r1, r2; BS::LoadObject<JS>(r1, js); BS::LoadObject<MP>(r2, mp);
	return js + "#" + bsx::hex(mp) + "#" + BS::Convert::To<std::string>(r1.a) + BS::Convert::To<std::string>(r1.b) + BS::Convert::To<std::string>(r1.c) + "#" + BS::Convert::To<std::string>(r2.a) + BS::Convert::To<std::string>(r2.b) + BS::Convert::To<std::string>(r2.c);
}
// every conversion family through wide (16/32-bit, wchar_t) strings: these take transcoding detours of their own
static std::string opConvertWide(int salt) {
	using namespace std::chrono; namespace C = BS::Convert;
	std::string s;
	std::u16string n16 = C::To<std::u16string>(1234567 + salt); std::u32string n32 = C::To<std::u32string>(-98765 - salt); std::wstring nw = C::To<std::wstring>(2.5 * salt);
	s += std::to_string(C::To<int>(n16)) + "," + std::to_string(C::To<long long>(n32)) + "," + std::to_string(C::To<double>(nw)) + ",";
	s += std::to_string(C::To<bool>(std::u16string(u"true"))) + C::To<std::string>(C::To<std::wstring>(static_cast<Color>(salt % 3))) + std::to_string(static_cast<int>(C::To<Color>(std::u32string(U"Green")))) + ",";
	auto tp = time_point<system_clock, milliseconds>(milliseconds(1600000000456ll + salt * 1000));
	std::u16string iso16 = C::To<std::u16string>(tp); std::wstring isow = C::To<std::wstring>(tp + hours(salt)); std::u32string iso32 = C::To<std::u32string>(tp - hours(salt));
	s += std::to_string(C::To<time_point<system_clock, milliseconds>>(iso16).time_since_epoch().count()) + "," + std::to_string(C::To<time_point<system_clock, seconds>>(isow).time_since_epoch().count()) + ","
		+ std::to_string(C::To<time_point<system_clock, milliseconds>>(iso32).time_since_epoch().count()) + ",";
	std::u16string d16 = C::To<std::u16string>(seconds(86400 + 61 * salt)); std::wstring dw = C::To<std::wstring>(milliseconds(-1500 - salt));
	s += std::to_string(C::To<seconds>(d16).count()) + "," + std::to_string(C::To<milliseconds>(dw).count()) + ",";
	s += C::To<std::string>(iso16) + C::To<std::string>(isow) + C::To<std::string>(iso32) + C::To<std::string>(d16) + C::To<std::string>(dw);
	try { (void)C::To<int>(std::u16string(u"12x") ); s += "no exception"; } catch (const std::exception& e) { s += std::string("|") + e.what(); }
	try { (void)C::To<time_point<system_clock, seconds>>(std::wstring(L"2023-13-01T00:00:00Z")); s += "no exception"; } catch (const std::exception& e) { s += std::string("|") + e.what(); }
	return s;
}
// chrono, binary and nested members through every archive (MsgPack: binary timestamps and bin; text archives: ISO text)
struct Timed { std::chrono::time_point<std::chrono::system_clock, std::chrono::milliseconds> at{}; std::chrono::seconds took{}; std::vector<uint8_t> blob; std::map<std::string, double> m; std::optional<int> opt; bool flag = false;
	template <class A> void Serialize(A& ar) { ar << BS::KeyValue("at", at) << BS::KeyValue("took", took) << BS::KeyValue("blob", blob) << BS::KeyValue("m", m) << BS::KeyValue("opt", opt) << BS::KeyValue("flag", flag); } };
struct TimedRow { std::chrono::time_point<std::chrono::system_clock, std::chrono::seconds> at{}; std::chrono::minutes took{}; bool flag = false; float f = 0;
	template <class A> void Serialize(A& ar) { ar << BS::KeyValue("at", at) << BS::KeyValue("took", took) << BS::KeyValue("flag", flag) << BS::KeyValue("f", f); } };
static std::string fmtTimed(const Timed& t) { std::string s = std::to_string(t.at.time_since_epoch().count()) + "|" + std::to_string(t.took.count()) + "|"; for (auto b : t.blob) s += std::to_string(b) + "."; for (auto& kv : t.m) s += kv.first + "=" + std::to_string(kv.second); return s + "|" + (t.opt ? std::to_string(*t.opt) : "null") + "|" + std::to_string(t.flag); }
static std::string opChronoArchives(int salt) {
	using namespace std::chrono;
	Timed t; t.at = time_point<system_clock, milliseconds>(milliseconds(1650000000789ll + salt)); t.took = seconds(3600 * salt + 59); t.blob = {1, 2, static_cast<uint8_t>(200 + salt)}; t.m = {{"pi", 3.25}, {"k" + std::to_string(salt), -0.5 * salt}}; if (salt & 1) t.opt = salt; t.flag = true;
	std::string mp = BS::SaveObject<MP>(t), js = BS::SaveObject<JS>(t), xm = BS::SaveObject<XM>(t);
	Timed r1, r2, r3; BS::LoadObject<MP>(r1, mp); BS::LoadObject<JS>(r2, js); BS::LoadObject<XM>(r3, xm);
	std::vector<TimedRow> rows(2); rows[0].at = time_point<system_clock, seconds>(seconds(1000000000 + salt)); rows[0].took = minutes(salt); rows[1].at = time_point<system_clock, seconds>(seconds(-86400 * salt)); rows[1].flag = true; rows[1].f = 0.5f * salt;
	std::string cs = BS::SaveObject<CS>(rows); std::vector<TimedRow> rr; BS::LoadObject<CS>(rr, cs);
	std::string s = bsx::hex(mp) + "#" + js + "#" + xm + "#" + cs + "#" + fmtTimed(r1) + "#" + fmtTimed(r2) + "#" + fmtTimed(r3) + "#";
	for (auto& r : rr) s += std::to_string(r.at.time_since_epoch().count()) + "|" + std::to_string(r.took.count()) + "|" + std::to_string(r.flag) + "|" + std::to_string(r.f) + ";";
	return s;
}
// text archives through encoded streams (BOM, UTF-16/32 transcoding on write and BOM detection on read) and formatted output
static std::string opEncodedStreams(int salt) {
	Item i; i.id = salt; i.name = "\xD0\x9F\xE2\x82\xAC\xF0\x9F\x98\x80 " + std::to_string(salt); i.color = Color::Blue; i.w = 0.75 * salt;
	std::string s;
	{ BS::SerializationOptions o; o.streamOptions.encoding = BS::Convert::Utf::UtfType::Utf16le; o.streamOptions.writeBom = true; o.formatOptions.enableFormat = true;
	  std::ostringstream os; BS::SaveObject<JS>(i, os, o); std::istringstream is(os.str()); Item r; BS::LoadObject<JS>(r, is); s += bsx::hex(os.str()) + "#" + fmtItem(r) + "#"; }
	{ BS::SerializationOptions o; o.streamOptions.encoding = BS::Convert::Utf::UtfType::Utf32be; o.streamOptions.writeBom = true;
	  std::vector<Item> v(2); v[0] = i; v[1].id = salt + 5; v[1].name = "q\"uote";
	  std::ostringstream os; BS::SaveObject<CS>(v, os, o); std::istringstream is(os.str()); std::vector<Item> r; BS::LoadObject<CS>(r, is); s += bsx::hex(os.str()) + "#"; for (auto& x : r) s += fmtItem(x) + ";"; }
	{ BS::SerializationOptions o; o.streamOptions.writeBom = false; o.formatOptions.enableFormat = true; o.formatOptions.paddingChar = '\t'; o.formatOptions.paddingCharNum = 1;
	  std::ostringstream os; BS::SaveObject<XM>(i, os, o); std::istringstream is(os.str()); Item r; BS::LoadObject<XM>(r, is); s += os.str() + "#" + fmtItem(r); }
	return s;
}
using Op = std::string (*)(int);
static const Op kOps[] = {opPairMultimapJson, opPairMsgPack, opEnum, opJsonMem, opXmlStream, opCsvMem, opMsgPackStream, opConvert, opValidationFail, opSharedConst, opWideStrings, opConvertWide, opChronoArchives, opEncodedStreams};
static const char* kOpName[] = {"pair_multimap_json", "pair_msgpack", "enum", "json_mem", "xml_stream", "csv_mem", "msgpack_stream", "convert", "validation_fail", "shared_const", "wide_strings", "convert_wide", "chrono_archives", "encoded_streams"};
constexpr int NOPS = 14;

struct ThreadArg { int op; int salt; std::string result; };
static void threadBody(void* p) { auto* a = static_cast<ThreadArg*>(p); try { a->result = kOps[a->op](a->salt); } catch (const std::exception& e) { a->result = std::string("EXCEPTION ") + e.what(); } }

#ifdef C19_EXPLORE
// Only the first kMaxDecisions scheduling points of an execution are decision points of the explorer (the engine keeps at
// most 96 choices per execution and the schedule count grows with points^preemptions); later points continue the running
// thread / take the first enabled thread. Races are found by the happens-before detector regardless of the schedule.
static int gDecisions = 0; static bool gCapped = false; constexpr int kMaxDecisions = 40;
static int gPreemptLimit = 99;   // per-execution cap on preemptions (thorough: 3 for plain pairs, 2 for triples and for the dense mode)
static int decide(void* ctx, int n, bool currentEnabled) {
	if (gDecisions >= kMaxDecisions) { gCapped = true; return 0; }
	auto* c = static_cast<bsx::Ctx*>(ctx);
	if (currentEnabled && c->deviations_used() >= gPreemptLimit) return 0;   // bound reached: the running thread continues
	++gDecisions;
	return currentEnabled ? c->deviate(n, "preempt") : c->choose(n, "next");
}
static int decideSequential(void*, int, bool) { return 0; }
static std::map<int, std::string> gGolden;                         // (op*16+salt) -> result of the operation run alone in a fresh process
static std::map<std::string, std::vector<uintptr_t>> gHotCache;    // tuple -> hot cells

static std::string golden(bsx::Ctx& c, int op, int salt) {
	int key = op * 16 + salt; auto it = gGolden.find(key); if (it != gGolden.end()) return it->second;
	std::string r = c.isolate([&] { ThreadArg a{op, salt, {}}; threadBody(&a); return a.result; }, 90);
	return gGolden[key] = r.rfind("ok:", 0) == 0 ? r.substr(3) : "FATAL " + r;
}

static void body(bsx::Ctx& c) {
	const bool thorough = c.tier == "thorough";
	int nthreads = thorough ? 2 + c.choose(2, "threads") : 2;
	int ops[3] = {0, 0, 0};
	ops[0] = c.choose(NOPS, "op0"); ops[1] = c.choose(NOPS, "op1");
	if (nthreads == 3) { ops[2] = c.choose(4, "op2"); static const int third[] = {0, 2, 7, 10}; ops[2] = third[ops[2]]; if (!(ops[0] <= ops[1])) { c.outcome("n/a:unordered_triple"); return; } }
	else if (ops[0] > ops[1]) { c.outcome("n/a:symmetric_pair"); return; }
	int dense = c.choose(2, "dense");
	if (dense && !(thorough && nthreads == 2 && (ops[0] == ops[1] || ops[0] == 0 || ops[0] == 2))) { c.outcome("n/a:dense_mode_reserved_for_selected_pairs"); return; }
	std::string tuple = kOpName[ops[0]] + std::string("+") + kOpName[ops[1]] + (nthreads == 3 ? std::string("+") + kOpName[ops[2]] : std::string());
	std::string sigbase = "C19/" + tuple + (dense ? "/dense" : "");
	c.describe(sigbase, "threads=" + std::to_string(nthreads));
	std::string gold[3]; for (int t = 0; t < nthreads; ++t) gold[t] = golden(c, ops[t], t + 1);
	// hot cells: discovered once per tuple (per worker) by running the sequential schedules in fresh processes
	auto hit = gHotCache.find(sigbase);
	if (hit == gHotCache.end()) {
		std::set<uintptr_t> cells;
		for (int first = 0; first < nthreads; ++first) {
			std::string r = c.isolate([&] {
				rt::reset(false, true); ThreadArg args[3]; int order[3] = {first, (first + 1) % nthreads, (first + 2) % nthreads};
				for (int t = 0; t < nthreads; ++t) { args[t].op = ops[order[t]]; args[t].salt = order[t] + 1; rt::spawn(threadBody, &args[t]); }
				rt::run(decideSequential, nullptr);
				uintptr_t buf[4096]; size_t n = std::min<size_t>(rt::newHot(buf, 4096), 4096); std::string s; for (size_t i = 0; i < n; ++i) s += bsx::fmt("%lx,", static_cast<unsigned long>(buf[i])); return s; }, 90);
			if (r.rfind("ok:", 0) != 0) { c.violation(sigbase + "/out=" + r, "sequential discovery run did not survive: " + r); return; }
			for (size_t p = 3; p < r.size();) { size_t e = r.find(',', p); if (e == std::string::npos) break; cells.insert(strtoul(r.c_str() + p, nullptr, 16)); p = e + 1; }
		}
		hit = gHotCache.emplace(sigbase, std::vector<uintptr_t>(cells.begin(), cells.end())).first;
	}
	const std::vector<uintptr_t>& hot = hit->second;
	std::string fatal = c.isolateExec([&](bsx::Ctx& cc) {
		rt::reset(dense == 1, true); rt::setHot(hot.data(), hot.size()); gDecisions = 0; gCapped = false; gPreemptLimit = (nthreads == 3 || dense) ? 2 : 99;
		ThreadArg args[3]; for (int t = 0; t < nthreads; ++t) { args[t].op = ops[t]; args[t].salt = t + 1; rt::spawn(threadBody, &args[t]); }
		rt::run(decide, &cc);
		if (gCapped) cc.outcome("note:decision_points_capped_at_40");
		uint64_t points = 0, acc = 0; rt::stats(points, acc);
		cc.transition(points + 1);
		std::string sched; for (int v : cc.choices()) sched += std::to_string(v);
		cc.state(bsx::fnv(sigbase + sched));
		rt::RaceReport rr[8]; size_t nr = rt::races(rr, 8);
		for (size_t i = 0; i < std::min<size_t>(nr, 8); ++i)
			cc.violation(sigbase + "/out=data_race", bsx::fmt("data race on %p: thread %d %s vs thread %d %s, no happens-before edge | stack: ", reinterpret_cast<void*>(rr[i].addr), rr[i].tid, rr[i].write ? "write" : "read", rr[i].otherTid, rr[i].otherWrite ? "write" : "read") + rr[i].where);
		for (int t = 0; t < nthreads; ++t) if (args[t].result != gold[t]) cc.violation(sigbase + "/out=result_differs", std::string("thread ") + std::to_string(t) + " (" + kOpName[ops[t]] + ") returned a result that differs from the same operation run alone: got [" + args[t].result.substr(0, 200) + "] expected [" + gold[t].substr(0, 200) + "]");
		uintptr_t lateBuf[64]; size_t late = rt::newHot(lateBuf, 64);
		cc.outcome(nr ? "race" : "no_race"); if (late) cc.outcome("note:late_shared_cells");
		cc.outcome("hot_cells:" + std::to_string(hot.size() > 9 ? 10 : hot.size()) + (hot.size() > 9 ? "+" : ""));
		if (points > 0) cc.nontrivial(bsx::fnv(sigbase + sched));
		if (points > 0 && sched.size() > 2 && sched.find('1') != std::string::npos) cc.sample(sigbase + " hot_cells=" + std::to_string(hot.size()) + " scheduling_points=" + std::to_string(points) + " instrumented_accesses=" + std::to_string(acc) + " schedule=" + sched);
	}, 60);
	if (fatal != "ok") c.violation(sigbase + "/out=" + fatal, "the schedule did not run to completion: " + fatal + (fatal == "exit91" ? " (deadlock: no enabled thread)" : fatal == "exit90" ? " (step horizon exceeded)" : ""));
}

int main(int argc, char** argv) {
	bsx::Config cfg; cfg.part_depth = 3; cfg.max_dev = 2; cfg.hang_s = 30;
	bsx::Engine e("C19", body, cfg);
	e.mTierSetup = [](const std::string& tier, bsx::Config& c) { c.max_dev = tier == "thorough" ? 3 : 2; if (tier == "thorough") c.part_depth = 4; };
	return e.main(argc, argv);
}
#else
// ---- backstop: the same operation bodies, real ThreadSanitizer, free-running threads released by a barrier ----
static void body(bsx::Ctx& c) {
	const bool thorough = c.tier == "thorough";
	int a = c.choose(NOPS, "op0"), b = c.choose(NOPS, "op1");
	if (a > b) { c.outcome("n/a:symmetric_pair"); return; }
	int rounds = thorough ? 40 : 10;
	std::string sigbase = std::string("C19/tsan_backstop/") + kOpName[a] + "+" + kOpName[b];
	c.describe(sigbase, "free-running, rounds=" + std::to_string(rounds));
	std::string r = c.isolate([&] {
		std::string ga, gb; { ThreadArg x{a, 1, {}}; threadBody(&x); ga = x.result; ThreadArg y{b, 2, {}}; threadBody(&y); gb = y.result; }
		std::string bad;
		for (int i = 0; i < rounds; ++i) {
			std::atomic<int> ready{0}; ThreadArg x{a, 1, {}}, y{b, 2, {}};
			std::thread t1([&] { ready++; while (ready.load() < 2) {} threadBody(&x); }), t2([&] { ready++; while (ready.load() < 2) {} threadBody(&y); });
			t1.join(); t2.join();
			if (x.result != ga || y.result != gb) bad = "result differs in round " + std::to_string(i);
		}
		return bad; }, 120);
	c.outcome(r.substr(0, 12)); c.nontrivial(sigbase); c.evals(static_cast<uint64_t>(rounds));
	if (r == "exit66") c.violation(sigbase + "/out=tsan_report", "ThreadSanitizer reported a data race (see worker log)");
	else if (r.rfind("ok:", 0) != 0) c.violation(sigbase + "/out=" + r, "backstop run did not survive: " + r);
	else if (r.size() > 3) c.violation(sigbase + "/out=result_differs", r.substr(3));
	if (a == 0 && b == 0) c.sample(sigbase + " -> " + r);
}
int main(int argc, char** argv) {
	bsx::Config cfg; cfg.part_depth = 2; cfg.max_dev = 0; cfg.hang_s = 60;
	bsx::Engine e("C19", body, cfg);
	return e.main(argc, argv);
}
#endif
