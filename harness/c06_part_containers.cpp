// C06, part: str/bin, arrays/maps, other std values, enum (scenarios 3, 4, 7, 8). See c06_shared.cpp.
#define C06_REGISTER_ENUMS
#define C06_PART
#include "harness/c06_shared.cpp"

struct Wide {   // n fields counted by FieldsCountVisitor: crosses the fixmap / map16 / map32 header thresholds
	size_t n = 0; std::vector<std::string> names; int32_t val = -7;
	explicit Wide(size_t n_) : n(n_) { names.reserve(n); for (size_t i = 0; i < n; ++i) names.push_back(bsx::fmt("f%05zu", i)); }
	template <class A> void Serialize(A& ar) { for (size_t i = 0; i < n; ++i) ar << BS::KeyValue(names[i], val); }
	Val expected() const { Val r = Val::map(); r.m.reserve(n); for (size_t i = 0; i < n; ++i) r.m.emplace_back(Val::str(names[i]), Val::integer(val)); return r; }
};
static const size_t STRLENS[] = {0, 1, 15, 16, 31, 32, 255, 256, 65535, 65536};
static const size_t SEQLENS[] = {0, 1, 15, 16, 65535, 65536};
static std::string textOf(size_t n) { std::string s(n, 'x'); for (size_t i = 0; i < n; ++i) s[i] = static_cast<char>(0x21 + (i * 7) % 0x5e); return s; }
template <class B> static void fillBytes(B& b, size_t n) { using E = typename B::value_type; for (size_t i = 0; i < n; ++i) b.push_back(static_cast<E>(static_cast<unsigned char>(i * 37 + 0xc1))); }

// ---- str / bin -----------------------------------------------------------------------------------
static const char* BINTYPES[] = {"std::string", "std::vector<uint8_t>", "std::vector<char>", "std::vector<int8_t>", "std::list<char>", "std::deque<uint8_t>", "std::array<uint8_t,16>", "unsigned_char[256]", "std::array<char,32>"};
struct CArr { unsigned char d[256]; template <class A> void Serialize(A& ar) { ar << BS::KeyValue("d", d); } };
static void strBinScenario(bsx::Ctx& c, int ti, int li, int pos) {
	size_t n = STRLENS[li];
	std::string sym = "len=" + std::to_string(n);
	std::string sigbase0 = std::string("C06/strbin/type=") + BINTYPES[ti] + "/" + sym;
	auto run = [&](auto& v) { typedCase(c, v, toVal(v), sigbase0, pos, sym); };
	switch (ti) {
	case 0: { std::string v = textOf(n); if (pos == Key) { typedCase(c, v, toVal(v), sigbase0, pos, sym); } else run(v); break; }
	case 1: { std::vector<uint8_t> v; fillBytes(v, n); run(v); break; }
	case 2: { std::vector<char> v; fillBytes(v, n); run(v); break; }
	case 3: { std::vector<int8_t> v; fillBytes(v, n); run(v); break; }
	case 4: { if (n > 256) { c.outcome("n/a"); return; } std::list<char> v; fillBytes(v, n); run(v); break; }
	case 5: { if (n > 256) { c.outcome("n/a"); return; } std::deque<uint8_t> v; fillBytes(v, n); run(v); break; }
	case 6: { if (n != 16) { c.outcome("n/a"); return; } std::array<uint8_t, 16> v; for (size_t i = 0; i < 16; ++i) v[i] = static_cast<uint8_t>(i * 37 + 0xc1); run(v); break; }
	case 7: { if (n != 256) { c.outcome("n/a"); return; } if (pos != Root) { c.outcome("n/a"); return; }
		CArr v; std::string raw; for (size_t i = 0; i < 256; ++i) { v.d[i] = static_cast<unsigned char>(i * 37 + 0xc1); raw.push_back(static_cast<char>(v.d[i])); }
		typedCase(c, v, Val::map({{S("d"), Val::bin(raw)}}), sigbase0, pos, sym); break; }
	default: { if (n != 32) { c.outcome("n/a"); return; } std::array<char, 32> v; for (size_t i = 0; i < 32; ++i) v[i] = static_cast<char>(i * 37 + 0xc1); run(v); break; }
	}
}

// ---- arrays / maps ---------------------------------------------------------------------------------
static const char* SEQTYPES[] = {"std::vector<int32_t>", "std::map<int32_t,int32_t>", "std::map<std::string,int32_t>", "std::map<uint32_t,int32_t>", "std::vector<std::string>", "std::vector<bool>", "std::list<int32_t>", "std::deque<int32_t>",
	"std::forward_list<int32_t>", "std::set<int32_t>", "std::unordered_map<int32_t,int32_t>", "std::vector<std::vector<uint8_t>>", "std::multimap<int32_t,std::string>", "std::vector<std::optional<int32_t>>", "std::map<std::string,std::vector<int32_t>>", "Wide(class,n_fields)"};
static int32_t smallInt(size_t i) { return static_cast<int32_t>(i % 160) - 33; }   // -33..126: fixint and int8, never a non-negative value above 127
static void seqScenario(bsx::Ctx& c, int ti, int li, int pos) {
	size_t n = SEQLENS[li];
	std::string sym = "len=" + std::to_string(n);
	std::string sigbase0 = std::string("C06/seq/type=") + SEQTYPES[ti] + "/" + sym;
	bool big = n > 16;
	auto run = [&](auto& v) { typedCase(c, v, toVal(v), sigbase0, pos, sym); };
	switch (ti) {
	case 0: { std::vector<int32_t> v; for (size_t i = 0; i < n; ++i) v.push_back(smallInt(i)); run(v); break; }
	case 1: { std::map<int32_t, int32_t> v; for (size_t i = 0; i < n; ++i) v.emplace(-static_cast<int32_t>(i) - 1, smallInt(i)); run(v); break; }   // negative keys: fixint, int8, int16, int32
	case 2: { std::map<std::string, int32_t> v; for (size_t i = 0; i < n; ++i) v.emplace(bsx::fmt("k%05zu", i), smallInt(i)); run(v); break; }
	case 3: { std::map<uint32_t, int32_t> v; for (size_t i = 0; i < n; ++i) v.emplace(static_cast<uint32_t>(i * (n > 16 ? 65537u : 1u)), smallInt(i)); run(v); break; }
	case 4: { std::vector<std::string> v; for (size_t i = 0; i < n; ++i) v.push_back(textOf(i % 40)); run(v); break; }
	case 5: { std::vector<bool> v; for (size_t i = 0; i < n; ++i) v.push_back(i % 3 == 0); Val m = Val::arr(); for (size_t i = 0; i < n; ++i) m.a.push_back(Val::boolean(i % 3 == 0)); typedCase(c, v, m, sigbase0, pos, sym); break; }
	case 6: { if (big) { c.outcome("n/a"); return; } std::list<int32_t> v; for (size_t i = 0; i < n; ++i) v.push_back(smallInt(i)); run(v); break; }
	case 7: { if (big) { c.outcome("n/a"); return; } std::deque<int32_t> v; for (size_t i = 0; i < n; ++i) v.push_back(smallInt(i)); run(v); break; }
	case 8: { if (big) { c.outcome("n/a"); return; } std::forward_list<int32_t> v; for (size_t i = 0; i < n; ++i) v.push_front(smallInt(i)); run(v); break; }
	case 9: { if (big) { c.outcome("n/a"); return; } std::set<int32_t> v; for (size_t i = 0; i < n; ++i) v.insert(-static_cast<int32_t>(i) * 9); run(v); break; }
	case 10: { if (big) { c.outcome("n/a"); return; } std::unordered_map<int32_t, int32_t> v; for (size_t i = 0; i < n; ++i) v.emplace(-static_cast<int32_t>(i) - 1, smallInt(i)); run(v); break; }
	case 11: { if (big) { c.outcome("n/a"); return; } std::vector<std::vector<uint8_t>> v; for (size_t i = 0; i < n; ++i) { v.emplace_back(); fillBytes(v.back(), i); } run(v); break; }
	case 12: { if (big) { c.outcome("n/a"); return; } std::multimap<int32_t, std::string> v; for (size_t i = 0; i < n; ++i) v.emplace(-static_cast<int32_t>(i / 2), textOf(i)); run(v); break; }
	case 13: { if (big) { c.outcome("n/a"); return; } std::vector<std::optional<int32_t>> v; for (size_t i = 0; i < n; ++i) v.push_back(i % 2 ? std::optional<int32_t>(smallInt(i)) : std::nullopt); run(v); break; }
	case 14: { if (big) { c.outcome("n/a"); return; } std::map<std::string, std::vector<int32_t>> v; for (size_t i = 0; i < n; ++i) v[bsx::fmt("k%02zu", i)] = std::vector<int32_t>(i, -1); run(v); break; }
	default: { Wide w(n); run(w); break; }
	}
}

// ---- misc std values --------------------------------------------------------------------------------
static const int NMisc = 16;
static void miscScenario(bsx::Ctx& c, int mi, int pos) {
	auto run = [&](const char* name, auto& v) { typedCase(c, v, toVal(v), std::string("C06/std/type=") + name, pos, name); };
	switch (mi) {
	case 0: { std::nullptr_t v = nullptr; run("nullptr_t", v); break; }
	case 1: { bool v = true; run("bool:true", v); break; }
	case 2: { bool v = false; run("bool:false", v); break; }
	case 3: { std::tuple<int32_t, std::string, bool, double> v{-32769, "tup", false, -0.0}; run("std::tuple<int32_t,string,bool,double>", v); break; }
	case 4: { std::pair<int32_t, std::string> v{-1, "second"}; run("std::pair<int32_t,string>", v); break; }
	case 5: { std::optional<std::string> v; run("std::optional<string>:empty", v); break; }
	case 6: { std::optional<std::string> v = std::string(32, 'o'); run("std::optional<string>:set", v); break; }
	case 7: { std::unique_ptr<std::vector<int32_t>> v; run("std::unique_ptr<vector>:null", v); break; }
	case 8: { auto v = std::make_unique<std::vector<int32_t>>(std::vector<int32_t>{-1, -2}); run("std::unique_ptr<vector>:set", v); break; }
	case 9: { std::shared_ptr<Leaf> v = std::make_shared<Leaf>(); run("std::shared_ptr<Leaf>:set", v); break; }
	case 10: { std::array<int16_t, 3> v{-32768, -129, 127}; run("std::array<int16_t,3>", v); break; }
	case 11: { Colour v = Colour::Blue; run("enum_class(registered)", v); break; }
	case 12: { std::map<Colour, std::string> v{{Colour::Red, "r"}, {Colour::Green, "g"}}; run("std::map<enum,string>", v); break; }
	case 13: { std::map<double, std::vector<uint8_t>> v{{-1.5, {1}}, {0.1, {}}}; run("std::map<double,vector<uint8_t>>", v); break; }
	case 14: { std::vector<std::chrono::seconds> v{std::chrono::seconds(0), std::chrono::seconds(4294967295ll), std::chrono::seconds(4294967296ll)}; run("std::vector<seconds>", v); break; }
	default: { std::map<std::chrono::system_clock::time_point, int32_t> v{{std::chrono::system_clock::time_point(std::chrono::nanoseconds(1)), -1}, {std::chrono::system_clock::time_point(std::chrono::seconds(17179869183ll / 4)), -2}}; run("std::map<system_clock::time_point,int32_t>", v); break; }
	}
}


void c06_containers(bsx::Ctx& c, int scen) {
	switch (scen) {
	case 3: {   // str / bin length thresholds
		int ti = c.choose(static_cast<int>(sizeof BINTYPES / sizeof BINTYPES[0]), "type");
		int li = c.choose(static_cast<int>(sizeof STRLENS / sizeof STRLENS[0]), "length");
		int pos = c.choose(ti == 0 ? 4 : 3, "position");
		strBinScenario(c, ti, li, pos);
		break;
	}
	case 4: {   // array / map length thresholds
		int ti = c.choose(static_cast<int>(sizeof SEQTYPES / sizeof SEQTYPES[0]), "type");
		int li = c.choose(static_cast<int>(sizeof SEQLENS / sizeof SEQLENS[0]), "length");
		int pos = c.choose(3, "position");
		seqScenario(c, ti, li, pos);
		break;
	}
	case 7: {   // other std values
		int mi = c.choose(NMisc, "value");
		int pos = c.choose(3, "position");
		(void)c.choose(1, "pad");
		miscScenario(c, mi, pos);
		break;
	}
	case 8: {   // enum / string keys and values at the key position
		int which = c.choose(4, "value");
		int pos = c.choose(NPos, "position");
		(void)c.choose(1, "pad");
		if (which < 3) { Colour v = which == 0 ? Colour::Red : which == 1 ? Colour::Green : Colour::Blue; typedCase(c, v, toVal(v), "C06/enum/type=enum_class(registered)", pos, colourName(v)); }
		else { std::string v = "key with spaces \xc3\xa9"; typedCase(c, v, toVal(v), "C06/strbin/type=std::string/utf8_text", pos, v); }
		break;
	}
	}
}
