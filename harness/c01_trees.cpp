// C01, part (ii): shaped value trees (models/shaped_value.hpp) up to depth 3 / width 2 over
// {null, bool, int, float, str, bin, array, object}, saved and reloaded in every output configuration
// of every archive that can carry the shape; plus the fixed point of FOREIGN documents: the same trees
// written by the independent emitters of harness/typed_load.hpp (load -> save -> load).
#include "harness/typed_load.hpp"
#include "harness/c01_common.hpp"

using sv::Node;

static long countTrees(int d) { if (d <= 1) return 6; long m = countTrees(d - 1); return 6 + 2 * (1 + m + m * m); }
int c01_tree_count() { return static_cast<int>(countTrees(c01::thorough() ? 3 : 2)); }

static Node leaf(int k) {
	switch (k) {
	case 0: return Node::mk(sv::Nil);
	case 1: return Node::boolean(true);
	case 2: return Node::integer(sv::I32, -129);
	case 3: return Node::f64(0.1);
	case 4: return Node::str("\xC3\xA9<");
	default: return Node::binary(std::string("\x00\xff", 2));
	}
}
static Node makeTree(int d, long i) {
	if (i < 6) return leaf(static_cast<int>(i));
	i -= 6;
	const long m = countTrees(d - 1), per = 1 + m + m * m;
	const bool obj = i / per == 1; long r = i % per;
	std::vector<Node> kids;
	if (r == 0) {}
	else if (r - 1 < m) kids.push_back(makeTree(d - 1, r - 1));
	else { r -= 1 + m; kids.push_back(makeTree(d - 1, r % m)); kids.push_back(makeTree(d - 1, r / m)); }
	if (!obj) return Node::arr(kids);
	Node n = Node::obj();
	for (size_t k = 0; k < kids.size(); ++k) n.fields.emplace_back("k" + std::to_string(k), kids[k]);
	return n;
}
static Node blank(const Node& n) {   // same shape, default-constructed scalars
	Node b = Node::mk(n.k);
	for (auto& e : n.items) b.items.push_back(blank(e));
	for (auto& f : n.fields) b.fields.emplace_back(f.first, blank(f.second));
	return b;
}
static void features(const Node& n, bool root, std::set<std::string>& f) {
	if (!root) {
		if (n.k == sv::Nil) f.insert("nil");
		if (n.k == sv::Arr && n.items.empty()) f.insert("empty_arr"); if (n.k == sv::Obj && n.fields.empty()) f.insert("empty_obj");
	}
	for (auto& e : n.items) features(e, false, f); for (auto& e : n.fields) features(e.second, false, f);
}
static bool anyUnsupported(const Node& n) { if (n.unsupported) return true; for (auto& e : n.items) if (anyUnsupported(e)) return true; for (auto& f : n.fields) if (anyUnsupported(f.second)) return true; return false; }
static bool countsOk(const Node& n) {
	if (n.k == sv::Arr && (n.attempted != n.items.size() || n.leftover)) return false;
	for (auto& e : n.items) if (!countsOk(e)) return false; for (auto& f : n.fields) if (!countsOk(f.second)) return false; return true;
}
static bool sameTree(const Node& a, const Node& b) { return a.toVal() == b.toVal(); }
// CSV carries exactly: a non-empty array of objects with the same, non-empty key list whose values are scalars
static bool csvShape(const Node& n) {
	if (n.k != sv::Arr || n.items.empty()) return false;
	for (auto& r : n.items) {
		if (r.k != sv::Obj || r.fields.empty() || r.fields.size() != n.items[0].fields.size()) return false;
		for (auto& f : r.fields) if (f.second.k == sv::Arr || f.second.k == sv::Obj || f.second.k == sv::Bin) return false;
	}
	return true;
}
static bool xmlShape(const Node& n) { return n.k == sv::Arr || n.k == sv::Obj || n.k == sv::Bin; }

void c01_trees(bsx::Ctx& c, int arch) {
	using namespace c01;
	const int D = thorough() ? 3 : 2;
	const int foreign = c.choose(2, "document source");   // 0 = written by the library, 1 = written by the independent emitter
	const int nTrees = static_cast<int>(countTrees(D));
	const int hi = c.choose((nTrees + 63) / 64, "tree block"), lo = c.choose(64, "tree");   // two levels: the work is partitioned over the first five choices
	const int ti = hi * 64 + lo;
	if (ti >= nTrees) { c.outcome("n/a:index"); return; }
	Node src = makeTree(D, ti);
	if ((arch == Csv && !csvShape(src)) || (arch == Xml && !xmlShape(src))) { c.outcome(std::string(archName(arch)) + ":n/a:format_cannot_carry"); return; }
	std::set<std::string> fs; features(src, true, fs);
	std::string feat; for (auto& f : fs) feat += (feat.empty() ? "" : "+") + f;
	const std::string cls = std::string("root=") + sv::kname(src.k) + ",has=" + (feat.empty() ? "none" : feat);   // nested nil / empty array / empty object: what the formats treat specially
	const std::string sigArch = std::string("C01/") + archName(arch), sigTail = std::string("/type=shaped_tree/val=") + cls + "/pos=root";
	const std::string what = "tree=" + src.toVal().dump();
	static std::vector<Cfg> cfgsOf[4] = {configs(0), configs(1), configs(2), configs(3)};
	const auto& cfgs = cfgsOf[arch];
	std::map<std::string, std::pair<std::vector<int>, std::string>> fails;
	auto fail = [&](const std::string& out, int ci, const std::string& detail) { auto& f = fails[out]; if (f.first.empty()) f.second = "[" + cfgName(arch, cfgs[static_cast<size_t>(ci)]) + "] " + detail; f.first.push_back(ci); };
	auto save = [&](Node& n, const Cfg& cf, std::string& doc) { doc.clear(); return tl::save(arch, n, doc, cf.e != 0, optsOf(cf)); };
	auto load = [&](Node& n, const Cfg& cf, const std::string& doc) { tl::Source s; s.stream = cf.e != 0; return tl::load(arch, n, doc, s, optsOf(cf)); };

	if (foreign) {
		// fixed point of an accepted foreign document (default options; memory and stream input)
		const ref::Val v = src.toVal();
		if (!tl::canCarry(arch, v)) { c.outcome(std::string(archName(arch)) + ":foreign:n/a"); return; }
		const std::string doc0 = tl::emit(arch, v);
		for (int e = 0; e <= 1; ++e) {
			Cfg cf; cf.e = e;
			c.describe(sigArch + "/cfg=foreign:" + encName(e) + sigTail, what + " doc=" + docText(arch, cf, doc0));
			Node t1 = blank(src); lib::Out l1 = load(t1, cf, doc0);
			if (!l1.ok() || anyUnsupported(t1)) { c.outcome(std::string(archName(arch)) + ":foreign:not_accepted:" + l1.cls); continue; }   // acceptance of foreign documents is judged by C07/C08/C09
			c.outcome(std::string(archName(arch)) + (sameTree(t1, src) ? ":foreign:accepted" : ":foreign:accepted_as_other_value"));
			std::string doc1; lib::Out s1 = save(t1, cf, doc1);
			if (!s1.ok()) { fail("fixed_point_broken:resave_threw:" + s1.cls, e, what + " doc=" + docText(arch, cf, doc0) + " loaded=" + t1.toVal().dump() + " error=" + s1.what); continue; }
			Node t2 = blank(src); lib::Out l2 = load(t2, cf, doc1);
			if (!l2.ok()) { fail("fixed_point_broken:second_document_cannot_be_loaded:" + l2.cls, e, what + " doc=" + docText(arch, cf, doc0) + " doc2=" + docText(arch, cf, doc1) + " error=" + l2.what); continue; }
			if (!sameTree(t1, t2) || !countsOk(t2)) fail("fixed_point_broken:value_drifts", e, what + " doc=" + docText(arch, cf, doc0) + " first load=" + t1.toVal().dump() + " doc2=" + docText(arch, cf, doc1) + " second load=" + t2.toVal().dump());
		}
		c.evals(1); c.nontrivial(sigArch + "/foreign" + what);
		for (auto& f : fails) c.violation(sigArch + "/cfg=foreign:" + (f.second.first.size() == 2 ? "any" : encName(f.second.first[0])) + sigTail + "/out=" + f.first, f.second.second);
		return;
	}

	std::string memDoc[3][5]; bool memHave[3][5] = {};
	for (size_t ci = 0; ci < cfgs.size(); ++ci) {
		const Cfg& cf = cfgs[ci];
		c.describe(sigArch + "/cfg=" + cfgName(arch, cf) + sigTail, what);
		c.heartbeat();
		std::string doc1, doc2;
		Node s = src; lib::Out s1 = save(s, cf, doc1);
		if (anyUnsupported(s)) { c.outcome(std::string(archName(arch)) + ":n/a:unsupported_at_this_level"); return; }
		if (!s1.ok()) { c.outcome(std::string(archName(arch)) + ":save_threw:" + s1.cls); if (s1.cls == "nonstd") fail("save_threw_nonstd", static_cast<int>(ci), what); continue; }
		if (cf.e == 0) { memDoc[cf.f][cf.s] = doc1; memHave[cf.f][cf.s] = true; }
		if (cf.e != 0 && ((cf.e == 1 && !cf.b) || arch == MsgPack)) {
			const int mf = arch == MsgPack ? 0 : cf.f;
			if (memHave[mf][cf.s] && memDoc[mf][cf.s] != doc1) fail("mem_stream_bytes_differ", static_cast<int>(ci), what + " memory=" + docText(arch, cf, memDoc[mf][cf.s]) + " stream=" + docText(arch, cf, doc1));
		}
		Node t1 = blank(src); lib::Out l1 = load(t1, cf, doc1);
		if (!l1.ok()) { c.outcome(std::string(archName(arch)) + ":cannot_be_loaded"); fail("cannot_be_loaded:" + l1.cls, static_cast<int>(ci), what + " doc=" + docText(arch, cf, doc1) + " error=" + l1.what); continue; }
		if (!sameTree(src, t1) || !countsOk(t1)) { c.outcome(std::string(archName(arch)) + ":loads_different_value"); fail("loads_different_value", static_cast<int>(ci), what + " loaded=" + t1.dumpLoaded() + " doc=" + docText(arch, cf, doc1)); }
		else c.outcome(std::string(archName(arch)) + ":ok");
		lib::Out s2 = save(t1, cf, doc2);
		if (!s2.ok()) { fail("fixed_point_broken:resave_threw:" + s2.cls, static_cast<int>(ci), what + " loaded=" + t1.dumpLoaded() + " error=" + s2.what); continue; }
		Node t2 = blank(src); lib::Out l2 = load(t2, cf, doc2);
		if (!l2.ok()) { fail("fixed_point_broken:second_document_cannot_be_loaded:" + l2.cls, static_cast<int>(ci), what + " loaded=" + t1.dumpLoaded() + " doc2=" + docText(arch, cf, doc2) + " error=" + l2.what); continue; }
		if (!sameTree(t1, t2) || !countsOk(t2)) fail("fixed_point_broken:value_drifts", static_cast<int>(ci), what + " first load=" + t1.dumpLoaded() + " second load=" + t2.dumpLoaded() + " doc=" + docText(arch, cf, doc1) + " doc2=" + docText(arch, cf, doc2));
	}
	c.evals(cfgs.size() - 1);
	c.nontrivial(sigArch + sigTail + what);
	if (ti == 40) c.sample(sigArch + sigTail + " " + what + " x " + std::to_string(cfgs.size()) + " configurations");
	for (auto& f : fails) c.violation(sigArch + "/cfg=" + cfgClass(arch, cfgs, f.second.first) + sigTail + "/out=" + f.first, f.second.second + " | failing configurations: " + std::to_string(f.second.first.size()) + " of " + std::to_string(cfgs.size()));
}
