// C01 type catalogue, archive csv, group 0 (see harness/c01_groups.hpp)
#include "bitserializer/csv_archive.h"
#include "harness/c01_groups.hpp"
std::vector<c01::Entry> c01_tab_csv_g00() { return c01::makeCsvGroup<BitSerializer::Csv::CsvArchive, 0>(); }
