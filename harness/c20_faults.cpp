// C20 — every failure surfaces as a catchable exception: no terminate, no leak.
// Fault enumeration: for each scenario (save/load of corpus documents in all four archives,
// memory and stream) every fault point is enumerated completely:
//   (a) every truncation length of the input,
//   (b) "the k-th operator new fails" for every k up to the allocation count of the fault-free run
//       (pugixml's allocator through its official seam),
//   (c) every byte offset at which the input streambuf starts to fail/throw and at which the output
//       streambuf starts to fail/throw,
//   (d) library-detected errors raised mid-save / mid-load at every position (CSV row width,
//       unregistered enum, fixed-size array mismatch, lying container size, validation cap).
// Oracle: the process survives (worker supervision + terminate handler), the call site sees an
// exception derived from std::exception, the allocation ledger returns to its pre-call level after all
// objects are destroyed, and a following fault-free operation succeeds.
#define ENV_ALLOC_SEAM
#include "harness/typed_load.hpp"
#include "bitserializer/types/std/vector.h"
#include "bitserializer/types/std/array.h"
#include "bitserializer/types/std/map.h"
#include "bitserializer/types/std/tuple.h"
#include "bitserializer/types/std/pair.h"
#include "bitserializer/types/std/list.h"
#include "bitserializer/types/std/deque.h"
#include "bitserializer/types/std/set.h"
#include "bitserializer/types/std/optional.h"
#include <pugixml.hpp>

using namespace sv; using ref::Val; using tl::archName;

// pugixml allocation seam (official API): same ledger and failure injection as operator new
static void* pugiAlloc(size_t n) { try { return ::operator new(n); } catch (const std::bad_alloc&) { return nullptr; } }
static void pugiFree(void* p) { ::operator delete(p); }

struct Doc { std::string name; Val v; };
static std::vector<Doc> corpus(int arch, bool thorough = false) {
	using V = Val; std::vector<Doc> r;
	if (arch == tl::Csv) {
		auto row = [](Val a, Val b, Val c) { return V::map({{V::str("a"), a}, {V::str("b"), b}, {V::str("c"), c}}); };
		r.push_back({"rows", V::arr({row(V::integer(1), V::str("x,\"q\""), V::integer(3)), row(V::integer(4), V::str("y"), V::integer(6))})});
		return r;
	}
	r.push_back({"obj3", V::map({{V::str("a"), V::integer(1)}, {V::str("b"), V::str("xy")}, {V::str("c"), V::boolean(true)}})});
	r.push_back({"nested", V::map({{V::str("o"), V::map({{V::str("i"), V::integer(7)}, {V::str("s"), V::str("some text longer than the small string buffer")}})}, {V::str("l"), V::arr({V::integer(1), V::str("two"), V::arr({V::integer(3)})})}, {V::str("z"), V::integer(9)}})});
	r.push_back({"arr", V::arr({V::integer(1), V::integer(-2), V::str("s")})});
	// multi-byte scalars and 16-bit length fields slid across every alignment of the stream reader's refill boundary
	// (16 bytes in the c16 variant, 256 bytes otherwise): a read that ends inside such a field must still surface
	if (arch == tl::MsgPack) {
		// [padding string of k bytes, scalars..., X]: X is the last value, so that a read that wrongly succeeds inside it makes the whole load succeed
		static const std::pair<const char*, Val> last[] = {{"u32", V::integer(70000)}, {"i64", V::integer(-(1ll << 40))}, {"f64", V::dbl(1.5)}, {"u64", V::integer(1ll << 33)}};
		// quick: paddings 0..15 and 236..251 (every alignment of both chunk sizes); thorough: every padding 0..271
		for (auto& x : last) for (size_t k = 0; k < (thorough ? 272u : 32u); ++k) {
			size_t pad = thorough ? k : k < 16 ? k : 236 + (k - 16);
			r.push_back({std::string("wide_") + x.first + "_pad" + std::to_string(pad), V::arr({V::str(std::string(pad, 'p')), V::integer(300), V::dbl(2.5), x.second})});
		}
	}
	return r;
}

// result of one guarded call, without heap allocations that would outlive the ledger scope
struct Res { bool threw = false; bool stdExc = false; char cls[96] = {0}; char what[160] = {0}; };
template <class F> static Res guarded(F&& f) {
	Res r;
	try { f(); }
	catch (const BitSerializer::SerializationException& e) { r.threw = true; r.stdExc = true; snprintf(r.cls, sizeof r.cls, "ser:%s", lib::codeName(e.GetErrorCode())); snprintf(r.what, sizeof r.what, "%s", e.what()); }
	catch (const std::bad_alloc&) { r.threw = true; r.stdExc = true; snprintf(r.cls, sizeof r.cls, "std:bad_alloc"); }
	catch (const std::ios_base::failure& e) { r.threw = true; r.stdExc = true; snprintf(r.cls, sizeof r.cls, "std:ios_base::failure"); snprintf(r.what, sizeof r.what, "%s", e.what()); }
	catch (const std::exception& e) { r.threw = true; r.stdExc = true; snprintf(r.cls, sizeof r.cls, "std:other"); snprintf(r.what, sizeof r.what, "%s", e.what()); }
	catch (...) { r.threw = true; snprintf(r.cls, sizeof r.cls, "nonstd"); }
	if (!r.threw) snprintf(r.cls, sizeof r.cls, "ok");
	return r;
}

template <class A> struct Tag { using type = A; };
template <class F> static auto withArch(int arch, F&& f) {
	switch (arch) { case tl::MsgPack: return f(Tag<tl::MP>{}); case tl::Json: return f(Tag<tl::JS>{}); case tl::Xml: return f(Tag<tl::XM>{}); default: return f(Tag<tl::CS>{}); }
}

template <class F> static auto withArchNoCsv(int arch, F&& f) {
	switch (arch) { case tl::MsgPack: return f(Tag<tl::MP>{}); case tl::Json: return f(Tag<tl::JS>{}); default: return f(Tag<tl::XM>{}); }
}

// one load with ledger; returns Res and leak count
static Res ledgerLoad(int arch, const Node& shape, const std::string& bytes, int skind, long failAtAlloc, long streamFailAt, bool streamThrows, long& leaked, long& allocs) {
	Res r; auto& a = env::alloc();
	{
		env::AllocScope ledger(-1);
		{
			Node t = shape; t.canary();
			auto o = lib::opts(true, true);
			env::ChunkedInBuf buf(bytes); buf.failAt = streamFailAt; buf.failThrows = streamThrows;
			a.count = 0; a.failAtCount = failAtAlloc;
			r = guarded([&] {
				withArch(arch, [&](auto tag) {
					using A = typename decltype(tag)::type; Root root{t};
					if (skind == 0) BitSerializer::LoadObject<A>(root, bytes, o);
					else { std::istream is(&buf); BitSerializer::LoadObject<A>(root, is, o); }
					return 0;
				});
			});
			a.failAtCount = -1; allocs = a.count;
		}
		leaked = a.live;
	}
	return r;
}
static Res ledgerSave(int arch, const Node& source, int skind, long failAtAlloc, long streamFailAt, bool streamThrows, long& leaked, long& allocs, bool& badbit, size_t& outLen) {
	Res r; auto& a = env::alloc(); badbit = false; outLen = 0;
	{
		env::AllocScope ledger(-1);
		{
			Node s = source;
			auto o = lib::opts(true, true); o.streamOptions.writeBom = false;
			std::string out; env::FaultOutBuf obuf; obuf.failAt = streamFailAt; obuf.failThrows = streamThrows;
			a.count = 0; a.failAtCount = failAtAlloc;
			r = guarded([&] {
				withArch(arch, [&](auto tag) {
					using A = typename decltype(tag)::type; Root root{s};
					if (skind == 0) { BitSerializer::SaveObject<A>(root, out, o); outLen = out.size(); }
					else { std::ostream os(&obuf); BitSerializer::SaveObject<A>(root, os, o); badbit = os.bad() || os.fail(); outLen = obuf.data.size(); }
					return 0;
				});
			});
			a.failAtCount = -1; allocs = a.count;
		}
		leaked = a.live;
	}
	return r;
}

// ---- (d) typed scenarios with library-detected errors raised midway ---------------------------------
enum class Color { Red, Green, Unregistered };
REGISTER_ENUM(Color, { {Color::Red, "Red"}, {Color::Green, "Green"} })
struct EnumRow { Color c = Color::Red; int n = 0; template <class A> void Serialize(A& ar) { ar << BitSerializer::KeyValue("n", n) << BitSerializer::KeyValue("c", c); } };
struct WideRow { int n = 0; bool extra = false; template <class A> void Serialize(A& ar) { ar << BitSerializer::KeyValue("n", n); if (extra) { int e = 1; ar << BitSerializer::KeyValue("e", e); } } };
struct ArrHolder { std::array<int, 3> fixed{}; int z = 0; template <class A> void Serialize(A& ar) { ar << BitSerializer::KeyValue("fixed", fixed) << BitSerializer::KeyValue("z", z); } };
struct TupHolder { std::tuple<int, int, int> fixed{}; int z = 0; template <class A> void Serialize(A& ar) { ar << BitSerializer::KeyValue("fixed", fixed) << BitSerializer::KeyValue("z", z); } };
struct Req3 { int a = 0, b = 0, c = 0; template <class A> void Serialize(A& ar) { ar << BitSerializer::KeyValue("a", a, BitSerializer::Required()) << BitSerializer::KeyValue("b", b, BitSerializer::Required()) << BitSerializer::KeyValue("c", c, BitSerializer::Required()); } };
struct Outer { Req3 inner; std::vector<Req3> list; template <class A> void Serialize(A& ar) { ar << BitSerializer::KeyValue("inner", inner) << BitSerializer::KeyValue("list", list); } };

// user types whose k-th Serialize() call throws (an exception of the application, derived from std::exception or not)
struct UserError : std::exception { const char* what() const noexcept override { return "user type refused"; } };
struct UserErrorNonStd { int code = 7; };
static long gSerializeCalls = 0, gThrowAtCall = -1; static int gThrowKind = 0;
static void userHook() { if (++gSerializeCalls == gThrowAtCall) { if (gThrowKind == 0) throw UserError(); if (gThrowKind == 1) throw std::runtime_error("user runtime_error"); throw UserErrorNonStd{}; } }
struct ULeaf { int v = 0; std::string s; template <class A> void Serialize(A& ar) { userHook(); ar << BitSerializer::KeyValue("v", v) << BitSerializer::KeyValue("s", s); } };
struct UMid { ULeaf a; std::vector<ULeaf> l; std::map<std::string, ULeaf> m; int n = 0;
	template <class A> void Serialize(A& ar) { userHook(); ar << BitSerializer::KeyValue("a", a) << BitSerializer::KeyValue("l", l) << BitSerializer::KeyValue("m", m) << BitSerializer::KeyValue("n", n); } };
struct UTop { UMid x; std::vector<UMid> ms; int tail = 0;
	template <class A> void Serialize(A& ar) { userHook(); ar << BitSerializer::KeyValue("x", x) << BitSerializer::KeyValue("ms", ms) << BitSerializer::KeyValue("tail", tail); } };
static ULeaf mkLeaf(int i) { ULeaf l; l.v = i; l.s = "leaf " + std::to_string(i) + " with a text longer than the small string buffer"; return l; }
static UMid mkMid(int i) { UMid m; m.a = mkLeaf(i); m.l = {mkLeaf(i + 1), mkLeaf(i + 2)}; m.m = {{"k1", mkLeaf(i + 3)}, {"k2", mkLeaf(i + 4)}}; m.n = i; return m; }
static UTop mkTop() { UTop t; t.x = mkMid(10); t.ms = {mkMid(20), mkMid(30)}; t.tail = 99; return t; }

struct NumIn { double y = 2.5; int n = 1; template <class A> void Serialize(A& ar) { ar << BitSerializer::KeyValue("y", y) << BitSerializer::KeyValue("n", n); } };
struct NumDoc { double x = 1.5; std::vector<double> v{1.0, 2.0, 3.0}; NumIn in; std::map<std::string, double> m{{"k1", 1.0}, {"k2", 2.0}}; int tail = 9;
	template <class A> void Serialize(A& ar) { ar << BitSerializer::KeyValue("x", x) << BitSerializer::KeyValue("v", v) << BitSerializer::KeyValue("in", in) << BitSerializer::KeyValue("m", m) << BitSerializer::KeyValue("tail", tail); } };

// Allocations that belong to lazily initialised statics (first use of an enum registry, locale facets, ...)
// are not leaks: a run that reports live blocks is repeated once and only the repeated run is judged.
template <class TA, class T> static Res ledgerTypedSave(T& obj, bool stream, long& leaked) {
	Res r; auto& a = env::alloc();
	for (int pass = 0; pass < 2; ++pass) {
		{ env::AllocScope ledger(-1); { std::string out; r = guarded([&] { if (stream) { std::ostringstream os; BitSerializer::SaveObject<TA>(obj, os); } else BitSerializer::SaveObject<TA>(obj, out); }); } leaked = a.live; }
		if (leaked == 0) break;
	}
	return r;
}
template <class TA, class T> static Res ledgerTypedLoad(T& obj, const std::string& bytes, bool stream, const BitSerializer::SerializationOptions& o, long& leaked) {
	Res r; auto& a = env::alloc();
	for (int pass = 0; pass < 2; ++pass) {
		{ env::AllocScope ledger(-1); { T fresh = obj; r = guarded([&] { if (stream) { std::istringstream is(bytes); BitSerializer::LoadObject<TA>(fresh, is, o); } else BitSerializer::LoadObject<TA>(fresh, bytes, o); }); } leaked = a.live; }
		if (leaked == 0) break;
	}
	return r;
}

// typed model with growing std containers (allocation failures inside container growth / string assignment / map insertion)
struct Big { std::vector<std::string> v; std::map<std::string, int> m; std::string s; std::vector<std::vector<int>> vv;
	template <class A> void Serialize(A& ar) { ar << BitSerializer::KeyValue("v", v) << BitSerializer::KeyValue("m", m) << BitSerializer::KeyValue("s", s) << BitSerializer::KeyValue("vv", vv); } };
struct CsvRow { std::string name; int n = 0; std::string note; template <class A> void Serialize(A& ar) { ar << BitSerializer::KeyValue("name", name) << BitSerializer::KeyValue("n", n) << BitSerializer::KeyValue("note", note); } };
static Big makeBig() { Big b; b.v = {"first string that is longer than the small string optimisation buffer", "b", std::string(70, 'c')}; b.m = {{"key_one_with_a_long_long_long_name", 1}, {"k2", 2}}; b.s = std::string(100, 's'); b.vv = {{1, 2, 3}, {5}, {4}}; /* no empty inner container: XML cannot reload one (C01 finding) */ return b; }
static std::vector<CsvRow> makeRows() { return {{"a long name that needs the heap, with \"quotes\" and , separators", 1, "x"}, {"b", 2, std::string(80, 'n')}, {"c", 3, ""}}; }
template <class TA, class T> static Res typedAllocFault(const T& value, bool save, bool stream, long k, long& leaked, long& allocs, const BitSerializer::SerializationOptions& o) {
	// the document is produced outside the ledger; the faulted operation runs inside it
	std::string doc; { T copy = value; doc = BitSerializer::SaveObject<TA>(copy); }
	Res r; auto& a = env::alloc();
	for (int pass = 0; pass < 2; ++pass) {
		{ env::AllocScope ledger(-1);
			{ T obj = save ? value : T{}; std::string out; a.count = 0; a.failAtCount = k;
				r = guarded([&] {
					if (save) { if (stream) { std::ostringstream os; BitSerializer::SaveObject<TA>(obj, os, o); } else BitSerializer::SaveObject<TA>(obj, out, o); }
					else { if (stream) { std::istringstream is(doc); BitSerializer::LoadObject<TA>(obj, is, o); } else BitSerializer::LoadObject<TA>(obj, doc, o); } });
				a.failAtCount = -1; allocs = a.count; }
			leaked = a.live; }
		if (leaked == 0) break;
	}
	return r;
}

static void judgeCommon(bsx::Ctx& c, const std::string& sig, const Res& r, long leaked, bool mustThrow, const std::string& info) {
	c.outcome(r.cls);
	if (r.threw && !r.stdExc) c.violation(sig + "/out=nonstd_exception", "an exception not derived from std::exception escaped | " + info);
	if (mustThrow && !r.threw) c.violation(sig + "/out=returned_normally", "the operation returned normally although the fault makes success impossible | " + info);
	if (leaked != 0) c.violation(sig + "/out=leak", std::to_string(leaked) + " allocation(s) made during the call are still live after all objects were destroyed (outcome " + r.cls + ") | " + info);
}
static void followUp(bsx::Ctx& c, const std::string& sig) {
	// a following fault-free operation on the same thread must succeed
	Node n = Node::obj({{"k", Node::integer(I32, 5)}}); std::string out; long lk = 0, al = 0; bool bb = false; size_t ol = 0;
	Res r = ledgerSave(tl::MsgPack, n, 0, -1, -1, false, lk, al, bb, ol);
	if (r.threw) c.violation(sig + "/out=follow_up_failed", std::string("fault-free save after the faulted operation threw ") + r.cls);
}


// ---- (e) errors raised while an element of a std adapter is being loaded, under every mismatch policy ---------------
// The error (number overflow with OverflowNumberPolicy::ThrowError, ill-formed UTF-8 into a wide string with
// UtfEncodingErrorPolicy::ThrowError, input that ends inside the element) has nothing to do with the mismatched-types
// policy, so it must reach the caller whether that policy is ThrowError or Skip.
template <class E> using KTuple = std::tuple<int, E, int>;      template <class E> using KPair = std::pair<int, E>;
template <class E> using KArray = std::array<E, 2>;             template <class E> using KVector = std::vector<E>;
template <class E> using KList = std::list<E>;                  template <class E> using KDeque = std::deque<E>;
template <class E> using KSet = std::set<E>;                    template <class E> using KMap = std::map<std::string, E>;
template <class E> using KOptional = std::optional<E>;          template <class E> using KVecTuple = std::vector<std::tuple<int, E>>;
template <class E> using KNested = std::vector<std::vector<E>>;
template <class E> static void fillK(std::tuple<int, E, int>& x, const E& v) { x = {1, v, 3}; }
template <class E> static void fillK(std::pair<int, E>& x, const E& v) { x = {1, v}; }
template <class E> static void fillK(std::array<E, 2>& x, const E& v) { x[0] = v; x[1] = v; }
template <class E> static void fillK(std::vector<E>& x, const E& v) { x = {v, v}; }
template <class E> static void fillK(std::list<E>& x, const E& v) { x = {v, v}; }
template <class E> static void fillK(std::deque<E>& x, const E& v) { x = {v, v}; }
template <class E> static void fillK(std::set<E>& x, const E& v) { x = {v}; }
template <class E> static void fillK(std::map<std::string, E>& x, const E& v) { x = {{"k", v}}; }
template <class E> static void fillK(std::optional<E>& x, const E& v) { x = v; }
template <class E> static void fillK(std::vector<std::tuple<int, E>>& x, const E& v) { x = {{1, v}, {2, v}}; }
template <class E> static void fillK(std::vector<std::vector<E>>& x, const E& v) { x = {{v}, {v, v}}; }
static const char* kKindName[] = {"tuple", "pair", "array", "vector", "list", "deque", "set", "map", "optional", "vector<tuple>", "vector<vector>"};
template <template <class> class K> static void adapterErrors(bsx::Ctx& c, int kind, bool objectKind) {
	int arch = c.choose(2, "archive");   // MsgPack, JSON
	int err = c.choose(3, "error");      // 0 overflow, 1 ill-formed UTF-8 into a wide string, 2 input ends inside (MsgPack, array-like kinds)
	int mm = c.choose(2, "mismatch_policy"); int stream = c.choose(2, "stream");
	static const char* errName[] = {"overflow", "utf_error", "truncated"};
	std::string sig = std::string("C20/adapter_error/") + archName(arch) + "/kind=" + kKindName[kind] + "/error=" + errName[err] + (mm ? "/mismatch=skip" : "/mismatch=throw") + (stream ? "/stream" : "/mem");
	auto o = lib::opts(true, mm == 0); o.utfEncodingErrorPolicy = BitSerializer::Convert::Utf::UtfEncodingErrorPolicy::ThrowError;
	long leaked = 0; Res r;
	auto doc = [&](auto& src) { return arch == tl::MsgPack ? BitSerializer::SaveObject<tl::MP>(src) : BitSerializer::SaveObject<tl::JS>(src); };
	auto load = [&](auto& target, const std::string& bytes) { return arch == tl::MsgPack ? ledgerTypedLoad<tl::MP>(target, bytes, stream == 1, o, leaked) : ledgerTypedLoad<tl::JS>(target, bytes, stream == 1, o, leaked); };
	if (err == 0) {
		K<int> src; fillK(src, 300); std::string bytes = doc(src);
		c.describe(sig, "300 into uint8_t element; doc=" + (arch == tl::MsgPack ? bsx::hex(bytes) : bytes));
		K<uint8_t> target; r = load(target, bytes);
		c.nontrivial(sig); judgeCommon(c, sig, r, leaked, true, "overflowing element");
	} else if (err == 1) {
		K<std::string> src; fillK(src, std::string("a\xC3")); std::string bytes = doc(src);
		c.describe(sig, "ill-formed UTF-8 'a C3' into u16string element; doc=" + bsx::hex(bytes));
		K<std::u16string> target; r = load(target, bytes);
		c.nontrivial(sig); judgeCommon(c, sig, r, leaked, true, "ill-formed UTF-8 element");
	} else {
		if (arch != tl::MsgPack || objectKind) { c.outcome("n/a"); return; }   // maps: the throwing object-scope destructor is a listed finding
		K<int> src; fillK(src, 70000); std::string bytes = doc(src);
		int len = c.choose(static_cast<int>(bytes.size()), "len");
		c.describe(sig, "len=" + std::to_string(len) + " of " + bsx::hex(bytes));
		K<int> target; r = load(target, bytes.substr(0, static_cast<size_t>(len)));
		c.nontrivial(sig + std::to_string(len)); judgeCommon(c, sig, r, leaked, true, "len=" + std::to_string(len));
	}
	if (kind == 0 && err == 0 && arch == 0 && !stream) c.sample(sig + " -> " + r.cls);
}

static void body(bsx::Ctx& c) {
	static bool once = (pugi::set_memory_management_functions(pugiAlloc, pugiFree), true); (void)once;
	const bool thorough = c.tier == "thorough";
	int scen = c.choose(8, "scenario");
	static std::vector<Doc> C[4] = {corpus(0, thorough), corpus(1, thorough), corpus(2, thorough), corpus(3, thorough)};
	static const char* scenName[] = {"load_truncated", "load_alloc_fail", "save_alloc_fail", "load_stream_fault", "save_stream_fault", "mid_operation_error", "typed_alloc_fail"};
	if (scen == 7) {
		int kind = c.choose(11, "kind");
		switch (kind) {
		case 0: adapterErrors<KTuple>(c, kind, false); break; case 1: adapterErrors<KPair>(c, kind, true); break; case 2: adapterErrors<KArray>(c, kind, false); break;
		case 3: adapterErrors<KVector>(c, kind, false); break; case 4: adapterErrors<KList>(c, kind, false); break; case 5: adapterErrors<KDeque>(c, kind, false); break;
		case 6: adapterErrors<KSet>(c, kind, false); break; case 7: adapterErrors<KMap>(c, kind, true); break; case 8: adapterErrors<KOptional>(c, kind, false); break;
		case 9: adapterErrors<KVecTuple>(c, kind, false); break; default: adapterErrors<KNested>(c, kind, false); break;
		}
		return;
	}
	if (scen == 6) {
		// ---- (b') k-th allocation failure while saving / loading typed std containers, all archives, memory and stream, UTF-16 stream output as well
		int arch = c.choose(4, "archive"); int save = c.choose(2, "save"); int stream = c.choose(2, "stream"); int enc = stream && save ? c.choose(2, "utf16") : 0;
		auto o = lib::opts(); if (enc) { o.streamOptions.encoding = BitSerializer::Convert::Utf::UtfType::Utf16le; o.streamOptions.writeBom = true; }
		std::string sig = std::string("C20/typed_alloc_fail/") + archName(arch) + (save ? "/save" : "/load") + (stream ? "/stream" : "/mem") + (enc ? "/utf16" : "");
		long leaked = 0, allocs = 0;
		auto run = [&](long k) { return arch == tl::Csv ? typedAllocFault<tl::CS>(makeRows(), save == 1, stream == 1, k, leaked, allocs, o)
			: arch == tl::MsgPack ? typedAllocFault<tl::MP>(makeBig(), save == 1, stream == 1, k, leaked, allocs, o) : arch == tl::Json ? typedAllocFault<tl::JS>(makeBig(), save == 1, stream == 1, k, leaked, allocs, o) : typedAllocFault<tl::XM>(makeBig(), save == 1, stream == 1, k, leaked, allocs, o); };
		c.describe(sig, "fault-free run");
		Res r0 = run(-1);
		if (r0.threw) { c.violation(sig + "/out=fault_free_run_failed", std::string("fault-free run threw ") + r0.cls + " " + r0.what); return; }
		long total = allocs;
		int k = c.choose(static_cast<int>(total) + 1, "kth_alloc");
		c.describe(sig, "fail allocation #" + std::to_string(k) + " of " + std::to_string(total));
		if (k == total) { judgeCommon(c, sig, r0, leaked, false, "fault-free"); return; }
		Res r = run(k);
		c.nontrivial(sig + std::to_string(k)); if (k == 2) c.sample(sig + " fail alloc #2 of " + std::to_string(total) + " -> " + r.cls);
		judgeCommon(c, sig, r, leaked, false, "failed allocation #" + std::to_string(k) + " of " + std::to_string(total));
		if (!r.threw) c.outcome("alloc_failure_absorbed");
		followUp(c, sig);
		return;
	}
	if (scen <= 4) {
		int arch = c.choose(4, "archive");
		int di = c.choose(static_cast<int>(C[arch].size()), "doc");
		const Doc& d = C[arch][static_cast<size_t>(di)];
		if (!tl::canCarry(arch, d.v)) { c.outcome("n/a"); return; }
		Node shape = shapeOf(d.v);
		std::string bytes = tl::emit(arch, d.v);
		std::string base = std::string("C20/") + scenName[scen] + "/" + archName(arch) + "/doc=" + d.name;
		long leaked = 0, allocs = 0;
		if (scen == 0) {
			int skind = c.choose(2, "source");
			int len = c.choose(static_cast<int>(bytes.size()), "len");
			std::string sig = base + (skind ? "/stream" : "/mem");
			c.describe(sig, "len=" + std::to_string(len) + " of " + std::to_string(bytes.size()));
			Res r = ledgerLoad(arch, shape, bytes.substr(0, static_cast<size_t>(len)), skind, -1, -1, false, leaked, allocs);
			c.nontrivial(sig + std::to_string(len)); if (len == 5 && di == 0) c.sample(sig + " len=5 -> " + r.cls);
			judgeCommon(c, sig, r, leaked, arch == tl::MsgPack, "len=" + std::to_string(len));   // MessagePack is prefix-free; text formats: complete or throw
			followUp(c, sig);
		} else if (scen == 1 || scen == 2) {
			int skind = c.choose(2, "source");
			std::string sig = base + (skind ? "/stream" : "/mem");
			bool bb = false; size_t ol = 0;
			// fault-free run to learn the number of allocations
			Res r0 = scen == 1 ? ledgerLoad(arch, shape, bytes, skind, -1, -1, false, leaked, allocs) : ledgerSave(arch, shape, skind, -1, -1, false, leaked, allocs, bb, ol);
			if (r0.threw) { c.violation(sig + "/out=fault_free_run_failed", std::string("fault-free run threw ") + r0.cls + " " + r0.what); return; }
			int k = c.choose(static_cast<int>(allocs) + 1, "kth_alloc");
			c.describe(sig, "fail allocation #" + std::to_string(k) + " of " + std::to_string(allocs));
			if (k == allocs) { judgeCommon(c, sig, r0, leaked, false, "fault-free"); return; }
			long lk = 0, al = 0;
			Res r = scen == 1 ? ledgerLoad(arch, shape, bytes, skind, k, -1, false, lk, al) : ledgerSave(arch, shape, skind, k, -1, false, lk, al, bb, ol);
			c.nontrivial(sig + std::to_string(k)); if (k == 1 && di == 0) c.sample(sig + " fail alloc #1 -> " + r.cls);
			judgeCommon(c, sig, r, lk, false, "failed allocation #" + std::to_string(k) + " of " + std::to_string(allocs));
			if (!r.threw && arch != tl::Json) {
				// the failed allocation was swallowed: acceptable only if the result is still complete - compare with the fault-free result is left to C01; here: note it
				c.outcome("alloc_failure_absorbed");
			}
			followUp(c, sig);
		} else if (scen == 3) {
			int f = c.choose(static_cast<int>(bytes.size()) + 1, "fail_at");
			int thr = c.choose(2, "throws");
			std::string sig = base + (thr ? "/streambuf_throws" : "/streambuf_eof");
			c.describe(sig, "input fails at offset " + std::to_string(f) + " of " + std::to_string(bytes.size()));
			Res r = ledgerLoad(arch, shape, bytes, 1, -1, f, thr == 1, leaked, allocs);
			c.nontrivial(sig + std::to_string(f)); if (f == 3 && di == 0) c.sample(sig + " f=3 -> " + r.cls);
			judgeCommon(c, sig, r, leaked, arch == tl::MsgPack && f < static_cast<int>(bytes.size()), "fail_at=" + std::to_string(f));
			followUp(c, sig);
		} else {
			bool bb = false; size_t ol = 0;
			Res r0 = ledgerSave(arch, shape, 1, -1, -1, false, leaked, allocs, bb, ol);
			if (r0.threw) { c.violation(base + "/out=fault_free_run_failed", std::string("fault-free save threw ") + r0.cls); return; }
			int f = c.choose(static_cast<int>(ol), "fail_at");
			int thr = c.choose(2, "throws");
			std::string sig = base + (thr ? "/streambuf_throws" : "/streambuf_fails");
			c.describe(sig, "output fails at offset " + std::to_string(f) + " of " + std::to_string(ol));
			long lk = 0, al = 0; size_t ol2 = 0;
			Res r = ledgerSave(arch, shape, 1, -1, f, thr == 1, lk, al, bb, ol2);
			c.nontrivial(sig + std::to_string(f)); if (f == 2 && di == 0) c.sample(sig + " f=2 -> " + r.cls + (bb ? " badbit" : ""));
			judgeCommon(c, sig, r, lk, false, "fail_at=" + std::to_string(f));
			if (!r.threw) c.violation(sig + "/out=returned_normally_badbit", std::string("the output stream failed after ") + std::to_string(f) + " bytes but SaveObject returned normally (stream state " + (bb ? "bad/fail" : "good") + "): the failure does not reach the caller as an exception");
			followUp(c, sig);
		}
		return;
	}
	// ---- (d) mid-operation library errors
	int kind = c.choose(7, "error_kind");
	int arch = c.choose(4, "archive");
	bool stream = c.flag("stream");
	static const char* kindName[] = {"csv_or_rows_width_mismatch", "unregistered_enum_on_save", "fixed_array_size_mismatch", "unknown_enum_text_on_load", "validation_cap_in_nested_scope", "user_type_throws", "unrepresentable_value_on_save"};
	std::string sig = std::string("C20/mid_operation_error/") + kindName[kind] + "/" + archName(arch) + (stream ? "/stream" : "/mem");
	long leaked = 0; Res r;
	if (kind == 0) {
		int n = thorough ? 4 : 3; int pos = c.choose(n, "row");
		c.describe(sig, "row " + std::to_string(pos) + " of " + std::to_string(n) + " has an extra field");
		std::vector<WideRow> rows(static_cast<size_t>(n)); for (int i = 0; i < n; ++i) { rows[static_cast<size_t>(i)].n = i; rows[static_cast<size_t>(i)].extra = i == pos; }
		r = withArch(arch, [&](auto tag) { using A = typename decltype(tag)::type; return ledgerTypedSave<A>(rows, stream, leaked); });
		c.nontrivial(sig + std::to_string(pos));
		judgeCommon(c, sig, r, leaked, arch == tl::Csv && pos > 0 ? true : false, "row=" + std::to_string(pos));
	} else if (kind == 1) {
		int n = 3; int pos = c.choose(n, "row");
		c.describe(sig, "element " + std::to_string(pos) + " holds an unregistered enum value");
		std::vector<EnumRow> rows(static_cast<size_t>(n)); for (int i = 0; i < n; ++i) { rows[static_cast<size_t>(i)].n = i; rows[static_cast<size_t>(i)].c = i == pos ? Color::Unregistered : Color::Green; }
		r = withArch(arch, [&](auto tag) { using A = typename decltype(tag)::type; return ledgerTypedSave<A>(rows, stream, leaked); });
		c.nontrivial(sig + std::to_string(pos));
		judgeCommon(c, sig, r, leaked, true, "row=" + std::to_string(pos));
	} else if (kind == 2) {
		if (arch == tl::Csv) { c.outcome("n/a"); return; }
		int cnt = c.choose(6, "count");   // document array holds cnt elements, target std::array<int,3>
		c.describe(sig, "document array has " + std::to_string(cnt) + " elements, target std::array<int,3>");
		Val arr = Val::arr(); for (int i = 0; i < cnt; ++i) arr.a.push_back(Val::integer(i + 1));
		Val doc = Val::map({{Val::str("fixed"), arr}, {Val::str("z"), Val::integer(9)}});
		if (!tl::canCarry(arch, doc)) { c.outcome("n/a"); return; }
		std::string bytes = tl::emit(arch, doc); ArrHolder h;
		r = withArchNoCsv(arch, [&](auto tag) { using A = typename decltype(tag)::type; return ledgerTypedLoad<A>(h, bytes, stream, lib::opts(), leaked); });
		c.nontrivial(sig + std::to_string(cnt));
		judgeCommon(c, sig, r, leaked, cnt != 3, "count=" + std::to_string(cnt));
		// the same document into std::tuple<int,int,int>: fewer elements than the tuple must be reported (more are left unread)
		{ TupHolder th; long lk2 = 0; Res r2 = withArchNoCsv(arch, [&](auto tag) { using A = typename decltype(tag)::type; return ledgerTypedLoad<A>(th, bytes, stream, lib::opts(), lk2); });
		  judgeCommon(c, sig + "/target=tuple", r2, lk2, cnt < 3, "count=" + std::to_string(cnt) + " into tuple<int,int,int>"); }
	} else if (kind == 3) {
		int n = 3; int pos = c.choose(n, "row");
		c.describe(sig, "row " + std::to_string(pos) + " carries an unknown enum name");
		Val rowsV = Val::arr(); for (int i = 0; i < n; ++i) rowsV.a.push_back(Val::map({{Val::str("n"), Val::integer(i)}, {Val::str("c"), Val::str(i == pos ? "Purple" : "Green")}}));
		std::string bytes = tl::emit(arch, rowsV); std::vector<EnumRow> rows;
		r = withArch(arch, [&](auto tag) { using A = typename decltype(tag)::type; return ledgerTypedLoad<A>(rows, bytes, stream, lib::opts(), leaked); });
		c.nontrivial(sig + std::to_string(pos));
		judgeCommon(c, sig, r, leaked, true, "row=" + std::to_string(pos));
	} else if (kind == 6) {
		// a value the format cannot represent (JSON: NaN, +-infinity) at every position of a nested structure, every output configuration
		if (arch != tl::Json) { c.outcome("n/a"); return; }
		int what = c.choose(3, "value"); int pos = c.choose(4, "position"); int fmt = c.choose(2, "formatted"); int enc = stream ? c.choose(3, "encoding") : 0;
		static const char* whatName[] = {"nan", "pos_inf", "neg_inf"}; static const char* posName[] = {"root_member", "vector_element", "nested_member", "map_value"};
		sig += std::string("/") + whatName[what] + "/" + posName[pos] + (fmt ? "/pretty" : "/compact") + (enc == 1 ? "/utf16le" : enc == 2 ? "/utf32be" : "");
		c.describe(sig, "JSON save of a structure holding the value");
		const double bad = what == 0 ? std::nan("") : what == 1 ? std::numeric_limits<double>::infinity() : -std::numeric_limits<double>::infinity();
		auto o = lib::opts(); o.formatOptions.enableFormat = fmt == 1; if (enc == 1) o.streamOptions.encoding = BitSerializer::Convert::Utf::UtfType::Utf16le; if (enc == 2) o.streamOptions.encoding = BitSerializer::Convert::Utf::UtfType::Utf32be;
		auto& al = env::alloc();
		{ NumDoc warm; std::string w = BitSerializer::SaveObject<tl::JS>(warm); (void)w; }   // lazily initialised statics
		{ env::AllocScope ledger(-1);
			{ NumDoc d; if (pos == 0) d.x = bad; else if (pos == 1) d.v[1] = bad; else if (pos == 2) d.in.y = bad; else d.m["k2"] = bad;
			  r = guarded([&] { std::string out; if (stream) { std::ostringstream os; BitSerializer::SaveObject<tl::JS>(d, os, o); } else BitSerializer::SaveObject<tl::JS>(d, out, o); }); }
			leaked = al.live; }
		c.nontrivial(sig);
		judgeCommon(c, sig, r, leaked, true, "value cannot be written");
	} else if (kind == 5) {
		// the k-th Serialize() call of a user type throws while saving / loading a nested structure (CSV: a vector of rows)
		int save = c.choose(2, "save"); int ek = c.choose(3, "exception_type");
		static const char* ekName[] = {"derived_from_std_exception", "std_runtime_error", "not_derived_from_std"};
		sig += std::string(save ? "/save/" : "/load/") + ekName[ek];
		auto& al = env::alloc();
		auto onePass = [&](auto&& op) { Res rr; { env::AllocScope ledger(-1); { rr = guarded(op); } leaked = al.live; } return rr; };   // everything the operation allocates is created and destroyed inside the ledger
		auto runOnce = [&](long throwAt, long& calls) -> Res {
			gThrowKind = ek; Res rr; gThrowAtCall = -1;
			std::string doc;
			if (arch == tl::Csv) { std::vector<ULeaf> rows = {mkLeaf(1), mkLeaf(2), mkLeaf(3)}; doc = BitSerializer::SaveObject<tl::CS>(rows); }
			else { UTop top = mkTop(); doc = withArchNoCsv(arch, [&](auto tag) { using A = typename decltype(tag)::type; return BitSerializer::SaveObject<A>(top); }); }
			gSerializeCalls = 0; gThrowAtCall = throwAt;
			if (arch == tl::Csv) rr = onePass([&] {
				if (save) { std::vector<ULeaf> rows = {mkLeaf(1), mkLeaf(2), mkLeaf(3)}; std::string out; if (stream) { std::ostringstream os; BitSerializer::SaveObject<tl::CS>(rows, os); } else BitSerializer::SaveObject<tl::CS>(rows, out); }
				else { std::vector<ULeaf> target; if (stream) { std::istringstream is(doc); BitSerializer::LoadObject<tl::CS>(target, is); } else BitSerializer::LoadObject<tl::CS>(target, doc); } });
			else rr = withArchNoCsv(arch, [&](auto tag) { using A = typename decltype(tag)::type; return onePass([&] {
				if (save) { UTop top = mkTop(); std::string out; if (stream) { std::ostringstream os; BitSerializer::SaveObject<A>(top, os); } else BitSerializer::SaveObject<A>(top, out); }
				else { UTop target; if (stream) { std::istringstream is(doc); BitSerializer::LoadObject<A>(target, is); } else BitSerializer::LoadObject<A>(target, doc); } }); });
			calls = gSerializeCalls; gThrowAtCall = -1; return rr; };
		long total = 0; Res r0 = runOnce(-1, total);   // also the warm-up for lazily initialised statics
		if (r0.threw) { c.violation(sig + "/out=fault_free_run_failed", std::string("fault-free run threw ") + r0.cls + " " + r0.what); return; }
		int k = 1 + c.choose(static_cast<int>(std::min<long>(total, 64)), "kth_serialize_call");
		c.describe(sig, "Serialize() call #" + std::to_string(k) + " of " + std::to_string(total) + " throws");
		long calls = 0; r = runOnce(k, calls);
		c.nontrivial(sig + std::to_string(k));
		c.outcome(r.cls);
		if (!r.threw) c.violation(sig + "/out=returned_normally", "the user type threw from its Serialize() call #" + std::to_string(k) + " but the operation returned normally");
		if (leaked != 0) c.violation(sig + "/out=leak", std::to_string(leaked) + " allocation(s) made during the call are still live after all objects were destroyed (outcome " + r.cls + ")");
		const char* want = ek == 2 ? "nonstd" : "std:other";
		if (r.threw && std::string(r.cls) != want) c.violation(sig + "/out=converted_to_" + r.cls, std::string("the exception thrown by the user type reached the caller as ") + r.cls + " (" + r.what + ")");
		if (r.threw && ek == 0 && std::string(r.what) != "user type refused") c.violation(sig + "/out=other_exception", std::string("another exception reached the caller: ") + r.what);
	} else {
		if (arch == tl::Csv) { c.outcome("n/a"); return; }
		int cap = c.choose(4, "cap"); int missing = c.choose(8, "missing_mask");
		c.describe(sig, "maxValidationErrors=" + std::to_string(cap) + " missing mask=" + std::to_string(missing));
		auto mk = [&](int mask) { Val m = Val::map(); if (!(mask & 1)) m.m.emplace_back(Val::str("a"), Val::integer(1)); if (!(mask & 2)) m.m.emplace_back(Val::str("b"), Val::integer(2)); if (!(mask & 4)) m.m.emplace_back(Val::str("c"), Val::integer(3)); if (m.m.empty()) m.m.emplace_back(Val::str("q"), Val::integer(0)); return m; };
		Val doc = Val::map({{Val::str("inner"), mk(missing)}, {Val::str("list"), Val::arr({mk(missing), mk(0), mk(missing)})}});
		if (!tl::canCarry(arch, doc)) { c.outcome("n/a"); return; }
		std::string bytes = tl::emit(arch, doc); Outer o; auto opt = lib::opts(); opt.maxValidationErrors = static_cast<uint32_t>(cap);
		r = withArchNoCsv(arch, [&](auto tag) { using A = typename decltype(tag)::type; return ledgerTypedLoad<A>(o, bytes, stream, opt, leaked); });
		c.nontrivial(sig + std::to_string(cap * 8 + missing));
		judgeCommon(c, sig, r, leaked, missing != 0, "cap=" + std::to_string(cap) + " missing=" + std::to_string(missing));
	}
	if (c.choices().back() == 1) c.sample(sig + " -> " + r.cls + " " + r.what);
	followUp(c, sig);
}

int main(int argc, char** argv) {
	bsx::Config cfg; cfg.part_depth = 3; cfg.max_dev = 0; cfg.hang_s = 3;
	bsx::Engine e("C20", body, cfg);
	return e.main(argc, argv);
}
