// c01_groups.hpp — the static type catalogue of C01, cut into groups so that every (archive, group)
// pair is one small translation unit. makeGroup<A, ArchId, G>() returns the entries of group G.
#pragma once
#include "harness/c01_common.hpp"

namespace c01 {

constexpr int Groups = 13;

template <class A, int ArchId, int G> std::vector<Entry> makeGroup() {
	using std::string; using std::vector; using std::map; using std::optional;
	namespace ch = std::chrono;
	std::vector<Entry> t;
	auto add = [&](auto tag) { using T = typename decltype(tag)::type; t.push_back(entry<A, ArchId, T>()); };
#define C01_T(...) add(Tag<__VA_ARGS__>{})
	if constexpr (G == 0) {          // fundamental types, part 1
		C01_T(bool); C01_T(char); C01_T(signed char); C01_T(unsigned char); C01_T(short); C01_T(unsigned short); C01_T(int); C01_T(unsigned);
	} else if constexpr (G == 1) {   // fundamental types, part 2
		C01_T(long); C01_T(unsigned long); C01_T(long long); C01_T(unsigned long long); C01_T(float); C01_T(double); C01_T(std::byte); C01_T(std::nullptr_t);
	} else if constexpr (G == 2) {   // strings, enums, atomics
		C01_T(string); C01_T(std::u16string); C01_T(std::u32string); C01_T(std::wstring); C01_T(Color); C01_T(BinColor);
		C01_T(std::atomic<int>); C01_T(std::atomic<bool>); C01_T(std::atomic<double>);
	} else if constexpr (G == 3) {   // chrono
		C01_T(TP<ch::nanoseconds>); C01_T(TP<ch::microseconds>); C01_T(TP<ch::milliseconds>); C01_T(TP<ch::seconds>); C01_T(TP<ch::minutes>); C01_T(TP<ch::hours>);
		C01_T(ch::nanoseconds); C01_T(ch::microseconds); C01_T(ch::milliseconds); C01_T(ch::seconds); C01_T(ch::minutes); C01_T(ch::hours); C01_T(RawTime);
	} else if constexpr (G == 4) {   // classes and C arrays
		C01_T(Pt); C01_T(PtExt); C01_T(Derived); C01_T(DerivedExt); C01_T(Cond); C01_T(WithEmpty); C01_T(Outer);
		C01_T(int[3]); C01_T(char[2]); C01_T(string[2]); C01_T(int[2][2]);
	} else if constexpr (G == 5) {   // sequences, part 1
		C01_T(vector<int>); C01_T(vector<string>); C01_T(vector<bool>); C01_T(vector<double>); C01_T(vector<Pt>); C01_T(std::deque<int>); C01_T(std::deque<string>);
		C01_T(std::list<int>); C01_T(std::list<string>); C01_T(vector<unsigned long>); C01_T(vector<float>); C01_T(vector<std::u16string>);
	} else if constexpr (G == 6) {   // sequences, part 2
		C01_T(std::forward_list<int>); C01_T(std::forward_list<string>); C01_T(std::array<int, 3>); C01_T(std::array<string, 2>); C01_T(std::valarray<int>); C01_T(std::valarray<double>);
		C01_T(std::queue<int>); C01_T(std::stack<int>); C01_T(std::priority_queue<int>); C01_T(std::bitset<5>);
	} else if constexpr (G == 7) {   // sets
		C01_T(std::set<int>); C01_T(std::set<string>); C01_T(std::multiset<int>); C01_T(std::unordered_set<int>); C01_T(std::unordered_set<string>); C01_T(std::unordered_multiset<int>);
		C01_T(std::set<double>); C01_T(std::set<Color>);
	} else if constexpr (G == 8) {   // maps with string / int / float / enum / time_point keys
		C01_T(map<string, int>); C01_T(map<int, string>); C01_T(map<float, int>); C01_T(map<double, string>); C01_T(map<Color, int>); C01_T(map<TP<ch::seconds>, int>);
		C01_T(map<std::wstring, int>); C01_T(map<std::u16string, string>);
	} else if constexpr (G == 9) {   // multimaps and unordered maps
		C01_T(std::multimap<string, int>); C01_T(std::multimap<int, int>); C01_T(std::unordered_map<string, int>); C01_T(std::unordered_map<int, string>); C01_T(std::unordered_multimap<string, int>);
		C01_T(map<unsigned long, bool>);
	} else if constexpr (G == 10) {  // optional, smart pointers
		C01_T(optional<int>); C01_T(optional<string>); C01_T(optional<vector<int>>); C01_T(optional<Pt>); C01_T(optional<double>);
		C01_T(std::unique_ptr<int>); C01_T(std::unique_ptr<string>); C01_T(std::unique_ptr<Pt>); C01_T(std::shared_ptr<int>); C01_T(std::shared_ptr<Pt>);
	} else if constexpr (G == 11) {  // pair, tuple, byte containers
		C01_T(std::pair<int, string>); C01_T(std::pair<string, double>); C01_T(std::tuple<int, string, bool>); C01_T(std::tuple<vector<int>, optional<int>>);
		C01_T(vector<char>); C01_T(vector<unsigned char>); C01_T(vector<signed char>); C01_T(std::array<unsigned char, 2>);
	} else if constexpr (G == 12) {  // nestings
		C01_T(vector<vector<int>>); C01_T(vector<vector<string>>); C01_T(vector<vector<char>>); C01_T(map<string, vector<int>>); C01_T(map<string, vector<string>>);
		C01_T(vector<map<string, int>>); C01_T(vector<optional<int>>); C01_T(vector<std::unique_ptr<int>>); C01_T(map<string, optional<string>>);
	}
#undef C01_T
	return t;
}

// CSV: cells of a row (one or two rows {v, z}) and containers of row objects at the root
template <class A, int G> std::vector<Entry> makeCsvGroup() {
	using std::string; namespace ch = std::chrono;
	std::vector<Entry> t;
	auto cell = [&](auto tag) { using T = typename decltype(tag)::type; t.push_back(entryCsvCell<A, T>()); };
	auto root = [&](auto tag) { using T = typename decltype(tag)::type; t.push_back(entryCsvRoot<A, T>()); };
#define C01_C(...) cell(Tag<__VA_ARGS__>{})
#define C01_R(...) root(Tag<__VA_ARGS__>{})
	if constexpr (G == 0) {
		C01_C(bool); C01_C(char); C01_C(signed char); C01_C(unsigned char); C01_C(short); C01_C(unsigned short); C01_C(int); C01_C(unsigned); C01_C(long); C01_C(unsigned long);
		C01_C(long long); C01_C(unsigned long long); C01_C(float); C01_C(double); C01_C(std::byte); C01_C(std::nullptr_t);
	} else if constexpr (G == 1) {
		C01_C(string); C01_C(std::u16string); C01_C(std::u32string); C01_C(std::wstring); C01_C(Color); C01_C(BinColor); C01_C(std::atomic<int>);
		C01_C(std::optional<int>); C01_C(std::optional<string>); C01_C(std::unique_ptr<string>);
	} else if constexpr (G == 2) {
		C01_C(TP<ch::nanoseconds>); C01_C(TP<ch::milliseconds>); C01_C(TP<ch::seconds>); C01_C(TP<ch::hours>); C01_C(ch::nanoseconds); C01_C(ch::milliseconds); C01_C(ch::seconds); C01_C(ch::hours); C01_C(RawTime);
		C01_R(std::vector<Row>); C01_R(std::deque<Row>); C01_R(std::list<Row>); C01_R(std::forward_list<Row>);
	}
#undef C01_C
#undef C01_R
	return t;
}
constexpr int CsvGroups = 3;

} // namespace c01
