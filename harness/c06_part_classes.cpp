// C06, part: classes and shaped-value trees (scenarios 6, 9). See c06_shared.cpp.
#define C06_PART
#include "harness/c06_shared.cpp"

// =============================================================================================
// classes
// =============================================================================================
struct BaseA {
	int32_t b1 = -5; std::string b2 = "base"; bool hasOpt = false; double bopt = 1.5;
	template <class A> void Serialize(A& ar) { ar << BS::KeyValue("b1", b1) << BS::KeyValue("b2", b2); if (hasOpt) ar << BS::KeyValue("bopt", bopt); }
	void fields(KV& m) const { m.emplace_back(S("b1"), toVal(b1)); m.emplace_back(S("b2"), toVal(b2)); if (hasOpt) m.emplace_back(S("bopt"), toVal(bopt)); }
};
struct EmptyBase { template <class A> void Serialize(A&) {} };
struct OneBase { uint16_t o = 300; template <class A> void Serialize(A& ar) { ar << BS::KeyValue("o", o); } };

// base class written through BaseObject<>: mode 0 = rvalue helper (README form), 1 = named BaseObject (lvalue)
template <class TBase, int Mode> struct DerivedT : TBase {
	bool f[4] = {false, false, false, false};
	int8_t a = -100; std::string s = std::string(40, 'q'); Leaf leaf; std::vector<Leaf> leaves = {Leaf{}, Leaf{}}; uint64_t last = 1ull << 40;
	template <class A> void Serialize(A& ar) {
		if constexpr (Mode == 0) ar << BS::BaseObject<TBase>(*this);
		else { BS::BaseObject<TBase> base(*this); ar << base; }
		if (f[0]) ar << BS::KeyValue("a", a);
		if (f[1]) ar << BS::KeyValue("s", s);
		if (f[2]) ar << BS::KeyValue("leaf", leaf);
		if (f[3]) ar << BS::KeyValue("leaves", leaves);
		ar << BS::KeyValue("last", last);
	}
	void fields(KV& m) const {
		if constexpr (std::is_same_v<TBase, BaseA>) TBase::fields(m);
		else if constexpr (std::is_same_v<TBase, OneBase>) m.emplace_back(S("o"), toVal(this->o));
		if (f[0]) m.emplace_back(S("a"), toVal(a));
		if (f[1]) m.emplace_back(S("s"), toVal(s));
		if (f[2]) m.emplace_back(S("leaf"), toVal(leaf));
		if (f[3]) m.emplace_back(S("leaves"), toVal(leaves));
		m.emplace_back(S("last"), toVal(last));
	}
	Val expected() const { KV m; fields(m); return Val::map(m); }
};
struct Derived2 : DerivedT<BaseA, 0> {   // two levels of inheritance
	bool withTop = true; float top = 2.5f;
	template <class A> void Serialize(A& ar) { ar << BS::BaseObject<DerivedT<BaseA, 0>>(*this); if (withTop) ar << BS::KeyValue("top", top); }
	Val expected() const { KV m; DerivedT<BaseA, 0>::fields(m); if (withTop) m.emplace_back(S("top"), toVal(top)); return Val::map(m); }
};
struct External { int32_t x = 31; std::string y = "why"; bool cond = false; std::optional<int32_t> o; };
template <class A> void SerializeObject(A& ar, External& e) { ar << BS::KeyValue("x", e.x); if (e.cond) ar << BS::KeyValue("y", e.y); ar << BS::KeyValue("o", e.o); }
static Val toValExternal(const External& e) { KV m{{S("x"), toVal(e.x)}}; if (e.cond) m.emplace_back(S("y"), toVal(e.y)); m.emplace_back(S("o"), toVal(e.o)); return Val::map(m); }
struct NonStringKeys {   // KeyValue with every key type the archive lists
	int32_t v = -1;
	template <class A> void Serialize(A& ar) {
		ar << BS::KeyValue(5, v) << BS::KeyValue(-7, v) << BS::KeyValue(static_cast<uint64_t>(1) << 63, v) << BS::KeyValue(static_cast<int64_t>(-5000000000ll), v)
		   << BS::KeyValue(1.5f, v) << BS::KeyValue(0.1, v) << BS::KeyValue(BS::Detail::CBinTimestamp(1, 5), v) << BS::KeyValue(std::string("str"), v) << BS::KeyValue(std::string_view("view"), v);
	}
	Val expected() const {
		Val x = toVal(v);
		return Val::map({{Val::integer(5), x}, {Val::integer(-7), x}, {Val::integer(P63), x}, {Val::integer(-5000000000ll), x}, {Val::flt(1.5f), x}, {Val::dbl(0.1), x}, {Val::ts(1, 5), x}, {S("str"), x}, {S("view"), x}});
	}
};
struct Mid {
	Leaf leaf; std::map<std::string, Leaf> byName; std::vector<std::vector<int16_t>> grid; bool withGrid = true;
	template <class A> void Serialize(A& ar) { ar << BS::KeyValue("leaf", leaf) << BS::KeyValue("byName", byName); if (withGrid) ar << BS::KeyValue("grid", grid); }
	Val expected() const { KV m{{S("leaf"), toVal(leaf)}, {S("byName"), toVal(byName)}}; if (withGrid) m.emplace_back(S("grid"), toVal(grid)); return Val::map(m); }
};
struct Outer {
	Mid mid; std::vector<Mid> mids; std::optional<Mid> none; std::unique_ptr<Leaf> ptr; Colour col = Colour::Green; std::tuple<int8_t, std::string, bool> tup{-128, "t", true};
	template <class A> void Serialize(A& ar) { ar << BS::KeyValue("mid", mid) << BS::KeyValue("mids", mids) << BS::KeyValue("none", none) << BS::KeyValue("ptr", ptr) << BS::KeyValue("col", col) << BS::KeyValue("tup", tup); }
	Val expected() const { return Val::map({{S("mid"), toVal(mid)}, {S("mids"), toVal(mids)}, {S("none"), toVal(none)}, {S("ptr"), toVal(ptr)}, {S("col"), toVal(col)}, {S("tup"), toVal(tup)}}); }
};

// ---- classes ------------------------------------------------------------------------------------
template <class D> static void derivedCase(bsx::Ctx& c, const char* name, int flags, bool baseOpt, int pos) {
	D d; for (int i = 0; i < 4; ++i) d.f[i] = (flags >> i) & 1;
	if constexpr (std::is_base_of_v<BaseA, D>) d.hasOpt = baseOpt;
	std::string sigbase0 = std::string("C06/class/type=") + name;
	typedCase(c, d, d.expected(), sigbase0, pos, "conditional fields set: flags=" + std::to_string(flags) + (baseOpt ? " +base" : ""));
}
static void classScenario(bsx::Ctx& c, int ci, int flags, int pos) {
	bool baseOpt = (flags >> 4) & 1; int f4 = flags & 15;
	switch (ci) {
	case 0: derivedCase<DerivedT<BaseA, 0>>(c, "Derived:BaseA(BaseObject_rvalue)", f4, baseOpt, pos); break;
	case 1: derivedCase<DerivedT<BaseA, 1>>(c, "Derived:BaseA(BaseObject_lvalue)", f4, baseOpt, pos); break;
	case 2: if (baseOpt) { c.outcome("n/a"); return; } derivedCase<DerivedT<EmptyBase, 0>>(c, "Derived:EmptyBase(BaseObject_rvalue)", f4, false, pos); break;
	case 3: if (baseOpt) { c.outcome("n/a"); return; } derivedCase<DerivedT<EmptyBase, 1>>(c, "Derived:EmptyBase(BaseObject_lvalue)", f4, false, pos); break;
	case 4: if (baseOpt) { c.outcome("n/a"); return; } derivedCase<DerivedT<OneBase, 0>>(c, "Derived:OneBase(BaseObject_rvalue)", f4, false, pos); break;
	case 5: if (baseOpt) { c.outcome("n/a"); return; } derivedCase<DerivedT<OneBase, 1>>(c, "Derived:OneBase(BaseObject_lvalue)", f4, false, pos); break;
	case 6: { Derived2 d; for (int i = 0; i < 4; ++i) d.f[i] = (f4 >> i) & 1; d.hasOpt = baseOpt; d.withTop = (f4 & 1) != 0;
		typedCase(c, d, d.expected(), "C06/class/type=Derived2:Derived:BaseA", pos, "flags=" + std::to_string(flags)); break; }
	case 7: { if (flags >= 4) { c.outcome("n/a"); return; } External e; e.cond = flags & 1; if (flags & 2) e.o = -129; typedCase(c, e, toValExternal(e), "C06/class/type=External(SerializeObject)", pos, "flags=" + std::to_string(flags)); break; }
	case 8: { if (flags >= 1) { c.outcome("n/a"); return; } NonStringKeys k; typedCase(c, k, k.expected(), "C06/class/type=NonStringKeys", pos, ""); break; }
	case 9: { if (flags >= 8) { c.outcome("n/a"); return; } Outer o; o.mid.withGrid = flags & 1; o.mid.leaf.withBlob = flags & 2; o.mid.grid = {{-129, 300}, {}, {32767}}; o.mid.byName = {{"p", Leaf{}}, {"q", Leaf{}}}; o.mid.byName["q"].withBlob = false;
		if (flags & 4) { o.mids.push_back(o.mid); o.mids.push_back(Mid{}); o.ptr = std::make_unique<Leaf>(); o.none = Mid{}; }
		typedCase(c, o, o.expected(), "C06/class/type=Outer(nested)", pos, "flags=" + std::to_string(flags)); break; }
	default: { if (flags >= 4) { c.outcome("n/a"); return; } Leaf l; l.withBlob = flags & 1; if (flags & 2) l.blob.clear(); typedCase(c, l, l.expected(), "C06/class/type=Leaf", pos, "flags=" + std::to_string(flags)); break; }
	}
}

// ---- shaped-value trees -------------------------------------------------------------------------------
static std::vector<Node> leafAlphabet(bool thorough) {
	std::vector<Node> l;
	l.push_back(Node::mk(sv::Nil)); l.push_back(Node::integer(sv::I16, -129)); l.push_back(Node::integer(sv::U8, 200)); l.push_back(Node::str("xy"));
	l.push_back(Node::binary(std::string("\x00\xc1\xff", 3))); l.push_back(Node::ts(1, 5));
	if (thorough) {
		l.push_back(Node::boolean(true)); l.push_back(Node::integer(sv::I8, -33)); l.push_back(Node::integer(sv::U16, 300)); l.push_back(Node::integer(sv::I32, -32769)); l.push_back(Node::integer(sv::U32, 70000));
		l.push_back(Node::integer(sv::I64, -2147483649ll)); l.push_back(Node::integer(sv::U64, static_cast<i128>(1) << 32)); l.push_back(Node::f32(1.5f)); l.push_back(Node::f64(0.1));
	}
	return l;
}
static const char* FIELDN[] = {"a", "bb"};
static Node genTree(bsx::Ctx& c, int depth, const std::vector<Node>& leaves, std::string& shape) {
	int nl = static_cast<int>(leaves.size());
	int k = c.choose(nl + (depth > 1 ? 2 : 0), "node");
	if (k < nl) { shape += sv::kname(leaves[static_cast<size_t>(k)].k); return leaves[static_cast<size_t>(k)]; }
	bool isArr = k == nl;
	int n = c.choose(3, "children");
	Node r = isArr ? Node::arr() : Node::obj();
	shape += isArr ? "[" : "{";
	for (int i = 0; i < n; ++i) {
		if (i) shape += ",";
		Node ch = genTree(c, depth - 1, leaves, shape);
		if (isArr) r.items.push_back(ch); else r.fields.emplace_back(FIELDN[i], ch);
	}
	shape += isArr ? "]" : "}";
	return r;
}
static void treeScenario(bsx::Ctx& c, int pos, bool thorough) {
	static std::vector<Node> LQ = leafAlphabet(false), LT = leafAlphabet(true);
	std::string shape;
	Node tree = genTree(c, 3, thorough ? LT : LQ, shape);
	Node doc = pos == 0 ? tree : pos == 1 ? Node::arr({tree, Node::integer(sv::I32, 42)}) : Node::obj({{"a", tree}, {"z", Node::integer(sv::I32, 42)}});
	static const char* tp[] = {"root", "array", "object"};
	std::string rootKind = sv::kname(tree.k);
	std::string sigbase = std::string("C06/tree/at=") + tp[pos] + "/root=" + rootKind;
	c.describe(sigbase, "shape=" + shape);
	Val exp = doc.toVal();
	Saved s; Node d1 = doc, d2 = doc;
	s.out = sv::save<MP>(d1, s.mem, lib::opts(true, true));
	std::ostringstream os; s.outS = sv::save<MP>(d2, os, lib::opts(true, true)); s.stream = os.str();
	c.nontrivial(bsx::fnv(shape) ^ static_cast<uint64_t>(pos));
	if (shape == "[i16,{str}]" && pos == 0) c.sample(sigbase + " shape=" + shape + " -> " + bsx::hex(s.mem));
	judge(c, s, &exp, false, [&] { return sigbase; }, noCause);
}


void c06_classes(bsx::Ctx& c, int scen, bool thorough) {
	switch (scen) {
	case 6: {   // classes: base class, conditional fields, nesting, non-string keys
		int ci = c.choose(11, "class");
		int flags = c.choose(32, "flags");
		int pos = c.choose(3, "position");
		classScenario(c, ci, flags, pos);
		break;
	}
	case 9: {   // shaped-value trees of depth <= 3
		int pos = c.choose(3, "tree_position");
		treeScenario(c, pos, thorough);
		break;
	}
	}
}
