// C18 — xml instantiations, part 1 (see c18_populated_target.cpp).
#include "harness/c18_common.hpp"
#include "bitserializer/pugixml_archive.h"
std::vector<c18::Entry> c18_table_xml_b() { return c18::makeTable<BitSerializer::Xml::PugiXml::XmlArchive, true, 1>(); }
