// C06 — MsgPack output is spec-conformant, compact and readable by any decoder.
// E1 (bounded exhaustive enumeration of input values): real typed values (every 8/16-bit integer value through every
// C++ integer type, 32/64-bit values around every format threshold, float/double bit-pattern lattice, str/bin/array/map
// at every length threshold, std::chrono time points and durations, time_t, classes with base class / conditional
// fields / nesting, maps with every key type, std containers) and shaped-value trees of depth <= 3, each saved at the
// positions root / array element / object member / map key, to std::string and to std::ostringstream.
// Oracle: the strict reference decoder (ref/ref_msgpack.hpp, written from the specification) must accept the bytes as
// exactly one object with nothing left over and recover the expected tree, which is computed here from the C++ value
// (integers and instants in __int128) without looking at the library; the output must not be longer than the reference
// canonical (most compact) encoding of that tree; memory and stream output must be byte-identical.
// An encoding that is as short as the canonical one but uses another format family (int16_t 300 -> d1 01 2c instead of
// cd 01 2c) satisfies "most compact" and is accepted (outcome class ok:equal_size_other_format).
// Shared part of the C06 harness. The harness is split into several translation units only to keep the sanitizer
// build short; this file is listed in checks.d/C06.py (so that the build cache sees changes) and compiles to an empty
// object on its own: the parts define C06_PART and #include it.
#ifdef C06_PART
#pragma once
#include "models/shaped_value.hpp"
#include "ref/ref_msgpack.hpp"
#include "bitserializer/msgpack_archive.h"
#include "bitserializer/types/std/vector.h"
#include "bitserializer/types/std/map.h"
#include "bitserializer/types/std/unordered_map.h"
#include "bitserializer/types/std/set.h"
#include "bitserializer/types/std/list.h"
#include "bitserializer/types/std/deque.h"
#include "bitserializer/types/std/forward_list.h"
#include "bitserializer/types/std/array.h"
#include "bitserializer/types/std/tuple.h"
#include "bitserializer/types/std/pair.h"
#include "bitserializer/types/std/optional.h"
#include "bitserializer/types/std/memory.h"
#include "bitserializer/types/std/chrono.h"
#include "bitserializer/types/std/ctime.h"
#include <cfloat>
#include <chrono>

using ref::Val; using ref::i128;
using sv::Node;
namespace BS = BitSerializer;
using MP = BS::MsgPack::MsgPackArchive;

static const i128 P63 = static_cast<i128>(1) << 63, P64 = static_cast<i128>(1) << 64;

// =============================================================================================
// positions
// =============================================================================================
enum Pos { Root = 0, Elem, Member, Key, NPos };
static const char* POSN[] = {"root", "elem", "member", "key"};

template <class T> struct ElemW { T& v; int32_t z; size_t size() const { return 2; } };
template <class A, class T> void SerializeArray(A& ar, ElemW<T>& e) { BS::Serialize(ar, e.v); BS::Serialize(ar, e.z); }
template <class T> struct MemberW {
	T& v; int32_t z;
	template <class A> void Serialize(A& ar) { ar << BS::KeyValue("a", v) << BS::KeyValue("z", z); }
};

static Val wrapVal(int pos, const Val& v) {
	switch (pos) {
	case Root: return v;
	case Elem: return Val::arr({v, Val::integer(42)});
	case Member: return Val::map({{Val::str("a"), v}, {Val::str("z"), Val::integer(42)}});
	default: return Val::map({{v, Val::integer(42)}});
	}
}
// the bytes around the value under test are fixed by the specification (fixarray 2 / fixmap 2 / fixmap 1, fixstr, fixint 42)
static std::string wrapBytes(int pos, const std::string& x) {
	switch (pos) {
	case Root: return x;
	case Elem: return "\x92" + x + "\x2a";
	case Member: return "\x82\xa1" "a" + x + "\xa1" "z\x2a";
	default: return "\x81" + x + "\x2a";
	}
}

struct Saved { lib::Out out, outS; std::string mem, stream; };

template <class T> static Saved saveBoth(T& obj, const BS::SerializationOptions& o) {
	Saved s;
	s.out = lib::guard([&] { BS::SaveObject<MP>(obj, s.mem, o); });
	std::ostringstream os;
	s.outS = lib::guard([&] { BS::SaveObject<MP>(obj, os, o); });
	s.stream = os.str();
	return s;
}
template <class T> struct key_ok : std::false_type {};
template <> struct key_ok<std::string> : std::true_type {};
template <> struct key_ok<float> : std::true_type {};
template <> struct key_ok<double> : std::true_type {};
template <> struct key_ok<char> : std::true_type {};
template <> struct key_ok<int8_t> : std::true_type {};
template <> struct key_ok<uint8_t> : std::true_type {};
template <> struct key_ok<int16_t> : std::true_type {};
template <> struct key_ok<uint16_t> : std::true_type {};
template <> struct key_ok<int32_t> : std::true_type {};
template <> struct key_ok<uint32_t> : std::true_type {};
template <> struct key_ok<int64_t> : std::true_type {};
template <> struct key_ok<uint64_t> : std::true_type {};
template <class C, class D> struct key_ok<std::chrono::time_point<C, D>> : std::true_type {};
template <class R, class P> struct key_ok<std::chrono::duration<R, P>> : std::true_type {};

template <class T> static Saved saveAt(int pos, T& v, const BS::SerializationOptions& o) {
	switch (pos) {
	case Root: return saveBoth(v, o);
	case Elem: { ElemW<T> w{v, 42}; return saveBoth(w, o); }
	case Member: { MemberW<T> w{v, 42}; return saveBoth(w, o); }
	default:
		if constexpr (key_ok<T>::value || std::is_enum_v<T>) { std::map<T, int32_t> m; m.emplace(v, 42); return saveBoth(m, o); }
		else { Saved s; s.out.cls = s.outS.cls = "nonstd"; return s; }
	}
}

// =============================================================================================
// the judge
// =============================================================================================
static std::string clip(const std::string& bytes) { return bytes.size() <= 48 ? bsx::hex(bytes) : bsx::hex(bytes.substr(0, 40)) + "...(" + std::to_string(bytes.size()) + " bytes)"; }
static std::string clipDump(const Val& v) { std::string d = v.dump(); return d.size() <= 200 ? d : d.substr(0, 200) + "..."; }

// outcome classes are only counted as distinct classes: consecutive repetitions in the block sweeps (scenarios 0-2) are dropped
static void note(bsx::Ctx& c, const std::string& cls) { static std::string last; bool block = !c.choices().empty() && c.choices()[0] <= 2; if (block && last == cls) return; last = cls; c.outcome(cls); }

// exp == nullptr: no defined value (overflowing instant under the Skip policy): the output still has to be one well-formed object.
// sig(): signature base; cause(bytes): "/cause=<symbol>" naming the recognised mechanism, "" if none.
template <class SigF, class CauseF>
static void judge(bsx::Ctx& c, const Saved& s, const Val* exp, bool refusalOk, SigF sig, CauseF cause) {
	if (!s.out.ok() || !s.outS.ok()) {
		if (s.out.cls != s.outS.cls) { c.violation(sig() + "/out=mem_stream_differ", "memory save: " + s.out.cls + " (" + s.out.what + "), stream save: " + s.outS.cls + " (" + s.outS.what + ")"); return; }
		if (refusalOk && (s.out.cls == "ser:Overflow" || s.out.cls == "std:std::out_of_range")) { note(c, "refused:" + s.out.cls); return; }   // no document is produced
		note(c, s.out.cls);
		c.violation(sig() + "/out=" + s.out.cls, "save threw " + s.out.cls + ": " + s.out.what + (exp ? " expected=" + clipDump(*exp) : ""));
		return;
	}
	if (s.mem != s.stream) c.violation(sig() + "/out=mem_stream_differ", "memory=" + clip(s.mem) + " stream=" + clip(s.stream));
	const std::string& b = s.mem;
	if (b.empty()) { note(c, "empty_document"); c.violation(sig() + "/out=empty_document" + cause(b), "SaveObject returned normally with an empty document" + (exp ? " expected=" + clipDump(*exp) : "")); return; }
	Val back; size_t used = 0;
	auto err = ref::mp::decodeOne(b, back, &used);
	if (err != ref::mp::Err::Ok) {
		static const char* en[] = {"ok", "truncated", "illegal_byte", "bad_timestamp", "too_deep"};
		note(c, "decoder_rejects");
		c.violation(sig() + "/out=decoder_rejects" + cause(b), std::string("reference decoder rejects the output (") + en[static_cast<int>(err)] + "): bytes=" + clip(b) + (exp ? " expected=" + clipDump(*exp) + " canonical=" + clip(ref::mp::encode(*exp)) : ""));
		return;
	}
	if (used != b.size()) { note(c, "trailing_bytes"); c.violation(sig() + "/out=trailing_bytes" + cause(b), "one object of " + std::to_string(used) + " bytes followed by " + std::to_string(b.size() - used) + " more bytes: " + clip(b)); return; }
	if (!exp) { note(c, "ok:wellformed_no_defined_value"); return; }
	if (!(back == *exp)) {
		note(c, "wrong_value");
		c.violation(sig() + "/out=wrong_value" + cause(b), "decoded=" + clipDump(back) + " expected=" + clipDump(*exp) + " bytes=" + clip(b) + " canonical=" + clip(ref::mp::encode(*exp)));
		return;
	}
	std::string canon = ref::mp::encode(*exp);
	if (b.size() > canon.size()) {
		note(c, "non_minimal");
		c.violation(sig() + "/out=non_minimal" + cause(b), "value " + clipDump(*exp) + " written in " + std::to_string(b.size()) + " bytes, most compact form has " + std::to_string(canon.size()) + ": bytes=" + clip(b) + " canonical=" + clip(canon));
		return;
	}
	note(c, b == canon ? "ok" : "ok:equal_size_other_format");
}
static std::string noCause(const std::string&) { return ""; }

// =============================================================================================
// expected trees for typed values (the model of "the same data")
// =============================================================================================
enum class Colour { Red = 1, Green = 200, Blue = -3 };
#ifdef C06_REGISTER_ENUMS
REGISTER_ENUM(Colour, { {Colour::Red, "Red"}, {Colour::Green, "Green"}, {Colour::Blue, "Blue"} })
#endif
static const char* colourName(Colour c) { return c == Colour::Red ? "Red" : c == Colour::Green ? "Green" : "Blue"; }

template <class T> struct is_byte : std::bool_constant<std::is_same_v<T, char> || std::is_same_v<T, signed char> || std::is_same_v<T, unsigned char>> {};
template <class T, class = void> struct is_maplike : std::false_type {};
template <class T> struct is_maplike<T, std::void_t<typename T::key_type, typename T::mapped_type>> : std::true_type {};
template <class T, class = void> struct is_seqlike : std::false_type {};
template <class T> struct is_seqlike<T, std::void_t<typename T::value_type, decltype(std::declval<const T&>().begin())>> : std::bool_constant<!is_maplike<T>::value> {};
template <class T, class = void> struct has_expected : std::false_type {};
template <class T> struct has_expected<T, std::void_t<decltype(std::declval<const T&>().expected())>> : std::true_type {};
template <class T> struct is_multimap : std::false_type {};
template <class K, class V> struct is_multimap<std::multimap<K, V>> : std::true_type {};

struct Instant { bool overflow = false; int64_t sec = 0; uint32_t ns = 0; i128 totalNs = 0; };
static i128 floordiv(i128 a, i128 b) { i128 q = a / b; if ((a % b != 0) && ((a < 0) != (b < 0))) --q; return q; }
template <class R, class P> static Instant instantOf(std::chrono::duration<R, P> d) {
	static_assert(1000000000ll % P::den == 0, "period must be a whole number of nanoseconds");
	Instant r; r.totalNs = static_cast<i128>(d.count()) * P::num * (1000000000ll / P::den);
	i128 sec = floordiv(r.totalNs, 1000000000); r.ns = static_cast<uint32_t>(r.totalNs - sec * 1000000000);
	if (sec < -P63 || sec >= P63) { r.overflow = true; return r; }
	r.sec = static_cast<int64_t>(sec); return r;
}

template <class T> static Val toVal(const T& v);
template <class... A> static Val toVal(const std::tuple<A...>& t);
template <class A, class B> static Val toVal(const std::pair<A, B>& p);
template <class T> static Val toVal(const std::optional<T>& o);
template <class T> static Val toVal(const std::unique_ptr<T>& o);
template <class T> static Val toVal(const std::shared_ptr<T>& o);
template <class R, class P> static Val toVal(const std::chrono::duration<R, P>& d);
template <class C, class D> static Val toVal(const std::chrono::time_point<C, D>& t);
template <class... A, size_t... I> static Val tupleVal(const std::tuple<A...>& t, std::index_sequence<I...>) { Val r = Val::arr(); (r.a.push_back(toVal(std::get<I>(t))), ...); return r; }

template <class T> static Val toVal(const T& v) {
	if constexpr (std::is_same_v<T, bool>) return Val::boolean(v);
	else if constexpr (std::is_same_v<T, std::nullptr_t>) return Val::nil();
	else if constexpr (std::is_integral_v<T>) return Val::integer(static_cast<i128>(v));
	else if constexpr (std::is_same_v<T, float>) return Val::flt(v);
	else if constexpr (std::is_same_v<T, double>) return Val::dbl(v);
	else if constexpr (std::is_same_v<T, Colour>) return Val::str(colourName(v));
	else if constexpr (std::is_same_v<T, std::string>) return Val::str(v);
	else if constexpr (has_expected<T>::value) return v.expected();
	else if constexpr (is_multimap<T>::value) { Val r = Val::arr(); for (auto& e : v) r.a.push_back(Val::map({{Val::str("key"), toVal(e.first)}, {Val::str("value"), toVal(e.second)}})); return r; }
	else if constexpr (is_maplike<T>::value) { Val r = Val::map(); for (auto& e : v) r.m.emplace_back(toVal(e.first), toVal(e.second)); return r; }
	else if constexpr (is_seqlike<T>::value) {
		if constexpr (is_byte<typename T::value_type>::value) { std::string s; for (auto ch : v) s.push_back(static_cast<char>(ch)); return Val::bin(s); }
		else { Val r = Val::arr(); for (const auto& e : v) { typename T::value_type tmp = e; r.a.push_back(toVal(tmp)); } return r; }
	}
	else return v.thisTypeHasNoModel();
}
template <class... A> static Val toVal(const std::tuple<A...>& t) { return tupleVal(t, std::index_sequence_for<A...>{}); }
template <class A, class B> static Val toVal(const std::pair<A, B>& p) { return Val::map({{Val::str("key"), toVal(p.first)}, {Val::str("value"), toVal(p.second)}}); }
template <class T> static Val toVal(const std::optional<T>& o) { return o ? toVal(*o) : Val::nil(); }
template <class T> static Val toVal(const std::unique_ptr<T>& o) { return o ? toVal(*o) : Val::nil(); }
template <class T> static Val toVal(const std::shared_ptr<T>& o) { return o ? toVal(*o) : Val::nil(); }
template <class R, class P> static Val toVal(const std::chrono::duration<R, P>& d) { Instant i = instantOf(d); return Val::ts(i.sec, i.ns); }
template <class C, class D> static Val toVal(const std::chrono::time_point<C, D>& t) { return toVal(t.time_since_epoch()); }

// a small class shared by several scenario groups
using KV = std::vector<std::pair<Val, Val>>;
static Val S(const char* s) { return Val::str(s); }

struct Leaf {
	int8_t i = -33; std::vector<uint8_t> blob = {0x00, 0xc1, 0xff}; bool withBlob = true;
	template <class A> void Serialize(A& ar) { ar << BS::KeyValue("i", i); if (withBlob) ar << BS::KeyValue("blob", blob); }
	Val expected() const { KV m{{S("i"), toVal(i)}}; if (withBlob) m.emplace_back(S("blob"), toVal(blob)); return Val::map(m); }
};

// =============================================================================================
// generic "save this typed value at position p and compare with its model"
// =============================================================================================
template <class T> static void typedCase(bsx::Ctx& c, T& value, const Val& model, const std::string& sigbase0, int pos, const std::string& desc) {
	std::string sigbase = sigbase0 + "/pos=" + POSN[pos];
	c.describe(sigbase, desc);
	Saved s = saveAt(pos, value, lib::opts(true, true));
	c.nontrivial(sigbase);
	Val exp = wrapVal(pos, model);
	judge(c, s, &exp, false, [&] { return sigbase; }, noCause);
}


// scenario groups, one translation unit each
void c06_scalars(bsx::Ctx& c, int scen, bool thorough);
void c06_chrono(bsx::Ctx& c);
void c06_containers(bsx::Ctx& c, int scen);
void c06_classes(bsx::Ctx& c, int scen, bool thorough);
#endif
