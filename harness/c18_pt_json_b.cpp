// C18 — json instantiations, part 1 (see c18_populated_target.cpp).
#include "harness/c18_common.hpp"
#include "bitserializer/rapidjson_archive.h"
std::vector<c18::Entry> c18_table_json_b() { return c18::makeTable<BitSerializer::Json::RapidJson::JsonArchive, false, 1>(); }
