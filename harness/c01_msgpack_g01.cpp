// C01 type catalogue, archive msgpack, group 1 (see harness/c01_groups.hpp)
#include "bitserializer/msgpack_archive.h"
#include "harness/c01_groups.hpp"
std::vector<c01::Entry> c01_tab_msgpack_g01() { return c01::makeGroup<BitSerializer::MsgPack::MsgPackArchive, c01::MsgPack, 1>(); }
