// typed_load.hpp — glue shared by the archive-level harnesses (C01/C03/C05/C10/C20):
// independent document emitters for the four formats, load/save wrappers over memory and
// harness-owned streams, padding helpers that move a document across reader chunk boundaries.
#pragma once
#include "models/num_model.hpp"
#include "ref/ref_msgpack.hpp"
#include "bitserializer/msgpack_archive.h"
#include "bitserializer/rapidjson_archive.h"
#include "bitserializer/pugixml_archive.h"
#include "bitserializer/csv_archive.h"

namespace tl {

using ref::Val; using sv::Node;
using MP = BitSerializer::MsgPack::MsgPackArchive;
using JS = BitSerializer::Json::RapidJson::JsonArchive;
using XM = BitSerializer::Xml::PugiXml::XmlArchive;
using CS = BitSerializer::Csv::CsvArchive;

enum Arch { MsgPack = 0, Json = 1, Xml = 2, Csv = 3 };
inline const char* archName(int a) { static const char* n[] = {"msgpack", "json", "xml", "csv"}; return n[a]; }

// ---- independent emitters (written from the format definitions / the documented conventions) ----
inline std::string jsonStr(const std::string& s) {
	std::string r = "\"";
	for (unsigned char c : s) {
		if (c == '"') r += "\\\""; else if (c == '\\') r += "\\\\"; else if (c == '\n') r += "\\n"; else if (c == '\r') r += "\\r"; else if (c == '\t') r += "\\t";
		else if (c < 0x20) r += bsx::fmt("\\u%04x", c); else r.push_back(static_cast<char>(c));
	}
	return r + "\"";
}
inline std::string fltText(const Val& v) {
	char buf[64];
	if (v.k == Val::F32) { float f; std::memcpy(&f, &v.f32, 4); snprintf(buf, sizeof buf, "%.9g", static_cast<double>(f)); }
	else snprintf(buf, sizeof buf, "%.17g", v.asDouble());
	std::string r = buf;
	if (r.find_first_of(".eEni") == std::string::npos) r += ".0";
	return r;
}
inline bool jsonCan(const Val& v) {
	switch (v.k) {
	case Val::Bin: case Val::Ts: case Val::Ext: return false;
	case Val::F32: case Val::F64: return std::isfinite(v.asDouble());
	case Val::Arr: for (auto& e : v.a) if (!jsonCan(e)) return false; return true;
	case Val::Map: for (auto& e : v.m) if (e.first.k != Val::Str || !jsonCan(e.second)) return false; return true;
	default: return true;
	}
}
inline void jsonEmit(const Val& v, std::string& o) {
	switch (v.k) {
	case Val::Nil: o += "null"; break;
	case Val::Bool: o += v.b ? "true" : "false"; break;
	case Val::Int: o += ref::i128str(v.i); break;
	case Val::F32: case Val::F64: o += fltText(v); break;
	case Val::Str: o += jsonStr(v.s); break;
	case Val::Arr: { o += "["; for (size_t i = 0; i < v.a.size(); ++i) { if (i) o += ","; jsonEmit(v.a[i], o); } o += "]"; break; }
	case Val::Map: { o += "{"; for (size_t i = 0; i < v.m.size(); ++i) { if (i) o += ","; o += jsonStr(v.m[i].first.s) + ":"; jsonEmit(v.m[i].second, o); } o += "}"; break; }
	default: o += "null";
	}
}
inline std::string xmlText(const std::string& s) {
	std::string r;
	for (char c : s) { if (c == '<') r += "&lt;"; else if (c == '>') r += "&gt;"; else if (c == '&') r += "&amp;"; else r.push_back(c); }
	return r;
}
// XML conventions of the archive (docs/bitserializer_pugixml.md): object = element whose children are
// named by the keys; array = element whose children are <value>/<array>/<object>; root element is
// <root> for an object and <array> for an array; scalar = element text.
inline bool xmlCan(const Val& v, bool root = true) {
	switch (v.k) {
	case Val::Bin: case Val::Ts: case Val::Ext: return false;
	case Val::Nil: return false;   // XML has no null: <a/> is an empty element (judged by C01)
	case Val::Str: return !root && !v.s.empty() && v.s.find_first_not_of(" \t\r\n") != std::string::npos && v.s.front() != ' ' && v.s.back() != ' ';
	case Val::F32: case Val::F64: return !root && std::isfinite(v.asDouble());
	case Val::Arr: if (v.a.empty() && !root) return false; for (auto& e : v.a) if (!xmlCan(e, false)) return false; return true;
	case Val::Map: if (v.m.empty() && !root) return false; for (auto& e : v.m) if (e.first.k != Val::Str || !xmlCan(e.second, false)) return false; return true;
	default: return !root;
	}
}
inline void xmlEmit(const Val& v, const std::string& name, std::string& o) {
	switch (v.k) {
	case Val::Nil: o += "<" + name + "/>"; break;
	case Val::Bool: o += "<" + name + ">" + (v.b ? "true" : "false") + "</" + name + ">"; break;
	case Val::Int: o += "<" + name + ">" + ref::i128str(v.i) + "</" + name + ">"; break;
	case Val::F32: case Val::F64: o += "<" + name + ">" + fltText(v) + "</" + name + ">"; break;
	// a string value whose ext_type is 1 is rendered as a CDATA section (another standard rendering of the same text)
	case Val::Str: o += "<" + name + ">" + (v.ext_type == 1 && v.s.find("]]>") == std::string::npos ? "<![CDATA[" + v.s + "]]>" : xmlText(v.s)) + "</" + name + ">"; break;
	case Val::Arr: { o += "<" + name + ">"; for (auto& e : v.a) xmlEmit(e, e.k == Val::Arr ? "array" : e.k == Val::Map ? "object" : "value", o); o += "</" + name + ">"; break; }
	case Val::Map: { o += "<" + name + ">"; for (auto& e : v.m) xmlEmit(e.second, e.first.s, o); o += "</" + name + ">"; break; }
	default: break;
	}
}
inline bool csvCan(const Val& v) {
	if (v.k != Val::Arr || v.a.empty()) return false;
	for (auto& r : v.a) {
		if (r.k != Val::Map || r.m.size() != v.a[0].m.size()) return false;
		for (size_t i = 0; i < r.m.size(); ++i) {
			if (r.m[i].first.k != Val::Str || !(r.m[i].first == v.a[0].m[i].first)) return false;
			auto k = r.m[i].second.k;
			if (k == Val::Arr || k == Val::Map || k == Val::Bin || k == Val::Ts || k == Val::Ext || k == Val::Nil) return false;
			if (k == Val::Str && r.m[i].second.s.empty()) return false;
		}
	}
	return true;
}
inline std::string csvCell(const std::string& s, char sep) {
	if (s.find_first_of(std::string("\"\r\n") + sep) == std::string::npos) return s;
	std::string r = "\""; for (char c : s) { if (c == '"') r += "\"\""; else r.push_back(c); } return r + "\"";
}
inline std::string csvEmit(const Val& v, char sep = ',') {
	std::string o;
	for (size_t i = 0; i < v.a[0].m.size(); ++i) { if (i) o.push_back(sep); o += csvCell(v.a[0].m[i].first.s, sep); }
	o += "\r\n";
	for (auto& r : v.a) {
		for (size_t i = 0; i < r.m.size(); ++i) {
			if (i) o.push_back(sep);
			const Val& c = r.m[i].second;
			o += c.k == Val::Str ? csvCell(c.s, sep) : c.k == Val::Bool ? (c.b ? "true" : "false") : c.k == Val::Int ? ref::i128str(c.i) : fltText(c);
		}
		o += "\r\n";
	}
	return o;
}

inline bool canCarry(int a, const Val& v) { return a == MsgPack ? true : a == Json ? jsonCan(v) : a == Xml ? xmlCan(v) : csvCan(v); }
inline std::string emit(int a, const Val& v, const ref::mp::Picker& pick = nullptr) {
	std::string o;
	switch (a) {
	case MsgPack: return ref::mp::encode(v, pick);
	case Json: jsonEmit(v, o); return o;
	case Xml: o = "<?xml version=\"1.0\"?>"; xmlEmit(v, v.k == Val::Arr ? "array" : "root", o); return o;
	default: return csvEmit(v);
	}
}

// ---- load wrappers ---------------------------------------------------------------------------------
struct Source {
	bool stream = false;
	env::ChunkedInBuf* buf = nullptr;   // harness-owned streambuf (delivery/fault/seek behaviour); null = istringstream
};
inline lib::Out load(int a, Node& target, const std::string& bytes, const Source& src, const BitSerializer::SerializationOptions& o) {
	auto run = [&](auto tag) {
		using A = typename decltype(tag)::type;
		if (!src.stream) return sv::load<A>(target, bytes, o);
		if (src.buf) { std::istream is(src.buf); return sv::load<A>(target, is, o); }
		std::istringstream is(bytes); return sv::load<A>(target, is, o);
	};
	struct TMP { using type = MP; }; struct TJS { using type = JS; }; struct TXM { using type = XM; }; struct TCS { using type = CS; };
	switch (a) { case MsgPack: return run(TMP{}); case Json: return run(TJS{}); case Xml: return run(TXM{}); default: return run(TCS{}); }
}
inline lib::Out save(int a, Node& source, std::string& out, bool stream, const BitSerializer::SerializationOptions& o) {
	auto run = [&](auto tag) {
		using A = typename decltype(tag)::type;
		if (!stream) return sv::save<A>(source, out, o);
		std::ostringstream os; auto r = sv::save<A>(source, os, o); out = os.str(); return r;
	};
	struct TMP { using type = MP; }; struct TJS { using type = JS; }; struct TXM { using type = XM; }; struct TCS { using type = CS; };
	switch (a) { case MsgPack: return run(TMP{}); case Json: return run(TJS{}); case Xml: return run(TXM{}); default: return run(TCS{}); }
}

} // namespace tl
