// C04 — MsgPack carriers (typed targets at root / array element / object member, map key position).
#include "harness/c04_common.hpp"
#include "bitserializer/msgpack_archive.h"
#include "bitserializer/types/std/map.h"

namespace c04 {
using MP = BS::MsgPack::MsgPackArchive;

Loaded loadMsgPack(const std::string& bytes, const Req& q) { return loadAt<MP>(bytes, q); }

MapLoaded loadMapMsgPack(const std::string& bytes, const Req& q) {
	return withType(q.target, [&](auto tag) {
		using X = typename decltype(tag)::type;
		std::map<X, int32_t> m; MapLoaded r;
		auto o = lib::opts(q.ovT, q.mmT);
		if (q.stream) { std::istringstream is(bytes); r.out = lib::guard([&] { BS::LoadObject<MP>(m, is, o); }); }
		else r.out = lib::guard([&] { BS::LoadObject<MP>(m, bytes, o); });
		for (auto& kv : m) r.entries.emplace_back(toVal(kv.first), kv.second);
		return r;
	});
}
} // namespace c04
