// C05 — a skipped value never disturbs the loading of its neighbours.
// E1, deviation-bounded: well-typed base documents in which any <= N values (any depth) are
// replaced by a value of another kind or out of range, loaded with the Skip policies, in all four
// archives from memory and stream. Oracle: exact typed-load model (models/num_model.hpp): every
// non-offending position holds exactly the document's value, the offending target keeps its
// canary and reports not-loaded, counts/positions/IsEnd are preserved, the trailing sentinel is
// intact. A second scenario drives real std::vector / class targets.
#include "harness/typed_load.hpp"
#include "bitserializer/types/std/vector.h"
#include "bitserializer/types/std/tuple.h"
#include "bitserializer/types/std/pair.h"
#include "bitserializer/types/std/array.h"
#include "bitserializer/types/std/list.h"
#include "bitserializer/types/std/deque.h"
#include "bitserializer/types/std/forward_list.h"
#include "bitserializer/types/std/set.h"
#include "bitserializer/types/std/map.h"
#include "bitserializer/types/std/optional.h"
#include "bitserializer/types/std/memory.h"
#include "bitserializer/types/std/valarray.h"
#include "bitserializer/types/std/unordered_map.h"
#include "bitserializer/types/std/chrono.h"

using namespace sv; using ref::Val; using tl::archName;

struct Base { std::string name; Val doc; Node shape; bool msgpackOnly = false; };
static Node I32n() { return Node::mk(I32); }
static std::vector<Base> bases() {
	using V = Val; std::vector<Base> b;
	b.push_back({"obj3", V::map({{V::str("a"), V::integer(1)}, {V::str("b"), V::str("s")}, {V::str("c"), V::boolean(true)}}), Node::obj({{"a", I32n()}, {"b", Node::mk(Str)}, {"c", Node::mk(Bool)}})});
	b.push_back({"arr4", V::arr({V::integer(1), V::integer(2), V::integer(3), V::integer(4)}), Node::arr({I32n(), I32n(), I32n(), I32n()})});
	b.push_back({"arr_of_obj", V::arr({V::map({{V::str("x"), V::integer(1)}, {V::str("y"), V::str("q")}}), V::map({{V::str("x"), V::integer(2)}, {V::str("y"), V::str("r")}})}),
		Node::arr({Node::obj({{"x", I32n()}, {"y", Node::mk(Str)}}), Node::obj({{"x", I32n()}, {"y", Node::mk(Str)}})})});
	b.push_back({"obj_arr_then_field", V::map({{V::str("a"), V::arr({V::integer(1), V::integer(2)})}, {V::str("z"), V::integer(9)}}), Node::obj({{"a", Node::arr({I32n(), I32n()})}, {"z", I32n()}})});
	b.push_back({"arr_arr", V::arr({V::arr({V::integer(1), V::integer(2)}), V::arr({V::integer(3)}), V::integer(9)}), Node::arr({Node::arr({I32n(), I32n()}), Node::arr({I32n()}), I32n()})});
	b.push_back({"obj_f64_u8", V::map({{V::str("f"), V::dbl(1.5)}, {V::str("u"), V::integer(200)}, {V::str("z"), V::integer(9)}}), Node::obj({{"f", Node::mk(F64)}, {"u", Node::mk(U8)}, {"z", I32n()}})});
	b.push_back({"obj_bin", V::map({{V::str("b"), V::bin(std::string("\x01\x02", 2))}, {V::str("z"), V::integer(9)}}), Node::obj({{"b", Node::mk(Bin)}, {"z", I32n()}}), true});
	b.push_back({"arr_bin", V::arr({V::bin(std::string("\x01\x02", 2)), V::integer(9)}), Node::arr({Node::mk(Bin), I32n()}), true});
	return b;
}
static std::vector<std::pair<std::string, Val>> offences() {
	using V = Val;
	return {{"nil", V::nil()}, {"bool", V::boolean(true)}, {"int", V::integer(7)}, {"bigint", V::integer(1ll << 40)}, {"negint", V::integer(-5)}, {"float", V::dbl(2.5)}, {"str", V::str("off")},
		{"arr", V::arr({V::integer(1), V::integer(2)})}, {"map", V::map({{V::str("x"), V::integer(1)}})}, {"bin", V::bin("\x07")},
		// MsgPack only: values of the length-prefixed ext family (timestamp 96 = ext8) and of the fixext family (timestamp 64), long str/array forms
		{"ts96", V::ts(-1, 500000000)}, {"ts64", V::ts(1, 5)}, {"ext8", []{ Val v; v.k = Val::Ext; v.ext_type = 5; v.s = "abc"; return v; }()}, {"str8", V::str(std::string(40, 's'))},
		{"arr16", []{ Val a = Val::arr(); for (int i = 0; i < 17; ++i) a.a.push_back(Val::integer(i)); return a; }()},
		// XML only: text given as a CDATA section (numeric and non-numeric)
		{"cdata_num", []{ Val v = V::str("7"); v.ext_type = 1; return v; }()}, {"cdata_word", []{ Val v = V::str("off"); v.ext_type = 1; return v; }()}};
}
static void collect(Val& v, std::vector<Val*>& out, bool root = true) { if (!root) out.push_back(&v); for (auto& e : v.a) collect(e, out, false); for (auto& e : v.m) collect(e.second, out, false); }
static size_t subtree(const Val& v) { size_t n = 1; for (auto& e : v.a) n += subtree(e); for (auto& e : v.m) n += subtree(e.second); return n; }

// ---- typed scenario: real containers -------------------------------------------------------------
struct Row { int32_t x = -77; std::string y = "canary"; template <class A> void Serialize(A& ar) { ar << BitSerializer::KeyValue("x", x) << BitSerializer::KeyValue("y", y); } };
struct Holder {
	std::vector<int32_t> v; std::vector<Row> rows; int32_t z = -77;
	template <class A> void Serialize(A& ar) { ar << BitSerializer::KeyValue("v", v) << BitSerializer::KeyValue("rows", rows) << BitSerializer::KeyValue("z", z); }
};
template <class TArch, class TIn> static lib::Out loadHolder(Holder& h, TIn&& in, const BitSerializer::SerializationOptions& o) { return lib::guard([&] { BitSerializer::LoadObject<TArch>(h, in, o); }); }

static void typedScenario(bsx::Ctx& c) {
	int arch = c.choose(3, "archive");   // MsgPack, JSON, XML (CSV cannot nest)
	auto offs = offences();
	// document {v:[1,2,3], rows:[{x:1,y:"a"},{x:2,y:"b"}], z:9} with <= 2 offences at the leaf / element positions
	Val doc = Val::map({{Val::str("v"), Val::arr({Val::integer(1), Val::integer(2), Val::integer(3)})},
		{Val::str("rows"), Val::arr({Val::map({{Val::str("x"), Val::integer(1)}, {Val::str("y"), Val::str("a")}}), Val::map({{Val::str("x"), Val::integer(2)}, {Val::str("y"), Val::str("b")}})})}, {Val::str("z"), Val::integer(9)}});
	std::vector<Val*> nodes; collect(doc, nodes);
	std::vector<Val> orig; for (auto* n : nodes) orig.push_back(*n);
	std::string offDesc; std::vector<int> offAt;
	for (size_t i = 0; i < nodes.size(); ++i) {
		if (orig[i].k == Val::Arr && i != 1 && false) continue;
		int k = c.deviate(1 + static_cast<int>(offs.size()), "offence");
		if (!k) continue;
		const auto& of = offs[static_cast<size_t>(k - 1)];
		if (of.second.k == Val::Str && of.second.ext_type == 1 && arch != tl::Xml) continue;   // CDATA rendering exists in XML only
		if (of.first == "cdata_num" && orig[i].k != Val::Arr && orig[i].k != Val::Map) continue;   // "7" in CDATA is a well-typed number/text for a scalar: only an offence where a container is expected
		if (of.second.k == orig[i].k && !(of.first == "bigint")) continue;
		if (arch != tl::MsgPack && (of.second.k == Val::Bin || of.second.k == Val::Ts || of.second.k == Val::Ext)) continue;
		if (arch == tl::Xml && (of.second.k == Val::Nil || ((of.second.k == Val::Arr || of.second.k == Val::Map) && (orig[i].k == Val::Arr || orig[i].k == Val::Map)))) continue;
		if (of.first == "bool" && orig[i].k == Val::Int) continue;   // bool is accepted as 0/1 by integer targets (cross-family, not an offence)
		size_t skip = subtree(orig[i]) - 1;   // descendants disappear with a replaced container
		*nodes[i] = of.second; offDesc += "@" + std::to_string(i) + "=" + of.first + " "; offAt.push_back(static_cast<int>(i));
		i += skip;
	}
	// offences nested inside a replaced container are moot
	if (!tl::canCarry(arch, doc)) { c.outcome("n/a"); return; }
	std::string bytes = tl::emit(arch, doc);
	bool stream = c.flag("stream");
	std::string sigbase = std::string("C05/typed/") + archName(arch) + (stream ? "/stream" : "/mem") + "/offences=" + std::to_string(offAt.size());
	c.describe(sigbase, offDesc + "doc=" + (arch == tl::MsgPack ? bsx::hex(bytes) : bytes));
	Holder h; lib::Out out;
	auto o = lib::opts(false, false);
	auto run = [&](auto tag) { using A = typename decltype(tag)::type; if (stream) { std::istringstream is(bytes); return loadHolder<A>(h, is, o); } return loadHolder<A>(h, bytes, o); };
	struct TMP { using type = tl::MP; }; struct TJS { using type = tl::JS; }; struct TXM { using type = tl::XM; };
	out = arch == tl::MsgPack ? run(TMP{}) : arch == tl::Json ? run(TJS{}) : run(TXM{});
	c.outcome(out.cls); c.nontrivial(sigbase + offDesc);
	if (offAt.size() == 1 && arch == 0 && !stream && offAt[0] == 2) c.sample(sigbase + " " + offDesc + " -> " + out.cls);
	if (!out.ok()) { c.violation(sigbase + "/out=" + out.cls, "Skip/Skip policies, well-formed document, but the load threw " + out.cls + ": " + out.what + " | " + offDesc); return; }
	// expectations: every non-offended leaf holds the document value; containers keep their element count
	auto isOff = [&](int idx) { return std::find(offAt.begin(), offAt.end(), idx) != offAt.end(); };
	// node indices (DFS, root excluded): 0 v, 1 v[0], 2 v[1], 3 v[2], 4 rows, 5 rows[0], 6 rows[0].x, 7 rows[0].y, 8 rows[1], 9 rows[1].x, 10 rows[1].y, 11 z
	std::vector<std::string> bad;
	if (!isOff(0)) {
		if (h.v.size() != 3) bad.push_back("v.size=" + std::to_string(h.v.size()));
		else for (int i = 0; i < 3; ++i) if (!isOff(1 + i) && h.v[static_cast<size_t>(i)] != i + 1) bad.push_back("v[" + std::to_string(i) + "]=" + std::to_string(h.v[static_cast<size_t>(i)]));
	} else if (!h.v.empty()) bad.push_back("v not empty after skipped container");
	if (!isOff(4)) {
		if (h.rows.size() != 2) bad.push_back("rows.size=" + std::to_string(h.rows.size()));
		else for (int r = 0; r < 2; ++r) {
			if (isOff(5 + 3 * r)) continue;
			if (!isOff(6 + 3 * r) && h.rows[static_cast<size_t>(r)].x != r + 1) bad.push_back("rows[" + std::to_string(r) + "].x=" + std::to_string(h.rows[static_cast<size_t>(r)].x));
			if (!isOff(7 + 3 * r) && h.rows[static_cast<size_t>(r)].y != (r ? "b" : "a")) bad.push_back("rows[" + std::to_string(r) + "].y=" + h.rows[static_cast<size_t>(r)].y);
		}
	}
	if (!isOff(11) && h.z != 9) bad.push_back("z=" + std::to_string(h.z));
	if (isOff(11) && h.z != -77) bad.push_back("skipped z changed to " + std::to_string(h.z));
	std::string cls; for (int i : offAt) cls += (i == 0 || i == 4 ? "container" : i == 5 || i == 8 ? "row" : i == 11 ? "field" : i <= 3 ? "elem" : "rowfield") + std::string(",");
	for (auto& m : bad) c.violation(sigbase + "/at=" + cls + "/out=neighbour_disturbed", m + " | " + offDesc + "doc=" + (arch == tl::MsgPack ? bsx::hex(bytes) : bytes));
}


// ---- std-container scenario: the element loops of the std type adapters (types/std/*.h) ------------------------
// One container of kind K holding three elements, followed by a field z and (one level up) by a second holder and a
// sentinel, so that a misaligned reader shows in what follows. <= N offences at the container, its elements, z.
template <class K> struct Holder2 { K c; int32_t z = -77;
	template <class A> void Serialize(A& ar) { ar << BitSerializer::KeyValue("c", c) << BitSerializer::KeyValue("z", z); } };
template <class K> struct Root2 { Holder2<K> first, second; int32_t tail = -78;
	template <class A> void Serialize(A& ar) { ar << BitSerializer::KeyValue("first", first) << BitSerializer::KeyValue("second", second) << BitSerializer::KeyValue("tail", tail); } };
struct KindDesc { const char* name; Val doc; bool isMap; };
using Tup = std::tuple<int32_t, std::string, int32_t>;
static Val seq123() { return Val::arr({Val::integer(1), Val::integer(2), Val::integer(3)}); }
static const KindDesc gKinds[] = {
	{"tuple<int,string,int>", Val::arr({Val::integer(1), Val::str("s"), Val::integer(3)}), false},
	{"array<int,3>", seq123(), false}, {"list<int>", seq123(), false}, {"deque<int>", seq123(), false}, {"forward_list<int>", seq123(), false},
	{"set<int>", seq123(), false}, {"valarray<int>", seq123(), false},
	{"map<string,int>", Val::map({{Val::str("k1"), Val::integer(1)}, {Val::str("k2"), Val::integer(2)}, {Val::str("k3"), Val::integer(3)}}), true},
	{"unordered_map<string,int>", Val::map({{Val::str("k1"), Val::integer(1)}, {Val::str("k2"), Val::integer(2)}, {Val::str("k3"), Val::integer(3)}}), true},
	{"pair<int,string>", Val::map({{Val::str("key"), Val::integer(1)}, {Val::str("value"), Val::str("s")}}), true},
	{"optional<int>", Val::integer(5), false}, {"unique_ptr<int>", Val::integer(5), false},
	{"vector<tuple<int,string,int>>", Val::arr({Val::arr({Val::integer(1), Val::str("s"), Val::integer(3)}), Val::arr({Val::integer(4), Val::str("t"), Val::integer(6)})}), false},
};
constexpr int NKINDS = sizeof(gKinds) / sizeof(gKinds[0]);
// per kind: canary and a check of the loaded container against the (offended) document; off(i): element i was offended
static void canaryOf(Tup& t) { t = Tup{-71, "canary", -73}; }
static void canaryOf(std::array<int32_t, 3>& a) { a = {-71, -72, -73}; }
static void canaryOf(std::pair<int32_t, std::string>& p) { p = {-71, "canary"}; }
template <class T> static void canaryOf(T&) {}
using OffFn = std::function<bool(int)>;
static void chk(std::vector<std::string>& bad, bool ok, const std::string& m) { if (!ok) bad.push_back(m); }
static void checkK(const Tup& t, const OffFn& off, std::vector<std::string>& bad, int row = 0, bool canaried = true) {
	static const int32_t e0[] = {1, 4}, e2[] = {3, 6}; static const char* e1[] = {"s", "t"}; int r = row; const bool base = !canaried;
	if (off(0)) chk(bad, std::get<0>(t) == -71 || base, "skipped tuple[0] changed"); else chk(bad, std::get<0>(t) == e0[r], "tuple[0]=" + std::to_string(std::get<0>(t)));
	if (off(1)) chk(bad, std::get<1>(t) == "canary" || base, "skipped tuple[1] changed"); else chk(bad, std::get<1>(t) == e1[r], "tuple[1]=" + std::get<1>(t));
	if (off(2)) chk(bad, std::get<2>(t) == -73 || base, "skipped tuple[2] changed"); else chk(bad, std::get<2>(t) == e2[r], "tuple[2]=" + std::to_string(std::get<2>(t)));
}
static void checkK(const std::array<int32_t, 3>& a, const OffFn& off, std::vector<std::string>& bad) { for (int i = 0; i < 3; ++i) { if (off(i)) chk(bad, a[static_cast<size_t>(i)] == -71 - i, "skipped array element changed"); else chk(bad, a[static_cast<size_t>(i)] == i + 1, "array[" + std::to_string(i) + "]=" + std::to_string(a[static_cast<size_t>(i)])); } }
template <class Seq> static void checkSeq(const Seq& q, const OffFn& off, std::vector<std::string>& bad, const char* nm) {
	std::vector<int32_t> v(std::begin(q), std::end(q));
	if (v.size() != 3) { bad.push_back(std::string(nm) + ".size=" + std::to_string(v.size())); return; }
	for (int i = 0; i < 3; ++i) if (!off(i)) chk(bad, v[static_cast<size_t>(i)] == i + 1, std::string(nm) + "[" + std::to_string(i) + "]=" + std::to_string(v[static_cast<size_t>(i)]));
}
static void checkK(const std::list<int32_t>& q, const OffFn& off, std::vector<std::string>& bad) { checkSeq(q, off, bad, "list"); }
static void checkK(const std::deque<int32_t>& q, const OffFn& off, std::vector<std::string>& bad) { checkSeq(q, off, bad, "deque"); }
static void checkK(const std::forward_list<int32_t>& q, const OffFn& off, std::vector<std::string>& bad) { checkSeq(q, off, bad, "forward_list"); }
static void checkK(const std::valarray<int32_t>& q, const OffFn& off, std::vector<std::string>& bad) { checkSeq(q, off, bad, "valarray"); }
static void checkK(const std::set<int32_t>& q, const OffFn& off, std::vector<std::string>& bad) { for (int i = 0; i < 3; ++i) if (!off(i)) chk(bad, q.count(i + 1) == 1, "set lost element " + std::to_string(i + 1)); chk(bad, q.size() <= 3, "set.size=" + std::to_string(q.size())); }
template <class M> static void checkMap(const M& m, const OffFn& off, std::vector<std::string>& bad) { for (int i = 0; i < 3; ++i) { auto it = m.find("k" + std::to_string(i + 1)); if (!off(i)) chk(bad, it != m.end() && it->second == i + 1, "map lost or changed k" + std::to_string(i + 1)); } chk(bad, m.size() <= 3, "map.size=" + std::to_string(m.size())); }
static void checkK(const std::map<std::string, int32_t>& m, const OffFn& off, std::vector<std::string>& bad) { checkMap(m, off, bad); }
static void checkK(const std::unordered_map<std::string, int32_t>& m, const OffFn& off, std::vector<std::string>& bad) { checkMap(m, off, bad); }
static void checkK(const std::pair<int32_t, std::string>& p, const OffFn& off, std::vector<std::string>& bad) {
	if (off(0)) chk(bad, p.first == -71, "skipped pair.key changed"); else chk(bad, p.first == 1, "pair.key=" + std::to_string(p.first));
	if (off(1)) chk(bad, p.second == "canary", "skipped pair.value changed"); else chk(bad, p.second == "s", "pair.value=" + p.second);
}
static void checkK(const std::optional<int32_t>& o, const OffFn&, std::vector<std::string>& bad) { chk(bad, o && *o == 5, "optional not loaded"); }
static void checkK(const std::unique_ptr<int32_t>& o, const OffFn&, std::vector<std::string>& bad) { chk(bad, o && *o == 5, "unique_ptr not loaded"); }
static void checkK(const std::vector<Tup>& v, const OffFn& off, std::vector<std::string>& bad) {
	// node order inside c: 0 = row0, 1..3 its elements, 4 = row1, 5..7 its elements
	if (v.size() != 2) { bad.push_back("vector<tuple>.size=" + std::to_string(v.size())); return; }
	if (!off(0)) checkK(v[0], [&](int i) { return off(1 + i); }, bad, 0, false);
	if (!off(4)) checkK(v[1], [&](int i) { return off(5 + i); }, bad, 1, false);
}
template <class K> static void stdRun(bsx::Ctx& c, int arch, const KindDesc& kd, bool stream) {
	static auto offs = offences();
	Val h = Val::map({{Val::str("c"), kd.doc}, {Val::str("z"), Val::integer(9)}});
	Val doc = Val::map({{Val::str("first"), h}, {Val::str("second"), h}, {Val::str("tail"), Val::integer(42)}});
	Val& first = doc.m[0].second;
	std::vector<Val*> nodes; collect(first, nodes);   // DFS without `first` itself: 0 = c, 1.. = its descendants, last = z
	std::vector<Val> orig; for (auto* n : nodes) orig.push_back(*n);
	std::string offDesc, offCls; std::vector<int> offAt;
	for (size_t i = 0; i < nodes.size(); ++i) {
		int k = c.deviate(1 + static_cast<int>(offs.size()), "offence");
		if (!k) continue;
		const auto& of = offs[static_cast<size_t>(k - 1)];
		if (of.second.k == Val::Str && of.second.ext_type == 1 && arch != tl::Xml) continue;   // CDATA rendering exists in XML only
		if (of.first == "cdata_num" && orig[i].k != Val::Arr && orig[i].k != Val::Map) continue;   // see above
		if (of.second.k == orig[i].k && of.first != "bigint") continue;
		if (arch != tl::MsgPack && (of.second.k == Val::Bin || of.second.k == Val::Ts || of.second.k == Val::Ext)) continue;
		if (arch == tl::Xml && (of.second.k == Val::Nil || ((of.second.k == Val::Arr || of.second.k == Val::Map) && (orig[i].k == Val::Arr || orig[i].k == Val::Map)))) continue;
		if (of.first == "bool" && orig[i].k == Val::Int) continue;               // accepted as 0/1 by integer targets
		if (of.second.k == Val::Nil && (kd.name[0] == 'o' || kd.name[0] == 'u') && i == 0) continue;   // null is a value of optional / unique_ptr
		if (orig[i].k == Val::Str && (of.second.k == Val::Int || of.second.k == Val::F64 || of.second.k == Val::Bool) && arch != tl::MsgPack && arch != tl::Json) continue;   // text archives: any scalar text is a string
		size_t skip = subtree(orig[i]) - 1;
		*nodes[i] = of.second; offDesc += "@" + std::to_string(i) + "=" + of.first + " "; offAt.push_back(static_cast<int>(i));
		offCls += std::string(i == 0 ? "container" : i + 1 == nodes.size() ? "z" : orig[i].k == Val::Arr ? "row" : "elem") + ":" + of.first + ",";
		i += skip;
	}
	if (!tl::canCarry(arch, doc)) { c.outcome("n/a:format_cannot_carry"); return; }
	std::string bytes = tl::emit(arch, doc);
	std::string sigbase = std::string("C05/std/") + archName(arch) + (stream ? "/stream" : "/mem") + "/kind=" + kd.name;
	c.describe(sigbase + "/off=" + offCls, offDesc + "doc=" + (arch == tl::MsgPack ? bsx::hex(bytes) : bytes));
	Root2<K> r; canaryOf(r.first.c); canaryOf(r.second.c);
	auto o = lib::opts(false, false);
	auto run = [&](auto tag) { using A = typename decltype(tag)::type; if (stream) { std::istringstream is(bytes); return lib::guard([&] { BitSerializer::LoadObject<A>(r, is, o); }); } return lib::guard([&] { BitSerializer::LoadObject<A>(r, bytes, o); }); };
	struct TMP { using type = tl::MP; }; struct TJS { using type = tl::JS; }; struct TXM { using type = tl::XM; };
	lib::Out out = arch == tl::MsgPack ? run(TMP{}) : arch == tl::Json ? run(TJS{}) : run(TXM{});
	c.outcome(out.cls); if (!offAt.empty()) c.nontrivial(sigbase + offDesc);
	if (offAt.size() == 1 && arch == 0 && !stream && offAt[0] == 2) c.sample(sigbase + " " + offDesc + "-> " + out.cls);
	if (!out.ok()) { c.violation(sigbase + "/off=" + offCls + "/out=" + out.cls, "Skip/Skip policies, well-formed document, but the load threw " + out.cls + ": " + out.what + " | " + offDesc + "doc=" + (arch == tl::MsgPack ? bsx::hex(bytes) : bytes)); return; }
	auto isOff = [&](int idx) { return std::find(offAt.begin(), offAt.end(), idx) != offAt.end(); };
	std::vector<std::string> bad; const int zIdx = static_cast<int>(nodes.size()) - 1;
	if (!isOff(0)) { std::vector<std::string> b1; checkK(r.first.c, [&](int i) { return isOff(1 + i); }, b1); for (auto& m : b1) bad.push_back("first.c: " + m); }
	if (isOff(zIdx)) chk(bad, r.first.z == -77, "skipped first.z changed to " + std::to_string(r.first.z)); else chk(bad, r.first.z == 9, "first.z=" + std::to_string(r.first.z));
	{ std::vector<std::string> b2; checkK(r.second.c, [](int) { return false; }, b2); for (auto& m : b2) bad.push_back("second.c (no offence there): " + m); }
	chk(bad, r.second.z == 9, "second.z=" + std::to_string(r.second.z)); chk(bad, r.tail == 42, "tail=" + std::to_string(r.tail));
	for (auto& m : bad) c.violation(sigbase + "/off=" + offCls + "/out=neighbour_disturbed", m + " | " + offDesc + "doc=" + (arch == tl::MsgPack ? bsx::hex(bytes) : bytes));
}
static void stdScenario(bsx::Ctx& c) {
	int arch = c.choose(3, "archive");   // MsgPack, JSON, XML
	int k = c.choose(NKINDS, "kind"); bool stream = c.flag("stream"); const KindDesc& kd = gKinds[k];
	switch (k) {
	case 0: stdRun<Tup>(c, arch, kd, stream); break; case 1: stdRun<std::array<int32_t, 3>>(c, arch, kd, stream); break;
	case 2: stdRun<std::list<int32_t>>(c, arch, kd, stream); break; case 3: stdRun<std::deque<int32_t>>(c, arch, kd, stream); break;
	case 4: stdRun<std::forward_list<int32_t>>(c, arch, kd, stream); break; case 5: stdRun<std::set<int32_t>>(c, arch, kd, stream); break;
	case 6: stdRun<std::valarray<int32_t>>(c, arch, kd, stream); break; case 7: stdRun<std::map<std::string, int32_t>>(c, arch, kd, stream); break;
	case 8: stdRun<std::unordered_map<std::string, int32_t>>(c, arch, kd, stream); break; case 9: stdRun<std::pair<int32_t, std::string>>(c, arch, kd, stream); break;
	case 10: stdRun<std::optional<int32_t>>(c, arch, kd, stream); break; case 11: stdRun<std::unique_ptr<int32_t>>(c, arch, kd, stream); break;
	default: stdRun<std::vector<Tup>>(c, arch, kd, stream); break;
	}
}


#include "harness/kinds_scenario.hpp"

static void body(bsx::Ctx& c) {
	static std::vector<Base> B = bases();
	static auto offs = offences();
	int scen = c.choose(4, "scenario");
	if (scen == 1) { typedScenario(c); return; }
	if (scen == 2) { stdScenario(c); return; }
	if (scen == 3) { kindsScenario(c, "C05", offences()); return; }
	int arch = c.choose(4, "archive");
	int bi = c.choose(static_cast<int>(B.size()), "base");
	const Base& b = B[static_cast<size_t>(bi)];
	if (b.msgpackOnly && arch != tl::MsgPack) { c.outcome("n/a"); return; }
	// wrap so that a sentinel follows the document under test
	Val root; Node shape;
	if (arch == tl::Csv) {
		if (b.name != "obj3" && b.name != "obj_f64_u8") { c.outcome("n/a"); return; }
		root = Val::arr({b.doc, b.doc}); shape = Node::arr({b.shape, b.shape});
	} else { root = Val::arr({b.doc, Val::integer(42)}); shape = Node::arr({b.shape, Node::mk(I32)}); }
	std::vector<Val*> nodes; collect(root.a[0], nodes, arch == tl::Csv ? true : false);
	if (arch == tl::Csv) { nodes.clear(); for (auto& kv : root.a[0].m) nodes.push_back(&kv.second); }
	std::vector<Val> orig; for (auto* n : nodes) orig.push_back(*n);
	std::string offDesc, offCls; int nOff = 0;
	for (size_t i = 0; i < nodes.size(); ++i) {
		int k = c.deviate(1 + static_cast<int>(offs.size()), "offence");
		if (!k) continue;
		const auto& of = offs[static_cast<size_t>(k - 1)];
		if (of.second.k == Val::Str && of.second.ext_type == 1 && arch != tl::Xml) continue;   // CDATA rendering exists in XML only
		if (of.second.k == orig[i].k && of.first != "bigint" && of.first != "negint") continue;
		if (arch != tl::MsgPack && (of.second.k == Val::Bin || of.second.k == Val::Ts || of.second.k == Val::Ext)) continue;
		if ((arch == tl::Xml || arch == tl::Csv) && of.second.k == Val::Nil) continue;
		if (arch == tl::Csv && (of.second.k == Val::Arr || of.second.k == Val::Map)) continue;
		if (arch == tl::Xml && (of.second.k == Val::Arr || of.second.k == Val::Map) && (orig[i].k == Val::Arr || orig[i].k == Val::Map)) continue;
		size_t skip = arch == tl::Csv ? 0 : subtree(orig[i]) - 1;
		*nodes[i] = of.second; offDesc += "@" + std::to_string(i) + "=" + of.first + " "; offCls += of.first + ">" + (orig[i].k == Val::Arr ? "arr" : orig[i].k == Val::Map ? "obj" : "scalar") + ","; ++nOff;
		i += skip;
	}
	if (!tl::canCarry(arch, root)) { c.outcome("n/a:format_cannot_carry"); return; }
	int pol = c.choose(3, "policy");   // 0 = Skip/Skip, 1 = overflow Skip + mismatch Throw, 2 = overflow Throw + mismatch Skip
	bool ovT = pol == 2, mmT = pol == 1;
	bool stream = c.flag("stream");
	std::string bytes = tl::emit(arch, root);
	std::string sigbase = std::string("C05/") + archName(arch) + (stream ? "/stream" : "/mem") + "/base=" + b.name + "/pol=" + lib::polName(ovT, mmT) + "/off=" + offCls;
	c.describe(sigbase, offDesc + "doc=" + (arch == tl::MsgPack ? bsx::hex(bytes) : bytes));
	Node t = shape; t.canary();
	tl::Source src; src.stream = stream;
	lib::Out out = tl::load(arch, t, bytes, src, lib::opts(ovT, mmT));
	c.outcome(out.cls); if (nOff) c.nontrivial(sigbase + offDesc);
	if (nOff == 1 && bi == 1 && arch == 0 && !stream && pol == 0) c.sample(sigbase + " " + offDesc + "-> " + out.cls + " " + t.dumpLoaded());
	model::Checker ck{ovT, mmT}; ck.textSource = (arch == tl::Xml || arch == tl::Csv);
	ck.walk(&root, t, "", out.ok());
	if (out.ok()) {
		if (ck.mustThrow) ck.complaints.push_back("load returned normally although the policy demands an exception");
		for (auto& m : ck.complaints) c.violation(sigbase + "/out=neighbour_disturbed", m + " | " + offDesc + "loaded=" + t.dumpLoaded() + " doc=" + (arch == tl::MsgPack ? bsx::hex(bytes) : bytes));
	} else {
		bool okThrow = (out.cls == "ser:Overflow" && (ck.throwsAllowed & model::ThrowOverflow)) || (out.cls == "ser:MismatchedTypes" && (ck.throwsAllowed & model::ThrowMismatch));
		if (!okThrow) c.violation(sigbase + "/out=" + out.cls, "unexpected exception " + out.cls + ": " + out.what + " | " + offDesc + "doc=" + (arch == tl::MsgPack ? bsx::hex(bytes) : bytes));
	}
}

int main(int argc, char** argv) {
	bsx::Config cfg; cfg.part_depth = 3; cfg.max_dev = 2;
	bsx::Engine e("C05", body, cfg);
	e.mTierSetup = [](const std::string& tier, bsx::Config& c) { c.max_dev = tier == "thorough" ? 3 : 2; };
	return e.main(argc, argv);
}
