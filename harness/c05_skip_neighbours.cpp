// C05 — a skipped value never disturbs the loading of its neighbours.
// E1, deviation-bounded: well-typed base documents in which any <= N values (any depth) are
// replaced by a value of another kind or out of range, loaded with the Skip policies, in all four
// archives from memory and stream. Oracle: exact typed-load model (models/num_model.hpp): every
// non-offending position holds exactly the document's value, the offending target keeps its
// canary and reports not-loaded, counts/positions/IsEnd are preserved, the trailing sentinel is
// intact. A second scenario drives real std::vector / class targets.
#include "harness/typed_load.hpp"
#include "bitserializer/types/std/vector.h"
#include "bitserializer/types/std/tuple.h"

using namespace sv; using ref::Val; using tl::archName;

struct Base { std::string name; Val doc; Node shape; bool msgpackOnly = false; };
static Node I32n() { return Node::mk(I32); }
static std::vector<Base> bases() {
	using V = Val; std::vector<Base> b;
	b.push_back({"obj3", V::map({{V::str("a"), V::integer(1)}, {V::str("b"), V::str("s")}, {V::str("c"), V::boolean(true)}}), Node::obj({{"a", I32n()}, {"b", Node::mk(Str)}, {"c", Node::mk(Bool)}})});
	b.push_back({"arr4", V::arr({V::integer(1), V::integer(2), V::integer(3), V::integer(4)}), Node::arr({I32n(), I32n(), I32n(), I32n()})});
	b.push_back({"arr_of_obj", V::arr({V::map({{V::str("x"), V::integer(1)}, {V::str("y"), V::str("q")}}), V::map({{V::str("x"), V::integer(2)}, {V::str("y"), V::str("r")}})}),
		Node::arr({Node::obj({{"x", I32n()}, {"y", Node::mk(Str)}}), Node::obj({{"x", I32n()}, {"y", Node::mk(Str)}})})});
	b.push_back({"obj_arr_then_field", V::map({{V::str("a"), V::arr({V::integer(1), V::integer(2)})}, {V::str("z"), V::integer(9)}}), Node::obj({{"a", Node::arr({I32n(), I32n()})}, {"z", I32n()}})});
	b.push_back({"arr_arr", V::arr({V::arr({V::integer(1), V::integer(2)}), V::arr({V::integer(3)}), V::integer(9)}), Node::arr({Node::arr({I32n(), I32n()}), Node::arr({I32n()}), I32n()})});
	b.push_back({"obj_f64_u8", V::map({{V::str("f"), V::dbl(1.5)}, {V::str("u"), V::integer(200)}, {V::str("z"), V::integer(9)}}), Node::obj({{"f", Node::mk(F64)}, {"u", Node::mk(U8)}, {"z", I32n()}})});
	b.push_back({"obj_bin", V::map({{V::str("b"), V::bin(std::string("\x01\x02", 2))}, {V::str("z"), V::integer(9)}}), Node::obj({{"b", Node::mk(Bin)}, {"z", I32n()}}), true});
	b.push_back({"arr_bin", V::arr({V::bin(std::string("\x01\x02", 2)), V::integer(9)}), Node::arr({Node::mk(Bin), I32n()}), true});
	return b;
}
static std::vector<std::pair<std::string, Val>> offences() {
	using V = Val;
	return {{"nil", V::nil()}, {"bool", V::boolean(true)}, {"int", V::integer(7)}, {"bigint", V::integer(1ll << 40)}, {"negint", V::integer(-5)}, {"float", V::dbl(2.5)}, {"str", V::str("off")},
		{"arr", V::arr({V::integer(1), V::integer(2)})}, {"map", V::map({{V::str("x"), V::integer(1)}})}, {"bin", V::bin("\x07")},
		// MsgPack only: values of the length-prefixed ext family (timestamp 96 = ext8) and of the fixext family (timestamp 64), long str/array forms
		{"ts96", V::ts(-1, 500000000)}, {"ts64", V::ts(1, 5)}, {"ext8", []{ Val v; v.k = Val::Ext; v.ext_type = 5; v.s = "abc"; return v; }()}, {"str8", V::str(std::string(40, 's'))},
		{"arr16", []{ Val a = Val::arr(); for (int i = 0; i < 17; ++i) a.a.push_back(Val::integer(i)); return a; }()}};
}
static void collect(Val& v, std::vector<Val*>& out, bool root = true) { if (!root) out.push_back(&v); for (auto& e : v.a) collect(e, out, false); for (auto& e : v.m) collect(e.second, out, false); }
static size_t subtree(const Val& v) { size_t n = 1; for (auto& e : v.a) n += subtree(e); for (auto& e : v.m) n += subtree(e.second); return n; }

// ---- typed scenario: real containers -------------------------------------------------------------
struct Row { int32_t x = -77; std::string y = "canary"; template <class A> void Serialize(A& ar) { ar << BitSerializer::KeyValue("x", x) << BitSerializer::KeyValue("y", y); } };
struct Holder {
	std::vector<int32_t> v; std::vector<Row> rows; int32_t z = -77;
	template <class A> void Serialize(A& ar) { ar << BitSerializer::KeyValue("v", v) << BitSerializer::KeyValue("rows", rows) << BitSerializer::KeyValue("z", z); }
};
template <class TArch, class TIn> static lib::Out loadHolder(Holder& h, TIn&& in, const BitSerializer::SerializationOptions& o) { return lib::guard([&] { BitSerializer::LoadObject<TArch>(h, in, o); }); }

static void typedScenario(bsx::Ctx& c) {
	int arch = c.choose(3, "archive");   // MsgPack, JSON, XML (CSV cannot nest)
	auto offs = offences();
	// document {v:[1,2,3], rows:[{x:1,y:"a"},{x:2,y:"b"}], z:9} with <= 2 offences at the leaf / element positions
	Val doc = Val::map({{Val::str("v"), Val::arr({Val::integer(1), Val::integer(2), Val::integer(3)})},
		{Val::str("rows"), Val::arr({Val::map({{Val::str("x"), Val::integer(1)}, {Val::str("y"), Val::str("a")}}), Val::map({{Val::str("x"), Val::integer(2)}, {Val::str("y"), Val::str("b")}})})}, {Val::str("z"), Val::integer(9)}});
	std::vector<Val*> nodes; collect(doc, nodes);
	std::vector<Val> orig; for (auto* n : nodes) orig.push_back(*n);
	std::string offDesc; std::vector<int> offAt;
	for (size_t i = 0; i < nodes.size(); ++i) {
		if (orig[i].k == Val::Arr && i != 1 && false) continue;
		int k = c.deviate(1 + static_cast<int>(offs.size()), "offence");
		if (!k) continue;
		const auto& of = offs[static_cast<size_t>(k - 1)];
		if (of.second.k == orig[i].k && !(of.first == "bigint")) continue;
		if (arch != tl::MsgPack && (of.second.k == Val::Bin || of.second.k == Val::Ts || of.second.k == Val::Ext)) continue;
		if (arch == tl::Xml && (of.second.k == Val::Nil || ((of.second.k == Val::Arr || of.second.k == Val::Map) && (orig[i].k == Val::Arr || orig[i].k == Val::Map)))) continue;
		if (of.first == "bool" && orig[i].k == Val::Int) continue;   // bool is accepted as 0/1 by integer targets (cross-family, not an offence)
		size_t skip = subtree(orig[i]) - 1;   // descendants disappear with a replaced container
		*nodes[i] = of.second; offDesc += "@" + std::to_string(i) + "=" + of.first + " "; offAt.push_back(static_cast<int>(i));
		i += skip;
	}
	// offences nested inside a replaced container are moot
	if (!tl::canCarry(arch, doc)) { c.outcome("n/a"); return; }
	std::string bytes = tl::emit(arch, doc);
	bool stream = c.flag("stream");
	std::string sigbase = std::string("C05/typed/") + archName(arch) + (stream ? "/stream" : "/mem") + "/offences=" + std::to_string(offAt.size());
	c.describe(sigbase, offDesc + "doc=" + (arch == tl::MsgPack ? bsx::hex(bytes) : bytes));
	Holder h; lib::Out out;
	auto o = lib::opts(false, false);
	auto run = [&](auto tag) { using A = typename decltype(tag)::type; if (stream) { std::istringstream is(bytes); return loadHolder<A>(h, is, o); } return loadHolder<A>(h, bytes, o); };
	struct TMP { using type = tl::MP; }; struct TJS { using type = tl::JS; }; struct TXM { using type = tl::XM; };
	out = arch == tl::MsgPack ? run(TMP{}) : arch == tl::Json ? run(TJS{}) : run(TXM{});
	c.outcome(out.cls); c.nontrivial(sigbase + offDesc);
	if (offAt.size() == 1 && arch == 0 && !stream && offAt[0] == 2) c.sample(sigbase + " " + offDesc + " -> " + out.cls);
	if (!out.ok()) { c.violation(sigbase + "/out=" + out.cls, "Skip/Skip policies, well-formed document, but the load threw " + out.cls + ": " + out.what + " | " + offDesc); return; }
	// expectations: every non-offended leaf holds the document value; containers keep their element count
	auto isOff = [&](int idx) { return std::find(offAt.begin(), offAt.end(), idx) != offAt.end(); };
	// node indices (DFS, root excluded): 0 v, 1 v[0], 2 v[1], 3 v[2], 4 rows, 5 rows[0], 6 rows[0].x, 7 rows[0].y, 8 rows[1], 9 rows[1].x, 10 rows[1].y, 11 z
	std::vector<std::string> bad;
	if (!isOff(0)) {
		if (h.v.size() != 3) bad.push_back("v.size=" + std::to_string(h.v.size()));
		else for (int i = 0; i < 3; ++i) if (!isOff(1 + i) && h.v[static_cast<size_t>(i)] != i + 1) bad.push_back("v[" + std::to_string(i) + "]=" + std::to_string(h.v[static_cast<size_t>(i)]));
	} else if (!h.v.empty()) bad.push_back("v not empty after skipped container");
	if (!isOff(4)) {
		if (h.rows.size() != 2) bad.push_back("rows.size=" + std::to_string(h.rows.size()));
		else for (int r = 0; r < 2; ++r) {
			if (isOff(5 + 3 * r)) continue;
			if (!isOff(6 + 3 * r) && h.rows[static_cast<size_t>(r)].x != r + 1) bad.push_back("rows[" + std::to_string(r) + "].x=" + std::to_string(h.rows[static_cast<size_t>(r)].x));
			if (!isOff(7 + 3 * r) && h.rows[static_cast<size_t>(r)].y != (r ? "b" : "a")) bad.push_back("rows[" + std::to_string(r) + "].y=" + h.rows[static_cast<size_t>(r)].y);
		}
	}
	if (!isOff(11) && h.z != 9) bad.push_back("z=" + std::to_string(h.z));
	if (isOff(11) && h.z != -77) bad.push_back("skipped z changed to " + std::to_string(h.z));
	std::string cls; for (int i : offAt) cls += (i == 0 || i == 4 ? "container" : i == 5 || i == 8 ? "row" : i == 11 ? "field" : i <= 3 ? "elem" : "rowfield") + std::string(",");
	for (auto& m : bad) c.violation(sigbase + "/at=" + cls + "/out=neighbour_disturbed", m + " | " + offDesc + "doc=" + (arch == tl::MsgPack ? bsx::hex(bytes) : bytes));
}

static void body(bsx::Ctx& c) {
	static std::vector<Base> B = bases();
	static auto offs = offences();
	int scen = c.choose(2, "scenario");
	if (scen == 1) { typedScenario(c); return; }
	int arch = c.choose(4, "archive");
	int bi = c.choose(static_cast<int>(B.size()), "base");
	const Base& b = B[static_cast<size_t>(bi)];
	if (b.msgpackOnly && arch != tl::MsgPack) { c.outcome("n/a"); return; }
	// wrap so that a sentinel follows the document under test
	Val root; Node shape;
	if (arch == tl::Csv) {
		if (b.name != "obj3" && b.name != "obj_f64_u8") { c.outcome("n/a"); return; }
		root = Val::arr({b.doc, b.doc}); shape = Node::arr({b.shape, b.shape});
	} else { root = Val::arr({b.doc, Val::integer(42)}); shape = Node::arr({b.shape, Node::mk(I32)}); }
	std::vector<Val*> nodes; collect(root.a[0], nodes, arch == tl::Csv ? true : false);
	if (arch == tl::Csv) { nodes.clear(); for (auto& kv : root.a[0].m) nodes.push_back(&kv.second); }
	std::vector<Val> orig; for (auto* n : nodes) orig.push_back(*n);
	std::string offDesc, offCls; int nOff = 0;
	for (size_t i = 0; i < nodes.size(); ++i) {
		int k = c.deviate(1 + static_cast<int>(offs.size()), "offence");
		if (!k) continue;
		const auto& of = offs[static_cast<size_t>(k - 1)];
		if (of.second.k == orig[i].k && of.first != "bigint" && of.first != "negint") continue;
		if (arch != tl::MsgPack && (of.second.k == Val::Bin || of.second.k == Val::Ts || of.second.k == Val::Ext)) continue;
		if ((arch == tl::Xml || arch == tl::Csv) && of.second.k == Val::Nil) continue;
		if (arch == tl::Csv && (of.second.k == Val::Arr || of.second.k == Val::Map)) continue;
		if (arch == tl::Xml && (of.second.k == Val::Arr || of.second.k == Val::Map) && (orig[i].k == Val::Arr || orig[i].k == Val::Map)) continue;
		size_t skip = arch == tl::Csv ? 0 : subtree(orig[i]) - 1;
		*nodes[i] = of.second; offDesc += "@" + std::to_string(i) + "=" + of.first + " "; offCls += of.first + ">" + (orig[i].k == Val::Arr ? "arr" : orig[i].k == Val::Map ? "obj" : "scalar") + ","; ++nOff;
		i += skip;
	}
	if (!tl::canCarry(arch, root)) { c.outcome("n/a:format_cannot_carry"); return; }
	int pol = c.choose(3, "policy");   // 0 = Skip/Skip, 1 = overflow Skip + mismatch Throw, 2 = overflow Throw + mismatch Skip
	bool ovT = pol == 2, mmT = pol == 1;
	bool stream = c.flag("stream");
	std::string bytes = tl::emit(arch, root);
	std::string sigbase = std::string("C05/") + archName(arch) + (stream ? "/stream" : "/mem") + "/base=" + b.name + "/pol=" + lib::polName(ovT, mmT) + "/off=" + offCls;
	c.describe(sigbase, offDesc + "doc=" + (arch == tl::MsgPack ? bsx::hex(bytes) : bytes));
	Node t = shape; t.canary();
	tl::Source src; src.stream = stream;
	lib::Out out = tl::load(arch, t, bytes, src, lib::opts(ovT, mmT));
	c.outcome(out.cls); if (nOff) c.nontrivial(sigbase + offDesc);
	if (nOff == 1 && bi == 1 && arch == 0 && !stream && pol == 0) c.sample(sigbase + " " + offDesc + "-> " + out.cls + " " + t.dumpLoaded());
	model::Checker ck{ovT, mmT}; ck.textSource = (arch == tl::Xml || arch == tl::Csv);
	ck.walk(&root, t, "", out.ok());
	if (out.ok()) {
		if (ck.mustThrow) ck.complaints.push_back("load returned normally although the policy demands an exception");
		for (auto& m : ck.complaints) c.violation(sigbase + "/out=neighbour_disturbed", m + " | " + offDesc + "loaded=" + t.dumpLoaded() + " doc=" + (arch == tl::MsgPack ? bsx::hex(bytes) : bytes));
	} else {
		bool okThrow = (out.cls == "ser:Overflow" && (ck.throwsAllowed & model::ThrowOverflow)) || (out.cls == "ser:MismatchedTypes" && (ck.throwsAllowed & model::ThrowMismatch));
		if (!okThrow) c.violation(sigbase + "/out=" + out.cls, "unexpected exception " + out.cls + ": " + out.what + " | " + offDesc + "doc=" + (arch == tl::MsgPack ? bsx::hex(bytes) : bytes));
	}
}

int main(int argc, char** argv) {
	bsx::Config cfg; cfg.part_depth = 3; cfg.max_dev = 2;
	bsx::Engine e("C05", body, cfg);
	e.mTierSetup = [](const std::string& tier, bsx::Config& c) { c.max_dev = tier == "thorough" ? 3 : 2; };
	return e.main(argc, argv);
}
