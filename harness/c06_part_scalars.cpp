// C06, part: integers and floating point (scenarios 0-2). See c06_shared.cpp.
#define C06_PART
#include "harness/c06_shared.cpp"

// =============================================================================================
// integers
// =============================================================================================

static const char* intClass(i128 v) {   // one symbol per canonical-format range, split where a signed type of the same width ends
	if (v >= 0) {
		if (v <= 127) return "0..127";
		if (v <= 255) return "128..255";
		if (v <= 32767) return "256..2^15-1";
		if (v <= 65535) return "2^15..2^16-1";
		if (v <= 2147483647ll) return "2^16..2^31-1";
		if (v <= 4294967295ll) return "2^31..2^32-1";
		if (v < P63) return "2^32..2^63-1";
		return "2^63..2^64-1";
	}
	if (v >= -32) return "-32..-1";
	if (v >= -128) return "-128..-33";
	if (v >= -32768) return "-2^15..-129";
	if (v >= -2147483648ll) return "-2^31..-2^15-1";
	return "-2^63..-2^31-1";
}
// narrowest encoding inside the signed family (fixint, d0..d3): used only to name the cause of a longer-than-needed output
static std::string signedFamily(i128 v) {
	std::string o; int64_t x = static_cast<int64_t>(v);
	if (v >= -32 && v <= 127) o.push_back(static_cast<char>(x & 0xff));
	else if (v >= -128 && v <= 127) { o.push_back(static_cast<char>(0xd0)); ref::mp::putbe(o, static_cast<uint64_t>(x), 1); }
	else if (v >= -32768 && v <= 32767) { o.push_back(static_cast<char>(0xd1)); ref::mp::putbe(o, static_cast<uint64_t>(x), 2); }
	else if (v >= -2147483648ll && v <= 2147483647ll) { o.push_back(static_cast<char>(0xd2)); ref::mp::putbe(o, static_cast<uint64_t>(x), 4); }
	else { o.push_back(static_cast<char>(0xd3)); ref::mp::putbe(o, static_cast<uint64_t>(x), 8); }
	return o;
}

template <class T> struct IntName;
#define INTNAME(T) template <> struct IntName<T> { static const char* n() { return #T; } };
INTNAME(char) INTNAME(int8_t) INTNAME(uint8_t) INTNAME(int16_t) INTNAME(uint16_t) INTNAME(int32_t) INTNAME(uint32_t) INTNAME(int64_t) INTNAME(uint64_t)
constexpr int NIntTypes = 9;
template <class F> static void withIntType(int ti, F&& f) {
	switch (ti) {
	case 0: f(char{}); break; case 1: f(int8_t{}); break; case 2: f(uint8_t{}); break; case 3: f(int16_t{}); break; case 4: f(uint16_t{}); break;
	case 5: f(int32_t{}); break; case 6: f(uint32_t{}); break; case 7: f(int64_t{}); break; default: f(uint64_t{}); break;
	}
}
template <class T> static bool fits(i128 v) { return v >= static_cast<i128>(std::numeric_limits<T>::min()) && v <= static_cast<i128>(std::numeric_limits<T>::max()); }

template <class T> static void intCase(bsx::Ctx& c, i128 v, int pos, const BS::SerializationOptions& o) {
	T t = static_cast<T>(v);
	Saved s = saveAt(pos, t, o);
	Val exp = wrapVal(pos, Val::integer(v));
	judge(c, s, &exp, false,
		[&] { return std::string(pos == Key ? "C06/key/ktype=" : "C06/int/type=") + IntName<T>::n() + "/class=" + intClass(v) + "/pos=" + POSN[pos]; },
		[&](const std::string& b) { return (std::is_signed_v<T> && v >= 0 && b == wrapBytes(pos, signedFamily(v))) ? std::string("/cause=signed_format_for_nonnegative") : std::string(); });
}

static std::vector<i128> thresholdInts(int radius) {
	std::vector<i128> r;
	static const int ks[] = {5, 7, 8, 15, 16, 31, 32, 63, 64};
	for (int k : ks) for (int d = -radius; d <= radius; ++d) { i128 p = static_cast<i128>(1) << k; r.push_back(p + d); r.push_back(-p + d); }
	for (int d = -radius; d <= radius; ++d) r.push_back(d);
	std::vector<i128> ok;
	for (i128 v : r) if (v >= -P63 && v < P64) ok.push_back(v);
	std::sort(ok.begin(), ok.end()); ok.erase(std::unique(ok.begin(), ok.end()), ok.end());
	return ok;
}

// =============================================================================================
// floating point
// =============================================================================================
static std::vector<uint64_t> mantissas(int bits, bool thorough) {
	uint64_t all = (static_cast<uint64_t>(1) << bits) - 1, msb = static_cast<uint64_t>(1) << (bits - 1);
	std::vector<uint64_t> m = {0, 1, all, msb};
	if (thorough) { for (int i = 1; i < bits - 1; ++i) m.push_back(static_cast<uint64_t>(1) << i); m.push_back(msb | 1); m.push_back(msb - 1); m.push_back(0x5555555555555555ull & all); m.push_back(0xAAAAAAAAAAAAAAAAull & all); }
	return m;
}
static const char* fltClass(unsigned exp, unsigned expMax, uint64_t mant) {
	if (exp == 0) return mant ? "subnormal" : "zero";
	if (exp == expMax) return mant ? "nan" : "inf";
	return "normal";
}


void c06_scalars(bsx::Ctx& c, int scen, bool thorough) {
	switch (scen) {
	case 0: {   // every 8/16-bit value through every integer type that holds it, 4 positions
		int ti = c.choose(NIntTypes, "type");
		int blk = c.choose(384, "block");   // -32768..65535 in blocks of 256
		int pos = c.choose(NPos, "position");
		withIntType(ti, [&](auto tag) {
			using T = decltype(tag);
			std::string sigbase = std::string("C06/int/type=") + IntName<T>::n() + "/sweep16/pos=" + POSN[pos];
			c.describe(sigbase, "block " + std::to_string(blk) + ": values " + std::to_string(-32768 + blk * 256) + ".." + std::to_string(-32768 + blk * 256 + 255));
			auto o = lib::opts(true, true); uint64_t n = 0;
			for (int k = 0; k < 256; ++k) { i128 v = -32768 + blk * 256 + k; if (!fits<T>(v)) continue; intCase<T>(c, v, pos, o); ++n; c.nontrivial(std::string(IntName<T>::n()) + intClass(v) + POSN[pos]); }
			if (n) c.evals(n - 1); else c.outcome("n/a:not_representable");
			if (ti == 3 && blk == 128 && pos == 0) c.sample("int16_t 0..255 at root: e.g. 200 -> " + [&] { int16_t x = 200; return bsx::hex(saveAt(pos, x, o).mem); }());
			c.heartbeat();
		});
		break;
	}
	case 1: {   // 32/64-bit thresholds +-2 (thorough: +-4096) and limits through every type
		static std::vector<i128> VQ = thresholdInts(2), VT = thresholdInts(4096);
		const auto& V = thorough ? VT : VQ;
		int ti = c.choose(NIntTypes, "type");
		int blk = c.choose(static_cast<int>((V.size() + 63) / 64), "block");
		int pos = c.choose(NPos, "position");
		withIntType(ti, [&](auto tag) {
			using T = decltype(tag);
			std::string sigbase = std::string("C06/int/type=") + IntName<T>::n() + "/thresholds/pos=" + POSN[pos];
			c.describe(sigbase, "block " + std::to_string(blk));
			auto o = lib::opts(true, true); uint64_t n = 0;
			for (size_t k = static_cast<size_t>(blk) * 64; k < std::min(V.size(), static_cast<size_t>(blk + 1) * 64); ++k) { if (!fits<T>(V[k])) continue; intCase<T>(c, V[k], pos, o); ++n; c.nontrivial(std::string(IntName<T>::n()) + intClass(V[k]) + POSN[pos]); }
			i128 lim[2] = {static_cast<i128>(std::numeric_limits<T>::min()), static_cast<i128>(std::numeric_limits<T>::max())};
			if (blk == 0) for (i128 l : lim) for (int d = 0; d <= 2; ++d) { i128 v = l < 0 ? l + d : l == 0 ? d : l - d; intCase<T>(c, v, pos, o); ++n; }
			if (n) c.evals(n - 1); else c.outcome("n/a:not_representable");
		});
		break;
	}
	case 2: {   // float / double bit-pattern lattice
		int isD = c.choose(2, "width");
		int nexp = isD ? 2048 : 256;
		int eb = c.choose(nexp / 32, "exponent_block");
		int pos = c.choose(NPos, "position");
		auto mants = mantissas(isD ? 52 : 23, thorough);
		std::string sigbase = std::string("C06/float/type=") + (isD ? "double" : "float") + "/pos=" + POSN[pos];
		c.describe(sigbase, "exponents " + std::to_string(eb * 32) + "..+31");
		auto o = lib::opts(true, true); uint64_t n = 0;
		for (int e = eb * 32; e < eb * 32 + 32; ++e) for (uint64_t m : mants) for (int sg = 0; sg < 2; ++sg) {
			const char* cls = fltClass(static_cast<unsigned>(e), static_cast<unsigned>(nexp - 1), m);
			auto sig = [&] { return std::string("C06/float/type=") + (isD ? "double" : "float") + "/class=" + cls + "/pos=" + POSN[pos]; };
			if (isD) {
				uint64_t bits = (static_cast<uint64_t>(sg) << 63) | (static_cast<uint64_t>(e) << 52) | m; double d; std::memcpy(&d, &bits, 8);
				Saved s = saveAt(pos, d, o); Val exp = wrapVal(pos, Val::f64bits(bits)); judge(c, s, &exp, false, sig, noCause);
			} else {
				uint32_t bits = (static_cast<uint32_t>(sg) << 31) | (static_cast<uint32_t>(e) << 23) | static_cast<uint32_t>(m); float f; std::memcpy(&f, &bits, 4);
				Saved s = saveAt(pos, f, o); Val exp = wrapVal(pos, Val::f32bits(bits)); judge(c, s, &exp, false, sig, noCause);
			}
			++n; c.nontrivial(sig());
		}
		c.evals(n - 1);
		break;
	}
	}
}
